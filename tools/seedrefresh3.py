#!/usr/bin/env python3
"""usage: seedrefresh3.py <checker-binary> <desc.py>   Re-evaluates every round-3 seed (meta.json round == 3) at /repo HEAD
with the given binary, updates detected/reported in meta.json and fills detected_by from the description table."""
import sys, os, subprocess, json, shutil, re, glob
binp = sys.argv[1]
ns = {"DESC": {}, "DET": {}}
for descp in sys.argv[2:]:
    one = {}; exec(open(descp).read(), one)
    ns["DESC"].update(one.get("DESC", {})); ns["DET"].update(one.get("DET", {}))
env = dict(os.environ, GOFLAGS="-mod=mod", GOPROXY="off", GOSUMDB="off", GOTOOLCHAIN="local"); env.pop("GOWORK", None)
wt = f"/tmp/wt-refresh3-{os.getpid()}"; sv = f"/tmp/refresh3-verif-{os.getpid()}"
subprocess.run(["git","-C","/repo","worktree","add","-q","--detach",wt,"HEAD"],check=True)
os.makedirs(sv+"/evidence",exist_ok=True); shutil.copy("/verif/known_findings.json",sv)
try:
    for mp in sorted(glob.glob("/verif/seeded/*/meta.json")):
        meta = json.load(open(mp))
        if meta.get("round") not in (3, 4): continue
        sid = os.path.basename(os.path.dirname(mp))
        subprocess.run(["git","-C",wt,"checkout","-q","--","."]); subprocess.run(["git","-C",wt,"clean","-fdq"])
        if subprocess.run(["git","-C",wt,"apply",os.path.dirname(mp)+"/patch.diff"]).returncode != 0:
            print("NOAPPLY", sid); continue
        r = subprocess.run([binp,"-property",meta["property"],"-tier","quick","-repo",wt,"-verif",sv],capture_output=True,text=True,env=env)
        viol = re.findall(r"rule=(\S+) construct=(\S+)", r.stdout)
        meta["detected"] = r.returncode == 1
        meta["reported"] = [{"rule": a, "construct": b} for a, b in viol][:6]
        if meta["detected"]: meta["cross_detected_by_before_sharing"] = meta.pop("cross_detected_by", meta.get("cross_detected_by_before_sharing", []))
        meta["detected_by"] = ns["DET"].get(sid, "")
        meta["change"] = ns["DESC"].get(sid, "")
        json.dump(meta, open(mp,"w"), indent=1)
        print(sid, "blind=", meta["detected_blind"], "after=", meta["detected"])
finally:
    subprocess.run(["git","-C","/repo","worktree","remove","--force",wt]); shutil.rmtree(sv,ignore_errors=True)
