#!/usr/bin/env python3
"""Regenerates MANIFEST.json from the table below (kept in one place so the
manifest stays valid while checks are added)."""
import json, os

HERE = os.path.dirname(os.path.abspath(__file__))

# property id -> (claimed?, text, note, technique, design_ref)   -- or NA reason
CLAIMED = {
 "C01": dict(
  text="Structural necessary conditions of crash durability decided on every control-flow path of the anchored functions: fsync-before-acknowledge in the WAL, snapshot/compaction commit ordering (sync < rename < remove-old < dir-sync; WAL segments and cache snapshot released only after FileStore.Replace returned nil), tombstone commit order, recovery order in Engine.Open, the WAL-tail typestate (append-mode reopen), and a frozen who-may-destroy table for shard files. A crash point is a position on a path, so an ordering that holds on all paths holds at every crash point; values replayed are not decided.",
  note="Does not decide: that replay reproduces exactly the written values, torn-tail arithmetic, file-system semantics of fsync/rename. Trusts go/types resolution and the go/cfg graph; function anchors are resolved by name.",
  technique="static analysis: must-precede / error-outcome dataflow over go/cfg + typed AST, who-may-call table",
  ref="§4 C01"),
}

NA = {
}

PENDING_REASON = "no sound static rule has been built for this property yet in this session (checker under construction); not claimed"

def main():
    props = [json.loads(l)["id"] for l in open(os.path.join(HERE, "properties.jsonl"))]
    checks = []
    na = []
    for pid in props:
        if pid in CLAIMED:
            c = CLAIMED[pid]
            checks.append({
                "property_id": pid,
                "quick_cmd": f"./check.sh {pid} quick",
                "thorough_cmd": f"./check.sh {pid} thorough",
                "evidence_file": f"/verif/evidence/{pid}.json",
                "replay_cmd_template": "./bin/verifcheck -explain {path}",
                "engine": "verifcheck",
                "level_claimed": {"category": "other", "text": c["text"], "design_ref": c["ref"]},
                "level_note": c["note"],
                "technique": c["technique"],
            })
        else:
            na.append({"property_id": pid, "reason": NA.get(pid, PENDING_REASON)})
    m = {
        "version": 1,
        "setup_cmd": "cd /verif && export GOFLAGS=-mod=mod GOPROXY=off GOSUMDB=off GOTOOLCHAIN=local && (cd checker && go build -o ../bin/verifcheck .) && (cd /repo && go build ./coordinator/... ./services/... ./tsdb/... ./models/... ./query/... ./tcp/... ./pkg/... ./cmd/...)",
        "hooks": {
            "guard": "verif",
            "enable": "none needed: the checks are static and read /repo's working tree; no instrumentation is compiled in",
            "baseline_off_cmd": "cd /repo && export GOFLAGS=-mod=mod && go test -vet=off -count=1 -timeout 25m ./...",
            "source_commits": [],
            "add_only": True,
        },
        "engines": [{
            "name": "verifcheck",
            "path": "/verif/checker",
            "serves_properties": [c["property_id"] for c in checks],
            "kind_free_text": "repository-specific static analyser (go/packages + go/types + go/cfg): branch-sensitive nil/outcome dataflow, must-precede and no-path rules, path enumeration, who-may-call/who-may-write tables, table agreement",
        }],
        "checks": checks,
        "not_applicable": na,
        "notes": "All claims are at level 'other': named structural clauses of each property decided from source on every run; see DESIGN.md section 4 for what is and is not decided per property. known_findings.json lists fixed defects and recorded findings.",
    }
    json.dump(m, open(os.path.join(HERE, "MANIFEST.json"), "w"), indent=1)
    print("claimed", len(checks), "not_applicable", len(na))

if __name__ == "__main__":
    main()
