#!/bin/bash
# usage: seedcheck.sh <seed-dir> <property> [extra test pkgs...]
# Validates a seeded change in a scratch worktree at /repo HEAD (demo passes without, fails with;
# existing tests of the touched packages pass with), then runs the property's quick check against it in /repo.
set -u
SD=$1; PROP=$2; shift 2
export GOFLAGS=-mod=mod GOPROXY=off GOSUMDB=off GOTOOLCHAIN=local; unset GOWORK
WT=/tmp/wt-seedcheck-$$; L=/tmp/seedchk-$$
BASE=${SEED_BASE:-HEAD}; BIN=${SEED_BIN:-/verif/bin/verifcheck}
git -C /repo worktree remove --force $WT >/dev/null 2>&1
git -C /repo worktree add -q --detach $WT $BASE || exit 2
trap 'git -C /repo worktree remove --force $WT >/dev/null 2>&1; rm -f $L-*.log' EXIT
DEMO=$(ls $SD/*_test.go | head -1)
PKG=$(head -3 $DEMO | grep -o 'Copy into:\? *[^ ]*' | head -1 | sed 's/Copy into:\? *//'); PKG=${PKG%/}
# fallback: the package directory of the go test command quoted in the header (… ./tsdb/)
[ -z "$PKG" ] && PKG=$(head -4 $DEMO | grep -o "go test.* \./[A-Za-z0-9_/]*" | head -1 | grep -o "\./[A-Za-z0-9_/]*$" | sed 's#^\./##'); PKG=${PKG%/}
RUN=$(grep -o "\-run '[^']*'" $DEMO | head -1 | sed "s/-run '//; s/'//")
[ -z "$RUN" ] && RUN=$(grep -o '^func Test[A-Za-z0-9_]*' $DEMO | head -1 | sed 's/func //')
echo "seed=$SD pkg=$PKG run=$RUN"
if ! git -C $WT apply --check $SD/patch.diff 2>/dev/null; then echo "RESULT patch-does-not-apply-at-HEAD"; exit 3; fi
cp $DEMO $WT/$PKG/zz_seed_demo_test.go
for attempt in 1 2 3 4; do
( cd $WT && go test -vet=off -count=1 -run "$RUN" ./$PKG/ >$L-a.log 2>&1 ); A=$?
grep -q "address already in use" $L-a.log || break
sleep 15
done
git -C $WT apply $SD/patch.diff
( cd $WT && go test -vet=off -count=1 -run "$RUN" ./$PKG/ >$L-b.log 2>&1 ); B=$?
rm $WT/$PKG/zz_seed_demo_test.go
TOUCHED=$(git -C $WT diff --name-only | xargs -n1 dirname | sort -u | sed 's#^#./#; s#$#/#')
for attempt in 1 2 3 4; do
( cd $WT && go build ./... >$L-c.log 2>&1 && go test -vet=off -count=1 $TOUCHED "$@" >>$L-c.log 2>&1 ); C=$?
grep -q "address already in use" $L-c.log || break
sleep 20
done
echo "demo-without-patch-exit=$A (want 0) demo-with-patch-exit=$B (want !=0) existing-tests-with-patch-exit=$C (want 0)"
[ $C -ne 0 ] && tail -20 $L-c.log
# run the check against the change: in /repo (default), or with SEED_NOREPO=1 against the scratch worktree with a
# scratch evidence directory so that a background batch never touches /repo or /verif/evidence
if [ "${SEED_NOREPO:-0}" = 1 ]; then
  SV=/tmp/seedverif-$$; mkdir -p $SV/evidence $SV/bin; cp /verif/known_findings.json $SV/; cp $BIN $SV/bin/verifcheck
  ( cd $SV && ./bin/verifcheck -property $PROP -tier quick -repo $WT -verif $SV > $L-check.log 2>&1 ); D=$?
  rm -rf $SV
else
git -C /repo apply $SD/patch.diff || { echo "cannot apply to /repo"; exit 3; }
( cd /verif && ./check.sh $PROP quick > $L-check.log 2>&1 ); D=$?
git -C /repo checkout -- .
fi
grep -E "^  rule=|VIOLATION|KNOWN" $L-check.log | grep -v KNOWN | head -8
echo "RESULT valid=$([ $A -eq 0 ] && [ $B -ne 0 ] && [ $C -eq 0 ] && echo yes || echo no) detected=$([ $D -eq 1 ] && echo yes || echo no) check-exit=$D"
