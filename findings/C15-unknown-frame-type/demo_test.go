// Demonstration for fix db963fc (C15): copy into coordinator/ (package coordinator_test) and run
//   go test -vet=off -count=1 -run TestDemoUnknownFrameTypeIsNotSkippedByteWise ./coordinator/
// Fails on db963fc^ (the payload of the unknown frame is executed as a shard write), passes on db963fc.
package coordinator_test

import (
	"bytes"
	"encoding/binary"
	"net"
	"sync/atomic"
	"testing"
	"time"

	"github.com/influxdata/influxdb/coordinator"
	"github.com/influxdata/influxdb/models"
)

// A frame of a type this node does not know (a newer peer, a corrupted byte) is followed by its length and payload. The
// dispatcher must not go on reading message types from the middle of that frame: here the payload of the unknown
// frame is itself a well-formed WriteShard frame, and it must not be executed.
func TestDemoUnknownFrameTypeIsNotSkippedByteWise(t *testing.T) {
	var writes int32
	ts := newTestWriteService(func(shardID uint64, points []models.Point) error {
		atomic.AddInt32(&writes, 1)
		return nil
	})
	s := coordinator.NewService(coordinator.Config{})
	s.Listener = ts.muxln
	s.DefaultListener = ts.defln
	s.MetaClient = &metaClient{addr: ts.ln.Addr().String()}
	s.TSDBStore = &ts.TSDBStore
	s.Server = &server{}
	if err := s.Open(); err != nil {
		t.Fatal(err)
	}
	defer s.Close()
	defer ts.Close()

	var req coordinator.WriteShardRequest
	req.SetShardID(7)
	req.AddPoint("cpu", 1.0, time.Unix(1, 0), nil)
	body, err := req.MarshalBinary()
	if err != nil {
		t.Fatal(err)
	}
	var inner bytes.Buffer
	inner.WriteByte(1) // writeShardRequestMessage
	binary.Write(&inner, binary.BigEndian, int64(len(body)))
	inner.Write(body)

	var frame bytes.Buffer
	frame.WriteByte(coordinator.MuxHeader)
	frame.WriteByte(200) // no such message type
	frame.Write(inner.Bytes())

	conn, err := net.Dial("tcp", ts.ln.Addr().String())
	if err != nil {
		t.Fatal(err)
	}
	defer conn.Close()
	if _, err := conn.Write(frame.Bytes()); err != nil {
		t.Fatal(err)
	}
	time.Sleep(500 * time.Millisecond)
	if n := atomic.LoadInt32(&writes); n != 0 {
		t.Fatalf("the bytes that followed a frame of unknown type were executed as a request (%d shard write)", n)
	}
}
