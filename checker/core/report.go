package core

import (
	"encoding/json"
	"fmt"
	"os"
	"path/filepath"
	"regexp"
	"sort"
	"strings"
)

// Obligation is one rule instance decided on this run.
type Obligation struct {
	Key       string `json:"key"` // clause/rule/construct[#k] – never contains a line number
	Clause    string `json:"clause"`
	Rule      string `json:"rule"`
	Construct string `json:"construct"`
	Pos       string `json:"pos"`
	OK        bool   `json:"ok"`
	Detail    string `json:"detail,omitempty"`
	Undecided bool   `json:"undecided,omitempty"`
}

// Ctx is handed to a property's rule file.
type Ctx struct {
	P        *Prog
	Property string
	Tier     string
	Obs      []*Obligation
	Counts   map[string]int
	Notes    []string
	clause   string
	keys     map[string]int
	Full     func() *Prog // lazily loads all repository packages (thorough / who-may-call rules)
}

type anchorPanic struct{ msg string }

// Clause runs one decided clause; a missing anchor or a panic inside makes the
// clause undecided, which is reported as a violation (fail closed).
func (c *Ctx) Clause(name string, f func()) {
	c.clause = name
	defer func() {
		if r := recover(); r != nil {
			msg := ""
			switch x := r.(type) {
			case anchorPanic:
				msg = "anchor unresolved: " + x.msg
			default:
				msg = fmt.Sprintf("rule panicked: %v", r)
			}
			c.Obs = append(c.Obs, &Obligation{Key: name + "/undecided/" + sanitize(msg), Clause: name, Rule: "undecided",
				Construct: msg, OK: false, Undecided: true, Detail: msg})
		}
		c.clause = ""
	}()
	f()
}

func sanitize(s string) string {
	s = regexp.MustCompile(`[^A-Za-z0-9_.()*$/-]+`).ReplaceAllString(s, "_")
	if len(s) > 100 {
		s = s[:100]
	}
	return s
}

// Fn resolves a function anchor or aborts the clause.
func (c *Ctx) Fn(name string) *FuncInfo {
	f := c.P.Fn(name)
	if f == nil {
		panic(anchorPanic{"function " + name})
	}
	c.Counts["functions_analysed"]++
	return f
}

// Lit resolves the k-th (1-based) function literal directly nested in fn, or aborts.
func (c *Ctx) Lit(f *FuncInfo, k int) *FuncInfo {
	if k < 1 || k > len(f.Lits) {
		panic(anchorPanic{fmt.Sprintf("literal #%d of %s", k, f.Name)})
	}
	c.Counts["functions_analysed"]++
	return f.Lits[k-1]
}

// Need aborts the clause when an anchor is missing.
func (c *Ctx) Need(ok bool, what string) {
	if !ok {
		panic(anchorPanic{what})
	}
}

// Check records an obligation. construct must identify the site without line numbers.
func (c *Ctx) Check(rule, construct, pos string, ok bool, detail string) *Obligation {
	key := c.clause + "/" + rule + "/" + construct
	if c.keys == nil {
		c.keys = map[string]int{}
	}
	c.keys[key]++
	if n := c.keys[key]; n > 1 {
		key = fmt.Sprintf("%s#%d", key, n)
	}
	o := &Obligation{Key: key, Clause: c.clause, Rule: rule, Construct: construct, Pos: pos, OK: ok}
	if !ok || detail != "" {
		o.Detail = detail
	}
	c.Obs = append(c.Obs, o)
	return o
}

// Floor checks that a rule found at least min instances (never pass vacuously).
func (c *Ctx) Floor(what string, n, min int) {
	c.Counts["floor:"+c.clause+":"+what] = n
	if n < min {
		c.Obs = append(c.Obs, &Obligation{Key: c.clause + "/floor/" + what, Clause: c.clause, Rule: "floor", Construct: what,
			OK: false, Undecided: true, Detail: fmt.Sprintf("instance count %d below confirmed floor %d: the rule no longer finds the sites it was armed on", n, min)})
	} else {
		c.Obs = append(c.Obs, &Obligation{Key: c.clause + "/floor/" + what, Clause: c.clause, Rule: "floor", Construct: what,
			OK: true, Detail: fmt.Sprintf("%d >= %d", n, min)})
	}
}

// Note adds a free-text line to the evidence.
func (c *Ctx) Note(format string, a ...interface{}) { c.Notes = append(c.Notes, fmt.Sprintf(format, a...)) }

// Known findings ------------------------------------------------------------

type KnownFinding struct {
	Property string `json:"property"`
	Key      string `json:"key"`
	What     string `json:"what"`
}
type FixedRecord struct {
	Property string `json:"property"`
	Commit   string `json:"commit"`
	What     string `json:"what"`
}
type KnownFile struct {
	Findings []KnownFinding `json:"findings"`
	Fixed    []FixedRecord  `json:"fixed"`
}

func LoadKnown(path string) (*KnownFile, error) {
	b, err := os.ReadFile(path)
	if err != nil {
		if os.IsNotExist(err) {
			return &KnownFile{}, nil
		}
		return nil, err
	}
	k := &KnownFile{}
	if err := json.Unmarshal(b, k); err != nil {
		return nil, err
	}
	return k, nil
}

// Evidence --------------------------------------------------------------------

type PropertyMeta struct {
	ID          string
	Explanation string   // what is decided, what is not
	RuleText    string   // how obligations are enumerated
	Assumptions []string // trusted base
}

// Finish writes evidence + replay files, prints the verdict lines and returns the exit code.
func Finish(c *Ctx, meta PropertyMeta, verifDir string, wall float64, seed int) int {
	known, err := LoadKnown(filepath.Join(verifDir, "known_findings.json"))
	if err != nil {
		fmt.Printf("cannot read known_findings.json: %v\n", err)
		known = &KnownFile{}
	}
	knownSet := map[string]string{}
	for _, k := range known.Findings {
		if k.Property == c.Property {
			knownSet[k.Key] = k.What
		}
	}
	sort.SliceStable(c.Obs, func(i, j int) bool { return c.Obs[i].Key < c.Obs[j].Key })
	var viol, knownHit []*Obligation
	discharged := 0
	for _, o := range c.Obs {
		if o.OK {
			discharged++
			continue
		}
		if _, ok := knownSet[o.Key]; ok && !o.Undecided {
			knownHit = append(knownHit, o)
			continue
		}
		viol = append(viol, o)
	}
	replayDir := filepath.Join(verifDir, "evidence", "replay")
	os.MkdirAll(replayDir, 0o755)
	// remove stale replay files of this property
	if ents, err := os.ReadDir(replayDir); err == nil {
		for _, e := range ents {
			if strings.HasPrefix(e.Name(), c.Property+"-") {
				os.Remove(filepath.Join(replayDir, e.Name()))
			}
		}
	}
	for _, o := range knownHit {
		fmt.Printf("KNOWN-FINDING: property=%s %s [%s @%s]\n", c.Property, knownSet[o.Key], o.Key, o.Pos)
	}
	for i, o := range viol {
		rp := filepath.Join(replayDir, fmt.Sprintf("%s-%02d.json", c.Property, i+1))
		b, _ := json.MarshalIndent(map[string]interface{}{"property": c.Property, "tier": c.Tier, "obligation": o}, "", " ")
		os.WriteFile(rp, b, 0o644)
		fmt.Printf("  rule=%s construct=%s at %s: %s\n", o.Rule, o.Construct, o.Pos, o.Detail)
		fmt.Printf("VIOLATION property=%s replay=%s\n", c.Property, rp)
	}
	// samples: a few discharged, all failing
	var samples []interface{}
	perClause := map[string]int{}
	for _, o := range c.Obs {
		if !o.OK || perClause[o.Clause] < 3 {
			if o.OK {
				perClause[o.Clause]++
			}
			samples = append(samples, o)
		}
	}
	clauses := map[string][2]int{}
	for _, o := range c.Obs {
		v := clauses[o.Clause]
		v[0]++
		if o.OK {
			v[1]++
		}
		clauses[o.Clause] = v
	}
	clauseSummary := map[string]string{}
	for k, v := range clauses {
		clauseSummary[k] = fmt.Sprintf("%d/%d discharged", v[1], v[0])
	}
	var kf []string
	for _, o := range knownHit {
		kf = append(kf, o.Key)
	}
	pk := []string{}
	for _, p := range c.P.Pkgs {
		pk = append(pk, Rel(p.PkgPath))
	}
	cov := map[string]interface{}{
		"explanation":         meta.Explanation,
		"rule":                meta.RuleText,
		"obligations":         len(c.Obs),
		"discharged":          discharged,
		"evaluations":         len(c.Obs),
		"distinct_nontrivial": len(c.keysDistinct()),
		"samples":             samples,
		"clauses":             clauseSummary,
		"counts":              c.Counts,
		"packages":            pk,
		"functions_loaded":    len(c.P.AllFuncs()),
		"known_findings_hit":  kf,
		"notes":               c.Notes,
		"checker_cmd":         fmt.Sprintf("bin/verifcheck -property %s -tier %s", c.Property, c.Tier),
		"exhaustive":          true,
	}
	ev := map[string]interface{}{
		"property_id": c.Property,
		"tier":        c.Tier,
		"seed":        seed,
		"level":       "other",
		"coverage":    cov,
		"assumptions": meta.Assumptions,
		"wall_s":      wall,
		"violations":  len(viol),
	}
	b, _ := json.MarshalIndent(ev, "", " ")
	evp := filepath.Join(verifDir, "evidence", c.Property+".json")
	if err := os.WriteFile(evp, b, 0o644); err != nil {
		fmt.Printf("cannot write evidence: %v\n", err)
		return 2
	}
	fmt.Printf("%s tier=%s obligations=%d discharged=%d known_findings=%d violations=%d wall=%.1fs\n",
		c.Property, c.Tier, len(c.Obs), discharged, len(knownHit), len(viol), wall)
	if len(viol) > 0 {
		return 1
	}
	return 0
}

func (c *Ctx) keysDistinct() map[string]bool {
	m := map[string]bool{}
	for _, o := range c.Obs {
		if o.Rule != "floor" {
			m[o.Key] = true
		}
	}
	return m
}
