package props

import (
	"fmt"
	"go/ast"
	"go/constant"
	"go/token"
	"go/types"
	"strings"

	"verifcheck/core"
)

// ---- D2: the reader's valid-byte count ----------------------------------------------------------

func isFieldOf(info *types.Info, x ast.Expr, field *types.Var) bool {
	se, ok := ast.Unparen(x).(*ast.SelectorExpr)
	return ok && info.Uses[se.Sel] == field
}

func runWALReaderPrefix(c *core.Ctx) {
	next := c.Fn(tsm1 + ".(*WALSegmentReader).Next")
	reset := c.Fn(tsm1 + ".(*WALSegmentReader).Reset")
	nField := c.P.LookupField(tsm1, "WALSegmentReader", "n")
	c.Need(nField != nil, "field WALSegmentReader.n")
	info := next.Info()
	// the count updates
	upd := findOrAbort(c, next, "update of the valid-byte count", func(e *core.Event) bool {
		as, ok := e.Node.(*ast.AssignStmt)
		if !ok || e.Kind != core.EvAssign {
			return false
		}
		for _, l := range as.Lhs {
			if isFieldOf(info, l, nField) {
				return true
			}
		}
		return false
	}, 1)
	// the calls whose success the count depends on
	var needed []*core.Event
	for _, e := range next.Graph().Events {
		if e.Kind != core.EvCall {
			continue
		}
		fn, ok := e.Callee.(*types.Func)
		if !ok || fn.Pkg() == nil {
			continue
		}
		switch {
		case fn.Pkg().Path() == "io" && fn.Name() == "ReadFull",
			strings.HasSuffix(fn.Pkg().Path(), "/snappy") && fn.Name() == "Decode",
			fn.Name() == "UnmarshalBinary":
			needed = append(needed, e)
		}
	}
	c.Floor("reads/decodes an entry consists of", len(needed), 4)
	fl := next.Flow()
	for i, u := range upd {
		for _, nd := range needed {
			call := nd.Call
			ok := fl.CallOKAt(u, func(x *ast.CallExpr) bool { return x == call })
			c.Check("count-advances-only-after-success", fmt.Sprintf("%s/update#%d/%s", next.Name, i+1, core.CalleeName(nd)), c.P.Pos(u.Pos()), ok,
				fmt.Sprintf("the valid-byte count is advanced on a path where %s has not been established to have succeeded: after a torn tail the segment would be truncated behind bytes that are not a complete entry", core.CalleeName(nd)))
		}
	}
	// who may write the count
	_, writers := core.FieldAccesses(c.P.FuncsIn(tsm1), nField)
	for _, w := range writers {
		ok := w == next || w == reset || strings.HasSuffix(w.Name, ".NewWALSegmentReader")
		c.Check("who-may-write-count", w.Name, w.PosStr(), ok, "only Next (after a complete entry) and Reset may write WALSegmentReader.n")
	}
	c.Floor("writers of the count", len(writers), 2)
	// Reset restores every field
	st, _ := c.P.LookupType(tsm1, "WALSegmentReader").Underlying().(*types.Struct)
	c.Need(st != nil, "struct WALSegmentReader")
	rinfo := reset.Info()
	for i := 0; i < st.NumFields(); i++ {
		fld := st.Field(i)
		_, w := reset.AccessesField(fld)
		viaReset := false
		zeroOK := true
		ast.Inspect(reset.Body, func(n ast.Node) bool {
			switch x := n.(type) {
			case *ast.CallExpr:
				if se, ok := x.Fun.(*ast.SelectorExpr); ok && se.Sel.Name == "Reset" && isFieldOf(rinfo, se.X, fld) {
					viaReset = true
				}
			case *ast.AssignStmt:
				for k, l := range x.Lhs {
					if !isFieldOf(rinfo, l, fld) || len(x.Rhs) != len(x.Lhs) {
						continue
					}
					r := x.Rhs[k]
					tv := rinfo.Types[r]
					isZero := tv.IsNil() || tv.Value != nil && (tv.Value.Kind() == constant.Int && constant.Sign(tv.Value) == 0)
					isParam := false
					if id, ok := ast.Unparen(r).(*ast.Ident); ok {
						if v, ok := rinfo.ObjectOf(id).(*types.Var); ok {
							for _, p := range reset.Type.Params.List {
								for _, pn := range p.Names {
									if rinfo.Defs[pn] == v {
										isParam = true
									}
								}
							}
						}
					}
					if x.Tok != token.ASSIGN || !(isZero || isParam) {
						zeroOK = false
					}
				}
			}
			return true
		})
		good := (w || viaReset) && zeroOK
		c.Check("reset-restores-every-field", reset.Name+"/"+fld.Name(), reset.PosStr(), good,
			fmt.Sprintf("Reset does not restore field %s to its initial value (zero, or the new source): a reader reused for the next segment carries %s over, so Count()/Error()/Read() describe the previous segment", fld.Name(), fld.Name()))
	}
	// typed decoder errors surface from DecodeBlock
	db := c.Fn(tsm1 + ".DecodeBlock")
	dinfo := db.Info()
	errPropagated(c, db, "typed-decode-error-surfaces", "Decode<T>Block", func(ce *ast.CallExpr) bool {
		fn, ok := core.Callee(dinfo, ce).(*types.Func)
		return ok && strings.HasPrefix(fn.Name(), "Decode") && strings.HasSuffix(fn.Name(), "Block") && typeNameIn(fn.Name()) != ""
	})
}

// ---- D3: decoded entries do not alias the pooled buffer -------------------------------------------------

func mayHoldBytes(t types.Type) bool {
	switch u := t.Underlying().(type) {
	case *types.Basic:
		return false
	case *types.Slice:
		return true
	case *types.Array:
		return mayHoldBytes(u.Elem())
	case *types.Pointer, *types.Struct, *types.Interface, *types.Map:
		return true
	}
	return false
}

func runNoPooledAlias(c *core.Ctx) {
	iface := c.P.LookupType(tsm1, "WALEntry")
	c.Need(iface != nil, "type tsm1.WALEntry")
	it, _ := iface.Underlying().(*types.Interface)
	var um *types.Func
	for i := 0; it != nil && i < it.NumMethods(); i++ {
		if it.Method(i).Name() == "UnmarshalBinary" {
			um = it.Method(i)
		}
	}
	c.Need(um != nil, "WALEntry.UnmarshalBinary")
	n := 0
	for _, f := range c.P.Implementations(um) {
		if core.Rel(f.Pkg.PkgPath) != tsm1 || f.Decl == nil || f.Decl.Recv == nil || len(f.Decl.Recv.List[0].Names) == 0 {
			continue
		}
		n++
		c.Counts["functions_analysed"]++
		info := f.Info()
		recv := info.Defs[f.Decl.Recv.List[0].Names[0]]
		var buf types.Object
		if len(f.Type.Params.List) > 0 && len(f.Type.Params.List[0].Names) > 0 {
			buf = info.Defs[f.Type.Params.List[0].Names[0]]
		}
		if buf == nil {
			c.Check("entry-does-not-alias-decode-buffer", f.Name, f.PosStr(), false, "undecided: unnamed buffer parameter")
			continue
		}
		tainted := map[types.Object]bool{buf: true}
		var aliasing func(x ast.Expr) bool
		aliasing = func(x ast.Expr) bool {
			x = ast.Unparen(x)
			if t := info.TypeOf(x); t == nil || !mayHoldBytes(t) {
				return false
			}
			switch e := x.(type) {
			case *ast.Ident:
				return tainted[info.ObjectOf(e)]
			case *ast.SliceExpr:
				return aliasing(e.X)
			case *ast.IndexExpr:
				return aliasing(e.X)
			case *ast.StarExpr:
				return aliasing(e.X)
			case *ast.UnaryExpr:
				return aliasing(e.X)
			case *ast.SelectorExpr:
				return aliasing(e.X)
			case *ast.CompositeLit:
				for _, el := range e.Elts {
					if kv, ok := el.(*ast.KeyValueExpr); ok {
						el = kv.Value
					}
					if aliasing(el) {
						return true
					}
				}
				return false
			case *ast.CallExpr:
				if tv, ok := info.Types[e.Fun]; ok && tv.IsType() {
					return len(e.Args) == 1 && aliasing(e.Args[0])
				}
				if b, ok := core.Callee(info, e).(*types.Builtin); ok {
					switch b.Name() {
					case "append":
						if len(e.Args) > 0 && aliasing(e.Args[0]) {
							return true
						}
						if e.Ellipsis.IsValid() {
							// append(dst, src...) copies the elements; they alias only if they are themselves slices
							if len(e.Args) == 2 {
								if st, ok := info.TypeOf(e.Args[1]).Underlying().(*types.Slice); ok && mayHoldBytes(st.Elem()) {
									return aliasing(e.Args[1])
								}
							}
							return false
						}
						for _, a := range e.Args[1:] {
							if aliasing(a) {
								return true
							}
						}
						return false
					default:
						return false
					}
				}
				for _, a := range e.Args {
					if aliasing(a) {
						return true
					}
				}
				return false
			}
			return false
		}
		// propagate through local assignments to a fixpoint
		for changed := true; changed; {
			changed = false
			taint := func(l ast.Expr) {
				if id, ok := ast.Unparen(l).(*ast.Ident); ok {
					if o := info.ObjectOf(id); o != nil && !tainted[o] && o != recv {
						tainted[o] = true
						changed = true
					}
				}
			}
			ast.Inspect(f.Body, func(nd ast.Node) bool {
				switch x := nd.(type) {
				case *ast.AssignStmt:
					if len(x.Lhs) == len(x.Rhs) {
						for k := range x.Lhs {
							if aliasing(x.Rhs[k]) {
								taint(x.Lhs[k])
							}
						}
					} else if len(x.Rhs) == 1 && aliasing(x.Rhs[0]) {
						for _, l := range x.Lhs {
							if t := info.TypeOf(l); t != nil && mayHoldBytes(t) {
								taint(l)
							}
						}
					}
				case *ast.ValueSpec:
					for k, v := range x.Values {
						if k < len(x.Names) && aliasing(v) {
							taint(x.Names[k])
						}
					}
				case *ast.RangeStmt:
					if aliasing(x.X) && x.Value != nil {
						if t := info.TypeOf(x.Value); t != nil && mayHoldBytes(t) {
							taint(x.Value)
						}
					}
				}
				return true
			})
		}
		// sinks: stores into the receiver
		k := 0
		bad := 0
		ast.Inspect(f.Body, func(nd ast.Node) bool {
			as, ok := nd.(*ast.AssignStmt)
			if !ok {
				return true
			}
			for i, l := range as.Lhs {
				if rootIdentOf(info, l) != recv {
					continue
				}
				if _, isIdent := ast.Unparen(l).(*ast.Ident); isIdent {
					continue
				}
				k++
				var r ast.Expr
				if len(as.Rhs) == len(as.Lhs) {
					r = as.Rhs[i]
				} else if len(as.Rhs) == 1 {
					r = as.Rhs[0]
				}
				al := r != nil && aliasing(r)
				if al {
					bad++
				}
				c.Check("entry-does-not-alias-decode-buffer", fmt.Sprintf("%s/store#%d:%s", f.Name, k, core.ExprStr(l)), c.P.Pos(as.Pos()), !al,
					fmt.Sprintf("%s is assigned %s, which aliases the decode buffer; WALSegmentReader.Next returns that buffer to the pool before the caller sees the entry, so the entry's bytes change when the buffer is reused", core.ExprStr(l), exprStrOrNil(r)))
			}
			return true
		})
		c.Counts["stores_checked"] += k
	}
	c.Floor("WALEntry.UnmarshalBinary implementations", n, 3)
}

func exprStrOrNil(x ast.Expr) string {
	if x == nil {
		return "<nil>"
	}
	return core.ExprStr(x)
}

// ---- D5: lossless scaling of timestamp deltas -----------------------------------------------------------

// idxRange is an index range [lo, len(X)) or the single index lo.
type idxRange struct {
	lo     int64
	single bool
	pos    token.Pos
}

func (r idxRange) String() string {
	if r.single {
		return fmt.Sprintf("{%d}", r.lo)
	}
	return fmt.Sprintf("[%d,len)", r.lo)
}

func covers(t, d idxRange) bool {
	if t.single {
		return d.single && d.lo == t.lo
	}
	return d.lo >= t.lo
}

type scaleScan struct {
	info    *types.Info
	slice   types.Object // the delta slice
	div     types.Object // the divisor
	tested  []idxRange
	divided []idxRange
	problem string
}

func intConst(info *types.Info, x ast.Expr) (int64, bool) {
	if tv, ok := info.Types[x]; ok && tv.Value != nil && tv.Value.Kind() == constant.Int {
		v, exact := constant.Int64Val(tv.Value)
		return v, exact
	}
	return 0, false
}

func (s *scaleScan) isObj(x ast.Expr, o types.Object) bool {
	id, ok := ast.Unparen(x).(*ast.Ident)
	return ok && o != nil && s.info.ObjectOf(id) == o
}

func (s *scaleScan) isLenOfSlice(x ast.Expr) bool {
	ce, ok := ast.Unparen(x).(*ast.CallExpr)
	if !ok || len(ce.Args) != 1 {
		return false
	}
	if b, ok := core.Callee(s.info, ce).(*types.Builtin); !ok || b.Name() != "len" {
		return false
	}
	return s.isObj(ce.Args[0], s.slice)
}

// loopRange derives the index range a loop variable takes over the delta slice.
func (s *scaleScan) loopRange(n ast.Node) (idx types.Object, val types.Object, r idxRange, ok bool) {
	switch l := n.(type) {
	case *ast.ForStmt:
		init, isAs := l.Init.(*ast.AssignStmt)
		if !isAs || len(init.Lhs) != 1 || len(init.Rhs) != 1 {
			return
		}
		id, isId := init.Lhs[0].(*ast.Ident)
		if !isId {
			return
		}
		idx = s.info.ObjectOf(id)
		var conj []ast.Expr
		var split func(x ast.Expr)
		split = func(x ast.Expr) {
			if be, ok := ast.Unparen(x).(*ast.BinaryExpr); ok && be.Op == token.LAND {
				split(be.X)
				split(be.Y)
				return
			}
			conj = append(conj, ast.Unparen(x))
		}
		if l.Cond == nil {
			return
		}
		split(l.Cond)
		post, _ := l.Post.(*ast.IncDecStmt)
		if post == nil || !s.isObj(post.X, idx) {
			return
		}
		found := false
		for _, cj := range conj {
			be, isBin := cj.(*ast.BinaryExpr)
			if !isBin {
				return
			}
			switch {
			case post.Tok == token.INC && be.Op == token.LSS && s.isObj(be.X, idx) && s.isLenOfSlice(be.Y):
				lo, isC := intConst(s.info, init.Rhs[0])
				if !isC {
					return
				}
				r = idxRange{lo: lo, pos: l.Pos()}
				found = true
			case post.Tok == token.DEC && be.Op == token.GTR && s.isObj(be.X, idx):
				b, isC := intConst(s.info, be.Y)
				if !isC {
					return
				}
				// init must be len(X)-1
				ib, isBin := ast.Unparen(init.Rhs[0]).(*ast.BinaryExpr)
				if !isBin || ib.Op != token.SUB || !s.isLenOfSlice(ib.X) {
					return
				}
				if one, isC := intConst(s.info, ib.Y); !isC || one != 1 {
					return
				}
				r = idxRange{lo: b + 1, pos: l.Pos()}
				found = true
			case be.Op == token.GTR && s.isObj(be.X, s.div):
				// "&& div > 1": leaving early with div <= 1 leaves nothing to test
				if one, isC := intConst(s.info, be.Y); !isC || one != 1 {
					return
				}
			default:
				return
			}
		}
		ok = found
		return
	case *ast.RangeStmt:
		x := ast.Unparen(l.X)
		lo := int64(0)
		if se, isSl := x.(*ast.SliceExpr); isSl {
			if se.High != nil || se.Low == nil {
				return
			}
			v, isC := intConst(s.info, se.Low)
			if !isC {
				return
			}
			lo = v
			x = se.X
		}
		if !s.isObj(x, s.slice) {
			return
		}
		if id, isId := l.Key.(*ast.Ident); isId && id.Name != "_" {
			// the key is relative to the sub-slice; only the value form is supported with an offset
			if lo != 0 {
				return
			}
			idx = s.info.ObjectOf(id)
		}
		if id, isId := l.Value.(*ast.Ident); isId && id.Name != "_" {
			val = s.info.ObjectOf(id)
		}
		r = idxRange{lo: lo, pos: l.Pos()}
		ok = true
		return
	}
	return
}

// scan collects the tested and divided index ranges of body.
func (s *scaleScan) scan(body ast.Node) {
	type frame struct {
		idx, val types.Object
		r        idxRange
		ok       bool
		node     ast.Node
	}
	var stack []frame
	// element(x): which indices of the delta slice x denotes, given the enclosing loops and local copies
	copies := map[types.Object]ast.Expr{} // v := X[i]
	var element func(x ast.Expr) (idxRange, bool)
	element = func(x ast.Expr) (idxRange, bool) {
		x = ast.Unparen(x)
		switch e := x.(type) {
		case *ast.IndexExpr:
			if !s.isObj(e.X, s.slice) {
				return idxRange{}, false
			}
			if k, isC := intConst(s.info, e.Index); isC {
				return idxRange{lo: k, single: true, pos: e.Pos()}, true
			}
			for i := len(stack) - 1; i >= 0; i-- {
				if stack[i].ok && stack[i].idx != nil && s.isObj(e.Index, stack[i].idx) {
					return stack[i].r, true
				}
			}
			s.problem = "an element of the delta slice is scaled or tested under an index that is not a loop variable with a recognised range"
			return idxRange{}, false
		case *ast.Ident:
			o := s.info.ObjectOf(e)
			for i := len(stack) - 1; i >= 0; i-- {
				if stack[i].ok && stack[i].val != nil && stack[i].val == o {
					return stack[i].r, true
				}
			}
			if src, ok := copies[o]; ok {
				return element(src)
			}
		}
		return idxRange{}, false
	}
	var walk func(n ast.Node)
	walk = func(n ast.Node) {
		ast.Inspect(n, func(nd ast.Node) bool {
			if nd == nil || nd == n {
				return true
			}
			switch x := nd.(type) {
			case *ast.FuncLit:
				return false
			case *ast.ForStmt, *ast.RangeStmt:
				idx, val, r, ok := s.loopRange(x)
				stack = append(stack, frame{idx, val, r, ok, x})
				walk(x)
				stack = stack[:len(stack)-1]
				return false
			case *ast.AssignStmt:
				if x.Tok == token.DEFINE && len(x.Lhs) == 1 && len(x.Rhs) == 1 {
					if id, ok := x.Lhs[0].(*ast.Ident); ok {
						if ie, ok := ast.Unparen(x.Rhs[0]).(*ast.IndexExpr); ok && s.isObj(ie.X, s.slice) {
							copies[s.info.ObjectOf(id)] = ie
						}
					}
				}
				if x.Tok == token.QUO_ASSIGN && len(x.Lhs) == 1 && len(x.Rhs) == 1 && s.isObj(x.Rhs[0], s.div) {
					if r, ok := element(x.Lhs[0]); ok {
						s.divided = append(s.divided, r)
					}
				}
			case *ast.BinaryExpr:
				if !s.isObj(x.Y, s.div) {
					return true
				}
				switch x.Op {
				case token.REM:
					if r, ok := element(x.X); ok {
						s.tested = append(s.tested, r)
					}
				case token.QUO:
					if r, ok := element(x.X); ok {
						s.divided = append(s.divided, r)
					}
				}
			}
			return true
		})
	}
	walk(body)
}

func localOrParam(f *core.FuncInfo, name string) types.Object {
	var o types.Object
	info := f.Info()
	if f.Type != nil {
		for _, fl := range []*ast.FieldList{f.Type.Params, f.Type.Results} {
			if fl == nil {
				continue
			}
			for _, p := range fl.List {
				for _, n := range p.Names {
					if n.Name == name {
						o = info.Defs[n]
					}
				}
			}
		}
	}
	if o != nil {
		return o
	}
	ast.Inspect(f.Body, func(n ast.Node) bool {
		if id, ok := n.(*ast.Ident); ok && id.Name == name && o == nil {
			if d := info.Defs[id]; d != nil {
				o = d
			}
		}
		return true
	})
	return o
}

func reportScale(c *core.Ctx, what string, pos string, tested, divided []idxRange, problem string) {
	if problem != "" {
		c.Check("scaled-deltas-were-tested", what+"/undecided", pos, false, "undecided: "+problem)
		return
	}
	for i, d := range divided {
		ok := false
		for _, t := range tested {
			if covers(t, d) {
				ok = true
			}
		}
		var ts []string
		for _, t := range tested {
			ts = append(ts, t.String())
		}
		c.Check("scaled-deltas-were-tested", fmt.Sprintf("%s/division#%d", what, i+1), c.P.Pos(d.pos), ok,
			fmt.Sprintf("deltas %s are divided by the power-of-ten divisor, but divisibility was only tested for %v: a delta that is not a multiple is truncated and every later timestamp of the block decodes shifted", d, ts))
	}
}

func runScaledDeltas(c *core.Ctx) {
	// batch encoder: test and division in one function
	f := c.Fn(tsm1 + ".TimeArrayEncodeAll")
	s := &scaleScan{info: f.Info(), slice: localOrParam(f, "deltas"), div: localOrParam(f, "div")}
	c.Need(s.slice != nil && s.div != nil, "TimeArrayEncodeAll: variables deltas and div")
	s.scan(f.Body)
	reportScale(c, f.Name, f.PosStr(), s.tested, s.divided, s.problem)
	c.Floor("divisions by the divisor in TimeArrayEncodeAll", len(s.divided), 2)
	c.Floor("divisibility tests in TimeArrayEncodeAll", len(s.tested), 2)

	// iterator encoder: reduce tests, encodePacked / encodeRLE divide
	red := c.Fn(tsm1 + ".(*encoder).reduce")
	rs := &scaleScan{info: red.Info(), slice: localOrParam(red, "deltas"), div: localOrParam(red, "divisor")}
	c.Need(rs.slice != nil && rs.div != nil, "encoder.reduce: results deltas and divisor")
	rs.scan(red.Body)
	c.Floor("divisibility tests in encoder.reduce", len(rs.tested), 1)
	pk := c.Fn(tsm1 + ".(*encoder).encodePacked")
	ps := &scaleScan{info: pk.Info(), slice: localOrParam(pk, "dts"), div: localOrParam(pk, "div")}
	c.Need(ps.slice != nil && ps.div != nil, "encoder.encodePacked: parameters dts and div")
	ps.scan(pk.Body)
	c.Floor("divisions in encoder.encodePacked", len(ps.divided), 1)
	problem := rs.problem
	if problem == "" {
		problem = ps.problem
	}
	reportScale(c, pk.Name, pk.PosStr(), rs.tested, ps.divided, problem)
	// Bytes hands reduce's results to encodePacked / encodeRLE in the roles assumed above
	by := c.Fn(tsm1 + ".(*encoder).Bytes")
	binfo := by.Info()
	var res []types.Object
	ast.Inspect(by.Body, func(n ast.Node) bool {
		as, ok := n.(*ast.AssignStmt)
		if !ok || len(as.Rhs) != 1 || len(as.Lhs) != 4 {
			return true
		}
		if ce, ok := as.Rhs[0].(*ast.CallExpr); ok {
			if fn, ok := core.Callee(binfo, ce).(*types.Func); ok && fn.Name() == "reduce" {
				for _, l := range as.Lhs {
					if id, ok := l.(*ast.Ident); ok {
						res = append(res, binfo.ObjectOf(id))
					}
				}
			}
		}
		return true
	})
	c.Need(len(res) == 4, "encoder.Bytes: max, div, rle, dts := e.reduce()")
	nCalls := 0
	ast.Inspect(by.Body, func(n ast.Node) bool {
		ce, ok := n.(*ast.CallExpr)
		if !ok {
			return true
		}
		fn, ok := core.Callee(binfo, ce).(*types.Func)
		if !ok {
			return true
		}
		isObj := func(x ast.Expr, o types.Object) bool {
			id, ok := ast.Unparen(x).(*ast.Ident)
			return ok && binfo.ObjectOf(id) == o
		}
		switch fn.Name() {
		case "encodePacked":
			nCalls++
			good := len(ce.Args) == 2 && isObj(ce.Args[0], res[1]) && isObj(ce.Args[1], res[3])
			c.Check("scaled-deltas-were-tested", by.Name+"/encodePacked-args", c.P.Pos(ce.Pos()), good, "encodePacked is not handed the divisor and the deltas that reduce() computed and tested")
		case "encodeRLE":
			nCalls++
			good := len(ce.Args) == 4 && isObj(ce.Args[2], res[1])
			if good {
				ie, isIdx := ast.Unparen(ce.Args[1]).(*ast.IndexExpr)
				k, isC := int64(0), false
				if isIdx {
					k, isC = intConst(binfo, ie.Index)
				}
				good = isIdx && isC
				if good {
					cov := false
					for _, t := range rs.tested {
						if covers(t, idxRange{lo: k, single: !t.single && false}) || (!t.single && k >= t.lo) {
							cov = true
						}
					}
					good = cov
				}
			}
			c.Check("scaled-deltas-were-tested", by.Name+"/encodeRLE-args", c.P.Pos(ce.Pos()), good, "the run-length delta handed to encodeRLE is not an element that reduce() tested against the divisor it is scaled by")
		}
		return true
	})
	c.Floor("scaling encoders called from encoder.Bytes", nCalls, 2)
}
