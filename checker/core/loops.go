package core

import (
	"go/ast"

	"golang.org/x/tools/go/cfg"
)

// Loop is one for/range statement of a function.
type Loop struct {
	Stmt      ast.Stmt
	Head      *Event // the event control returns to on every iteration
	BodyEntry *Event
}

// Loops lists the loops of the function (range loops and for loops).
func (g *Graph) Loops() []*Loop {
	var out []*Loop
	if g.CFG == nil {
		return nil
	}
	for _, b := range g.CFG.Blocks {
		switch b.Kind {
		case cfg.KindRangeLoop:
			if len(b.Succs) == 2 {
				out = append(out, &Loop{Stmt: b.Stmt, Head: g.first[b], BodyEntry: g.first[b.Succs[0]]})
			}
		case cfg.KindForLoop:
			if len(b.Succs) == 2 {
				out = append(out, &Loop{Stmt: b.Stmt, Head: g.first[b], BodyEntry: g.first[b.Succs[0]]})
			}
		case cfg.KindForBody:
			// for without condition: the body block is its own head
			if fs, ok := b.Stmt.(*ast.ForStmt); ok && fs.Cond == nil {
				out = append(out, &Loop{Stmt: b.Stmt, Head: nil, BodyEntry: g.first[b]})
			}
		}
	}
	return out
}

// IterationCount computes the minimum and maximum number of events matching m on a
// path through one iteration of the loop (from the first event of the body back to the
// loop head). max == -1 means unbounded (a counted event lies on an inner cycle).
// ok is false when no path returns to the head. zero is a witness path with count 0 (if min==0).
func (fl *Flow) IterationCount(l *Loop, m Match) (min, max int, ok bool, zero []*Event) {
	head := l.Head
	isHead := func(e *Event) bool {
		if head != nil {
			return e == head
		}
		return e == l.BodyEntry
	}
	// forward reachable from body entry, not passing the head
	fwd := map[*Event]bool{l.BodyEntry: true}
	stack := []*Event{l.BodyEntry}
	for len(stack) > 0 {
		e := stack[len(stack)-1]
		stack = stack[:len(stack)-1]
		for i, ed := range e.Succ {
			if !fl.feasible(e, i) {
				continue
			}
			if isHead(ed.To) && !(head == nil && e == l.BodyEntry && false) {
				fwd[ed.To] = true
				continue
			}
			if !fwd[ed.To] {
				fwd[ed.To] = true
				stack = append(stack, ed.To)
			}
		}
	}
	target := head
	if target == nil {
		target = l.BodyEntry
	}
	if !fwd[target] && head != nil {
		return 0, 0, false, nil
	}
	// backward: can reach head (within fwd)
	canReach := map[*Event]bool{}
	changed := true
	for changed {
		changed = false
		for e := range fwd {
			if canReach[e] {
				continue
			}
			for i, ed := range e.Succ {
				if !fl.feasible(e, i) || !fwd[ed.To] {
					continue
				}
				if isHead(ed.To) && e != nil {
					if !(head == nil && ed.To == l.BodyEntry && e == l.BodyEntry) {
						canReach[e] = true
						changed = true
						break
					}
				}
				if canReach[ed.To] && !isHead(ed.To) {
					canReach[e] = true
					changed = true
					break
				}
			}
		}
	}
	if !canReach[l.BodyEntry] {
		return 0, 0, false, nil
	}
	// nodes of the iteration subgraph
	sub := map[*Event]bool{}
	for e := range canReach {
		sub[e] = true
	}
	w := func(e *Event) int {
		if m(e) {
			return 1
		}
		return 0
	}
	succs := func(e *Event) (out []*Event, toHead bool) {
		for i, ed := range e.Succ {
			if !fl.feasible(e, i) {
				continue
			}
			if isHead(ed.To) {
				toHead = true
				continue
			}
			if sub[ed.To] {
				out = append(out, ed.To)
			}
		}
		return
	}
	// Bellman-Ford style relaxation for min; for max detect positive cycles by bounded iteration.
	const inf = 1 << 30
	minD := map[*Event]int{}
	maxD := map[*Event]int{}
	prev := map[*Event]*Event{}
	for e := range sub {
		minD[e] = inf
		maxD[e] = -inf
	}
	minD[l.BodyEntry] = w(l.BodyEntry)
	maxD[l.BodyEntry] = w(l.BodyEntry)
	n := len(sub)
	unbounded := false
	for it := 0; it <= n+1; it++ {
		ch := false
		for e := range sub {
			if minD[e] == inf {
				continue
			}
			ss, _ := succs(e)
			for _, t := range ss {
				if d := minD[e] + w(t); d < minD[t] {
					minD[t] = d
					prev[t] = e
					ch = true
				}
				if d := maxD[e] + w(t); d > maxD[t] {
					maxD[t] = d
					ch = true
					if it >= n {
						unbounded = true
					}
				}
			}
		}
		if !ch {
			break
		}
	}
	min, max = inf, -inf
	var minEnd *Event
	for e := range sub {
		if _, toHead := succs(e); toHead && minD[e] != inf {
			if minD[e] < min {
				min = minD[e]
				minEnd = e
			}
			if maxD[e] > max {
				max = maxD[e]
			}
		}
	}
	if unbounded {
		max = -1
	}
	if min == 0 && minEnd != nil {
		for x := minEnd; x != nil; x = prev[x] {
			zero = append([]*Event{x}, zero...)
			if x == l.BodyEntry {
				break
			}
		}
	}
	return min, max, min != inf, zero
}
