// Demonstration for fix 90f03c3 (C19): copy into coordinator/ (package coordinator) and run
//   go test -vet=off -count=1 -run TestDemoPoolCloseWhilePruning ./coordinator/
// Fails on 90f03c3^ (nil pointer dereference in pruneIdleConns kills the test binary), passes on 90f03c3.
package coordinator

import (
	"net"
	"testing"
	"time"
)

// The pool's pruner drains the idle-connection channel on every tick. Close empties the pool's fields and closes that
// channel. A Close that lands while the pruner drains makes the pruner receive nil from the closed channel and
// dereference it (the process dies), or leaves it sending the survivors into a nil channel for ever while holding the
// pool's read lock. Closing a pool must always be safe.
func TestDemoPoolCloseWhilePruning(t *testing.T) {
	factory := func() (net.Conn, error) {
		a, b := net.Pipe()
		go func() { buf := make([]byte, 1); b.Read(buf); b.Close() }()
		return a, nil
	}
	for i := 0; i < 3000; i++ {
		p, err := NewBoundedPool(20, 20, 20*time.Microsecond, factory)
		if err != nil {
			t.Fatal(err)
		}
		time.Sleep(time.Duration(i%40) * time.Microsecond)
		p.Close()
	}
	time.Sleep(50 * time.Millisecond)
}
