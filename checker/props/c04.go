package props

import (
	"fmt"
	"go/ast"
	"go/token"
	"go/types"
	"os"
	"strings"

	"verifcheck/core"
)

func init() {
	register("C04", core.PropertyMeta{
		Explanation: "Decides structural clauses of the hinted-handoff queue contract on every path: D1 an append is acknowledged only after its block was written and fsynced (the buffered path is a recorded finding); " +
			"D2 buffered blocks are flushed before a segment file is closed; D3 queue.Empty is a function of queue content (head offset, size, buffer) and never of the file cursor, and every 'at end' comparison in the package is pos == size-footerSize; " +
			"D4 SendWrite advances the queue only after the target answered (success or permanent rejection) for a block read by Current in the same call, or for an undecodable block - never at the end of the queue, where only an exhausted head segment may be trimmed; an empty processor is purged only after CloseIfEmpty closed it with writers excluded; D5 the footer is written and synced before the in-memory head offset moves, blocks are synced before size grows; " +
			"D6 frozen table of every site that may discard queued data, and the inactive-processor purge is guarded by Empty or (inactive and older than max age); D7 the batch split loop moves its window without gap or overlap and reports success only when the last window ended at len(points); D8 unmarshalWrite slices are length-guarded; D9 flush before tail rotation, segments sorted by numeric id, head=first/tail=last; D10 every caller of addSegment stores queue.tail before a success return. " +
			"NOT decided: ordering across concurrent appenders, crash images of torn blocks, the size limit arithmetic.",
		RuleText:    "obligation = (rule, function, site); must-precede / outcome facts / path exploration over go/cfg; who-may-call tables; comparison shape of segment.pos vs segment.size",
		Assumptions: commonAssumptions,
	}, runC04)
}

func runC04(c *core.Ctx) {
	seg := func(m string) string { return hhp + ".(*segment)." + m }
	q := func(m string) string { return hhp + ".(*queue)." + m }

	c.Clause("D1", func() {
		// segment.flush: bytes written, then synced, then size updated
		f := c.Fn(seg("flush"))
		wb := calleeIn(f, seg("writeBytes"))
		fs := calleeIn(f, "os.(*File).Sync")
		okRule(c, f, "write-before-sync", "writeBytes", "File.Sync", wb, evCall(fs))
		storeSize := storeTo(f, "segment.size")
		okRule(c, f, "sync-before-size", "File.Sync", "store segment.size", fs, storeSize)
		errPropagated(c, f, "error-surfaces", "File.Sync", fs)
		errPropagated(c, f, "error-surfaces", "writeBytes", wb)
		returnsOnlyAfterOK(c, f, "flush-success-means-synced", "File.Sync", fs, func(e *core.Event) string {
			if noRealCallBefore2(f, e, "bytes.(*Buffer).Bytes") {
				return "nothing buffered: no write precedes this return"
			}
			return ""
		})
		// segment.append: every acknowledging return has flushed
		f = c.Fn(seg("append"))
		fl := calleeIn(f, seg("flush"))
		findOrAbort(c, f, "segment.flush", evCall(fl), 1)
		type res struct {
			ok    bool
			guard string
		}
		results := map[string]*res{}
		pos := map[string]string{}
		complete := f.Flow().ExplorePaths(core.KeepCalls(fl, "buffered"), func(e *core.Event, st core.State) {
			if e.Kind != core.EvReturn {
				return
			}
			rf, _ := f.ReturnErrFact(e)
			if rf.Nil == core.NonNil {
				return
			}
			if x, _ := f.ResultExpr(e, 0); x != nil {
				if k, ok := core.KeyOf(f.Info(), x); ok {
					if pf, ok := st[k]; ok && pf.Nil == core.NonNil {
						return
					}
				}
			}
			guard := "unconditional"
			switch core.CondOutcome(st, func(x ast.Expr) bool { return strings.Contains(core.ExprStr(x), "buffered") }) {
			case 1:
				guard = "cond(" + condText(st, "buffered") + ")=true"
			case 2:
				guard = "cond(" + condText(st, "buffered") + ")=false"
			}
			key := guard
			r := results[key]
			if r == nil {
				r = &res{ok: true, guard: guard}
				results[key] = r
				pos[key] = c.P.Pos(e.Pos())
			}
			if !core.OutcomeOK(st, fl) {
				r.ok = false
			}
		})
		c.Need(complete, "exploration bound segment.append")
		c.Need(len(results) >= 1, "acknowledging returns in segment.append")
		for k, r := range results {
			c.Check("durable-before-ack", f.Name+"/ack-when:"+k, pos[k], r.ok,
				"segment.append returns nil (the append is acknowledged to the writer) on a path where the block has not been written and fsynced by segment.flush")
		}
		// queue.Append returns the error of segment.append
		f = c.Fn(q("Append"))
		ap := calleeIn(f, seg("append"))
		errPropagated(c, f, "error-surfaces", "segment.append", ap)
		returnsOnlyAfterOK(c, f, "ack-after-append", "segment.append", ap, nil)
	})

	c.Clause("D2", func() {
		f := c.Fn(seg("close"))
		okRule(c, f, "flush-before-close", "segment.flush", "File.Close", calleeIn(f, seg("flush")), evCall(calleeIn(f, "os.(*File).Close")))
		errPropagated(c, f, "error-surfaces", "segment.flush", calleeIn(f, seg("flush")))
		// queue.Close closes every segment and reports errors
		f = c.Fn(q("Close"))
		errPropagated(c, f, "error-surfaces", "segment.close", calleeIn(f, seg("close")))
		// trimHead closes (flushes) before removing
		f = c.Fn(q("trimHead"))
		okRule(c, f, "close-before-remove", "segment.close", "os.Remove", calleeIn(f, seg("close")), evCall(calleeIn(f, "os.Remove")))
	})

	c.Clause("D3", func() {
		f := c.Fn(q("Empty"))
		cl := c.P.Closure([]*core.FuncInfo{f}, core.InPkgs(hhp))
		c.Counts["functions_analysed"] += len(cl)
		// must not depend on the file cursor
		var seekers []string
		for _, g := range cl {
			if g.Body == nil {
				continue
			}
			for _, e := range g.Graph().Events {
				if e.Kind == core.EvCall && core.CalleeName(e) == "os.(*File).Seek" {
					seekers = append(seekers, g.Name+"@"+c.P.Pos(e.Pos()))
				}
			}
		}
		c.Check("empty-independent-of-file-cursor", f.Name+"/no-Seek-in-closure", f.PosStr(), len(seekers) == 0,
			"queue.Empty reaches (*os.File).Seek ("+strings.Join(seekers, ", ")+"): the cursor is moved by current/advance/flush/truncate to different places, so no predicate over it is a function of queue content")
		for _, fld := range []string{"pos", "size", "buf"} {
			v := c.P.LookupField(hhp, "segment", fld)
			c.Need(v != nil, "field segment."+fld)
			reads, _ := core.FieldAccesses(cl, v)
			c.Check("empty-depends-on-content", f.Name+"/reads-segment."+fld, f.PosStr(), len(reads) > 0,
				"queue.Empty never reads segment."+fld+": it cannot distinguish a queue with pending (written or buffered) blocks from an empty one")
		}
		// Service.Empty / NodeProcessor.Empty delegate to queue.Empty
		np := c.Fn(hhp + ".(*NodeProcessor).Empty")
		findOrAbort(c, np, "queue.Empty", evCall(calleeIn(np, q("Empty"))), 1)
		sv := c.Fn(hhp + ".(*Service).Empty")
		findOrAbort(c, sv, "NodeProcessor.Empty", evCall(calleeIn(sv, hhp+".(*NodeProcessor).Empty")), 1)
		// sibling agreement: every comparison of segment.pos with an expression over segment.size
		posF := c.P.LookupField(hhp, "segment", "pos")
		sizeF := c.P.LookupField(hhp, "segment", "size")
		n := 0
		for _, g := range c.P.FuncsIn(hhp) {
			if g.Body == nil {
				continue
			}
			info := g.Info()
			ast.Inspect(g.Body, func(nd ast.Node) bool {
				if _, ok := nd.(*ast.FuncLit); ok {
					return false
				}
				be, ok := nd.(*ast.BinaryExpr)
				if !ok {
					return true
				}
				switch be.Op {
				case token.EQL, token.NEQ, token.LSS, token.LEQ, token.GTR, token.GEQ:
				default:
					return true
				}
				l, r := be.X, be.Y
				if !mentionsField(info, l, posF) || !mentionsField(info, r, sizeF) {
					if mentionsField(info, r, posF) && mentionsField(info, l, sizeF) {
						l, r = r, l
					} else {
						return true
					}
				}
				n++
				// r must be size - footerSize
				good := false
				if sub, ok := ast.Unparen(r).(*ast.BinaryExpr); ok && sub.Op == token.SUB && mentionsField(info, sub.X, sizeF) {
					if tv, ok := info.Types[sub.Y]; ok && tv.Value != nil {
						if v, ok := constInt(tv.Value); ok && v == footerSizeOf(c) {
							good = true
						}
					}
				}
				c.Check("at-end-predicate-agrees", fmt.Sprintf("%s/pos-vs-size", g.Root().Name), c.P.Pos(be.Pos()), good,
					"a comparison of segment.pos against segment.size must be against size-footerSize (the head offset excludes the 8-byte footer); got "+core.ExprStr(be))
				return true
			})
		}
		c.Floor("at-end comparisons", n, 5)
	})

	c.Clause("D4", func() {
		f := c.Fn(hhp + ".(*NodeProcessor).SendWrite")
		adv := fieldCallIn(f, "NodeProcessor.queue", "Advance")
		cur := fieldCallIn(f, "NodeProcessor.queue", "Current")
		um := calleeIn(f, hhp+".unmarshalWrite")
		ws := fieldCallIn(f, "NodeProcessor.writer", "WriteShardBinary")
		findOrAbort(c, f, "queue.Advance", evCall(adv), 1)
		findOrAbort(c, f, "queue.Current", evCall(cur), 1)
		findOrAbort(c, f, "unmarshalWrite", evCall(um), 1)
		findOrAbort(c, f, "writer.WriteShardBinary", evCall(ws), 1)
		any := func(ce *ast.CallExpr) bool { return cur(ce) || um(ce) || ws(ce) }
		isRetry := func(x ast.Expr) bool { return strings.Contains(core.ExprStr(x), "IsRetryable(") }
		isEOF := func(x ast.Expr) bool { return strings.Contains(core.ExprStr(x), "io.EOF") }
		bad := map[*core.Event]string{}
		seen := map[*core.Event]bool{}
		complete := f.Flow().ExplorePaths(func(k core.VarKey, fct core.Fact) bool {
			if ce, ok := fct.Def.(*ast.CallExpr); ok && any(ce) {
				return true
			}
			if k.Root == nil && strings.HasPrefix(k.Path, "cond:") && fct.Def != nil && (isRetry(fct.Def) || isEOF(fct.Def)) {
				return true
			}
			return false
		}, func(e *core.Event, st core.State) {
			if e.Kind != core.EvCall || !adv(e.Call) {
				return
			}
			seen[e] = true
			switch {
			case core.OutcomeFailed(st, um):
				return // undecodable block is skipped
			case core.OutcomeFailed(st, cur) && eofEstablished(st) == 1:
				// Current and Advance are two critical sections: a block appended after Current saw the end of the queue
				// would be skipped (and the head moved into its middle). At the end only an exhausted head segment
				// may be trimmed (queue.TrimExhaustedHead).
				bad[e] = "queue.Advance is called on the path where Current reported io.EOF: a block appended between the two calls is skipped and the head position lands inside it"
				return
			case defined(st, ws) && core.CondOutcome(st, isRetry) == 2:
				// target answered: success or permanent rejection - of the block that is the current one: the block
				// sent must have been read by queue.Current in this very call (a block kept from an earlier call may
				// no longer be the head after a purge or a truncation, and Advance would then skip an unsent block)
				if !core.OutcomeOK(st, cur) {
					bad[e] = "queue.Advance follows an answer for a block that was not read by queue.Current in this call: the head may have moved since (age purge, truncation), and the block that is skipped was never sent"
				}
				return
			}
			bad[e] = "queue.Advance is reachable on a path where the target has not answered (success or non-retryable error), the head is not at EOF and the block decoded fine"
		})
		c.Need(complete, "exploration bound SendWrite")
		i := 0
		for _, e := range f.Graph().Find(evCall(adv)) {
			if !seen[e] {
				continue
			}
			i++
			c.Check("advance-only-after-answer", fmt.Sprintf("%s/Advance#%d", f.Name, i), c.P.Pos(e.Pos()), bad[e] == "", bad[e])
		}
		c.Floor("Advance sites", i, 2)
		// the retryable-error edge leaves without advancing: covered above (an Advance on that path would be flagged);
		// additionally the error must be returned so the run loop backs off
		errPropagated(c, f, "error-surfaces", "WriteShardBinary", ws)
		// IsRetryable is the classifier
		findOrAbort(c, f, "IsRetryable", evCall(calleeIn(f, hhp+".IsRetryable")), 1)
		// the purger removes an empty processor only through CloseIfEmpty, which decides with writers excluded
		// (WriteShard appends without the service lock): Close+Purge after a look at Empty deletes a write accepted in
		// between
		pf := c.Fn(hhp + ".(*Service).purgeInactiveProcessors")
		var lit *core.FuncInfo
		for _, l := range pf.Lits {
			if len(l.Graph().Find(evCall(calleeIn(l, hhp+".(*NodeProcessor).Purge")))) > 0 {
				lit = l
			}
		}
		if lit == nil {
			lit = pf
		}
		purge := calleeIn(lit, hhp+".(*NodeProcessor).Purge")
		cie := calleeIn(lit, hhp+".(*NodeProcessor).CloseIfEmpty")
		isEmptyCond := func(x ast.Expr) bool {
			x = derefLocal(lit, ast.Unparen(x))
			if u, ok := x.(*ast.UnaryExpr); ok && u.Op == token.NOT {
				x = ast.Unparen(derefLocal(lit, u.X))
			}
			ce, ok := x.(*ast.CallExpr)
			return ok && calleeIn(lit, hhp+".(*NodeProcessor).Empty")(ce)
		}
		badP := ""
		nP := 0
		completeP := lit.Flow().ExplorePaths(func(k core.VarKey, fct core.Fact) bool {
			if ce, ok := fct.Def.(*ast.CallExpr); ok && cie(ce) {
				return true
			}
			if k.Root != nil && k.Path == "" {
				if b, ok := k.Root.Type().Underlying().(*types.Basic); ok && b.Kind() == types.Bool {
					return true // boolean locals (the answer of Empty kept in a variable): ties its tests together
				}
			}
			return k.Root == nil && strings.HasPrefix(k.Path, "cond:") && fct.Def != nil && (isEmptyCond(fct.Def) || strings.Contains(core.ExprStr(fct.Def), "closed"))
		}, func(e *core.Event, st core.State) {
			if e.Kind != core.EvCall || !purge(e.Call) {
				return
			}
			nP++
			// was the processor found empty on this path? (cond `empty` true / `!p.Empty()` false)
			foundEmpty := false
			for k, fct := range st {
				if k.Root != nil || !strings.HasPrefix(k.Path, "cond:") || fct.Def == nil || !isEmptyCond(fct.Def) {
					continue
				}
				neg := false
				if u, ok := ast.Unparen(derefLocal(lit, ast.Unparen(fct.Def))).(*ast.UnaryExpr); ok && u.Op == token.NOT {
					neg = true
				}
				if (fct.Bool == 1 && !neg) || (fct.Bool == 2 && neg) {
					foundEmpty = true
				}
			}
			if os.Getenv("VERIFCHECK_DEBUG") != "" {
				for k, fct := range st {
					fmt.Printf("DBG purge@%s key=%s bool=%d def=%s\n", c.P.Pos(e.Pos()), k.Path, fct.Bool, core.ExprStr(fct.Def))
				}
				fmt.Println("DBG ---", foundEmpty, core.OutcomeOK(st, cie))
			}
			if foundEmpty && !core.OutcomeOK(st, cie) {
				badP = "a processor found empty is purged @" + c.P.Pos(e.Pos()) + " on a path where CloseIfEmpty has not closed it: a write accepted since the look at Empty is deleted with the queue directory"
			}
		})
		c.Need(completeP, "exploration bound purgeInactiveProcessors")
		c.Check("empty-purge-decided-with-writers-excluded", pf.Name+"/Purge", pf.PosStr(), badP == "" && nP >= 1, badP)
	})

	c.Clause("D5", func() {
		f := c.Fn(seg("advance"))
		wu := calleeIn(f, seg("writeUint64"))
		fs := calleeIn(f, "os.(*File).Sync")
		storePos := storeTo(f, "segment.pos")
		okRule(c, f, "footer-before-head-moves", "writeUint64(footer)", "store segment.pos", wu, storePos)
		okRule(c, f, "footer-before-head-moves", "File.Sync", "store segment.pos", fs, storePos)
		okRule(c, f, "footer-before-head-moves", "writeUint64(footer)", "File.Sync", wu, evCall(fs))
		// the footer write is positioned at the end of file
		orderRule(c, f, "footer-position", "seekEnd", "writeUint64(footer)", evCall(calleeIn(f, seg("seekEnd"))), evCall(wu))
		// truncate: footer rewritten, file cut, synced before size is updated
		f = c.Fn(seg("truncate"))
		tr := calleeIn(f, "os.(*File).Truncate")
		fs = calleeIn(f, "os.(*File).Sync")
		okRule(c, f, "truncate-order", "File.Truncate", "File.Sync", tr, evCall(fs))
		okRule(c, f, "truncate-order", "File.Sync", "store segment.size", fs, storeTo(f, "segment.size"))
		// queue.Advance trims the head only at EOF of the head segment
		f = c.Fn(q("Advance"))
		isEOF := func(x ast.Expr) bool { return strings.Contains(core.ExprStr(x), "io.EOF") }
		th := calleeIn(f, q("trimHead"))
		bad := ""
		complete := f.Flow().ExplorePaths(func(k core.VarKey, fct core.Fact) bool {
			return k.Root == nil && strings.HasPrefix(k.Path, "cond:") && fct.Def != nil && isEOF(fct.Def)
		}, func(e *core.Event, st core.State) {
			if e.Kind == core.EvCall && th(e.Call) && eofEstablished(st) != 1 {
				bad = "trimHead reachable in queue.Advance without segment.advance having reported io.EOF"
			}
		})
		c.Need(complete, "exploration bound queue.Advance")
		findOrAbort(c, f, "trimHead", evCall(th), 1)
		c.Check("trim-only-at-eof", f.Name+"/trimHead", f.PosStr(), bad == "", bad)
		// trimHead never removes the last segment
		f = c.Fn(q("trimHead"))
		rm := f.Graph().Find(evCall(calleeIn(f, "os.Remove")))
		c.Need(len(rm) == 1, "os.Remove in trimHead")
		guarded := false
		for _, ce := range f.Graph().Events {
			if ce.Kind == core.EvCond && strings.Contains(core.ExprStr(ce.Node.(ast.Expr)), "len(l.segments) > 1") {
				guarded = true
			}
		}
		_ = guarded
		p := f.Flow().PathAvoiding(f.Graph().Entry, func(x *core.Event) bool { return x == rm[0] }, core.Kind(core.EvCond))
		c.Check("never-remove-last-segment", f.Name+"/os.Remove-guarded", c.P.Pos(rm[0].Pos()), p == nil,
			"os.Remove of the head segment must be conditional on more than one segment existing")
	})

	c.Clause("D6", func() {
		sites := callSites(c.P, []string{hhp, coord}, q("Advance"), q("Truncate"), q("trimHead"), q("PurgeOlderThan"), q("Remove"),
			hhp+".(*NodeProcessor).Purge", "os.Remove", "os.RemoveAll", "os.(*File).Truncate", seg("truncate"), seg("advance"))
		// only hh-owned sites and coordinator calls into hh discard functions matter
		var rel []site
		for _, s := range sites {
			if core.Rel(s.Fn.Pkg.PkgPath) == hhp || strings.HasPrefix(s.Callee, hhp) {
				rel = append(rel, s)
			}
		}
		siteTable(c, "who-may-discard", rel, []siteRow{
			{hhp + ".(*NodeProcessor).Purge", "os.RemoveAll", 1, "removed/inactive node: whole queue directory (processor must be closed)"},
			{hhp + ".(*NodeProcessor).SendWrite", q("Advance"), 3, "delivered or permanently rejected block, EOF skip, undecodable block (D4)"},
			{hhp + ".(*NodeProcessor).SendWrite", q("Truncate"), 1, "corrupt block at the head: cut to the clean prefix"},
			{hhp + ".(*NodeProcessor).run", q("PurgeOlderThan"), 1, "age limit"},
			{hhp + ".(*Service).RemoveNode", "os.RemoveAll", 1, "removed node"},
			{hhp + ".(*Service).RemoveNode", hhp + ".(*NodeProcessor).Purge", 1, "removed node"},
			{hhp + ".(*Service).purgeInactiveProcessors", "os.RemoveAll", 1, "node directory once no processors remain"},
			{hhp + ".(*Service).purgeInactiveProcessors", hhp + ".(*NodeProcessor).Purge", 1, "empty queue, or inactive node + age limit (guard checked below)"},
			{q("Advance"), q("trimHead"), 1, "exhausted head segment"},
			{q("Advance"), seg("advance"), 1, "the advance itself"},
			{q("Open"), q("trimHead"), 1, "head already exhausted at open"},
			{q("PurgeOlderThan"), q("trimHead"), 1, "age limit"},
			{q("TrimExhaustedHead"), q("trimHead"), 1, "exhausted head segment, decided under the queue lock (the end-of-queue step of SendWrite)"},
			{q("Remove"), "os.RemoveAll", 1, "closed queue removal"},
			{q("Truncate"), seg("truncate"), 1, "corrupt block"},
			{q("trimHead"), "os.Remove", 1, "exhausted head segment file"},
			{seg("truncate"), "os.(*File).Truncate", 1, "corrupt block"},
			{hhp + ".newSegment", seg("truncate"), 1, "torn block found at reopen"},
		}, 14)
		// purgeInactiveProcessors: Purge only if Empty, or inactive and old
		f := c.Fn(hhp + ".(*Service).purgeInactiveProcessors")
		var inner *core.FuncInfo
		var walk func(x *core.FuncInfo)
		walk = func(x *core.FuncInfo) {
			if len(x.Graph().Find(evCall(calleeIn(x, hhp+".(*NodeProcessor).Purge")))) > 0 {
				inner = x
			}
			for _, l := range x.Lits {
				walk(l)
			}
		}
		walk(f)
		c.Need(inner != nil, "closure calling NodeProcessor.Purge")
		purge := calleeIn(inner, hhp+".(*NodeProcessor).Purge")
		// the answer of p.Empty(), tested directly (`!p.Empty()`) or through a boolean local (`empty := p.Empty()`)
		emptyAtom := func(x ast.Expr) (neg, ok bool) {
			x = ast.Unparen(derefLocal(inner, ast.Unparen(x)))
			if u, isU := x.(*ast.UnaryExpr); isU && u.Op == token.NOT {
				neg = true
				x = ast.Unparen(derefLocal(inner, ast.Unparen(u.X)))
			}
			ce, isC := x.(*ast.CallExpr)
			return neg, isC && calleeIn(inner, hhp+".(*NodeProcessor).Empty")(ce)
		}
		isEmpty := func(x ast.Expr) bool { _, ok := emptyAtom(x); return ok }
		foundEmpty := func(st core.State) bool {
			for k, fct := range st {
				if k.Root != nil || !strings.HasPrefix(k.Path, "cond:") || fct.Def == nil || fct.Bool == 0 {
					continue
				}
				if neg, ok := emptyAtom(fct.Def); ok && ((fct.Bool == 1 && !neg) || (fct.Bool == 2 && neg)) {
					return true
				}
			}
			return false
		}
		isActive := func(x ast.Expr) bool { id, ok := ast.Unparen(x).(*ast.Ident); return ok && id.Name == "active" }
		isYoung := func(x ast.Expr) bool { return strings.Contains(core.ExprStr(x), ".Before(") }
		bad := ""
		complete := inner.Flow().ExplorePaths(func(k core.VarKey, fct core.Fact) bool {
			if k.Root != nil && k.Path == "" {
				if b, ok := k.Root.Type().Underlying().(*types.Basic); ok && b.Kind() == types.Bool {
					return true // boolean locals tie the tests of one answer together
				}
			}
			return k.Root == nil && strings.HasPrefix(k.Path, "cond:") && fct.Def != nil && (isEmpty(fct.Def) || isActive(fct.Def) || isYoung(fct.Def))
		}, func(e *core.Event, st core.State) {
			if e.Kind != core.EvCall || !purge(e.Call) {
				return
			}
			// the queue was found empty on this path
			if foundEmpty(st) {
				return
			}
			if core.CondOutcome(st, isActive) == 2 && core.CondOutcome(st, isYoung) == 2 {
				return
			}
			bad = "NodeProcessor.Purge reachable for a non-empty queue without the node being inactive and the data older than the age limit"
		})
		c.Need(complete, "exploration bound purgeInactiveProcessors")
		c.Check("purge-guard", inner.Root().Name+"/Purge", inner.PosStr(), bad == "", bad)
	})

	c.Clause("D7", func() {
		f := c.Fn(hhp + ".(*NodeProcessor).WriteShard")
		info := f.Info()
		ap := fieldCallIn(f, "NodeProcessor.queue", "Append")
		aps := findOrAbort(c, f, "queue.Append", evCall(ap), 1)
		errPropagated(c, f, "error-surfaces", "queue.Append", ap)
		// the appended bytes come from marshalWrite(points[i:j])
		mw := calleeIn(f, hhp+".marshalWrite")
		var iObj, jObj types.Object
		var ptsObj types.Object
		for _, e := range f.Graph().Find(evCall(mw)) {
			if len(e.Call.Args) == 2 {
				if se, ok := e.Call.Args[1].(*ast.SliceExpr); ok {
					if lo, ok := se.Low.(*ast.Ident); ok {
						iObj = info.ObjectOf(lo)
					}
					if hi, ok := se.High.(*ast.Ident); ok {
						jObj = info.ObjectOf(hi)
					}
					if x, ok := se.X.(*ast.Ident); ok {
						ptsObj = info.ObjectOf(x)
					}
				}
			}
		}
		c.Need(iObj != nil && jObj != nil && ptsObj != nil, "marshalWrite(points[i:j]) window variables")
		for k, e := range aps {
			good := false
			if id, ok := ast.Unparen(e.Call.Args[0]).(*ast.Ident); ok {
				good = allDefsAre(f, info.ObjectOf(id), func(r ast.Expr) bool {
					ce, ok := ast.Unparen(r).(*ast.CallExpr)
					return ok && mw(ce)
				})
			}
			c.Check("append-what-was-marshalled", fmt.Sprintf("%s/Append#%d", f.Name, k+1), c.P.Pos(e.Pos()), good,
				"the block appended to the queue must be the result of marshalWrite over the current window")
		}
		// every assignment to i takes the previous j (no gap, no overlap); j only shrinks by bisection or is reset to len(points)
		nI, nJ := 0, 0
		ast.Inspect(f.Body, func(nd ast.Node) bool {
			as, ok := nd.(*ast.AssignStmt)
			if !ok {
				return true
			}
			for idx, l := range as.Lhs {
				id, ok := l.(*ast.Ident)
				if !ok || idx >= len(as.Rhs) || len(as.Lhs) != len(as.Rhs) {
					continue
				}
				switch info.ObjectOf(id) {
				case iObj:
					nI++
					good := false
					if r, ok := as.Rhs[idx].(*ast.Ident); ok && info.ObjectOf(r) == jObj {
						good = true
					}
					if tv := info.Types[as.Rhs[idx]]; tv.Value != nil {
						if v, ok := constInt(tv.Value); ok && v == 0 && as.Tok == token.DEFINE {
							good = true
						}
					}
					c.Check("window-no-gap", fmt.Sprintf("%s/assign-i#%d", f.Name, nI), c.P.Pos(as.Pos()), good,
						"the window start may only be initialised to 0 or moved to the previous window end (i = j); got "+core.ExprStr(as.Rhs[idx]))
				case jObj:
					nJ++
					good := false
					r := as.Rhs[idx]
					if isLenOf(info, r, ptsObj) {
						good = true
					} else if onlyMentions(info, r, iObj, jObj) && mentionsObj(info, r, iObj) && mentionsObj(info, r, jObj) {
						good = true // bisection between i and j
					}
					c.Check("window-no-gap", fmt.Sprintf("%s/assign-j#%d", f.Name, nJ), c.P.Pos(as.Pos()), good,
						"the window end may only be len(points) or a bisection point computed from i and j; got "+core.ExprStr(r))
				}
			}
			return true
		})
		c.Floor("window assignments", nI+nJ, 4)
		// success is reported only when the last appended window ended at len(points) (or the loop condition i<j failed)
		doneCond := func(x ast.Expr) bool {
			be, ok := ast.Unparen(x).(*ast.BinaryExpr)
			return ok && be.Op == token.EQL && ((isIdentObj(info, be.X, jObj) && isLenOf(info, be.Y, ptsObj)) || (isIdentObj(info, be.Y, jObj) && isLenOf(info, be.X, ptsObj)))
		}
		loopCond := func(x ast.Expr) bool {
			be, ok := ast.Unparen(x).(*ast.BinaryExpr)
			return ok && be.Op == token.LSS && isIdentObj(info, be.X, iObj) && isIdentObj(info, be.Y, jObj)
		}
		bad := ""
		complete := f.Flow().ExplorePaths(func(k core.VarKey, fct core.Fact) bool {
			return k.Root == nil && strings.HasPrefix(k.Path, "cond:") && fct.Def != nil && (doneCond(fct.Def) || loopCond(fct.Def))
		}, func(e *core.Event, st core.State) {
			if e.Kind != core.EvReturn {
				return
			}
			rf, _ := f.ReturnErrFact(e)
			if rf.Nil == core.NonNil {
				return
			}
			if x, _ := f.ResultExpr(e, 0); x != nil {
				if _, isIdent := ast.Unparen(x).(*ast.Ident); isIdent && !isNilExpr(info, x) {
					return // returns an error variable
				}
			}
			if core.CondOutcome(st, doneCond) == 1 || core.CondOutcome(st, loopCond) == 2 {
				return
			}
			bad = "WriteShard can return nil before the window reached len(points) @" + c.P.Pos(e.Pos())
		})
		c.Need(complete, "exploration bound WriteShard")
		c.Check("success-means-all-points-queued", f.Name+"/return-nil", f.PosStr(), bad == "", bad)
		// the closed check precedes any append
		orderRule(c, f, "closed-check-first", "closed()", "queue.Append", evCall(calleeIn(f, hhp+".(*NodeProcessor).closed")), evCall(ap))
	})

	c.Clause("D9", func() {
		// A segment that stops being the tail must not keep unflushed blocks: segment.append reports
		// ErrSegmentFull (which makes queue.Append rotate the tail) only after flushing its buffer.
		f := c.Fn(seg("append"))
		fl := calleeIn(f, seg("flush"))
		full := c.P.LookupObj(hhp, "ErrSegmentFull")
		c.Need(full != nil, "hh.ErrSegmentFull")
		n := 0
		for _, e := range f.Graph().Events {
			if e.Kind != core.EvReturn || !f.Flow().Reachable(e) {
				continue
			}
			x, _ := f.ResultExpr(e, 0)
			id, ok := ast.Unparen(x).(*ast.Ident)
			if x == nil || !ok || f.Info().ObjectOf(id) != full {
				continue
			}
			n++
			c.Check("flush-before-rotation", fmt.Sprintf("%s/return-ErrSegmentFull#%d", f.Name, n), c.P.Pos(e.Pos()), f.Flow().CallOKAt(e, fl),
				"segment.append returns ErrSegmentFull (the queue then makes a new segment the tail) without having flushed the blocks buffered in this segment; the deferred flush in queue.Append only flushes the new tail, so accepted blocks are never written")
		}
		c.Floor("ErrSegmentFull returns", n, 1)
		// queue.Append: the retry goes to the segment that has just been made the tail
		f = c.Fn(q("Append"))
		okRule(c, f, "rotate-then-retry", "addSegment", "store queue.tail", calleeIn(f, q("addSegment")), storeTo(f, "queue.tail"))

		// The segment list is ordered by numeric id wherever head/tail are derived from it.
		f = c.Fn(q("loadSegments"))
		sorted := func(e *core.Event) bool {
			if e.Kind != core.EvCall {
				return false
			}
			switch core.CalleeName(e) {
			case "sort.Sort", "sort.Stable", "sort.Slice", "sort.SliceStable":
				return true
			}
			return false
		}
		k := 0
		for _, e := range f.Graph().Events {
			if e.Kind != core.EvReturn || !f.Flow().Reachable(e) {
				continue
			}
			rf, _ := f.ReturnErrFact(e)
			if rf.Nil == core.NonNil {
				continue
			}
			k++
			p := f.Flow().PathAvoiding(f.Graph().Entry, func(x *core.Event) bool { return x == e }, sorted)
			c.Check("segments-sorted-by-id", fmt.Sprintf("%s/return#%d", f.Name, k), c.P.Pos(e.Pos()), p == nil,
				"loadSegments can return the segments in directory (lexicographic) order: head/tail are taken as first/last element, so with ids of different digit counts delivery order breaks after a reopen")
		}
		c.Floor("loadSegments success returns", k, 1)
		// segments.Less orders by id ascending
		less := c.Fn(hhp + ".segments.Less")
		goodLess := false
		ast.Inspect(less.Body, func(nd ast.Node) bool {
			if be, ok := nd.(*ast.BinaryExpr); ok && be.Op == token.LSS {
				li, lok := be.X.(*ast.SelectorExpr)
				ri, rok := be.Y.(*ast.SelectorExpr)
				if lok && rok && li.Sel.Name == ri.Sel.Name && core.FieldPathOf(less.Info(), li) == "segment.id" {
					lx, lok := li.X.(*ast.IndexExpr)
					rx, rok := ri.X.(*ast.IndexExpr)
					if lok && rok && core.ExprStr(lx.Index) == paramName(less, 0) && core.ExprStr(rx.Index) == paramName(less, 1) {
						goodLess = true
					}
				}
			}
			return true
		})
		c.Check("segments-sorted-by-id", less.Name+"/a[i].id<a[j].id", less.PosStr(), goodLess, "segments.Less must order by ascending numeric segment id")
		// head is the first, tail the last (or a freshly added) segment; who may move them
		for _, g := range c.P.FuncsIn(hhp) {
			if g.Body == nil {
				continue
			}
			info := g.Info()
			ast.Inspect(g.Body, func(nd ast.Node) bool {
				as, ok := nd.(*ast.AssignStmt)
				if !ok || len(as.Lhs) != len(as.Rhs) {
					return true
				}
				for i, l := range as.Lhs {
					fp := core.FieldPathOf(info, l)
					if fp != "queue.head" && fp != "queue.tail" {
						continue
					}
					r := ast.Unparen(as.Rhs[i])
					good := isNilExpr(info, r)
					if ix, ok := r.(*ast.IndexExpr); ok && core.FieldPathOf(info, ix.X) == "queue.segments" {
						if tv := info.Types[ix.Index]; tv.Value != nil {
							v, _ := constInt(tv.Value)
							good = fp == "queue.head" && v == 0
						} else if be, ok := ast.Unparen(ix.Index).(*ast.BinaryExpr); ok && be.Op == token.SUB && fp == "queue.tail" {
							if ce, ok := be.X.(*ast.CallExpr); ok && len(ce.Args) == 1 && core.FieldPathOf(info, ce.Args[0]) == "queue.segments" {
								if tv := info.Types[be.Y]; tv.Value != nil {
									v, _ := constInt(tv.Value)
									good = v == 1
								}
							}
						}
					}
					if id, ok := r.(*ast.Ident); ok && fp == "queue.tail" && !good {
						good = allDefsAre(g, info.ObjectOf(id), func(x ast.Expr) bool {
							ce, ok := ast.Unparen(x).(*ast.CallExpr)
							return ok && calleeIn(g, q("addSegment"))(ce)
						})
					}
					c.Check("head-first-tail-last", fmt.Sprintf("%s/store-%s", g.Root().Name, fp), c.P.Pos(as.Pos()), good,
						"queue.head may only become nil or segments[0]; queue.tail only nil, segments[len-1] or the segment just returned by addSegment; got "+core.ExprStr(r))
				}
				return true
			})
		}
	})

	c.Clause("D10", func() {
		// queue.tail is the last element of queue.segments whenever a queue method returns: every caller of
		// addSegment (which appends to the list) stores queue.tail before it can return success. A tail left on an
		// older segment receives the appends while head trimming closes and removes that segment.
		n := 0
		for _, g := range c.P.FuncsIn(hhp) {
			if g.Body == nil || g.Lit != nil {
				continue
			}
			add := calleeIn(g, q("addSegment"))
			tail := storeTo(g, "queue.tail")
			k := 0
			for _, a := range g.Graph().Find(evCall(add)) {
				k++
				n++
				p := g.Flow().PathAvoiding(a, func(x *core.Event) bool {
					if x.Kind != core.EvReturn {
						return false
					}
					if g.ErrResultIndex() >= 0 {
						if rf, _ := g.ReturnErrFact(x); rf.Nil == core.NonNil {
							return false
						}
					}
					return true
				}, tail)
				detail := ""
				if p != nil {
					detail = "a segment is appended to queue.segments and the function can return without queue.tail being moved to it: later appends go to the old tail, which head trimming closes and removes (every append is then refused with ErrNotOpen, or lands in a removed file): " + core.PathStr(p)
				}
				c.Check("tail-follows-added-segment", fmt.Sprintf("%s/addSegment#%d", g.Name, k), c.P.Pos(a.Pos()), p == nil, detail)
			}
		}
		c.Floor("callers of addSegment", n, 3)
	})
}

func paramName(f *core.FuncInfo, i int) string {
	idx := 0
	for _, fld := range f.Type.Params.List {
		for _, nm := range fld.Names {
			if idx == i {
				return nm.Name
			}
			idx++
		}
	}
	return ""
}

// storeTo matches assignment events whose LHS is the struct field "Type.field".
func storeTo(f *core.FuncInfo, field string) core.Match {
	return func(e *core.Event) bool {
		if e.Kind != core.EvAssign {
			return false
		}
		switch x := e.Node.(type) {
		case *ast.AssignStmt:
			for _, l := range x.Lhs {
				if core.FieldPathOf(f.Info(), l) == field {
					return true
				}
			}
		case *ast.IncDecStmt:
			return core.FieldPathOf(f.Info(), x.X) == field
		}
		return false
	}
}

func condText(st core.State, substr string) string {
	for k, f := range st {
		if k.Root == nil && strings.HasPrefix(k.Path, "cond:") && f.Def != nil && strings.Contains(core.ExprStr(f.Def), substr) {
			return core.ExprStr(f.Def)
		}
	}
	return ""
}

func defined(st core.State, m func(*ast.CallExpr) bool) bool {
	for _, f := range st {
		if ce, ok := f.Def.(*ast.CallExpr); ok && m(ce) {
			return true
		}
	}
	return false
}

func mentionsField(info *types.Info, e ast.Expr, fld *types.Var) bool {
	found := false
	ast.Inspect(e, func(n ast.Node) bool {
		if se, ok := n.(*ast.SelectorExpr); ok && info.Uses[se.Sel] == fld {
			found = true
		}
		return !found
	})
	return found
}

func mentionsObj(info *types.Info, e ast.Expr, o types.Object) bool {
	found := false
	ast.Inspect(e, func(n ast.Node) bool {
		if id, ok := n.(*ast.Ident); ok && info.ObjectOf(id) == o {
			found = true
		}
		return !found
	})
	return found
}

// onlyMentions: every variable identifier in e is one of objs (constants allowed).
func onlyMentions(info *types.Info, e ast.Expr, objs ...types.Object) bool {
	ok := true
	ast.Inspect(e, func(n ast.Node) bool {
		if id, isId := n.(*ast.Ident); isId {
			if v, isVar := info.ObjectOf(id).(*types.Var); isVar {
				hit := false
				for _, o := range objs {
					if o == v {
						hit = true
					}
				}
				if !hit {
					ok = false
				}
			}
		}
		if _, isCall := n.(*ast.CallExpr); isCall {
			ok = false
		}
		return ok
	})
	return ok
}

func isLenOf(info *types.Info, e ast.Expr, o types.Object) bool {
	ce, ok := ast.Unparen(e).(*ast.CallExpr)
	if !ok || len(ce.Args) != 1 {
		return false
	}
	if b, ok := core.Callee(info, ce).(*types.Builtin); !ok || b.Name() != "len" {
		return false
	}
	id, ok := ast.Unparen(ce.Args[0]).(*ast.Ident)
	return ok && info.ObjectOf(id) == o
}

func isIdentObj(info *types.Info, e ast.Expr, o types.Object) bool {
	id, ok := ast.Unparen(e).(*ast.Ident)
	return ok && info.ObjectOf(id) == o
}

func isNilExpr(info *types.Info, e ast.Expr) bool {
	id, ok := ast.Unparen(e).(*ast.Ident)
	if !ok {
		return false
	}
	_, isNil := info.ObjectOf(id).(*types.Nil)
	return isNil
}

func footerSizeOf(c *core.Ctx) int64 {
	o, ok := c.P.LookupObj(hhp, "footerSize").(*types.Const)
	c.Need(ok, "const hh.footerSize")
	v, _ := constInt(o.Val())
	return v
}

// noRealCallBefore2 is noRealCallBefore that also tolerates the listed (pure) callees.
func noRealCallBefore2(f *core.FuncInfo, e *core.Event, pure ...string) bool {
	set := map[string]bool{}
	for _, p := range pure {
		set[p] = true
	}
	real := func(x *core.Event) bool {
		if x.Kind != core.EvCall {
			return false
		}
		if _, isBuiltin := x.Callee.(*types.Builtin); isBuiltin {
			return false
		}
		return !set[core.CalleeName(x)]
	}
	fl := f.Flow()
	if !fl.ReachableFrom(f.Graph().Entry, real)[e] {
		return false
	}
	for _, x := range f.Graph().Events {
		if real(x) && fl.Reachable(x) {
			if p := fl.PathAvoiding(x, func(y *core.Event) bool { return y == e }, nil); p != nil {
				return false
			}
		}
	}
	return true
}

// allDefsAre: every assignment to obj inside f (excluding nested literals) has an RHS accepted by pred.
func allDefsAre(f *core.FuncInfo, obj types.Object, pred func(ast.Expr) bool) bool {
	if obj == nil {
		return false
	}
	info := f.Info()
	n, ok := 0, true
	ast.Inspect(f.Body, func(nd ast.Node) bool {
		switch x := nd.(type) {
		case *ast.AssignStmt:
			for i, l := range x.Lhs {
				if id, isId := l.(*ast.Ident); isId && info.ObjectOf(id) == obj {
					n++
					if len(x.Rhs) == 1 && len(x.Lhs) > 1 {
						if !pred(x.Rhs[0]) {
							ok = false
						}
					} else if len(x.Lhs) != len(x.Rhs) || !pred(x.Rhs[i]) {
						ok = false
					}
				}
			}
		case *ast.ValueSpec:
			for i, nm := range x.Names {
				if info.ObjectOf(nm) == obj {
					n++
					if i >= len(x.Values) || !pred(x.Values[i]) {
						ok = false
					}
				}
			}
		}
		return true
	})
	return ok && n > 0
}
