package props

import (
	"fmt"
	"go/ast"
	"go/token"
	"go/types"
	"regexp"
	"sort"
	"strings"

	"verifcheck/core"
)

// nilLookupFinding is one dereference of the result of a "returns nil when not found" lookup without a nil test.
type nilLookupFinding struct {
	Fn     *core.FuncInfo
	Pos    token.Pos
	Var    string
	Field  string
	Lookup string
}

// mayReturnNilLookups: declared repository functions with exactly one result of pointer type and no error result
// whose body contains `return nil` (the "nil means not found" convention).
func mayReturnNilLookups(p *core.Prog, pkgs []string) map[*types.Func]bool {
	out := map[*types.Func]bool{}
	for _, rel := range pkgs {
		for _, f := range p.FuncsIn(rel) {
			if f.Decl == nil || f.Obj == nil || f.Body == nil || f.Decl.Type.Results == nil || len(f.Decl.Type.Results.List) != 1 || len(f.Decl.Type.Results.List[0].Names) > 1 {
				continue
			}
			t := f.Info().TypeOf(f.Decl.Type.Results.List[0].Type)
			if _, isPtr := t.(*types.Pointer); !isPtr {
				continue
			}
			ast.Inspect(f.Body, func(nd ast.Node) bool {
				if _, ok := nd.(*ast.FuncLit); ok {
					return false
				}
				if rs, ok := nd.(*ast.ReturnStmt); ok && len(rs.Results) == 1 && isNilExpr(f.Info(), rs.Results[0]) {
					out[f.Obj] = true
				}
				return true
			})
		}
	}
	return out
}

// nilLookupDerefs lists the field dereferences, in the functions of pkgs, of variables whose value on some path
// is the unchecked result of a may-return-nil lookup.
func nilLookupDerefs(p *core.Prog, pkgs []string, lookups map[*types.Func]bool) []nilLookupFinding {
	var out []nilLookupFinding
	for _, rel := range pkgs {
		for _, f := range p.FuncsIn(rel) {
			if f.Body == nil {
				continue
			}
			finfo := f.Info()
			fl := f.Flow()
			seen := map[token.Pos]bool{}
			for _, e := range f.Graph().Events {
				if e.Node == nil || !fl.Reachable(e) {
					continue
				}
				ast.Inspect(e.Node, func(x ast.Node) bool {
					if _, ok := x.(*ast.FuncLit); ok {
						return false
					}
					se, ok := x.(*ast.SelectorExpr)
					if !ok {
						return true
					}
					id, ok := ast.Unparen(se.X).(*ast.Ident)
					if !ok {
						return true
					}
					v, ok := finfo.ObjectOf(id).(*types.Var)
					if !ok {
						return true
					}
					if _, isPtr := v.Type().(*types.Pointer); !isPtr {
						return true
					}
					if sel := finfo.Selections[se]; sel == nil || sel.Kind() != types.FieldVal {
						return true
					}
					fact := fl.In[e][core.VarKey{Root: v}]
					ce, isCall := fact.Def.(*ast.CallExpr)
					if !isCall || fact.Idx != 0 || fact.Nil == core.NonNil {
						return true
					}
					fn, _ := core.Callee(finfo, ce).(*types.Func)
					if fn == nil || !lookups[fn] || seen[se.Pos()] {
						return true
					}
					seen[se.Pos()] = true
					out = append(out, nilLookupFinding{Fn: f, Pos: se.Pos(), Var: id.Name, Field: se.Sel.Name, Lookup: core.FuncName(fn)})
					return true
				})
			}
		}
	}
	sort.Slice(out, func(i, j int) bool { return out[i].Pos < out[j].Pos })
	return out
}

// DumpNilLookups prints the sweep (debugging aid: verifcheck -nilsweep pkg,pkg).
func DumpNilLookups(p *core.Prog, pkgs string) {
	list := strings.Split(pkgs, ",")
	lk := mayReturnNilLookups(p, list)
	var names []string
	for fn := range lk {
		names = append(names, core.FuncName(fn))
	}
	sort.Strings(names)
	fmt.Printf("%d may-return-nil lookups\n", len(names))
	for _, f := range nilLookupDerefs(p, list, lk) {
		fmt.Printf("%s: %s.%s  <- %s   in %s\n", p.Pos(f.Pos), f.Var, f.Field, f.Lookup, f.Fn.Name)
	}
}

// DumpSwapped prints the suspicious sites of swappedArgSites over every loaded package of the module.
func DumpSwapped(p *core.Prog) {
	var rels []string
	for rel := range p.ByPath {
		rels = append(rels, rel)
	}
	sort.Strings(rels)
	sites, bad := swappedArgSites(p, rels, rels)
	fmt.Printf("%d sites compared\n", len(sites))
	for _, st := range sites {
		if d, ok := bad[st.Ev]; ok {
			fmt.Printf("%s: %s\n", p.Pos(st.Ev.Pos()), d)
		}
	}
}

// DumpDroppedErrors prints, for every function of the module whose name matches re, the fallible calls whose error is
// neither tested nor returned.
func DumpDroppedErrors(p *core.Prog, re string) {
	rx := regexp.MustCompile(re)
	n := 0
	for _, f := range p.AllFuncs() {
		if f.Body == nil || !rx.MatchString(f.Name) {
			continue
		}
		for _, e := range f.Graph().Events {
			if e.Kind != core.EvCall || e.Call == nil || !lastIsError(f.Info().TypeOf(e.Call)) {
				continue
			}
			n++
			if ok, detail := errUsed(f, e); !ok {
				fmt.Printf("%s: %s in %s: %s\n", p.Pos(e.Pos()), short(core.CalleeName(e)), f.Name, detail)
			}
		}
	}
	fmt.Printf("%d fallible calls examined\n", n)
}
