package core

import (
	"fmt"
	"go/ast"
	"go/token"
	"go/types"
	"sort"
	"strings"
)

// Nilness of a tracked value.
type Nilness int8

const (
	Unknown Nilness = iota
	IsNil
	NonNil
)

func (n Nilness) String() string { return [...]string{"unknown", "nil", "non-nil"}[n] }

// VarKey identifies a tracked value: a variable or a field path rooted at one.
type VarKey struct {
	Root types.Object
	Path string // "" for the variable itself, ".Err" for a field path
}

// Fact is what is known about a tracked value at a program point.
type Fact struct {
	Nil Nilness
	Def ast.Expr // defining expression (the call for multi-value calls); nil when unknown/merged
	Idx int      // result index when Def is a multi-value call
	// Bool facts: for boolean variables/conditions known true/false
	Bool int8 // 0 unknown, 1 true, 2 false
}

// State maps tracked values to facts. States are immutable once stored.
type State map[VarKey]Fact

func (s State) clone() State {
	n := make(State, len(s)+2)
	for k, v := range s {
		n[k] = v
	}
	return n
}

func equalState(a, b State) bool {
	if len(a) != len(b) {
		return false
	}
	for k, v := range a {
		if w, ok := b[k]; !ok || w != v {
			return false
		}
	}
	return true
}

func mergeState(a, b State) State {
	out := State{}
	for k, v := range a {
		w, ok := b[k]
		if !ok {
			continue
		}
		if v == w {
			out[k] = v
			continue
		}
		m := Fact{}
		if v.Def == w.Def && v.Idx == w.Idx {
			m.Def, m.Idx = v.Def, v.Idx
		}
		if v.Nil == w.Nil {
			m.Nil = v.Nil
		}
		if v.Bool == w.Bool {
			m.Bool = v.Bool
		}
		if m.Def != nil || m.Nil != Unknown || m.Bool != 0 {
			out[k] = m
		}
	}
	return out
}

// Flow is the result of the branch-sensitive forward dataflow of one function:
// In[e] is the state on entry to event e (nil map = unreachable).
type Flow struct {
	G        *Graph
	In       map[*Event]State
	volatile map[types.Object]bool
	rangeIdents map[*ast.Ident]bool
	feasCache   map[edgeKey]bool
}

// Flow computes (once) the dataflow.
func (f *FuncInfo) Flow() *Flow {
	if f.flow != nil {
		return f.flow
	}
	g := f.Graph()
	fl := &Flow{G: g, In: map[*Event]State{}, volatile: map[types.Object]bool{}}
	f.flow = fl
	if f.Body == nil {
		return fl
	}
	info := f.Info()
	// variables assigned or address-taken inside nested literals are volatile
	for _, l := range f.Lits {
		ast.Inspect(l.Body, func(n ast.Node) bool {
			switch x := n.(type) {
			case *ast.AssignStmt:
				for _, lh := range x.Lhs {
					if id, ok := lh.(*ast.Ident); ok {
						if o := info.ObjectOf(id); o != nil {
							fl.volatile[o] = true
						}
					}
				}
			case *ast.UnaryExpr:
				if x.Op == token.AND {
					if id, ok := x.X.(*ast.Ident); ok {
						if o := info.ObjectOf(id); o != nil {
							fl.volatile[o] = true
						}
					}
				}
			}
			return true
		})
	}
	ast.Inspect(f.Body, func(n ast.Node) bool {
		if x, ok := n.(*ast.UnaryExpr); ok && x.Op == token.AND {
			if id, ok := x.X.(*ast.Ident); ok {
				if o := info.ObjectOf(id); o != nil {
					if _, isErr := o.Type().Underlying().(*types.Interface); isErr {
						fl.volatile[o] = true
					}
				}
			}
		}
		return true
	})
	init := State{}
	// named results start at their zero value
	if f.Type != nil && f.Type.Results != nil {
		for _, fld := range f.Type.Results.List {
			for _, nm := range fld.Names {
				if o := info.Defs[nm]; o != nil && isNilable(o.Type()) && !fl.volatile[o] {
					init[VarKey{Root: o}] = Fact{Nil: IsNil}
				}
			}
		}
	}
	fl.In[g.Entry] = init
	work := []*Event{g.Entry}
	inWork := map[*Event]bool{g.Entry: true}
	iter := 0
	for len(work) > 0 && iter < 200000 {
		iter++
		e := work[0]
		work = work[1:]
		inWork[e] = false
		out := fl.transfer(e, fl.In[e])
		for _, ed := range e.Succ {
			st := out
			if ed.Cond != nil {
				st = fl.refineEdge(out, ed.Cond, ed.Val)
				if st == nil {
					continue // infeasible edge
				}
			}
			old, seen := fl.In[ed.To]
			var nw State
			if !seen {
				nw = st
			} else {
				nw = mergeState(old, st)
			}
			if !seen || !equalState(old, nw) {
				fl.In[ed.To] = nw
				if !inWork[ed.To] {
					work = append(work, ed.To)
					inWork[ed.To] = true
				}
			}
		}
	}
	return fl
}

func isNilable(t types.Type) bool {
	switch t.Underlying().(type) {
	case *types.Interface, *types.Pointer, *types.Slice, *types.Map, *types.Chan, *types.Signature:
		return true
	}
	return false
}

// KeyOf returns the tracked key of an expression: ident or ident.f.g ...
func KeyOf(info *types.Info, e ast.Expr) (VarKey, bool) {
	e = ast.Unparen(e)
	switch x := e.(type) {
	case *ast.Ident:
		o := info.ObjectOf(x)
		if v, ok := o.(*types.Var); ok {
			return VarKey{Root: v}, true
		}
	case *ast.SelectorExpr:
		if sel := info.Selections[x]; sel != nil && sel.Kind() == types.FieldVal {
			k, ok := KeyOf(info, x.X)
			if ok {
				k.Path += "." + x.Sel.Name
				return k, true
			}
		}
	case *ast.StarExpr:
		return KeyOf(info, x.X)
	}
	return VarKey{}, false
}

func isNilIdent(info *types.Info, e ast.Expr) bool {
	id, ok := ast.Unparen(e).(*ast.Ident)
	if !ok {
		return false
	}
	_, isNil := info.ObjectOf(id).(*types.Nil)
	return isNil
}

func (fl *Flow) kill(st State, root types.Object) {
	for k := range st {
		if k.Root == root {
			delete(st, k)
		}
	}
}

func (fl *Flow) set(st State, lhs ast.Expr, f Fact) {
	info := fl.G.Fn.Info()
	k, ok := KeyOf(info, lhs)
	if !ok {
		return
	}
	if k.Path == "" {
		fl.kill(st, k.Root)
		// outcomes of branch conditions that mention the variable are about its old value
		if v, ok := k.Root.(*types.Var); ok {
			for kk, ff := range st {
				if kk.Root == nil && strings.HasPrefix(kk.Path, "cond:") && ff.Def != nil && mentionsVar(info, ff.Def, v) {
					delete(st, kk)
				}
			}
		}
	} else {
		// kill this path and extensions
		for kk := range st {
			if kk.Root == k.Root && strings.HasPrefix(kk.Path, k.Path) {
				delete(st, kk)
			}
		}
	}
	if fl.volatile[k.Root] {
		return
	}
	if f.Nil != Unknown || f.Def != nil || f.Bool != 0 {
		st[k] = f
	}
}

// factOf evaluates the fact of an rvalue expression in state st.
func (fl *Flow) factOf(st State, e ast.Expr) Fact {
	info := fl.G.Fn.Info()
	e = ast.Unparen(e)
	if isNilIdent(info, e) {
		return Fact{Nil: IsNil, Def: e}
	}
	if id, ok := e.(*ast.Ident); ok {
		if c, ok := info.ObjectOf(id).(*types.Const); ok && c.Pkg() == nil {
			switch id.Name {
			case "true":
				return Fact{Bool: 1, Def: e}
			case "false":
				return Fact{Bool: 2, Def: e}
			}
		}
	}
	if isSentinelErr(info, e) {
		return Fact{Nil: NonNil, Def: e}
	}
	if k, ok := KeyOf(info, e); ok {
		if f, ok := st[k]; ok {
			return f
		}
		return Fact{}
	}
	f := Fact{Def: e}
	switch x := e.(type) {
	case *ast.UnaryExpr:
		if x.Op == token.AND {
			f.Nil = NonNil
		}
	case *ast.CompositeLit, *ast.FuncLit:
		f.Nil = NonNil
	case *ast.CallExpr:
		if o, ok := Callee(info, x).(*types.Builtin); ok && (o.Name() == "make" || o.Name() == "new") {
			f.Nil = NonNil
		}
		if fn, ok := Callee(info, x).(*types.Func); ok && fn.Pkg() != nil {
			switch fn.Pkg().Path() + "." + fn.Name() {
			case "errors.New", "fmt.Errorf":
				f.Nil = NonNil
			}
		}
	}
	return f
}

func (fl *Flow) transfer(e *Event, in State) State {
	if in == nil {
		in = State{}
	}
	info := fl.G.Fn.Info()
	switch e.Kind {
	case EvCall:
		if _, a := in[outcomeKey(e.Call, true)]; a {
			in = in.clone()
			delete(in, outcomeKey(e.Call, true))
		}
		if _, a := in[outcomeKey(e.Call, false)]; a {
			in = in.clone()
			delete(in, outcomeKey(e.Call, false))
		}
		// a call that receives a tracked root (as receiver, argument or &arg) may change
		// the fields below the passed access path
		var roots []VarKey
		addRoot := func(x ast.Expr) {
			x = ast.Unparen(x)
			if u, ok := x.(*ast.UnaryExpr); ok && u.Op == token.AND {
				x = ast.Unparen(u.X)
			}
			if k, ok := KeyOf(info, x); ok {
				roots = append(roots, k)
			}
		}
		for _, a := range e.Call.Args {
			addRoot(a)
		}
		if se, ok := e.Call.Fun.(*ast.SelectorExpr); ok {
			if info.Selections[se] != nil {
				addRoot(se.X)
			}
		}
		if len(roots) == 0 {
			return in
		}
		var out State
		for k := range in {
			if k.Path == "" || k.Root == nil {
				// the variable itself is unaffected unless its address was passed (volatile)
				continue
			}
			for _, r := range roots {
				if k.Root == r.Root && strings.HasPrefix(k.Path, r.Path) &&
					(len(k.Path) == len(r.Path) || k.Path[len(r.Path)] == '.') && len(k.Path) > len(r.Path) {
					if out == nil {
						out = in.clone()
					}
					delete(out, k)
				}
			}
		}
		if out != nil {
			return out
		}
		return in
	case EvAssign:
		out := in.clone()
		switch x := e.Node.(type) {
		case *ast.AssignStmt:
			if x.Tok != token.ASSIGN && x.Tok != token.DEFINE {
				for _, l := range x.Lhs {
					fl.set(out, l, Fact{})
				}
				return out
			}
			if len(x.Rhs) == 1 && len(x.Lhs) > 1 {
				rhs := ast.Unparen(x.Rhs[0])
				for i, l := range x.Lhs {
					f := Fact{Def: rhs, Idx: i}
					// v, ok := <-ch / m[k] / x.(T): ok is bool, v unknown
					fl.set(out, l, f)
				}
				return out
			}
			// parallel assignment: evaluate all RHS in the old state first
			facts := make([]Fact, len(x.Rhs))
			for i, r := range x.Rhs {
				facts[i] = fl.factOf(in, r)
			}
			for i, l := range x.Lhs {
				if i < len(facts) {
					fl.set(out, l, facts[i])
				}
			}
			return out
		case *ast.ValueSpec:
			for i, nm := range x.Names {
				o := info.Defs[nm]
				if o == nil {
					continue
				}
				if len(x.Values) == 0 {
					if isNilable(o.Type()) {
						fl.set(out, nm, Fact{Nil: IsNil})
					} else if b, ok := o.Type().Underlying().(*types.Basic); ok && b.Kind() == types.Bool {
						fl.set(out, nm, Fact{Bool: 2})
					}
				} else if len(x.Values) == len(x.Names) {
					fl.set(out, nm, fl.factOf(in, x.Values[i]))
				} else {
					fl.set(out, nm, Fact{Def: x.Values[0], Idx: i})
				}
			}
			return out
		case *ast.IncDecStmt:
			fl.set(out, x.X, Fact{})
			return out
		}
		return out
	case EvOther, EvCase:
		// range statement key/value definitions are cfg nodes (idents): kill them
		if id, ok := e.Node.(*ast.Ident); ok && fl.rangeVars()[id] {
			if o := info.ObjectOf(id); o != nil {
				for k := range in {
					if k.Root == o {
						out := in.clone()
						fl.kill(out, o)
						return out
					}
				}
			}
		}
	}
	return in
}

// refine narrows the state along a branch edge; returns nil if the edge is infeasible.
func (fl *Flow) refine(st State, cond ast.Expr, val bool) State {
	info := fl.G.Fn.Info()
	cond = ast.Unparen(cond)
	switch x := cond.(type) {
	case *ast.UnaryExpr:
		if x.Op == token.NOT {
			return fl.refine(st, x.X, !val)
		}
	case *ast.BinaryExpr:
		switch x.Op {
		case token.LAND:
			if val {
				s := fl.refine(st, x.X, true)
				if s == nil {
					return nil
				}
				return fl.refine(s, x.Y, true)
			}
			// !(a && b): if a known true then b false, etc.
			if fl.evalCond(st, x.X) == 1 {
				return fl.refine(st, x.Y, false)
			}
			if fl.evalCond(st, x.Y) == 1 {
				return fl.refine(st, x.X, false)
			}
			return st
		case token.LOR:
			if !val {
				s := fl.refine(st, x.X, false)
				if s == nil {
					return nil
				}
				return fl.refine(s, x.Y, false)
			}
			if fl.evalCond(st, x.X) == 2 {
				return fl.refine(st, x.Y, true)
			}
			if fl.evalCond(st, x.Y) == 2 {
				return fl.refine(st, x.X, true)
			}
			return st
		case token.EQL, token.NEQ:
			var other ast.Expr
			if isNilIdent(info, x.Y) {
				other = x.X
			} else if isNilIdent(info, x.X) {
				other = x.Y
			}
			if other != nil {
				k, ok := KeyOf(info, other)
				if !ok {
					// `f(...) != nil` tested directly: record the outcome of that call
					if ce, isCall := ast.Unparen(other).(*ast.CallExpr); isCall {
						n := IsNil
						if (x.Op == token.EQL) != val {
							n = NonNil
						}
						out := st.clone()
						fl.recordOutcome(out, other, Fact{Def: ce}, n)
						return out
					}
					return st
				}
				want := IsNil
				if (x.Op == token.EQL) != val {
					want = NonNil
				}
				cur := st[k]
				if cur.Nil != Unknown && cur.Nil != want {
					return nil
				}
				if fl.volatile[k.Root] {
					return st
				}
				out := st.clone()
				cur.Nil = want
				out[k] = cur
				fl.recordOutcome(out, other, cur, want)
				return out
			}
			// x == ErrSentinel established: x is non-nil (sentinel errors are non-nil package-level values)
			if (x.Op == token.EQL) == val {
				var tested ast.Expr
				if isSentinelErr(info, x.Y) {
					tested = x.X
				} else if isSentinelErr(info, x.X) {
					tested = x.Y
				}
				if tested != nil {
					if k, ok := KeyOf(info, tested); ok {
						cur := st[k]
						if cur.Nil == IsNil {
							return nil
						}
						if fl.volatile[k.Root] {
							return st
						}
						out := st.clone()
						cur.Nil = NonNil
						out[k] = cur
						fl.recordOutcome(out, tested, cur, NonNil)
						return out
					}
				}
			}
		}
	case *ast.Ident:
		if k, ok := KeyOf(info, x); ok {
			cur := st[k]
			want := int8(1)
			if !val {
				want = 2
			}
			if cur.Bool != 0 && cur.Bool != want {
				return nil
			}
			if fl.volatile[k.Root] {
				return st
			}
			out := st.clone()
			cur.Bool = want
			out[k] = cur
			return out
		}
	case *ast.SelectorExpr:
		if k, ok := KeyOf(info, x); ok {
			cur := st[k]
			want := int8(1)
			if !val {
				want = 2
			}
			if cur.Bool != 0 && cur.Bool != want {
				return nil
			}
			out := st.clone()
			cur.Bool = want
			out[k] = cur
			return out
		}
	}
	return st
}

// evalCond: 1 true, 2 false, 0 unknown.
func (fl *Flow) evalCond(st State, cond ast.Expr) int8 {
	info := fl.G.Fn.Info()
	cond = ast.Unparen(cond)
	switch x := cond.(type) {
	case *ast.UnaryExpr:
		if x.Op == token.NOT {
			switch fl.evalCond(st, x.X) {
			case 1:
				return 2
			case 2:
				return 1
			}
		}
	case *ast.BinaryExpr:
		if x.Op == token.EQL || x.Op == token.NEQ {
			var other ast.Expr
			if isNilIdent(info, x.Y) {
				other = x.X
			} else if isNilIdent(info, x.X) {
				other = x.Y
			}
			if other != nil {
				if k, ok := KeyOf(info, other); ok {
					switch st[k].Nil {
					case IsNil:
						if x.Op == token.EQL {
							return 1
						}
						return 2
					case NonNil:
						if x.Op == token.EQL {
							return 2
						}
						return 1
					}
				}
			}
		}
	case *ast.Ident, *ast.SelectorExpr:
		if k, ok := KeyOf(info, x); ok {
			return st[k].Bool
		}
	}
	return 0
}

// Reachable reports whether the event is reachable under the dataflow.
func (fl *Flow) Reachable(e *Event) bool {
	_, ok := fl.In[e]
	return ok
}

// ErrFactsFrom lists facts in the state at e whose defining expression is a
// call matched by m (any result index whose type is error, or all when anyIdx).
func (fl *Flow) FactsDefinedBy(e *Event, m func(*ast.CallExpr) bool) []Fact {
	var out []Fact
	st := fl.In[e]
	keys := make([]VarKey, 0, len(st))
	for k := range st {
		keys = append(keys, k)
	}
	sort.Slice(keys, func(i, j int) bool {
		if keys[i].Root.Pos() != keys[j].Root.Pos() {
			return keys[i].Root.Pos() < keys[j].Root.Pos()
		}
		return keys[i].Path < keys[j].Path
	})
	for _, k := range keys {
		f := st[k]
		if c, ok := f.Def.(*ast.CallExpr); ok && m(c) {
			out = append(out, f)
		}
	}
	return out
}

// FactOfExpr evaluates an expression in the state on entry to e.
func (fl *Flow) FactOfExpr(e *Event, x ast.Expr) Fact {
	st, ok := fl.In[e]
	if !ok {
		return Fact{}
	}
	return fl.factOf(st, x)
}

// outcomeKey is the state key of the historical fact "the most recent
// execution of this call expression returned a nil (ok) / non-nil error".
func outcomeKey(c *ast.CallExpr, ok bool) VarKey {
	if ok {
		return VarKey{Path: fmt.Sprintf("ok:%d", c.Pos())}
	}
	return VarKey{Path: fmt.Sprintf("fail:%d", c.Pos())}
}

var errorType = types.Universe.Lookup("error").Type()

func (fl *Flow) recordOutcome(out State, x ast.Expr, f Fact, n Nilness) {
	c, ok := f.Def.(*ast.CallExpr)
	if !ok {
		return
	}
	t := fl.G.Fn.Info().TypeOf(x)
	if t == nil || !types.Identical(t, errorType) {
		return
	}
	delete(out, outcomeKey(c, true))
	delete(out, outcomeKey(c, false))
	out[outcomeKey(c, n == IsNil)] = Fact{Nil: n, Def: c}
}

// CallOKAt reports whether, on every path reaching e, the most recent
// execution of some call matching m returned a nil error (established by a
// nil test of its error result).
func (fl *Flow) CallOKAt(e *Event, m func(*ast.CallExpr) bool) bool {
	for k, f := range fl.In[e] {
		if k.Root == nil && strings.HasPrefix(k.Path, "ok:") {
			if c, ok := f.Def.(*ast.CallExpr); ok && m(c) {
				return true
			}
		}
	}
	return false
}

// CallFailedAt: on every path reaching e some call matching m returned a non-nil error.
func (fl *Flow) CallFailedAt(e *Event, m func(*ast.CallExpr) bool) bool {
	for k, f := range fl.In[e] {
		if k.Root == nil && strings.HasPrefix(k.Path, "fail:") {
			if c, ok := f.Def.(*ast.CallExpr); ok && m(c) {
				return true
			}
		}
	}
	return false
}

// ExplorePaths walks the product of the event graph with the (projected)
// abstract state, without merging at joins: visit is called once per distinct
// (event, state) pair. keep selects the facts that are carried along (fewer
// facts = fewer distinct states; dropping facts only adds paths). It returns
// false when the exploration bound was exceeded (the caller must fail closed).
func (fl *Flow) ExplorePaths(keep func(k VarKey, f Fact) bool, visit func(e *Event, st State)) bool {
	return fl.ExplorePathsMarked(keep, nil, visit)
}

// ExplorePathsMarked is ExplorePaths with path markers: when mark(e) returns a non-empty
// name the fact "mark:<name>" is set on every path that has passed e (read with Marked).
func (fl *Flow) ExplorePathsMarked(keep func(k VarKey, f Fact) bool, mark func(e *Event) string, visit func(e *Event, st State)) bool {
	const bound = 400000
	type item struct {
		e  *Event
		st State
	}
	fp := func(st State) string {
		keys := make([]string, 0, len(st))
		for k, f := range st {
			d := 0
			if f.Def != nil {
				d = int(f.Def.Pos())
			}
			r := 0
			if k.Root != nil {
				r = int(k.Root.Pos())
			}
			keys = append(keys, fmt.Sprintf("%d%s=%d/%d/%d/%d", r, k.Path, f.Nil, f.Bool, d, f.Idx))
		}
		sort.Strings(keys)
		return strings.Join(keys, ";")
	}
	project := func(st State) State {
		out := State{}
		for k, f := range st {
			if keep == nil || keep(k, f) || (k.Root == nil && strings.HasPrefix(k.Path, "mark:")) {
				out[k] = f
			}
		}
		return out
	}
	g := fl.G
	seen := map[*Event]map[string]bool{}
	init := project(fl.In[g.Entry])
	work := []item{{g.Entry, init}}
	n := 0
	for len(work) > 0 {
		it := work[len(work)-1]
		work = work[:len(work)-1]
		k := fp(it.st)
		if seen[it.e] == nil {
			seen[it.e] = map[string]bool{}
		}
		if seen[it.e][k] {
			continue
		}
		seen[it.e][k] = true
		n++
		if n > bound {
			return false
		}
		visit(it.e, it.st)
		out := fl.transfer(it.e, it.st)
		if mark != nil {
			if name := mark(it.e); name != "" {
				out = out.clone()
				for _, nm := range strings.Split(name, ",") {
					if strings.HasPrefix(nm, "-") {
						delete(out, VarKey{Path: "mark:" + nm[1:]})
					} else if nm != "" {
						out[VarKey{Path: "mark:" + nm}] = Fact{Bool: 1}
					}
				}
			}
		}
		for _, ed := range it.e.Succ {
			st := out
			if ed.Cond != nil {
				st = fl.refineEdge(out, ed.Cond, ed.Val)
				if st == nil {
					continue
				}
			}
			work = append(work, item{ed.To, project(st)})
		}
	}
	return true
}

// OutcomeOK reports whether state st records that the last execution of a call matching m returned nil.
func OutcomeOK(st State, m func(*ast.CallExpr) bool) bool {
	for k, f := range st {
		if k.Root == nil && strings.HasPrefix(k.Path, "ok:") {
			if c, ok := f.Def.(*ast.CallExpr); ok && m(c) {
				return true
			}
		}
	}
	return false
}

// OutcomeFailed: the last execution of a call matching m returned a non-nil error.
func OutcomeFailed(st State, m func(*ast.CallExpr) bool) bool {
	for k, f := range st {
		if k.Root == nil && strings.HasPrefix(k.Path, "fail:") {
			if c, ok := f.Def.(*ast.CallExpr); ok && m(c) {
				return true
			}
		}
	}
	return false
}

// KeepCalls is a projection that keeps facts defined by (or recording the outcome of)
// calls matching m, plus facts on the listed field/variable paths (matched by path suffix).
func KeepCalls(m func(*ast.CallExpr) bool, paths ...string) func(VarKey, Fact) bool {
	return func(k VarKey, f Fact) bool {
		if c, ok := f.Def.(*ast.CallExpr); ok && m != nil && m(c) {
			return true
		}
		for _, p := range paths {
			if k.Path == p || (k.Path == "" && k.Root != nil && k.Root.Name() == p) {
				return true
			}
			if k.Root == nil && strings.HasPrefix(k.Path, "cond:") && f.Def != nil && strings.Contains(types.ExprString(f.Def), p) {
				return true
			}
		}
		return false
	}
}

// BoolOf returns the known truth of a tracked path (by path suffix or variable name) in st.
func BoolOf(st State, path string) int8 {
	for k, f := range st {
		if k.Path == path || (k.Path == "" && k.Root != nil && k.Root.Name() == path) {
			return f.Bool
		}
	}
	return 0
}

// isSentinelErr: a package-level variable of type error (ErrFoo sentinels are never nil).
func isSentinelErr(info *types.Info, e ast.Expr) bool {
	var id *ast.Ident
	switch x := ast.Unparen(e).(type) {
	case *ast.Ident:
		id = x
	case *ast.SelectorExpr:
		if _, isPkg := info.ObjectOf(identOf(x.X)).(*types.PkgName); isPkg {
			id = x.Sel
		}
	}
	if id == nil {
		return false
	}
	v, ok := info.ObjectOf(id).(*types.Var)
	if !ok || v.Pkg() == nil || v.Parent() != v.Pkg().Scope() {
		return false
	}
	return types.Identical(v.Type(), errorType)
}

func identOf(e ast.Expr) *ast.Ident {
	id, _ := ast.Unparen(e).(*ast.Ident)
	if id == nil {
		return &ast.Ident{Name: "_"}
	}
	return id
}

// condKey is the historical fact "the most recent evaluation of this branch condition was true/false".
func condKey(c ast.Expr) VarKey { return VarKey{Path: fmt.Sprintf("cond:%d", c.Pos())} }

// refineEdge applies refine and records the outcome of the whole condition.
// expandNamedCond replaces boolean locals that are named sub-conditions (a single definition whose operands are
// themselves never reassigned) by their definitions, so that `ok := a && b; if ok {` refines and records the same
// facts as `if a && b {`.
func (fl *Flow) expandNamedCond(cond ast.Expr, depth int) ast.Expr {
	if depth > 3 {
		return cond
	}
	fn := fl.G.Fn
	info := fn.Info()
	switch e := cond.(type) {
	// (the original node is returned whenever nothing below it was expanded: rules compare conditions by identity)
	case *ast.ParenExpr:
		if x := fl.expandNamedCond(e.X, depth); x != e.X {
			return &ast.ParenExpr{Lparen: e.Lparen, X: x, Rparen: e.Rparen}
		}
		return cond
	case *ast.UnaryExpr:
		if e.Op == token.NOT {
			if x := fl.expandNamedCond(e.X, depth); x != e.X {
				return &ast.UnaryExpr{OpPos: e.OpPos, Op: e.Op, X: x}
			}
		}
		return cond
	case *ast.BinaryExpr:
		if e.Op == token.LAND || e.Op == token.LOR {
			x, y := fl.expandNamedCond(e.X, depth), fl.expandNamedCond(e.Y, depth)
			if x != e.X || y != e.Y {
				return &ast.BinaryExpr{X: x, OpPos: e.OpPos, Op: e.Op, Y: y}
			}
		}
		return cond
	case *ast.Ident:
		v, ok := info.ObjectOf(e).(*types.Var)
		if !ok || v.Pkg() == nil || v.Parent() == v.Pkg().Scope() || v.IsField() {
			return cond
		}
		if b, ok := v.Type().Underlying().(*types.Basic); !ok || b.Kind() != types.Bool {
			return cond
		}
		def := singleDef(fn, info, v)
		if def == nil {
			return cond
		}
		// the definition must be the variable's declaration (x := ...): a `var x bool` that is assigned once
		// later has two values, the zero value and the assigned one
		isDecl := false
		ast.Inspect(fn.Root().Body, func(n ast.Node) bool {
			if as, ok := n.(*ast.AssignStmt); ok && as.Tok == token.DEFINE {
				for _, l := range as.Lhs {
					if id, ok := l.(*ast.Ident); ok && info.Defs[id] == types.Object(v) {
						isDecl = true
					}
				}
			}
			return !isDecl
		})
		if !isDecl {
			return cond
		}
		// every local the definition mentions must itself be stable (single definition or never assigned)
		stable := true
		ast.Inspect(def, func(n ast.Node) bool {
			id, ok := n.(*ast.Ident)
			if !ok {
				return true
			}
			o, ok := info.ObjectOf(id).(*types.Var)
			if !ok || o.Pkg() == nil || o.Parent() == o.Pkg().Scope() || o.IsField() {
				return true
			}
			if assignCount(fn, info, o) > 1 {
				stable = false
			}
			return stable
		})
		if !stable {
			return cond
		}
		return &ast.ParenExpr{Lparen: e.Pos(), X: fl.expandNamedCond(def, depth+1), Rparen: e.End()}
	}
	return cond
}

// declaredByDefine: v is introduced by a short variable declaration (so it has no separate zero value).
func declaredByDefine(f *FuncInfo, info *types.Info, v *types.Var) bool {
	isDecl := false
	ast.Inspect(f.Root().Body, func(n ast.Node) bool {
		if as, ok := n.(*ast.AssignStmt); ok && as.Tok == token.DEFINE {
			for _, l := range as.Lhs {
				if id, ok := l.(*ast.Ident); ok && info.Defs[id] == types.Object(v) {
					isDecl = true
				}
			}
		}
		return !isDecl
	})
	return isDecl
}

// assignCount counts the assignments (definitions included) of local v in the root function of f.
func assignCount(f *FuncInfo, info *types.Info, v *types.Var) int {
	n := 0
	ast.Inspect(f.Root().Body, func(nd ast.Node) bool {
		switch s := nd.(type) {
		case *ast.AssignStmt:
			for _, l := range s.Lhs {
				if id, ok := l.(*ast.Ident); ok && info.ObjectOf(id) == types.Object(v) {
					n++
				}
			}
		case *ast.IncDecStmt:
			if id, ok := s.X.(*ast.Ident); ok && info.ObjectOf(id) == types.Object(v) {
				n += 2
			}
		case *ast.RangeStmt:
			for _, l := range []ast.Expr{s.Key, s.Value} {
				if id, ok := l.(*ast.Ident); ok && info.ObjectOf(id) == types.Object(v) {
					n += 2
				}
			}
		case *ast.UnaryExpr:
			if s.Op == token.AND {
				if id, ok := s.X.(*ast.Ident); ok && info.ObjectOf(id) == types.Object(v) {
					n += 2 // address taken: may change behind our back
				}
			}
		}
		return true
	})
	return n
}

func (fl *Flow) refineEdge(st State, cond ast.Expr, val bool) State {
	key := condKey(cond)
	cond = fl.expandNamedCond(cond, 0)
	out := fl.refine(st, cond, val)
	if out == nil {
		return nil
	}
	out = out.clone()
	b := int8(1)
	if !val {
		b = 2
	}
	out[key] = Fact{Bool: b, Def: cond}
	return out
}

// CondOutcome returns 1/2 when the most recent evaluation of a branch condition matching m
// was true/false in st (0 unknown / not evaluated on some path).
func CondOutcome(st State, m func(ast.Expr) bool) int8 {
	var res int8
	for k, f := range st {
		if k.Root == nil && strings.HasPrefix(k.Path, "cond:") && f.Def != nil && m(f.Def) {
			if res != 0 && res != f.Bool {
				return 0
			}
			res = f.Bool
		}
	}
	return res
}

func (fl *Flow) rangeVars() map[*ast.Ident]bool {
	if fl.rangeIdents != nil {
		return fl.rangeIdents
	}
	fl.rangeIdents = map[*ast.Ident]bool{}
	if fl.G.Fn.Body != nil {
		ast.Inspect(fl.G.Fn.Body, func(n ast.Node) bool {
			if rs, ok := n.(*ast.RangeStmt); ok {
				if id, ok := rs.Key.(*ast.Ident); ok {
					fl.rangeIdents[id] = true
				}
				if id, ok := rs.Value.(*ast.Ident); ok {
					fl.rangeIdents[id] = true
				}
			}
			return true
		})
	}
	return fl.rangeIdents
}

// Marked reports whether the path leading to this state passed an event marked name.
func Marked(st State, name string) bool {
	_, ok := st[VarKey{Path: "mark:" + name}]
	return ok
}
