package props

import (
	"fmt"
	"go/ast"
	"go/token"
	"go/types"

	"verifcheck/core"
)

// runEncodeCursorWritten (C13 D6): the WAL entry encoders write into a caller-supplied buffer that WAL.writeToLog
// takes from a pool and that is NOT zeroed. Every byte of the encoding therefore has to be stored by the encoder:
// on every path, between two advances of the output cursor (n++, n += k) there is a store into the output buffer
// (buf[..] = .., binary.*.PutUintNN(buf[..], ..), copy(buf[..], ..)); `n += copy(buf[n:], ..)` is store and advance
// in one. An arm that only advances the cursor ("false is the zero byte anyway") writes whatever an earlier entry
// left in the pooled buffer into the log, and replay decodes that.
func runEncodeCursorWritten(c *core.Ctx) {
	fns := []string{
		tsm1 + ".(*WriteWALEntry).Encode",
		tsm1 + ".(*DeleteWALEntry).Encode",
		tsm1 + ".(*DeleteRangeWALEntry).Encode",
	}
	total := 0
	for _, name := range fns {
		f := c.Fn(name)
		info := f.Info()
		// the output buffer: the []byte parameter
		var buf types.Object
		for _, fld := range f.Decl.Type.Params.List {
			for _, nm := range fld.Names {
				if s, ok := info.TypeOf(fld.Type).Underlying().(*types.Slice); ok {
					if b, ok := s.Elem().Underlying().(*types.Basic); ok && b.Kind() == types.Uint8 {
						buf = info.ObjectOf(nm)
					}
				}
			}
		}
		c.Need(buf != nil, name+": []byte output parameter")
		mentionsBuf := func(x ast.Expr) bool {
			found := false
			ast.Inspect(x, func(nd ast.Node) bool {
				if id, ok := nd.(*ast.Ident); ok && info.ObjectOf(id) == buf {
					found = true
				}
				return true
			})
			return found
		}
		// is x an element or sub-slice of the output buffer?
		intoBuf := func(x ast.Expr) bool {
			switch v := ast.Unparen(x).(type) {
			case *ast.IndexExpr:
				id, ok := ast.Unparen(v.X).(*ast.Ident)
				return ok && info.ObjectOf(id) == buf
			case *ast.SliceExpr:
				id, ok := ast.Unparen(v.X).(*ast.Ident)
				return ok && info.ObjectOf(id) == buf
			case *ast.Ident:
				return info.ObjectOf(v) == buf
			}
			return false
		}
		isStoreCall := func(ce *ast.CallExpr) bool {
			if len(ce.Args) == 0 || !intoBuf(ce.Args[0]) {
				return false
			}
			if id, ok := ast.Unparen(ce.Fun).(*ast.Ident); ok {
				if b, ok := info.ObjectOf(id).(*types.Builtin); ok && b.Name() == "copy" {
					return true
				}
			}
			if fn, ok := core.Callee(info, ce).(*types.Func); ok && fn.Pkg() != nil && fn.Pkg().Path() == "encoding/binary" {
				switch fn.Name() {
				case "PutUint16", "PutUint32", "PutUint64":
					return true
				}
			}
			return false
		}
		// cursor variables: int locals advanced by ++ / += in this function and used inside an index or slice bound
		// of the output buffer
		cursors := map[types.Object]bool{}
		ast.Inspect(f.Body, func(nd ast.Node) bool {
			var bounds []ast.Expr
			switch v := nd.(type) {
			case *ast.IndexExpr:
				if intoBuf(v) {
					bounds = append(bounds, v.Index)
				}
			case *ast.SliceExpr:
				if intoBuf(v) {
					bounds = append(bounds, v.Low, v.High)
				}
			}
			for _, b := range bounds {
				if b == nil {
					continue
				}
				ast.Inspect(b, func(x ast.Node) bool {
					if id, ok := x.(*ast.Ident); ok {
						if vv, ok := info.ObjectOf(id).(*types.Var); ok && vv != buf {
							if bt, ok := vv.Type().Underlying().(*types.Basic); ok && bt.Info()&types.IsInteger != 0 {
								cursors[vv] = true
							}
						}
					}
					return true
				})
			}
			return true
		})
		advanceOf := func(e *core.Event) types.Object {
			if e.Kind != core.EvAssign {
				return nil
			}
			switch st := e.Node.(type) {
			case *ast.IncDecStmt:
				if id, ok := ast.Unparen(st.X).(*ast.Ident); ok && st.Tok == token.INC && cursors[info.ObjectOf(id)] {
					return info.ObjectOf(id)
				}
			case *ast.AssignStmt:
				if st.Tok == token.ADD_ASSIGN && len(st.Lhs) == 1 {
					if id, ok := ast.Unparen(st.Lhs[0]).(*ast.Ident); ok && cursors[info.ObjectOf(id)] {
						return info.ObjectOf(id)
					}
				}
			}
			return nil
		}
		isStore := func(e *core.Event) bool {
			switch e.Kind {
			case core.EvCall:
				return e.Call != nil && isStoreCall(e.Call)
			case core.EvAssign:
				if as, ok := e.Node.(*ast.AssignStmt); ok {
					for _, l := range as.Lhs {
						if _, isIdx := ast.Unparen(l).(*ast.IndexExpr); isIdx && intoBuf(l) {
							return true
						}
					}
					// n += copy(buf[n:], k): the store is evaluated as part of the advancing statement
					for _, r := range as.Rhs {
						st := false
						ast.Inspect(r, func(nd ast.Node) bool {
							if ce, ok := nd.(*ast.CallExpr); ok && isStoreCall(ce) {
								st = true
							}
							return true
						})
						if st {
							return true
						}
					}
				}
			}
			return false
		}
		_ = mentionsBuf
		var advances []*core.Event
		for _, e := range f.Graph().Events {
			if advanceOf(e) != nil && f.Flow().Reachable(e) {
				advances = append(advances, e)
			}
		}
		c.Need(len(advances) >= 2, name+": advances of the output cursor")
		for i, a := range advances {
			total++
			if isStore(a) {
				c.Check("cursor-advances-only-over-stored-bytes", fmt.Sprintf("%s/advance#%d", f.Name, i+1), c.P.Pos(a.Pos()), true, "")
				continue
			}
			avoid := func(e *core.Event) bool { return isStore(e) || (advanceOf(e) != nil && e != a) }
			target := func(e *core.Event) bool { return e == a }
			bad := ""
			starts := append([]*core.Event{f.Graph().Entry}, advances...)
			for _, s := range starts {
				var p []*core.Event
				if s == a {
					for _, ed := range a.Succ {
						if ed.To == a {
							p = []*core.Event{a, a}
						} else if !avoid(ed.To) {
							p = f.Flow().PathAvoiding(ed.To, target, avoid)
						}
						if p != nil {
							break
						}
					}
				} else {
					p = f.Flow().PathAvoiding(s, target, avoid)
				}
				if p != nil {
					from := "the start of the function"
					if s.Kind != core.EvEntry {
						from = "the advance @" + c.P.Pos(s.Pos())
					}
					bad = fmt.Sprintf("the output cursor is advanced here on a path from %s that stores nothing into the output buffer: the bytes skipped keep whatever the pooled, non-zeroed buffer held (WAL.writeToLog takes it from bytesPool), are written to the log and decoded on replay", from)
					break
				}
			}
			c.Check("cursor-advances-only-over-stored-bytes", fmt.Sprintf("%s/advance#%d", f.Name, i+1), c.P.Pos(a.Pos()), bad == "", bad)
		}
	}
	c.Floor("advances of the output cursor in the WAL entry encoders", total, 14)
}
