package core

import (
	"go/ast"
	"go/constant"
	"go/token"
	"go/types"
)

// EvalInt evaluates an integer expression tree with the given variable bindings
// (by object) and `len(x)` bindings (by object of x). It is constant folding over an
// expression tree, not execution of the program. ok is false when the expression
// contains anything but integer arithmetic over bound variables and constants.
func EvalInt(info *types.Info, e ast.Expr, vars map[types.Object]int64, lens map[types.Object]int64) (int64, bool) {
	e = ast.Unparen(e)
	if tv, ok := info.Types[e]; ok && tv.Value != nil && tv.Value.Kind() == constant.Int {
		return constant.Int64Val(tv.Value)
	}
	switch x := e.(type) {
	case *ast.Ident:
		if v, ok := vars[info.ObjectOf(x)]; ok {
			return v, true
		}
	case *ast.CallExpr:
		if len(x.Args) == 1 {
			// conversion int64(x) / int(x)
			if tv, ok := info.Types[x.Fun]; ok && tv.IsType() {
				return EvalInt(info, x.Args[0], vars, lens)
			}
			if b, ok := Callee(info, x).(*types.Builtin); ok && b.Name() == "len" {
				a := ast.Unparen(x.Args[0])
				if id, ok := a.(*ast.Ident); ok {
					if v, ok := lens[info.ObjectOf(id)]; ok {
						return v, true
					}
				}
				if se, ok := a.(*ast.SelectorExpr); ok {
					if v, ok := lens[info.ObjectOf(se.Sel)]; ok {
						return v, true
					}
				}
			}
		}
	case *ast.UnaryExpr:
		v, ok := EvalInt(info, x.X, vars, lens)
		if !ok {
			return 0, false
		}
		switch x.Op {
		case token.SUB:
			return -v, true
		case token.ADD:
			return v, true
		}
	case *ast.BinaryExpr:
		a, ok1 := EvalInt(info, x.X, vars, lens)
		b, ok2 := EvalInt(info, x.Y, vars, lens)
		if !ok1 || !ok2 {
			return 0, false
		}
		switch x.Op {
		case token.ADD:
			return a + b, true
		case token.SUB:
			return a - b, true
		case token.MUL:
			return a * b, true
		case token.QUO:
			if b == 0 {
				return 0, false
			}
			return a / b, true
		case token.REM:
			if b == 0 {
				return 0, false
			}
			return a % b, true
		case token.SHR:
			if b < 0 || b > 62 {
				return 0, false
			}
			return a >> uint(b), true
		case token.SHL:
			if b < 0 || b > 62 {
				return 0, false
			}
			return a << uint(b), true
		}
	}
	return 0, false
}
