package props

import (
	"fmt"
	"go/ast"
	"go/constant"
	"go/token"
	"go/types"
	"sort"
	"strings"

	"verifcheck/core"
)

func init() {
	register("C12", core.PropertyMeta{
		Explanation: "Decides structural clauses of C12; that every valid line 'means what it says' and that text/binary round trips are exact are statements about run-time values and are NOT decided. " +
			"D1 no binary point can crash the decoder through a length prefix: every length decoded in package models bounds a slice or allocation only after a test against the input length on every path, and a guard that does arithmetic on the length only counts when it cannot wrap (shared kernel with C15); " +
			"D2 one canonical tag order: every comparison of tag keys in the parser's sort machinery (sorted fast path, insertion sort comparator, duplicate check) compares keys extracted by the escape-aware scanner scanTo(..,'='), and package models never searches for a line-protocol delimiter with a raw byte search; " +
			"D3 a failed binary decode never yields a usable point: NewPointFromBytes returns a point only after UnmarshalBinary succeeded and returns a nil point with every error; " +
			"D4 writer/parser escape tables agree: every escape pair is backslash+character, and every delimiter the measurement / tag scanners stop at is a character the corresponding writer escapes; " +
			"(D4 also: the gate in front of tag escaping, Tags.needsEscape, looks for every character of the tag escape table in tag keys and in tag values;) " +
			"D5 the field-type dispatch that validates and rebuilds binary points covers the five field types; " +
			"D7 a float token in scientific notation is accepted by scanNumber only on paths where parseFloatBytes validated it (the scanner itself does not check the exponent's syntax); " +
			"D6 a malformed line is rejected without affecting the other lines: per loop iteration of ParsePointsWithPrecision a line whose parse failed is recorded and not kept, a line whose parse succeeded is kept, no line aborts the loop, and recorded failures surface as the call's error. " +
			"NOT decided: numeric parsing, timestamp precision arithmetic (overflow tests in SafeCalcTime), UTF-8 handling, exact float formatting. D5 also: every case of the binary-point validation switch can reject.",
		RuleText:    "obligation = (rule, function, site | table row); wire-length guard analysis; definition provenance of comparison operands; outcome facts; typed-AST table extraction; enum exhaustiveness; per-iteration marked path exploration",
		Assumptions: commonAssumptions,
	}, runC12)
}

// byteConst returns the byte value of a constant character/integer expression.
func byteConst(info *types.Info, x ast.Expr) (byte, bool) {
	tv, ok := info.Types[x]
	if !ok || tv.Value == nil || tv.Value.Kind() != constant.Int {
		return 0, false
	}
	v, exact := constant.Int64Val(tv.Value)
	if !exact || v < 0 || v > 255 {
		return 0, false
	}
	return byte(v), true
}

func runC12(c *core.Ctx) {
	const models = "models"
	c.Clause("D1", func() {
		n := boundsObligations(c, "decoded-length-bounded", []string{models})
		c.Floor("uses of decoded lengths in models", n, 2) // (4 today; 2 when the two reads share a helper)
	})

	c.Clause("D2", func() { runTagKeyComparisons(c) })

	c.Clause("D3", func() {
		f := c.Fn(models + ".NewPointFromBytes")
		um := func(ce *ast.CallExpr) bool {
			fn, ok := core.Callee(f.Info(), ce).(*types.Func)
			return ok && core.FuncName(fn) == models+".(*point).UnmarshalBinary"
		}
		returnsOnlyAfterOK(c, f, "point-only-after-successful-decode", "point.UnmarshalBinary", um, nil)
		// every return with a non-nil error returns a nil point
		k := 0
		for _, e := range f.Graph().Events {
			if e.Kind != core.EvReturn || !f.Flow().Reachable(e) {
				continue
			}
			rs, ok := e.Node.(*ast.ReturnStmt)
			if !ok || len(rs.Results) != 2 {
				continue
			}
			fact, _ := f.ReturnErrFact(e)
			if fact.Nil == core.IsNil {
				continue
			}
			k++
			tv := f.Info().Types[rs.Results[0]]
			c.Check("error-return-carries-no-point", fmt.Sprintf("%s/return#%d", f.Name, k), c.P.Pos(e.Pos()), tv.IsNil(),
				"a return that may carry an error also returns a point: a caller that logs the error and keeps the value would use a partially decoded point")
		}
		c.Floor("error returns of NewPointFromBytes", k, 5)
	})

	c.Clause("D4", func() {
		tables := map[string]map[byte]bool{}
		for _, tn := range []string{"measurementEscapeCodes", "tagEscapeCodes"} {
			v, _ := c.P.LookupObj(models, tn).(*types.Var)
			c.Need(v != nil, "models."+tn)
			tables[tn] = map[byte]bool{}
			pkg := c.P.ByPath[models]
			c.Need(pkg != nil, "package models")
			for _, file := range pkg.Syntax {
				ast.Inspect(file, func(nd ast.Node) bool {
					vs, ok := nd.(*ast.ValueSpec)
					if !ok {
						return true
					}
					for i, nm := range vs.Names {
						if pkg.TypesInfo.Defs[nm] != v || i >= len(vs.Values) {
							continue
						}
						cl, ok := vs.Values[i].(*ast.CompositeLit)
						if !ok {
							continue
						}
						for row, el := range cl.Elts {
							rl, ok := el.(*ast.CompositeLit)
							var kb, e0, e1 byte
							good := ok
							if ok {
								for _, fe := range rl.Elts {
									kv, isKV := fe.(*ast.KeyValueExpr)
									if !isKV {
										good = false
										continue
									}
									arr, isArr := kv.Value.(*ast.CompositeLit)
									if !isArr {
										good = false
										continue
									}
									switch kv.Key.(*ast.Ident).Name {
									case "k":
										if len(arr.Elts) == 1 {
											kb, _ = byteConst(pkg.TypesInfo, arr.Elts[0])
										} else {
											good = false
										}
									case "esc":
										if len(arr.Elts) == 2 {
											e0, _ = byteConst(pkg.TypesInfo, arr.Elts[0])
											e1, _ = byteConst(pkg.TypesInfo, arr.Elts[1])
										} else {
											good = false
										}
									}
								}
							}
							good = good && e0 == '\\' && e1 == kb && kb != 0
							c.Check("escape-pair-is-backslash-plus-char", fmt.Sprintf("%s/row%d", tn, row+1), c.P.Pos(el.Pos()), good,
								fmt.Sprintf("row %d of %s does not map a character to backslash + the same character: unescape(escape(x)) != x", row+1, tn))
							if good {
								tables[tn][kb] = true
							}
						}
					}
					return true
				})
			}
		}
		c.Floor("measurement escape rows", len(tables["measurementEscapeCodes"]), 2)
		c.Floor("tag escape rows", len(tables["tagEscapeCodes"]), 3)
		// delimiters the scanners stop at
		for _, row := range []struct{ fn, table string }{
			{"scanMeasurement", "measurementEscapeCodes"},
			{"scanTagsKey", "tagEscapeCodes"},
			{"scanTagsValue", "tagEscapeCodes"},
		} {
			f := c.Fn(models + "." + row.fn)
			info := f.Info()
			stops := map[byte]bool{}
			ast.Inspect(f.Body, func(nd ast.Node) bool {
				be, ok := nd.(*ast.BinaryExpr)
				if !ok || be.Op != token.EQL {
					return true
				}
				if _, isIdx := ast.Unparen(be.X).(*ast.IndexExpr); !isIdx {
					return true
				}
				if b, isC := byteConst(info, be.Y); isC && b != '\\' {
					stops[b] = true
				}
				return true
			})
			var ss []string
			for b := range stops {
				ss = append(ss, string(b))
			}
			sort.Strings(ss)
			c.Floor("delimiters tested by "+row.fn, len(stops), 2)
			for _, s := range ss {
				c.Check("scanner-delimiter-is-escaped-by-writer", fmt.Sprintf("%s/%q", f.Name, s), f.PosStr(), tables[row.table][s[0]],
					fmt.Sprintf("%s treats %q as a delimiter unless it is escaped, but %s has no escape for it: a name containing %q is written unescaped and parsed back as something else", row.fn, s, row.table, s))
			}
		}
		// the gate in front of escapeTag (Tags.needsEscape) looks for every character of the tag table in keys and in values
		ne := c.Fn(models + ".Tags.needsEscape")
		neInfo := ne.Info()
		tagTable := c.P.LookupObj(models, "tagEscapeCodes")
		fromTable := func(x ast.Expr) bool {
			// c.k[0] where c is (an element of) the table
			found := false
			ast.Inspect(x, func(nd ast.Node) bool {
				id, ok := nd.(*ast.Ident)
				if !ok {
					return true
				}
				o := neInfo.ObjectOf(id)
				if o == tagTable {
					found = true
				}
				// a local defined from the table
				ast.Inspect(ne.Body, func(d ast.Node) bool {
					switch s := d.(type) {
					case *ast.AssignStmt:
						for i, l := range s.Lhs {
							if lid, ok := l.(*ast.Ident); ok && neInfo.ObjectOf(lid) == o && i < len(s.Rhs) {
								ast.Inspect(s.Rhs[i], func(r ast.Node) bool {
									if rid, ok := r.(*ast.Ident); ok && neInfo.ObjectOf(rid) == tagTable {
										found = true
									}
									return true
								})
							}
						}
					case *ast.RangeStmt:
						for _, l := range []ast.Expr{s.Key, s.Value} {
							if lid, ok := l.(*ast.Ident); ok && neInfo.ObjectOf(lid) == o {
								if rid, ok := ast.Unparen(s.X).(*ast.Ident); ok && neInfo.ObjectOf(rid) == tagTable {
									found = true
								}
							}
						}
					}
					return true
				})
				return !found
			})
			return found
		}
		cover := map[string]map[byte]bool{"Key": {}, "Value": {}}
		full := map[string]bool{}
		ast.Inspect(ne.Body, func(nd ast.Node) bool {
			ce, ok := nd.(*ast.CallExpr)
			if !ok || len(ce.Args) != 2 {
				return true
			}
			fn, ok := core.Callee(neInfo, ce).(*types.Func)
			if !ok || fn.Pkg() == nil || fn.Pkg().Path() != "bytes" {
				return true
			}
			se, ok := ast.Unparen(ce.Args[0]).(*ast.SelectorExpr)
			if !ok || se.Sel.Name != "Key" && se.Sel.Name != "Value" {
				return true
			}
			fld := se.Sel.Name
			if fromTable(ce.Args[1]) {
				full[fld] = true
				return true
			}
			if b, isC := byteConst(neInfo, ce.Args[1]); isC {
				cover[fld][b] = true
			} else if tv := neInfo.Types[ce.Args[1]]; tv.Value != nil && tv.Value.Kind() == constant.String {
				for _, ch := range []byte(constant.StringVal(tv.Value)) {
					cover[fld][ch] = true
				}
			}
			return true
		})
		for _, fld := range []string{"Key", "Value"} {
			var missing []string
			for ch := range tables["tagEscapeCodes"] {
				if !full[fld] && !cover[fld][ch] {
					missing = append(missing, string(ch))
				}
			}
			sort.Strings(missing)
			c.Check("escape-gate-covers-table", fmt.Sprintf("%s/%s", ne.Name, fld), ne.PosStr(), len(missing) == 0,
				fmt.Sprintf("Tags.needsEscape does not look for %q in tag %ss although escapeTag escapes them: a tag set whose only special character is one of these is written unescaped, so the key built from the tags differs from the parsed key (different series, different shard hash) and does not parse back", missing, strings.ToLower(fld)))
		}

		// the writers use the tables they are checked against
		for _, row := range []struct{ fn, table string }{
			{"EscapeMeasurement", "measurementEscapeCodes"}, {"unescapeMeasurement", "measurementEscapeCodes"},
			{"escapeTag", "tagEscapeCodes"}, {"unescapeTag", "tagEscapeCodes"},
		} {
			f := c.Fn(models + "." + row.fn)
			v := c.P.LookupObj(models, row.table)
			uses := false
			ast.Inspect(f.Body, func(nd ast.Node) bool {
				if id, ok := nd.(*ast.Ident); ok && f.Info().ObjectOf(id) == v {
					uses = true
				}
				return true
			})
			c.Check("escape-and-unescape-share-one-table", f.Name, f.PosStr(), uses, row.fn+" does not iterate "+row.table)
		}
	})

	c.Clause("D5", func() { runBinaryPointDispatch(c) })

	c.Clause("D7", func() {
		// number tokens the scanner cannot validate itself are validated by the float parser: a float token in
		// scientific notation is accepted only after parseFloatBytes returned nil
		f := c.Fn(models + ".scanNumber")
		info := f.Info()
		// flags: boolean locals set to true in a branch that compares the current byte with given characters
		flagFor := func(chars ...byte) types.Object {
			var res types.Object
			ast.Inspect(f.Body, func(nd ast.Node) bool {
				ifs, ok := nd.(*ast.IfStmt)
				if !ok {
					return true
				}
				hit := false
				ast.Inspect(ifs.Cond, func(x ast.Node) bool {
					if be, ok := x.(*ast.BinaryExpr); ok && be.Op == token.EQL {
						if b, isC := byteConst(info, be.Y); isC {
							for _, ch := range chars {
								if b == ch {
									hit = true
								}
							}
						}
					}
					return true
				})
				if !hit {
					return true
				}
				for _, s := range ifs.Body.List {
					if as, ok := s.(*ast.AssignStmt); ok && len(as.Lhs) == 1 && len(as.Rhs) == 1 && core.ExprStr(as.Rhs[0]) == "true" {
						if id, ok := as.Lhs[0].(*ast.Ident); ok && res == nil {
							res = info.ObjectOf(id)
						}
					}
				}
				return true
			})
			return res
		}
		sci, isInt, isUns := flagFor('e', 'E'), flagFor('i'), flagFor('u')
		c.Need(sci != nil && isInt != nil && isUns != nil, "scanNumber: flags for scientific notation, integer and unsigned suffix")
		pf := calleeIn(f, models+".parseFloatBytes")
		findOrAbort(c, f, "parseFloatBytes", evCall(pf), 1)
		mentions := func(x ast.Expr) bool {
			found := false
			ast.Inspect(x, func(nd ast.Node) bool {
				if id, ok := nd.(*ast.Ident); ok {
					if o := info.ObjectOf(id); o == sci || o == isInt || o == isUns {
						found = true
					}
				}
				return !found
			})
			return found
		}
		bad := ""
		nRet := 0
		seen := map[*core.Event]bool{}
		complete := f.Flow().ExplorePaths(func(k core.VarKey, fct core.Fact) bool {
			if ce, ok := fct.Def.(*ast.CallExpr); ok && pf(ce) {
				return true
			}
			return k.Root == nil && strings.HasPrefix(k.Path, "cond:") && fct.Def != nil && mentions(fct.Def)
		}, func(e *core.Event, st core.State) {
			if e.Kind != core.EvReturn {
				return
			}
			fact, _ := f.ReturnErrFact(e)
			if fact.Nil != core.IsNil {
				return
			}
			if !seen[e] {
				seen[e] = true
				nRet++
			}
			val := map[types.Object]int{} // 1 true, 2 false
			for k, fct := range st {
				if k.Root != nil || !strings.HasPrefix(k.Path, "cond:") || fct.Def == nil || fct.Bool == 0 {
					continue
				}
				var atoms []atomB
				decompose(fct.Def, fct.Bool == 1, &atoms)
				for _, a := range atoms {
					if id, ok := ast.Unparen(a.x).(*ast.Ident); ok {
						if a.val {
							val[info.ObjectOf(id)] = 1
						} else {
							val[info.ObjectOf(id)] = 2
						}
					}
				}
			}
			if val[isInt] == 2 && val[isUns] == 2 && !core.OutcomeOK(st, pf) && val[sci] != 2 {
				bad = "a float token is accepted on a path where parseFloatBytes did not validate it and the token was not established to be free of an exponent: malformed exponents ('1e', '1e+', '1ee5') are accepted as fields and fail later for the whole batch"
			}
		})
		c.Need(complete, "exploration bound scanNumber")
		c.Floor("success returns of scanNumber", nRet, 1)
		c.Check("scientific-notation-validated-by-parser", f.Name, f.PosStr(), bad == "", bad)
	})

	c.Clause("D6", func() {
		f := c.Fn(models + ".ParsePointsWithPrecision")
		info := f.Info()
		parse := func(ce *ast.CallExpr) bool {
			fn, ok := core.Callee(info, ce).(*types.Func)
			return ok && core.FuncName(fn) == models+".parsePoint"
		}
		ps := findOrAbort(c, f, "parsePoint", evCall(parse), 1)
		var loop *core.Loop
		for _, l := range f.Graph().Loops() {
			if l.Stmt.Pos() <= ps[0].Pos() && ps[0].Pos() < l.Stmt.End() {
				if loop == nil || l.Stmt.Pos() > loop.Stmt.Pos() {
					loop = l
				}
			}
		}
		c.Need(loop != nil, "line loop of ParsePointsWithPrecision")
		appendTo := func(name string) func(e *core.Event) bool {
			return func(e *core.Event) bool {
				as, ok := e.Node.(*ast.AssignStmt)
				if !ok || e.Kind != core.EvAssign || len(as.Lhs) != 1 || len(as.Rhs) != 1 {
					return false
				}
				id, ok := as.Lhs[0].(*ast.Ident)
				if !ok || id.Name != name {
					return false
				}
				ce, ok := as.Rhs[0].(*ast.CallExpr)
				if !ok {
					return false
				}
				b, ok := core.Callee(info, ce).(*types.Builtin)
				return ok && b.Name() == "append"
			}
		}
		// the result slice and the failure list are identified as the two append targets of the loop
		resName, failName := "", ""
		if f.Type.Results != nil {
			for _, e := range f.Graph().Events {
				if e.Kind == core.EvReturn {
					if rs, ok := e.Node.(*ast.ReturnStmt); ok && len(rs.Results) == 2 {
						if id, ok := rs.Results[0].(*ast.Ident); ok {
							resName = id.Name
						}
					}
				}
			}
		}
		ast.Inspect(loop.Stmt, func(nd ast.Node) bool {
			as, ok := nd.(*ast.AssignStmt)
			if !ok || len(as.Lhs) != 1 {
				return true
			}
			if id, ok := as.Lhs[0].(*ast.Ident); ok && id.Name != resName {
				if ce, ok := as.Rhs[0].(*ast.CallExpr); ok {
					if b, ok := core.Callee(info, ce).(*types.Builtin); ok && b.Name() == "append" {
						failName = id.Name
					}
				}
			}
			return true
		})
		c.Need(resName != "" && failName != "", "result slice and failure list of ParsePointsWithPrecision")
		isKeep, isRecord := appendTo(resName), appendTo(failName)
		badKeep, badLose, badRec := "", "", ""
		complete := f.Flow().ExplorePathsMarked(func(k core.VarKey, fct core.Fact) bool {
			ce, ok := fct.Def.(*ast.CallExpr)
			return ok && parse(ce)
		}, func(e *core.Event) string {
			switch {
			case e == loop.BodyEntry:
				return "-kept,-parsed,-recorded"
			case e.Kind == core.EvCall && parse(e.Call):
				return "parsed"
			case isKeep(e):
				return "kept"
			case isRecord(e):
				return "recorded"
			}
			return ""
		}, func(e *core.Event, st core.State) {
			if e != loop.Head || !core.Marked(st, "parsed") {
				return
			}
			kept := core.Marked(st, "kept")
			if core.OutcomeFailed(st, parse) {
				if kept {
					badKeep = "a line whose parse failed still contributes a point to the result"
				}
				if !core.Marked(st, "recorded") {
					badRec = "a line whose parse failed is dropped without being recorded: the request is acknowledged as fully written"
				}
			}
			if core.OutcomeOK(st, parse) && !kept {
				badLose = "a line that parsed correctly is not kept"
			}
		})
		c.Need(complete, "exploration bound ParsePointsWithPrecision")
		c.Check("malformed-line-rejected", f.Name+"/failed-line-not-kept", c.P.Pos(loop.Stmt.Pos()), badKeep == "", badKeep)
		c.Check("malformed-line-rejected", f.Name+"/failed-line-recorded", c.P.Pos(loop.Stmt.Pos()), badRec == "", badRec)
		c.Check("other-lines-unaffected", f.Name+"/parsed-line-kept", c.P.Pos(loop.Stmt.Pos()), badLose == "", badLose)
		// no line aborts the loop
		aborts := 0
		for _, e := range f.Graph().Events {
			if e.Kind == core.EvReturn && e.Pos() > loop.Stmt.Pos() && e.Pos() < loop.Stmt.End() {
				aborts++
			}
		}
		ast.Inspect(loop.Stmt, func(nd ast.Node) bool {
			if b, ok := nd.(*ast.BranchStmt); ok && (b.Tok == token.BREAK || b.Tok == token.GOTO) {
				aborts++
			}
			return true
		})
		c.Check("other-lines-unaffected", f.Name+"/no-abort-inside-line-loop", c.P.Pos(loop.Stmt.Pos()), aborts == 0, "a return/break inside the line loop stops parsing at the first bad line: the remaining lines of the request are lost")
		// recorded failures surface: every return after the loop reached with a non-empty failure list returns a non-nil error
		surf := false
		ast.Inspect(f.Body, func(nd ast.Node) bool {
			ifs, ok := nd.(*ast.IfStmt)
			if !ok || ifs.Pos() < loop.Stmt.End() {
				return true
			}
			if strings.Contains(core.ExprStr(ifs.Cond), "len("+failName+") > 0") {
				for _, s := range ifs.Body.List {
					if rs, ok := s.(*ast.ReturnStmt); ok && len(rs.Results) == 2 && !info.Types[rs.Results[1]].IsNil() {
						surf = true
					}
				}
			}
			return true
		})
		c.Check("malformed-line-rejected", f.Name+"/failures-surface", f.PosStr(), surf, "recorded parse failures are not turned into the call's error")
	})
}

// runTagKeyComparisons: the line-protocol scanner orders and de-duplicates tags by their escape-aware keys only (shared by C12 and C08).
func runTagKeyComparisons(c *core.Ctx) {
	const models = "models"
	n := 0
	for _, name := range []string{models + ".scanKey", models + ".less"} {
		f := c.Fn(name)
		info := f.Info()
		// unique definitions of local identifiers
		defs := map[types.Object][]ast.Expr{}
		ast.Inspect(f.Body, func(nd ast.Node) bool {
			as, ok := nd.(*ast.AssignStmt)
			if !ok {
				return true
			}
			for i, l := range as.Lhs {
				id, ok := l.(*ast.Ident)
				if !ok || id.Name == "_" {
					continue
				}
				o := info.ObjectOf(id)
				if len(as.Rhs) == len(as.Lhs) {
					defs[o] = append(defs[o], as.Rhs[i])
				} else if len(as.Rhs) == 1 {
					defs[o] = append(defs[o], as.Rhs[0])
				}
			}
			return true
		})
		fromScanTo := func(x ast.Expr) bool {
			id, ok := ast.Unparen(x).(*ast.Ident)
			if !ok {
				return false
			}
			ds := defs[info.ObjectOf(id)]
			if len(ds) != 1 {
				return false
			}
			ce, ok := ast.Unparen(ds[0]).(*ast.CallExpr)
			if !ok || len(ce.Args) != 3 {
				return false
			}
			fn, ok := core.Callee(info, ce).(*types.Func)
			if !ok || core.FuncName(fn) != models+".scanTo" {
				return false
			}
			b, isC := byteConst(info, ce.Args[2])
			return isC && b == '='
		}
		k := 0
		ast.Inspect(f.Body, func(nd ast.Node) bool {
			ce, ok := nd.(*ast.CallExpr)
			if !ok || len(ce.Args) != 2 {
				return true
			}
			fn, ok := core.Callee(info, ce).(*types.Func)
			if !ok || fn.Pkg() == nil || fn.Pkg().Path() != "bytes" || fn.Name() != "Compare" && fn.Name() != "Equal" {
				return true
			}
			k++
			n++
			good := fromScanTo(ce.Args[0]) && fromScanTo(ce.Args[1])
			c.Check("tag-keys-compared-escape-aware", fmt.Sprintf("%s/%s#%d", f.Name, fn.Name(), k), c.P.Pos(ce.Pos()), good,
				"this comparison orders (or de-duplicates) tags by something other than the keys the escape-aware scanner scanTo(.., '=') extracts: the sorted fast path, the sort and the duplicate check then disagree for keys containing an escaped '=', and the series key depends on the order the tags were written in")
			return true
		})
	}
	c.Floor("tag key comparisons in the parser", n, 3)
	// no raw search for a delimiter
	raw, delim := 0, 0
	for _, f := range c.P.FuncsIn(models) {
		if f.Body == nil {
			continue
		}
		info := f.Info()
		ast.Inspect(f.Body, func(nd ast.Node) bool {
			ce, ok := nd.(*ast.CallExpr)
			if !ok || len(ce.Args) < 2 {
				return true
			}
			fn, ok := core.Callee(info, ce).(*types.Func)
			if !ok || fn.Pkg() == nil || fn.Pkg().Path() != "bytes" && fn.Pkg().Path() != "strings" {
				return true
			}
			switch fn.Name() {
			case "IndexByte", "LastIndexByte", "IndexRune", "Index", "LastIndex", "Split", "SplitN", "Cut", "Contains", "ContainsRune", "IndexAny", "Fields":
			default:
				return true
			}
			if _, ok := info.TypeOf(ce.Args[0]).Underlying().(*types.Slice); !ok {
				return true // searches inside string constants / strings are not key scanning
			}
			b, isC := byteConst(info, ce.Args[1])
			if !isC {
				if tv := info.Types[ce.Args[1]]; tv.Value != nil && tv.Value.Kind() == constant.String {
					s := constant.StringVal(tv.Value)
					if len(s) == 1 {
						b, isC = s[0], true
					}
				} else if cl, ok := ast.Unparen(ce.Args[1]).(*ast.CallExpr); ok && len(cl.Args) == 1 {
					// []byte("=")
					if tv := info.Types[cl.Args[0]]; tv.Value != nil && tv.Value.Kind() == constant.String && len(constant.StringVal(tv.Value)) == 1 {
						b, isC = constant.StringVal(tv.Value)[0], true
					}
				}
			}
			if !isC {
				return true
			}
			raw++
			if b == '=' || b == ',' || b == ' ' {
				delim++
				c.Check("no-raw-delimiter-search", fmt.Sprintf("%s/%s(%q)", f.Name, fn.Name(), string(b)), c.P.Pos(ce.Pos()), false,
					"a line-protocol delimiter is located with a raw byte search, which does not honour backslash escapes; escaped delimiters inside names are then treated as separators")
			}
			return true
		})
	}
	c.Floor("raw constant-byte searches recognised (matcher liveness)", raw, 3)
	c.Check("no-raw-delimiter-search", "models/total", "", delim == 0, fmt.Sprintf("%d raw delimiter searches", delim))

}

// runBinaryPointDispatch: the binary point form handles and validates every field type (shared by C12 and C15).
func runBinaryPointDispatch(c *core.Ctx) {
	const models = "models"
	ft := c.P.LookupType(models, "FieldType")
	c.Need(ft != nil, "models.FieldType")
	want := map[string]bool{"Float": true, "Integer": true, "Unsigned": true, "String": true, "Boolean": true}
	n := 0
	for _, name := range []string{models + ".NewPointFromBytes", models + ".(*point).unmarshalBinary"} {
		f := c.Fn(name)
		info := f.Info()
		ast.Inspect(f.Body, func(nd ast.Node) bool {
			sw, ok := nd.(*ast.SwitchStmt)
			if !ok || sw.Tag == nil || !types.Identical(info.TypeOf(sw.Tag), ft) {
				return true
			}
			n++
			have := map[string]bool{}
			for _, s := range sw.Body.List {
				for _, k := range caseConsts(info, s.(*ast.CaseClause)) {
					have[k.Name()] = true
				}
			}
			var missing []string
			for w := range want {
				if !have[w] {
					missing = append(missing, w)
				}
			}
			sort.Strings(missing)
			c.Check("binary-point-field-dispatch-exhaustive", f.Name+"/switch", c.P.Pos(sw.Pos()), len(missing) == 0,
				fmt.Sprintf("fields of type %v are skipped when a binary point is validated / rebuilt: the point arrives without them", missing))
			// sibling agreement inside the validator: every case can reject (returns a non-nil error under some
			// condition). A case that accepts every value of its type hands consumers a value they cannot read:
			// the accessors slice and parse without checks of their own.
			if f.ErrResultIndex() >= 0 && strings.HasSuffix(f.Name, ".NewPointFromBytes") {
				for _, s := range sw.Body.List {
					cc := s.(*ast.CaseClause)
					names := constNames(caseConsts(info, cc))
					rejects := false
					for _, st := range cc.Body {
						ast.Inspect(st, func(m ast.Node) bool {
							if rs, ok := m.(*ast.ReturnStmt); ok && len(rs.Results) == 2 && !isNilExpr(info, rs.Results[1]) {
								rejects = true
							}
							return true
						})
					}
					c.Check("binary-point-field-validated", fmt.Sprintf("%s/case-%s", f.Name, strings.Join(names, "+")), c.P.Pos(cc.Pos()), rejects,
						"the validation of a binary point received from another node accepts every value of this field type: a malformed value (e.g. a string that is only an opening quote) is handed to consumers whose accessors slice it without checks and panic")
				}
			}
			return true
		})
	}
	c.Floor("field type dispatches of the binary point form", n, 2)

}
