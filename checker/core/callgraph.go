package core

import (
	"go/ast"
	"go/types"
	"sort"
)

// allNamed lists the named non-interface types declared in the loaded root packages.
func (p *Prog) allNamed() []*types.Named {
	if p.named != nil {
		return p.named
	}
	for _, pkg := range p.Pkgs {
		sc := pkg.Types.Scope()
		for _, n := range sc.Names() {
			if tn, ok := sc.Lookup(n).(*types.TypeName); ok && !tn.IsAlias() {
				if nt, ok := tn.Type().(*types.Named); ok && !types.IsInterface(nt) {
					p.named = append(p.named, nt)
				}
			}
		}
	}
	return p.named
}

// Implementations resolves an interface method to the concrete methods (with bodies in
// the loaded roots) that may be called (class-hierarchy analysis over the root packages).
func (p *Prog) Implementations(m *types.Func) []*FuncInfo {
	if p.implCache == nil {
		p.implCache = map[*types.Func][]*FuncInfo{}
	}
	if r, ok := p.implCache[m]; ok {
		return r
	}
	var out []*FuncInfo
	sig, _ := m.Type().(*types.Signature)
	if sig == nil || sig.Recv() == nil {
		p.implCache[m] = nil
		return nil
	}
	iface, _ := sig.Recv().Type().Underlying().(*types.Interface)
	if iface == nil {
		p.implCache[m] = nil
		return nil
	}
	for _, nt := range p.allNamed() {
		for _, t := range []types.Type{nt, types.NewPointer(nt)} {
			if !types.Implements(t, iface) {
				continue
			}
			obj, _, _ := types.LookupFieldOrMethod(t, true, m.Pkg(), m.Name())
			if fn, ok := obj.(*types.Func); ok {
				if fi := p.FuncOf(fn); fi != nil {
					out = append(out, fi)
				}
			}
			break
		}
	}
	// dedupe
	seen := map[*FuncInfo]bool{}
	var ded []*FuncInfo
	for _, f := range out {
		if !seen[f] {
			seen[f] = true
			ded = append(ded, f)
		}
	}
	p.implCache[m] = ded
	return ded
}

// Callees returns the functions with bodies that f may call directly (static
// callees, CHA-resolved interface calls, function literals defined inside f which
// are assumed to be invoked, and function values referenced by name).
func (p *Prog) Callees(f *FuncInfo) []*FuncInfo {
	if p.calleeCache == nil {
		p.calleeCache = map[*FuncInfo][]*FuncInfo{}
	}
	if r, ok := p.calleeCache[f]; ok {
		return r
	}
	seen := map[*FuncInfo]bool{}
	var out []*FuncInfo
	add := func(x *FuncInfo) {
		if x != nil && !seen[x] {
			seen[x] = true
			out = append(out, x)
		}
	}
	for _, l := range f.Lits {
		add(l)
	}
	if f.Body != nil {
		info := f.Info()
		ast.Inspect(f.Body, func(n ast.Node) bool {
			switch x := n.(type) {
			case *ast.FuncLit:
				return false // separate FuncInfo (already added)
			case *ast.CallExpr:
				if fn, ok := Callee(info, x).(*types.Func); ok {
					if fi := p.FuncOf(fn); fi != nil {
						add(fi)
					} else if sig, ok := fn.Type().(*types.Signature); ok && sig.Recv() != nil && types.IsInterface(sig.Recv().Type()) {
						for _, impl := range p.Implementations(fn) {
							add(impl)
						}
					}
				}
			case *ast.Ident:
				// function value reference (method value / func passed as argument)
				if fn, ok := info.Uses[x].(*types.Func); ok {
					if fi := p.FuncOf(fn); fi != nil {
						add(fi)
					}
				}
			case *ast.SelectorExpr:
				if fn, ok := info.Uses[x.Sel].(*types.Func); ok {
					if fi := p.FuncOf(fn); fi != nil {
						add(fi)
					}
				}
			}
			return true
		})
	}
	sort.Slice(out, func(i, j int) bool { return out[i].Name < out[j].Name })
	p.calleeCache[f] = out
	return out
}

// Closure returns the functions reachable from roots (including the roots), following only
// functions accepted by within (nil = all loaded functions).
func (p *Prog) Closure(roots []*FuncInfo, within func(*FuncInfo) bool) []*FuncInfo {
	seen := map[*FuncInfo]bool{}
	var out []*FuncInfo
	var visit func(f *FuncInfo)
	visit = func(f *FuncInfo) {
		if f == nil || seen[f] {
			return
		}
		seen[f] = true
		out = append(out, f)
		for _, c := range p.Callees(f) {
			if within == nil || within(c) {
				visit(c)
			}
		}
	}
	for _, r := range roots {
		visit(r)
	}
	sort.Slice(out, func(i, j int) bool { return out[i].Name < out[j].Name })
	return out
}

// InPkgs returns a predicate accepting functions of the given module-relative packages.
func InPkgs(rels ...string) func(*FuncInfo) bool {
	set := map[string]bool{}
	for _, r := range rels {
		set[r] = true
	}
	return func(f *FuncInfo) bool { return set[Rel(f.Pkg.PkgPath)] }
}

// FieldReads lists the functions among fs that read the struct field (selector uses that
// are not pure assignment targets).
func FieldAccesses(fs []*FuncInfo, field *types.Var) (reads, writes []*FuncInfo) {
	for _, f := range fs {
		if f.Body == nil {
			continue
		}
		r, w := f.AccessesField(field)
		if r {
			reads = append(reads, f)
		}
		if w {
			writes = append(writes, f)
		}
	}
	return
}

// AccessesField reports whether the function body (excluding nested literals) reads / writes the field.
func (f *FuncInfo) AccessesField(field *types.Var) (read, write bool) {
	info := f.Info()
	lhs := map[ast.Expr]bool{}
	ast.Inspect(f.Body, func(n ast.Node) bool {
		switch x := n.(type) {
		case *ast.FuncLit:
			return false
		case *ast.AssignStmt:
			for _, l := range x.Lhs {
				markLHS(lhs, l)
			}
		case *ast.IncDecStmt:
			markLHS(lhs, x.X)
		}
		return true
	})
	ast.Inspect(f.Body, func(n ast.Node) bool {
		switch x := n.(type) {
		case *ast.FuncLit:
			return false
		case *ast.SelectorExpr:
			if info.Uses[x.Sel] == field {
				if lhs[x] {
					write = true
				} else {
					read = true
				}
			}
		case *ast.KeyValueExpr:
			if id, ok := x.Key.(*ast.Ident); ok && info.Uses[id] == field {
				write = true
			}
		}
		return true
	})
	return
}

// markLHS marks an assignment target and every selector/index prefix of it: a store to
// x.f.g (or x.f[i]) is a write of field f as well.
func markLHS(lhs map[ast.Expr]bool, l ast.Expr) {
	for {
		l = ast.Unparen(l)
		lhs[l] = true
		switch e := l.(type) {
		case *ast.SelectorExpr:
			l = e.X
		case *ast.IndexExpr:
			l = e.X
		case *ast.StarExpr:
			l = e.X
		default:
			return
		}
	}
}
