package props

import (
	"fmt"
	"go/ast"
	"go/token"
	"go/types"
	"sort"
	"strings"

	"verifcheck/core"
)

func init() {
	register("C11", core.PropertyMeta{
		Explanation: "Decides structural clauses of C11; equality of a query result with a reference evaluation is a statement about run-time values and is NOT decided. " +
			"D1 points streamed between nodes keep every attribute: for the five point types, encode<T>Point reads every field of the point struct, decode<T>Point sets every field, and the stream decoder Decode<T>Point hands the caller either the whole decoded struct or a field-wise copy that covers every field; the request codecs that carry a statement to another node (iterator options, interval, variable reference, measurement, iterator statistics) restore exactly the Go fields they read and read exactly the wire fields they set; " +
			"D2 cache/file merge of the storage cursors: for each of the ten next<T> functions the behaviour on every weak ordering of (cache key, file key, EOF) equals the table {both exhausted: EOF, no advance; equal keys: cache value, both advance; cache first in the direction of the cursor or file exhausted: cache value, cache advances; otherwise file value, file advances}; " +
			"D3 ascending and descending are mirror images: wherever a function orders things under opt.Ascending and under !opt.Ascending (if/else arms, '&&' alternatives, the ascending/descending cursor siblings), the sequences of comparisons agree with < and >, <= and >= exchanged. " +
			"D4 the type of a merged iterator does not depend on the arrival order of the inputs: the reader of a remote answer without data (a placeholder that claims a typed iterator interface) is recognised by Iterators.dataType, while ClusterShardMapping.CreateIterator collects its inputs inside goroutines (found and fixed in 883e4b4). " +
			"D5 a series is its name AND its tag set: every condition that compares both for one pair of subjects joins 'name differs' and 'tags differ' with ||, or 'equal' and 'equal' with && (13 sites); D6 every fan-out of the cluster mappings asks every remote shard group before it may return a result, unless the path established that there are none (shared with C05 D7). " +
			"D7 the cache read concatenates the retained snapshot's entry before the live store's entry on every path (Values.Deduplicate keeps the last value of a timestamp, so the reverse order lets an older snapshot value override a newer acknowledged write while a snapshot is in flight or retained after a failed flush) (shared with C02/C09). " +
			"D8 the shard-group time predicates that select what a statement reads (Overlaps, Contains, ShardGroupsByTimeRange ...) equal their specification on every ordering of their operands, so the answer does not depend on where shard-group boundaries fall (shared with C05/C06/C08). " +
			"NOT decided: window arithmetic, fill values, aggregate functions, limit/offset, equality of multi-shard and single-shard results.",
		RuleText:    "obligation = (rule, function | struct field | site); struct-field coverage of codecs; marked path exploration + exhaustive evaluation of the compiled path conditions over all weak orderings; comparison-sequence mirror agreement",
		Assumptions: commonAssumptions,
	}, runC11)
}

func lowerFirst(s string) string { return strings.ToLower(s[:1]) + s[1:] }

func runC11(c *core.Ctx) {
	c.Clause("D1", func() { runPointCodecCompleteness(c) })
	c.Clause("D2", func() { runCursorMergeTable(c) })
	c.Clause("D3", func() { runDirectionMirror(c) })
	c.Clause("D4", func() { runMergeTypeOrderIndependent(c) })
	c.Clause("D5", func() { runSeriesIdentityTests(c) })
	c.Clause("D6", func() { runEveryRemoteGroupConsulted(c) })
	c.Clause("D7", func() { runCacheReadOrder(c) })
	c.Clause("D8", func() { runTimePredicates(c) })
}

// runSeriesIdentityTests: a series is identified by its name AND its tag set. Wherever one condition compares
// both for the same pair of subjects, "another series" must be `name differs || tags differ` and "the same
// series" must be `names equal && tags equal`; `!= && !=` (or `== || ==`) treats two series that share the name
// or the tag set as one: values leak from one series into the next (fill(previous), multi-call selects).
func runSeriesIdentityTests(c *core.Ctx) {
	n := 0
	isName := func(x ast.Expr) bool {
		return strings.HasSuffix(strings.ToLower(core.ExprStr(x)), "name")
	}
	isTags := func(x ast.Expr) bool {
		s := core.ExprStr(x)
		return strings.HasSuffix(s, ".ID()") && (strings.Contains(s, "Tags") || strings.Contains(s, "tags"))
	}
	for _, rel := range []string{"query", coord, "tsdb", tsm1} {
		for _, f := range c.P.FuncsIn(rel) {
			if f.Body == nil {
				continue
			}
			k := 0
			ast.Inspect(f.Body, func(nd ast.Node) bool {
				if _, ok := nd.(*ast.FuncLit); ok {
					return false
				}
				be, ok := nd.(*ast.BinaryExpr)
				if !ok || be.Op != token.LAND && be.Op != token.LOR {
					return true
				}
				// flatten the maximal chain of this operator
				var ops []ast.Expr
				var flat func(x ast.Expr)
				flat = func(x ast.Expr) {
					if b, ok := ast.Unparen(x).(*ast.BinaryExpr); ok && b.Op == be.Op {
						flat(b.X)
						flat(b.Y)
						return
					}
					ops = append(ops, ast.Unparen(x))
				}
				flat(be)
				var nameOp, tagsOp token.Token
				for _, o := range ops {
					cmp, ok := o.(*ast.BinaryExpr)
					if !ok || cmp.Op != token.EQL && cmp.Op != token.NEQ {
						continue
					}
					if isName(cmp.X) && isName(cmp.Y) {
						nameOp = cmp.Op
					} else if isTags(cmp.X) || isTags(cmp.Y) {
						tagsOp = cmp.Op
					}
				}
				if nameOp == 0 || tagsOp == 0 || nameOp != tagsOp {
					return false
				}
				k++
				n++
				good := nameOp == token.NEQ && be.Op == token.LOR || nameOp == token.EQL && be.Op == token.LAND
				c.Check("series-identity-is-name-and-tags", fmt.Sprintf("%s/test#%d", f.Name, k), c.P.Pos(be.Pos()), good,
					fmt.Sprintf("the condition combines 'name %s ..' and 'tags %s ..' with %s: two series that share only the name or only the tag set are treated as the same series (or a change of series goes unnoticed)", nameOp, tagsOp, be.Op))
				return false
			})
		}
	}
	c.Floor("conditions that compare name and tag set together", n, 6)
}

// runMergeTypeOrderIndependent: inputs of a cluster query arrive in goroutine completion order, and
// Iterators.dataType/coerce decide the type of the merged iterator and drop every input of another type. The
// reader of a remote answer without data ("type unknown") is a placeholder that claims one of the typed
// iterator interfaces; it must be recognised where the type is decided, otherwise an empty remote answer that
// arrives first makes the merge drop all real inputs of another type.
func runMergeTypeOrderIndependent(c *core.Ctx) {
	nr := c.Fn("query.NewReaderIterator")
	info := nr.Info()
	// placeholder types: what the arm for an unknown type returns
	var placeholders []*types.Named
	ast.Inspect(nr.Body, func(nd ast.Node) bool {
		cc, ok := nd.(*ast.CaseClause)
		if !ok || cc.List != nil {
			return true
		}
		ast.Inspect(cc, func(x ast.Node) bool {
			if cl, ok := x.(*ast.CompositeLit); ok {
				if nt, ok := info.TypeOf(cl).(*types.Named); ok {
					placeholders = append(placeholders, nt)
				}
			}
			return true
		})
		return true
	})
	dt := c.Fn("query.Iterators.dataType")
	dinfo := dt.Info()
	mentioned := map[*types.Named]bool{}
	ast.Inspect(dt.Body, func(nd ast.Node) bool {
		var tx ast.Expr
		switch x := nd.(type) {
		case *ast.TypeAssertExpr:
			tx = x.Type
		case *ast.CaseClause:
			for _, e := range x.List {
				if t := dinfo.TypeOf(e); t != nil {
					if p, ok := t.(*types.Pointer); ok {
						if nt, ok := p.Elem().(*types.Named); ok {
							mentioned[nt] = true
						}
					}
				}
			}
		}
		if tx != nil {
			if t := dinfo.TypeOf(tx); t != nil {
				if p, ok := t.(*types.Pointer); ok {
					if nt, ok := p.Elem().(*types.Named); ok {
						mentioned[nt] = true
					}
				}
			}
		}
		return true
	})
	n := 0
	for _, ph := range placeholders {
		typed := ""
		for _, T := range fiveTypes {
			it := c.P.LookupType("query", T+"Iterator")
			if it == nil {
				continue
			}
			if iface, ok := it.Underlying().(*types.Interface); ok && types.Implements(types.NewPointer(ph), iface) {
				typed = T + "Iterator"
			}
		}
		if typed == "" {
			continue
		}
		n++
		c.Check("no-data-placeholder-does-not-decide-merge-type", "query."+ph.Obj().Name(), dt.PosStr(), mentioned[ph],
			fmt.Sprintf("the reader of a remote answer without data is a *%s, which claims to be a %s; Iterators.dataType decides the merged type without recognising it, and inputs arrive in goroutine completion order: when the empty answer comes first every real input of another type is closed and dropped, so the result depends on timing and on which node holds the data", ph.Obj().Name(), typed))
	}
	c.Counts["typed_placeholders"] = n
	// the premise: the cluster mapping collects its inputs inside goroutines (so their order is not fixed)
	cm := c.Fn(coord + ".(*ClusterShardMapping).CreateIterator")
	inGo := 0
	for _, l := range cm.Lits {
		ast.Inspect(l.Body, func(nd ast.Node) bool {
			if ce, ok := nd.(*ast.CallExpr); ok {
				if b, ok := core.Callee(l.Info(), ce).(*types.Builtin); ok && b.Name() == "append" {
					inGo++
				}
			}
			return true
		})
	}
	c.Floor("appends to the merge inputs inside goroutine closures", inGo, 2)
}

// ---- D1 ----------------------------------------------------------------------------------------------

func runPointCodecCompleteness(c *core.Ctx) {
	nPair := 0
	for _, p := range [][2]string{
		{"query.encodeIteratorOptions", "query.decodeIteratorOptions"},
		{"query.encodeInterval", "query.decodeInterval"},
		{"query.encodeVarRef", "query.decodeVarRef"},
		{"query.encodeMeasurement", "query.decodeMeasurement"},
		{"query.encodeIteratorStats", "query.decodeIteratorStats"},
	} {
		nPair += codecPairAgreement(c, p[0], p[1])
	}
	c.Floor("fields of request/option codecs", nPair, 40)
	for _, T := range fiveTypes {
		pt := c.P.LookupType("query", T+"Point")
		c.Need(pt != nil, "type query."+T+"Point")
		st, _ := pt.Underlying().(*types.Struct)
		c.Need(st != nil, "struct query."+T+"Point")
		enc := c.Fn("query.encode" + T + "Point")
		dec := c.Fn("query.decode" + T + "Point")
		sd := c.Fn(fmt.Sprintf("query.(*%sPointDecoder).Decode%sPoint", T, T))
		// fields set by decode<T>Point's literal
		set := map[string]bool{}
		ast.Inspect(dec.Body, func(nd ast.Node) bool {
			cl, ok := nd.(*ast.CompositeLit)
			if !ok {
				return true
			}
			if nt, ok := dec.Info().TypeOf(cl).(*types.Named); !ok || nt != pt {
				return true
			}
			for _, el := range cl.Elts {
				if kv, ok := el.(*ast.KeyValueExpr); ok {
					if id, ok := kv.Key.(*ast.Ident); ok {
						set[id.Name] = true
					}
				}
			}
			return true
		})
		// stream decoder: whole-struct assignment from decode<T>Point, or field-wise
		whole := false
		fieldwise := map[string]bool{}
		pObj := sd.Info().ObjectOf(sd.Decl.Type.Params.List[0].Names[0])
		ast.Inspect(sd.Body, func(nd ast.Node) bool {
			as, ok := nd.(*ast.AssignStmt)
			if !ok {
				return true
			}
			for i, l := range as.Lhs {
				switch x := ast.Unparen(l).(type) {
				case *ast.StarExpr:
					if id, ok := x.X.(*ast.Ident); ok && sd.Info().ObjectOf(id) == pObj && len(as.Rhs) == len(as.Lhs) {
						if se, ok := ast.Unparen(as.Rhs[i]).(*ast.StarExpr); ok {
							if ce, ok := se.X.(*ast.CallExpr); ok {
								if fn, ok := core.Callee(sd.Info(), ce).(*types.Func); ok && fn == dec.Obj {
									whole = true
								}
							}
						}
					}
				case *ast.SelectorExpr:
					if id, ok := x.X.(*ast.Ident); ok && sd.Info().ObjectOf(id) == pObj {
						fieldwise[x.Sel.Name] = true
					}
				}
			}
			return true
		})
		for i := 0; i < st.NumFields(); i++ {
			fld := st.Field(i)
			r, _ := enc.AccessesField(fld)
			c.Check("point-field-encoded", fmt.Sprintf("query.%sPoint.%s", T, fld.Name()), c.P.Pos(fld.Pos()), r,
				fmt.Sprintf("encode%sPoint never reads %s: the attribute is lost when the point is streamed to another node", T, fld.Name()))
			c.Check("point-field-decoded", fmt.Sprintf("query.%sPoint.%s", T, fld.Name()), c.P.Pos(fld.Pos()), set[fld.Name()],
				fmt.Sprintf("decode%sPoint never sets %s", T, fld.Name()))
			c.Check("stream-decoder-delivers-field", fmt.Sprintf("query.%sPointDecoder/%s", T, fld.Name()), sd.PosStr(), whole || fieldwise[fld.Name()],
				fmt.Sprintf("Decode%sPoint fills the caller's point field by field and omits %s: a point that crossed nodes differs from the local one (for Aggregated: partial means lose their weight)", T, fld.Name()))
		}
	}
}

// codecPairAgreement checks an encodeX/decodeX pair: the fields of the Go value the encoder reads are the fields
// the decoder sets, and the fields of the wire message the encoder sets are the fields the decoder reads.
func codecPairAgreement(c *core.Ctx, encName, decName string) int {
	enc, dec := c.Fn(encName), c.Fn(decName)
	structOf := func(t types.Type) (*types.Named, *types.Struct) {
		if p, ok := t.(*types.Pointer); ok {
			t = p.Elem()
		}
		nt, ok := t.(*types.Named)
		if !ok {
			return nil, nil
		}
		st, _ := nt.Underlying().(*types.Struct)
		return nt, st
	}
	encSig := enc.Obj.Type().(*types.Signature)
	decSig := dec.Obj.Type().(*types.Signature)
	if encSig.Params().Len() < 1 || encSig.Results().Len() < 1 || decSig.Params().Len() < 1 || decSig.Results().Len() < 1 {
		c.Check("codec-pair-agreement", encName+"/shape", enc.PosStr(), false, "undecided: unexpected codec signature")
		return 0
	}
	goT, goS := structOf(encSig.Params().At(0).Type())
	wireT, wireS := structOf(encSig.Results().At(0).Type())
	if goS == nil || wireS == nil {
		c.Check("codec-pair-agreement", encName+"/shape", enc.PosStr(), false, "undecided: codec does not map a struct to a struct")
		return 0
	}
	n := 0
	for i := 0; i < goS.NumFields(); i++ {
		fld := goS.Field(i)
		r, _ := enc.AccessesField(fld)
		_, w := dec.AccessesField(fld)
		n++
		c.Check("codec-pair-agreement", fmt.Sprintf("%s.%s", goT.Obj().Name(), fld.Name()), c.P.Pos(fld.Pos()), r == w,
			fmt.Sprintf("%s.%s: read by %s=%v, restored by %s=%v: the remote node evaluates the request with a different value of this option", goT.Obj().Name(), fld.Name(), encName, r, decName, w))
	}
	// wire side: getters count as reads of the field they are named after
	readsWire := func(f *core.FuncInfo, fld *types.Var) bool {
		r, _ := f.AccessesField(fld)
		if r {
			return true
		}
		found := false
		ast.Inspect(f.Body, func(nd ast.Node) bool {
			if se, ok := nd.(*ast.SelectorExpr); ok && se.Sel.Name == "Get"+fld.Name() {
				found = true
			}
			return !found
		})
		return found
	}
	for i := 0; i < wireS.NumFields(); i++ {
		fld := wireS.Field(i)
		if strings.HasPrefix(fld.Name(), "XXX_") {
			continue
		}
		_, w := enc.AccessesField(fld)
		r := readsWire(dec, fld)
		n++
		c.Check("codec-pair-agreement", fmt.Sprintf("%s.%s(wire)", wireT.Obj().Name(), fld.Name()), c.P.Pos(fld.Pos()), r == w,
			fmt.Sprintf("wire field %s.%s: set by %s=%v, read by %s=%v", wireT.Obj().Name(), fld.Name(), encName, w, decName, r))
	}
	return n
}

// ---- D2 ----------------------------------------------------------------------------------------------

func runCursorMergeTable(c *core.Ctx) {
	n := 0
	for _, T := range fiveTypes {
		for _, dir := range []string{"Ascending", "Descending"} {
			f := c.Fn(fmt.Sprintf("%s.(*%s%sCursor).next%s", tsm1, lowerFirst(T), dir, T))
			n++
			cursorMergeTable(c, f, dir == "Ascending")
		}
	}
	c.Floor("storage cursor merge functions", n, 10)
}

func cursorMergeTable(c *core.Ctx, f *core.FuncInfo, asc bool) {
	info := f.Info()
	var ckey, tkey *ast.Ident
	var eof ast.Expr
	ast.Inspect(f.Body, func(nd ast.Node) bool {
		switch x := nd.(type) {
		case *ast.AssignStmt:
			if len(x.Rhs) == 1 && len(x.Lhs) == 2 {
				if ce, ok := x.Rhs[0].(*ast.CallExpr); ok {
					if se, ok := ce.Fun.(*ast.SelectorExpr); ok {
						id, _ := x.Lhs[0].(*ast.Ident)
						switch se.Sel.Name {
						case "peekCache":
							ckey = id
						case "peekTSM":
							tkey = id
						}
					}
				}
			}
		case *ast.SelectorExpr:
			if k, ok := info.ObjectOf(x.Sel).(*types.Const); ok && k.Name() == "EOF" {
				eof = x
			}
		}
		return true
	})
	c.Need(ckey != nil && tkey != nil && eof != nil, f.Name+": ckey, tkey := peekCache(), peekTSM() and tsdb.EOF")
	pc := &core.PredCompiler{P: c.P, Sticky: true}
	C, err1 := pc.TermIn(f, ckey)
	T, err2 := pc.TermIn(f, tkey)
	E, err3 := pc.TermIn(f, eof)
	c.Need(err1 == nil && err2 == nil && err3 == nil, f.Name+": terms")
	isCall := func(e *core.Event, name string) bool {
		if e.Kind != core.EvCall {
			return false
		}
		se, ok := e.Call.Fun.(*ast.SelectorExpr)
		return ok && se.Sel.Name == name
	}
	classes := map[string]*core.BExpr{}
	or := func(k string, b *core.BExpr) {
		if classes[k] == nil {
			classes[k] = b
		} else {
			classes[k] = core.Or(classes[k], b)
		}
	}
	problem := ""
	complete := f.Flow().ExplorePathsMarked(func(k core.VarKey, fct core.Fact) bool {
		return k.Root == nil && strings.HasPrefix(k.Path, "cond:") && fct.Def != nil
	}, func(e *core.Event) string {
		switch {
		case isCall(e, "nextCache"):
			return "cache"
		case isCall(e, "nextTSM"):
			return "tsm"
		}
		return ""
	}, func(e *core.Event, st core.State) {
		if e.Kind != core.EvReturn || problem != "" {
			return
		}
		rs, ok := e.Node.(*ast.ReturnStmt)
		if !ok || len(rs.Results) != 2 {
			problem = "return without two results"
			return
		}
		var keys []core.VarKey
		for k := range st {
			if k.Root == nil && strings.HasPrefix(k.Path, "cond:") {
				keys = append(keys, k)
			}
		}
		sort.Slice(keys, func(i, j int) bool { return keys[i].Path < keys[j].Path })
		term := core.ConstB(true)
		for _, k := range keys {
			fct := st[k]
			if fct.Bool == 0 {
				continue
			}
			b, err := pc.CompileIn(f, fct.Def)
			if err != nil {
				problem = err.Error()
				return
			}
			if fct.Bool == 2 {
				b = core.Not(b)
			}
			term = core.And(term, b)
		}
		rk, err := pc.TermIn(f, rs.Results[0])
		if err != nil {
			problem = err.Error()
			return
		}
		adv := ""
		if core.Marked(st, "cache") {
			adv += "cache"
		}
		if core.Marked(st, "tsm") {
			adv += "+tsm"
		}
		ret := "?"
		switch rk {
		case C:
			ret = "ckey"
		case T:
			ret = "tkey"
		case E:
			ret = "EOF"
		}
		or(adv+"->"+ret, term)
	})
	c.Need(complete, "exploration bound "+f.Name)
	if problem != "" {
		c.Check("cursor-merge-table", f.Name+"/undecided", f.PosStr(), false, "undecided: "+problem)
		return
	}
	none := core.And(core.EqT(C, E), core.EqT(T, E))
	both := core.And(core.EqT(C, T), core.Not(core.EqT(C, E)))
	first := core.Lt(C, T)
	if !asc {
		first = core.Lt(T, C)
	}
	cache := core.And(core.And(core.Not(core.EqT(C, E)), core.Not(core.EqT(C, T))), core.Or(core.EqT(T, E), first))
	tsm := core.And(core.And(core.Not(none), core.Not(both)), core.Not(cache))
	spec := map[string]*core.BExpr{"->EOF": none, "cache+tsm->ckey": both, "cache->ckey": cache, "+tsm->tkey": tsm}
	what := map[string]string{
		"->EOF":           "both sources exhausted: EOF is returned and nothing advances",
		"cache+tsm->ckey": "equal keys: the cache value is returned and both sources advance (otherwise the overwritten file value is returned as an extra row on the next call)",
		"cache->ckey":     "cache key comes first in the cursor's direction (or the files are exhausted): the cache value is returned and only the cache advances",
		"+tsm->tkey":      "otherwise the file value is returned and only the files advance",
	}
	var names []string
	for k := range classes {
		names = append(names, k)
	}
	sort.Strings(names)
	for _, k := range names {
		if spec[k] == nil {
			c.Check("cursor-merge-table", f.Name+"/behaviour:"+k, f.PosStr(), false, "a path advances "+k+", which is none of the four behaviours of the merge table")
		}
	}
	for _, k := range []string{"->EOF", "cache+tsm->ckey", "cache->ckey", "+tsm->tkey"} {
		impl := classes[k]
		if impl == nil {
			impl = core.ConstB(false)
		}
		diff, nval, err := core.Equivalent(impl, spec[k])
		c.Counts["evaluations"] += nval
		detail := ""
		if err != nil {
			detail = "undecided: " + err.Error()
		} else if diff != "" {
			detail = fmt.Sprintf("%s — differs on %s (terms: %s=cache key, %s=file key, %s=EOF)", what[k], diff, C, T, E)
		}
		c.Check("cursor-merge-table", f.Name+"/"+k, f.PosStr(), err == nil && diff == "", detail)
	}
}

// ---- D3 ----------------------------------------------------------------------------------------------

type dirCmp struct {
	op   token.Token
	l, r string
	pos  token.Pos
}

func mirrorOp(op token.Token) token.Token {
	switch op {
	case token.LSS:
		return token.GTR
	case token.GTR:
		return token.LSS
	case token.LEQ:
		return token.GEQ
	case token.GEQ:
		return token.LEQ
	}
	return op
}

func isOrderOp(op token.Token) bool {
	return op == token.LSS || op == token.GTR || op == token.LEQ || op == token.GEQ
}

// comparisons lists the comparisons of a node in source order (ordering comparisons and equalities).
func comparisons(n ast.Node, onlyOrder bool) []dirCmp {
	var out []dirCmp
	if n == nil {
		return nil
	}
	ast.Inspect(n, func(nd ast.Node) bool {
		if _, ok := nd.(*ast.FuncLit); ok {
			return false
		}
		if be, ok := nd.(*ast.BinaryExpr); ok {
			if isOrderOp(be.Op) || !onlyOrder && (be.Op == token.EQL || be.Op == token.NEQ) {
				out = append(out, dirCmp{be.Op, core.ExprStr(be.X), core.ExprStr(be.Y), be.Pos()})
			}
		}
		return true
	})
	return out
}

func mirrored(a, d []dirCmp) (bool, string) {
	if len(a) != len(d) {
		return false, fmt.Sprintf("%d comparisons under ascending, %d under descending", len(a), len(d))
	}
	for i := range a {
		x, y := a[i], d[i]
		switch {
		case x.l == y.l && x.r == y.r && y.op == mirrorOp(x.op):
		case x.l == y.l && x.r == y.r && y.op == x.op && (isBoundOperand(x.l) || isBoundOperand(x.r)):
			// a bound test (length, index, literal), the same in both directions
		case x.l == y.r && x.r == y.l && y.op == x.op && isOrderOp(x.op):
		default:
			return false, fmt.Sprintf("ascending has '%s %s %s' where descending has '%s %s %s'", x.l, x.op, x.r, y.l, y.op, y.r)
		}
	}
	return true, ""
}

// isBoundOperand: a literal number or a length, i.e. an operand of a bound test rather than a sort key.
func isBoundOperand(s string) bool {
	if strings.HasPrefix(s, "len(") || strings.HasPrefix(s, "cap(") {
		return true
	}
	for _, r := range s {
		if r < '0' || r > '9' {
			return false
		}
	}
	return s != ""
}

// ascAtom classifies x as the direction flag (+1), its negation (-1) or neither (0).
func ascAtom(x ast.Expr) int {
	x = ast.Unparen(x)
	if u, ok := x.(*ast.UnaryExpr); ok && u.Op == token.NOT {
		return -ascAtom(u.X)
	}
	if se, ok := x.(*ast.SelectorExpr); ok && se.Sel.Name == "Ascending" {
		return 1
	}
	return 0
}

func terminates(b *ast.BlockStmt) bool {
	if b == nil || len(b.List) == 0 {
		return false
	}
	switch s := b.List[len(b.List)-1].(type) {
	case *ast.ReturnStmt:
		return true
	case *ast.BranchStmt:
		return s.Tok == token.GOTO || s.Tok == token.CONTINUE || s.Tok == token.BREAK
	}
	return false
}

func runDirectionMirror(c *core.Ctx) {
	arms, pairs := 0, 0
	mirrorPkgs := []string{"query", tsm1, "tsdb", coord}
	if c.Tier == "thorough" {
		// every package of the repository
		mirrorPkgs = nil
		for rel := range c.P.ByPath {
			mirrorPkgs = append(mirrorPkgs, rel)
		}
		sort.Strings(mirrorPkgs)
	}
	for _, rel := range mirrorPkgs {
		for _, f := range c.P.FuncsIn(rel) {
			if f.Body == nil {
				continue
			}
			ka, kp := 0, 0
			// (a) if/else arms on the direction flag
			var visitList func(list []ast.Stmt)
			visitList = func(list []ast.Stmt) {
				for i, s := range list {
					ifs, ok := s.(*ast.IfStmt)
					if !ok || ifs.Init != nil {
						continue
					}
					d := ascAtom(ifs.Cond)
					if d == 0 {
						continue
					}
					var other ast.Node
					switch e := ifs.Else.(type) {
					case *ast.BlockStmt:
						other = e
					case nil:
						if terminates(ifs.Body) && i+1 < len(list) {
							other = &ast.BlockStmt{List: list[i+1:]}
						}
					}
					if other == nil {
						continue
					}
					a, dd := comparisons(ifs.Body, true), comparisons(other, true)
					if d < 0 {
						a, dd = dd, a
					}
					if len(a) == 0 && len(dd) == 0 {
						continue
					}
					ka++
					arms++
					ok2, why := mirrored(a, dd)
					c.Check("direction-arms-are-mirror-images", fmt.Sprintf("%s/if-ascending#%d", f.Name, ka), c.P.Pos(ifs.Pos()), ok2,
						"the ascending and the descending arm do not order by the same keys with the comparisons reversed: "+why)
				}
			}
			ast.Inspect(f.Body, func(nd ast.Node) bool {
				switch x := nd.(type) {
				case *ast.FuncLit:
					return false
				case *ast.BlockStmt:
					visitList(x.List)
				case *ast.CaseClause:
					visitList(x.Body)
				}
				return true
			})
			// (b) '&&' alternatives: Ascending && cmp  /  !Ascending && cmp'
			var ascC, descC []dirCmp
			ast.Inspect(f.Body, func(nd ast.Node) bool {
				if _, ok := nd.(*ast.FuncLit); ok {
					return false
				}
				be, ok := nd.(*ast.BinaryExpr)
				if !ok || be.Op != token.LAND {
					return true
				}
				// flatten the chain
				var conj []ast.Expr
				var flat func(x ast.Expr)
				flat = func(x ast.Expr) {
					if b, ok := ast.Unparen(x).(*ast.BinaryExpr); ok && b.Op == token.LAND {
						flat(b.X)
						flat(b.Y)
						return
					}
					conj = append(conj, ast.Unparen(x))
				}
				flat(be)
				d := 0
				for _, cj := range conj {
					if a := ascAtom(cj); a != 0 {
						d = a
					}
				}
				if d == 0 {
					return false
				}
				for _, cj := range conj {
					if b, ok := cj.(*ast.BinaryExpr); ok && isOrderOp(b.Op) {
						dc := dirCmp{b.Op, core.ExprStr(b.X), core.ExprStr(b.Y), b.Pos()}
						if d > 0 {
							ascC = append(ascC, dc)
						} else {
							descC = append(descC, dc)
						}
					}
				}
				return false
			})
			for _, a := range ascC {
				for _, d := range descC {
					same := a.l == d.l && a.r == d.r
					swapped := a.l == d.r && a.r == d.l
					if !same && !swapped {
						continue
					}
					kp++
					pairs++
					good := same && d.op == mirrorOp(a.op) || swapped && d.op == a.op
					c.Check("direction-alternatives-are-mirror-images", fmt.Sprintf("%s/pair#%d", f.Name, kp), c.P.Pos(d.pos), good,
						fmt.Sprintf("under ascending the test is '%s %s %s', under descending '%s %s %s': the descending case is not the mirror image (a boundary window or point is handled in one direction only)", a.l, a.op, a.r, d.l, d.op, d.r))
				}
			}
		}
	}
	c.Floor("if/else arms on the direction flag with ordering comparisons", arms, 10)
	c.Floor("ascending/descending '&&' alternatives over the same operands", pairs, 10)
	// (c) ascending / descending cursor siblings
	sib := 0
	for _, f := range c.P.FuncsIn(tsm1) {
		if f.Decl == nil || f.Decl.Recv == nil || !strings.Contains(f.Name, "AscendingCursor).") {
			continue
		}
		g := c.P.Fn(strings.Replace(f.Name, "AscendingCursor).", "DescendingCursor).", 1))
		if g == nil || g.Body == nil {
			continue
		}
		a, d := comparisons(f.Body, false), comparisons(g.Body, false)
		hasOrder := false
		for _, x := range a {
			if isOrderOp(x.op) {
				hasOrder = true
			}
		}
		if !hasOrder || !strings.HasPrefix(f.Decl.Name.Name, "next") || typeNameIn(f.Decl.Name.Name) == "" {
			continue
		}
		sib++
		ok, why := mirrored(a, d)
		c.Check("cursor-siblings-are-mirror-images", f.Name, f.PosStr(), ok, "the descending cursor is not the mirror image of the ascending one: "+why)
	}
	c.Floor("ascending/descending cursor sibling pairs", sib, 5)
}
