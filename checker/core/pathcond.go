package core

import (
	"fmt"
	"go/ast"
	"sort"
	"strings"
)

// PathCondition computes the condition under which control reaches an event matching target:
// the disjunction, over all explored paths, of the conjunction of the outcomes of the branch
// conditions most recently evaluated on that path. It is independent of how the tests are arranged
// (early returns, nested ifs, continue). keep selects the conditions that take part (nil = all).
func (pc *PredCompiler) PathCondition(f *FuncInfo, target Match, keep func(ast.Expr) bool) (*BExpr, error) {
	fl := f.Flow()
	pc.ResetLocals()
	pc.Sticky = true
	defer func() { pc.Sticky = false }()
	var disj []*BExpr
	seen := map[string]bool{}
	var cerr error
	complete := fl.ExplorePaths(func(k VarKey, fct Fact) bool {
		return k.Root == nil && strings.HasPrefix(k.Path, "cond:") && fct.Def != nil && (keep == nil || keep(fct.Def))
	}, func(e *Event, st State) {
		if !target(e) || cerr != nil {
			return
		}
		var keys []VarKey
		for k := range st {
			if k.Root == nil && strings.HasPrefix(k.Path, "cond:") {
				keys = append(keys, k)
			}
		}
		sort.Slice(keys, func(i, j int) bool { return keys[i].Path < keys[j].Path })
		var term *BExpr
		sig := ""
		for _, k := range keys {
			fct := st[k]
			if fct.Bool == 0 {
				continue
			}
			b, err := pc.CompileIn(f, fct.Def)
			if err != nil {
				cerr = err
				return
			}
			if fct.Bool == 2 {
				b = Not(b)
			}
			sig += fmt.Sprintf("%s=%d;", k.Path, fct.Bool)
			if term == nil {
				term = b
			} else {
				term = And(term, b)
			}
		}
		if seen[sig] {
			return
		}
		seen[sig] = true
		if term == nil {
			term = ConstB(true)
		}
		disj = append(disj, term)
	})
	if cerr != nil {
		return nil, cerr
	}
	if !complete {
		return nil, fmt.Errorf("exploration bound exceeded in %s", f.Name)
	}
	if len(disj) == 0 {
		return ConstB(false), nil
	}
	out := disj[0]
	for _, d := range disj[1:] {
		out = Or(out, d)
	}
	return out, nil
}
