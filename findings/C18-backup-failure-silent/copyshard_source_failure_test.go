// Copy into coordinator/ and run: go test -vet=off -count=1 -run 'TestFinding_CopyShard_' ./coordinator/
//
// Demonstrates the C18 known finding: when the SOURCE node's backup fails (before or between tar entries),
// processBackupShardRequest only logs and closes the connection. The destination's restore reads a clean end of
// stream, takes it for a complete (empty) archive, answers the copy-shard request with success, and the meta
// node (serveCopyShard) adds the destination as an owner of a shard it holds no data of.
package coordinator_test

import (
	"archive/tar"
	"errors"
	"io"
	"os"
	"path/filepath"
	"testing"
	"time"

	"github.com/influxdata/influxdb/coordinator"
	intar "github.com/influxdata/influxdb/pkg/tar"
)

func openCopyTestService(t *testing.T) (*coordinator.Service, *testService) {
	ts := newTestWriteService(nil)
	s := coordinator.NewService(coordinator.Config{DialTimeout: 5e9})
	s.Listener = ts.muxln
	s.DefaultListener = ts.defln
	s.MetaClient = &metaClient{addr: ts.ln.Addr().String()}
	s.TSDBStore = &ts.TSDBStore
	s.Server = &server{}
	if err := s.Open(); err != nil {
		t.Fatal(err)
	}
	return s, &ts
}

func TestFinding_CopyShard_SourceBackupFails(t *testing.T) {
	src, srcTS := openCopyTestService(t)
	defer src.Close()
	defer srcTS.Close()
	dst, dstTS := openCopyTestService(t)
	defer dst.Close()
	defer dstTS.Close()

	// the source cannot produce the backup (disk error creating the snapshot, engine closed, ...)
	srcTS.TSDBStore.BackupShardFn = func(id uint64, since time.Time, w io.Writer) error {
		return errors.New("snapshot failed: no space left on device")
	}
	// the destination restores exactly like tsm1.Engine.overlay does: read tar entries until io.EOF
	restored := 0
	dstTS.TSDBStore.CreateShardFn = func(database, policy string, shardID uint64, enabled bool) error { return nil }
	dstTS.TSDBStore.RestoreShardFn = func(id uint64, r io.Reader) error {
		tr := tar.NewReader(r)
		for {
			_, err := tr.Next()
			if err == io.EOF {
				return nil
			} else if err != nil {
				return err
			}
			restored++
		}
	}

	c := coordinator.NewClient(nil, 5*time.Second)
	err := c.CopyShard(dstTS.ln.Addr().String(), srcTS.ln.Addr().String(), "db0", "rp0", 7, time.Time{})
	if err == nil {
		t.Fatalf("copy-shard reported success although the source's backup failed (files restored: %d): the destination would be advertised as a replica of a shard it does not hold", restored)
	}
}

// Second history: the source's backup fails between two files of the shard (after one complete tar entry).
// pkg/tar.Stream used to finish the archive with the end-of-archive marker even when the walk had failed.
func TestFinding_CopyShard_SourceBackupFailsBetweenFiles(t *testing.T) {
	src, srcTS := openCopyTestService(t)
	defer src.Close()
	defer srcTS.Close()
	dst, dstTS := openCopyTestService(t)
	defer dst.Close()
	defer dstTS.Close()

	dir := t.TempDir()
	for _, n := range []string{"000000001-000000001.tsm", "000000002-000000001.tsm"} {
		if err := os.WriteFile(filepath.Join(dir, n), []byte("tsm file contents of "+n), 0600); err != nil {
			t.Fatal(err)
		}
	}
	srcTS.TSDBStore.BackupShardFn = func(id uint64, since time.Time, w io.Writer) error {
		n := 0
		return intar.Stream(w, dir, "db0/rp0/7", func(f os.FileInfo, rel, full string, tw *tar.Writer) error {
			n++
			if n == 2 {
				return errors.New("read error on the second file")
			}
			return intar.StreamFile(f, rel, full, tw)
		})
	}
	restored := 0
	dstTS.TSDBStore.CreateShardFn = func(database, policy string, shardID uint64, enabled bool) error { return nil }
	dstTS.TSDBStore.RestoreShardFn = func(id uint64, r io.Reader) error {
		tr := tar.NewReader(r)
		for {
			_, err := tr.Next()
			if err == io.EOF {
				return nil
			} else if err != nil {
				return err
			}
			restored++
		}
	}
	c := coordinator.NewClient(nil, 5*time.Second)
	err := c.CopyShard(dstTS.ln.Addr().String(), srcTS.ln.Addr().String(), "db0", "rp0", 7, time.Time{})
	if err == nil {
		t.Fatalf("copy-shard reported success although the source's backup broke off after %d of 2 files: a half-populated shard would be advertised as a replica", restored)
	}
}
