// Copy into: coordinator
// go test -vet=off -count=1 -run 'TestFinding_BoundedPoolPut_RecursiveRLock' ./coordinator/
package coordinator

import (
	"net"
	"sync"
	"testing"
	"time"
)

type zzNopConn struct{ net.Conn }

func (zzNopConn) Close() error { return nil }

// boundedPool.put takes c.mu.RLock and, when the pool is full, calls c.tryFree, which takes c.mu.RLock again. When
// Close asks for the write lock between the two, put waits for Close and Close waits for put: the pool (and every
// Get/put/Close of it) is dead. The window is a few instructions wide, so the demo races one put against one Close
// on a fresh full pool, many times.
func TestFinding_BoundedPoolPut_RecursiveRLock(t *testing.T) {
	deadline := time.Now().Add(15 * time.Second)
	for trial := 0; trial < 3000000 && time.Now().Before(deadline); trial++ {
		p, err := NewBoundedPool(1, 1, 0, func() (net.Conn, error) { return zzNopConn{}, nil })
		if err != nil {
			t.Fatal(err)
		}
		c := p.(*boundedPool)
		var start, wg sync.WaitGroup
		start.Add(1)
		wg.Add(2)
		go func() { defer wg.Done(); start.Wait(); c.put(zzNopConn{}) }()
		go func() { defer wg.Done(); start.Wait(); c.Close() }()
		fin := make(chan struct{})
		go func() { wg.Wait(); close(fin) }()
		start.Done()
		select {
		case <-fin:
		case <-time.After(5 * time.Second):
			t.Fatalf("trial %d: boundedPool.put and Close are deadlocked: put read-locks the pool mutex recursively through tryFree", trial)
		}
	}
}
