package core

import (
	"fmt"
	"go/ast"
	"go/types"
	"sort"
	"strings"
)

// Rule G9: lock pairing, lock order, locked regions.
//
// A lock operation is a call of sync.(*Mutex|*RWMutex).{Lock,Unlock,RLock,RUnlock}. The lock is
// identified inside one function by the text of its receiver expression plus the mode (W/R), and
// across functions by its class: (named struct type, field name) of the selected field.

// LockOp is one lock/unlock site.
type LockOp struct {
	Ev      *Event
	Key     string // receiver expression + "#W" / "#R"
	Class   string // "Type.field#W" or "" when the mutex is a local/global variable
	Acquire bool
	Defer   bool // registered with defer (directly or inside a deferred closure)
}

func lockOpOf(info *types.Info, call *ast.CallExpr) (key, class string, acquire, ok bool) {
	se, isSel := call.Fun.(*ast.SelectorExpr)
	if !isSel {
		return
	}
	fn, isFn := Callee(info, call).(*types.Func)
	if !isFn || fn.Pkg() == nil || fn.Pkg().Path() != "sync" {
		return
	}
	sig := fn.Type().(*types.Signature)
	if sig.Recv() == nil {
		return
	}
	rt := sig.Recv().Type().String()
	if !strings.HasSuffix(rt, "sync.Mutex") && !strings.HasSuffix(rt, "sync.RWMutex") {
		return
	}
	mode := "#W"
	switch fn.Name() {
	case "Lock":
		acquire = true
	case "Unlock":
	case "RLock":
		acquire, mode = true, "#R"
	case "RUnlock":
		mode = "#R"
	default:
		return
	}
	key = types.ExprString(se.X) + mode
	if fp := FieldPathOf(info, se.X); fp != "" {
		class = fp + mode
	} else if id, isId := ast.Unparen(se.X).(*ast.Ident); isId {
		if v, isVar := info.ObjectOf(id).(*types.Var); isVar && v.Pkg() != nil && v.Parent() == v.Pkg().Scope() {
			class = Rel(v.Pkg().Path()) + "." + v.Name() + mode
		}
		// embedded mutex: receiver is a struct value with an embedded sync.Mutex
		if class == "" {
			if t := info.TypeOf(se.X); t != nil {
				if p, isPtr := t.(*types.Pointer); isPtr {
					t = p.Elem()
				}
				if nt, isNamed := t.(*types.Named); isNamed && nt.Obj().Pkg() != nil && nt.Obj().Pkg().Path() != "sync" {
					class = nt.Obj().Name() + ".(embedded)" + mode
				}
			}
		}
	}
	ok = true
	return
}

// LockOps lists the lock operations of one function body (direct ones and those in deferred closures).
func (f *FuncInfo) LockOps() []*LockOp {
	var out []*LockOp
	info := f.Info()
	for _, e := range f.Graph().Events {
		switch e.Kind {
		case EvCall:
			if k, cl, acq, ok := lockOpOf(info, e.Call); ok {
				out = append(out, &LockOp{Ev: e, Key: k, Class: cl, Acquire: acq})
			}
		case EvDefer:
			if k, cl, acq, ok := lockOpOf(info, e.Call); ok {
				out = append(out, &LockOp{Ev: e, Key: k, Class: cl, Acquire: acq, Defer: true})
				continue
			}
			// defer func() { ...; mu.Unlock() }()
			if lit, isLit := ast.Unparen(e.Call.Fun).(*ast.FuncLit); isLit {
				ast.Inspect(lit.Body, func(nd ast.Node) bool {
					if ce, isCall := nd.(*ast.CallExpr); isCall {
						if k, cl, acq, ok := lockOpOf(info, ce); ok && !acq {
							out = append(out, &LockOp{Ev: e, Key: k, Class: cl, Acquire: false, Defer: true})
						}
					}
					return true
				})
			}
		}
	}
	return out
}

// LockState is the per-path lock balance relative to function entry.
type LockState struct {
	Bal map[string]int // key -> acquisitions minus releases
	Def map[string]int // key -> deferred releases registered
}

func (s LockState) clone() LockState {
	n := LockState{Bal: map[string]int{}, Def: map[string]int{}}
	for k, v := range s.Bal {
		n.Bal[k] = v
	}
	for k, v := range s.Def {
		n.Def[k] = v
	}
	return n
}

func (s LockState) String() string {
	var parts []string
	for k, v := range s.Bal {
		if v != 0 {
			parts = append(parts, fmt.Sprintf("b:%s=%d", k, v))
		}
	}
	for k, v := range s.Def {
		if v != 0 {
			parts = append(parts, fmt.Sprintf("d:%s=%d", k, v))
		}
	}
	sort.Strings(parts)
	return strings.Join(parts, ";")
}

// Held reports whether some lock is held (positive balance) in the state; class filter optional.
func (s LockState) Held() []string {
	var out []string
	for k, v := range s.Bal {
		if v > 0 {
			out = append(out, k)
		}
	}
	sort.Strings(out)
	return out
}

// ExploreLocks walks every feasible path of the function keeping the exact lock balance per path
// (no merging). visit is called for every (event, state) pair before the event's own effect.
// It returns false when the bound is exceeded.
func (f *FuncInfo) ExploreLocks(visit func(e *Event, st LockState)) bool {
	ops := map[*Event][]*LockOp{}
	for _, op := range f.LockOps() {
		ops[op.Ev] = append(ops[op.Ev], op)
	}
	fl := f.Flow()
	g := f.Graph()
	type item struct {
		e  *Event
		st LockState
	}
	seen := map[*Event]map[string]bool{}
	work := []item{{g.Entry, LockState{Bal: map[string]int{}, Def: map[string]int{}}}}
	n := 0
	for len(work) > 0 {
		it := work[len(work)-1]
		work = work[:len(work)-1]
		sig := it.st.String()
		if seen[it.e] == nil {
			seen[it.e] = map[string]bool{}
		}
		if seen[it.e][sig] {
			continue
		}
		seen[it.e][sig] = true
		n++
		if n > 300000 {
			return false
		}
		visit(it.e, it.st)
		st := it.st
		if os := ops[it.e]; len(os) > 0 {
			st = st.clone()
			for _, op := range os {
				switch {
				case op.Defer && !op.Acquire:
					if st.Def[op.Key] < 3 {
						st.Def[op.Key]++
					}
				case op.Defer:
					// deferred acquire: ignore
				case op.Acquire:
					if st.Bal[op.Key] < 3 {
						st.Bal[op.Key]++
					}
				default:
					if st.Bal[op.Key] > -3 {
						st.Bal[op.Key]--
					}
				}
			}
		}
		for i, ed := range it.e.Succ {
			if it.e.Kind == EvReturn {
				continue // do not walk the synthetic deferred chain
			}
			if !fl.feasible(it.e, i) {
				continue
			}
			work = append(work, item{ed.To, st})
		}
	}
	return true
}

// LockLeak is a return reached with a lock still held and no deferred release.
type LockLeak struct {
	Fn   *FuncInfo
	Key  string
	Ret  *Event
	Path []*Event
}

// LockLeaks finds, per lock key, a return of f that is reachable with a positive balance not covered by deferred unlocks.
func (f *FuncInfo) LockLeaks() ([]*LockLeak, bool) {
	leaks := map[string]*LockLeak{}
	complete := f.ExploreLocks(func(e *Event, st LockState) {
		if e.Kind != EvReturn {
			return
		}
		for k, b := range st.Bal {
			if b-st.Def[k] > 0 {
				if _, dup := leaks[k]; !dup {
					leaks[k] = &LockLeak{Fn: f, Key: k, Ret: e}
				}
			}
		}
	})
	var out []*LockLeak
	for _, l := range leaks {
		out = append(out, l)
	}
	sort.Slice(out, func(i, j int) bool { return out[i].Key < out[j].Key })
	return out, complete
}
