package meta

import (
	"testing"
	"time"
)

// The same command applied to identical states on different replicas must give identical metadata.
func TestZZ_DeleteDataNodeDeterministic(t *testing.T) {
	build := func() *Data {
		d := &Data{}
		for _, h := range []string{"a", "b", "c", "d", "e"} {
			d.CreateDataNode(h, h)
		}
		d.CreateDatabase("db")
		d.CreateRetentionPolicy("db", &RetentionPolicyInfo{Name: "rp", ReplicaN: 1, ShardGroupDuration: time.Hour}, true)
		d.CreateShardGroup("db", "rp", time.Unix(0, 0))
		return d
	}
	first := ""
	for i := 0; i < 64; i++ {
		d := build()
		// remove the owner of the first shard: it is orphaned and must be re-assigned
		victim := d.Databases[0].RetentionPolicies[0].ShardGroups[0].Shards[0].Owners[0].NodeID
		if err := d.DeleteDataNode(victim); err != nil {
			t.Fatal(err)
		}
		b, _ := d.MarshalBinary()
		if first == "" {
			first = string(b)
		} else if string(b) != first {
			t.Fatalf("replica %d computed a different owner for the orphaned shard: %v", i, d.Databases[0].RetentionPolicies[0].ShardGroups[0].Shards)
		}
	}
}
