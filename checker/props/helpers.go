package props

import (
	"fmt"
	"go/ast"
	"go/token"
	"go/types"
	"sort"
	"strings"

	"verifcheck/core"
)

// calleeIn returns a predicate over call expressions of f: resolved callee name in names, or a call of an
// exact wrapper of such a call (see exactWrapper).
func calleeIn(f *core.FuncInfo, names ...string) func(*ast.CallExpr) bool {
	set := map[string]bool{}
	for _, n := range names {
		set[n] = true
	}
	direct := func(fi *core.FuncInfo) func(*ast.CallExpr) bool {
		info := fi.Info()
		return func(c *ast.CallExpr) bool {
			if fn, ok := core.Callee(info, c).(*types.Func); ok {
				return set[core.FuncName(fn)]
			}
			return false
		}
	}
	return orWrapper(f, "callee:"+strings.Join(names, ","), direct)
}

// fieldCallIn: call of method on struct field "Type.field", or a call of an exact wrapper of such a call.
func fieldCallIn(f *core.FuncInfo, field, method string) func(*ast.CallExpr) bool {
	direct := func(fi *core.FuncInfo) func(*ast.CallExpr) bool {
		info := fi.Info()
		return func(c *ast.CallExpr) bool {
			se, ok := c.Fun.(*ast.SelectorExpr)
			if !ok || se.Sel.Name != method {
				return false
			}
			return core.FieldPathOf(info, se.X) == field
		}
	}
	return orWrapper(f, "field:"+field+"."+method, direct)
}

// exact-wrapper recognition -------------------------------------------------------------------------------
//
// A helper extracted from an anchored function (func (w *T) enqueue(...) error { count++; return w.q.Write(...) })
// must not change a verdict. A declared, unexported function F of the repository is an exact wrapper of the
// calls selected by a predicate when every path through F executes exactly one such call, F registers no defers
// and starts no goroutines, and, if F returns an error, every return hands back that call's error. A call of F
// then stands for the wrapped call in every rule (its error result is the wrapped call's error).

var wrapperCache = map[string]bool{}

func orWrapper(f *core.FuncInfo, what string, direct func(fi *core.FuncInfo) func(*ast.CallExpr) bool) func(*ast.CallExpr) bool {
	own := direct(f)
	info := f.Info()
	prog := f.Prog
	return func(c *ast.CallExpr) bool {
		if own(c) {
			return true
		}
		fn, ok := core.Callee(info, c).(*types.Func)
		if !ok || fn.Exported() {
			return false
		}
		callee := prog.FuncOf(fn)
		if callee == nil || callee == f.Root() {
			return false
		}
		return exactWrapper(callee, what, direct, 1)
	}
}

func exactWrapper(fi *core.FuncInfo, what string, direct func(fi *core.FuncInfo) func(*ast.CallExpr) bool, depth int) bool {
	if fi.Body == nil || fi.Decl == nil || depth > 2 {
		return false
	}
	key := fi.Name + "|" + what
	if v, ok := wrapperCache[key]; ok {
		return v
	}
	wrapperCache[key] = false // recursion guard
	pred := direct(fi)
	g := fi.Graph()
	n := 0
	var the *core.Event
	for _, e := range g.Events {
		switch e.Kind {
		case core.EvDefer, core.EvGo:
			return false
		case core.EvCall:
			if pred(e.Call) {
				n++
				the = e
			}
		}
	}
	if n == 0 {
		return false
	}
	m := func(e *core.Event) bool { return e.Kind == core.EvCall && pred(e.Call) }
	// on every path to a return at least one, and never two
	if p := fi.Flow().PathAvoiding(g.Entry, core.IsNormalReturn, m); p != nil {
		return false
	}
	if len(fi.NoPath(m, m)) > 0 {
		return false
	}
	// the error handed back is the wrapped call's error
	if fi.ErrResultIndex() >= 0 {
		for _, e := range g.Events {
			if e.Kind != core.EvReturn || !fi.Flow().Reachable(e) {
				continue
			}
			fact, x := fi.ReturnErrFact(e)
			ok := false
			if ce, isCall := fact.Def.(*ast.CallExpr); isCall && pred(ce) {
				ok = true
			}
			if x != nil {
				if ce, isCall := ast.Unparen(x).(*ast.CallExpr); isCall && pred(ce) {
					ok = true
				}
			}
			if !ok {
				return false
			}
		}
	} else if n != 1 || the == nil {
		return false
	}
	wrapperCache[key] = true
	return true
}

func evCall(pred func(*ast.CallExpr) bool) core.Match {
	return func(e *core.Event) bool { return e.Kind == core.EvCall && pred(e.Call) }
}

func evCallOrDeferred(pred func(*ast.CallExpr) bool) core.Match {
	return func(e *core.Event) bool {
		return (e.Kind == core.EvCall || e.Kind == core.EvDeferred) && pred(e.Call)
	}
}

// findOrAbort returns events matching m in f; the clause is undecided when fewer than min are found.
func findOrAbort(c *core.Ctx, f *core.FuncInfo, what string, m core.Match, min int) []*core.Event {
	evs := f.Graph().Find(m)
	var live []*core.Event
	fl := f.Flow()
	for _, e := range evs {
		if fl.Reachable(e) {
			live = append(live, e)
		}
	}
	c.Need(len(live) >= min, fmt.Sprintf("%s: %d site(s) of %s, need >= %d", f.Name, len(live), what, min))
	c.Counts["call_sites"] += len(live)
	return live
}

// orderRule: every path from entry to each B passes an A first.
func orderRule(c *core.Ctx, f *core.FuncInfo, rule, aName, bName string, A, B core.Match) {
	bs := findOrAbort(c, f, bName, B, 1)
	findOrAbort(c, f, aName, A, 1)
	viol := f.MustPrecede(A, B)
	bad := map[*core.Event][]*core.Event{}
	for _, p := range viol {
		if len(p) > 0 {
			bad[p[len(p)-1]] = p
		}
	}
	for i, b := range bs {
		p, isBad := bad[b]
		detail := ""
		if isBad {
			detail = fmt.Sprintf("%s reached without %s first: %s", bName, aName, core.PathStr(p))
		}
		c.Check(rule, fmt.Sprintf("%s/%s<%s#%d", f.Name, aName, bName, i+1), c.P.Pos(b.Pos()), !isBad, detail)
	}
}

// okRule: at every reachable B, the most recent execution of a call matching A returned a nil error on all paths.
func okRule(c *core.Ctx, f *core.FuncInfo, rule, aName, bName string, A func(*ast.CallExpr) bool, B core.Match) {
	bs := findOrAbort(c, f, bName, B, 1)
	findOrAbort(c, f, aName, evCall(A), 1)
	fl := f.Flow()
	for i, b := range bs {
		ok := fl.CallOKAt(b, A)
		detail := ""
		if !ok {
			detail = fmt.Sprintf("%s is reachable on a path where %s has not been established to have returned a nil error", bName, aName)
			if p := fl.PathAvoiding(f.Graph().Entry, func(x *core.Event) bool { return x == b }, nil); p != nil {
				detail += " (e.g. " + core.PathStr(p) + ")"
			}
		}
		c.Check(rule, fmt.Sprintf("%s/%s-ok@%s#%d", f.Name, aName, bName, i+1), c.P.Pos(b.Pos()), ok, detail)
	}
}

// noPathRule: no feasible path from A to B.
func noPathRule(c *core.Ctx, f *core.FuncInfo, rule, aName, bName string, A, B core.Match) {
	as := findOrAbort(c, f, aName, A, 1)
	_ = as
	v := f.NoPath(A, B)
	detail := ""
	if len(v) > 0 {
		detail = fmt.Sprintf("%s can be followed by %s: %s", aName, bName, core.PathStr(v[0]))
	}
	pos := f.PosStr()
	if len(v) > 0 {
		pos = c.P.Pos(v[0][len(v[0])-1].Pos())
	}
	c.Check(rule, fmt.Sprintf("%s/%s!>%s", f.Name, aName, bName), pos, len(v) == 0, detail)
}

// errPropagated: the error result of every call matching A is either returned by f
// (directly, or via a variable that is tested and returned / assigned to the named result)
// – concretely: no feasible path from the call to a normal return on which the call's
// error is known non-nil while the returned error is known nil, and the error result is not discarded.
func errPropagated(c *core.Ctx, f *core.FuncInfo, rule, aName string, A func(*ast.CallExpr) bool) {
	evs := findOrAbort(c, f, aName, evCall(A), 1)
	for i, e := range evs {
		ok, detail := errUsed(f, e)
		c.Check(rule, fmt.Sprintf("%s/err-of-%s#%d", f.Name, aName, i+1), c.P.Pos(e.Pos()), ok, detail)
	}
}

// errUsed decides whether the error result of call event e is consumed:
// returned directly, assigned to a variable that is subsequently nil-tested or returned, or sent.
func errUsed(f *core.FuncInfo, e *core.Event) (bool, string) {
	info := f.Info()
	// locate the statement holding the call
	switch st := e.Stmt.(type) {
	case *ast.ExprStmt:
		if ast.Unparen(st.X) == e.Call {
			return false, "error result discarded (call used as a statement)"
		}
	case *ast.ReturnStmt:
		for _, r := range st.Results {
			if ast.Unparen(r) == e.Call {
				return true, ""
			}
		}
	case *ast.AssignStmt:
		if len(st.Rhs) == 1 && ast.Unparen(st.Rhs[0]) == e.Call {
			// which lhs receives the error?
			tv := info.TypeOf(e.Call)
			idx := 0
			if tup, ok := tv.(*types.Tuple); ok {
				idx = tup.Len() - 1
			}
			if idx >= len(st.Lhs) {
				return false, "error result not assigned"
			}
			id, ok := st.Lhs[idx].(*ast.Ident)
			if !ok {
				return true, "" // stored into a field/element: treated as consumed
			}
			if id.Name == "_" {
				return false, "error result assigned to _"
			}
			obj := info.ObjectOf(id)
			// the variable must be read afterwards (nil test, return, send, argument) before being overwritten
			fl := f.Flow()
			used := false
			seen := map[*core.Event]bool{}
			var walk func(x *core.Event)
			walk = func(x *core.Event) {
				if used || seen[x] {
					return
				}
				seen[x] = true
				if x != e && x.Node != nil && x.Stmt != e.Stmt {
					if usesObj(info, x.Node, obj) {
						used = true
						return
					}
					if as, ok := x.Node.(*ast.AssignStmt); ok {
						for _, l := range as.Lhs {
							if lid, ok := l.(*ast.Ident); ok && info.ObjectOf(lid) == obj {
								return // overwritten before use on this path
							}
						}
					}
				}
				if x.Kind == core.EvReturn && x.Node == nil {
					// implicit/bare return with named result
					for i := 0; i < f.NumResults(); i++ {
						if _, v := f.ResultExpr(x, i); v != nil && v == obj {
							used = true
							return
						}
					}
				}
				if rs, ok := x.Node.(*ast.ReturnStmt); ok && len(rs.Results) == 0 {
					for i := 0; i < f.NumResults(); i++ {
						if _, v := f.ResultExpr(x, i); v != nil && v == obj {
							used = true
							return
						}
					}
				}
				for _, ed := range x.Succ {
					if fl.Reachable(ed.To) {
						walk(ed.To)
					}
				}
			}
			walk(e)
			if !used {
				return false, fmt.Sprintf("error variable %s is never read after the call", id.Name)
			}
			return true, ""
		}
	}
	// if err := call(); err != nil – the cfg node is the AssignStmt (handled) ; other contexts: argument of another call etc.
	return true, ""
}

func usesObj(info *types.Info, n ast.Node, obj types.Object) bool {
	found := false
	// an assignment's LHS ident is not a use
	skip := map[*ast.Ident]bool{}
	if as, ok := n.(*ast.AssignStmt); ok {
		for _, l := range as.Lhs {
			if id, ok := l.(*ast.Ident); ok {
				skip[id] = true
			}
		}
	}
	ast.Inspect(n, func(x ast.Node) bool {
		if found {
			return false
		}
		if _, ok := x.(*ast.FuncLit); ok {
			// a closure capturing the variable counts as a use
		}
		if id, ok := x.(*ast.Ident); ok && !skip[id] && info.ObjectOf(id) == obj {
			found = true
		}
		return true
	})
	return found
}

// returnsOnlyAfterOK: every normal return of f whose error result may be nil is reached only
// after a call matching A returned nil (or returns A's error itself).
func returnsOnlyAfterOK(c *core.Ctx, f *core.FuncInfo, rule, aName string, A func(*ast.CallExpr) bool, exempt func(*core.Event) string) int {
	fl := f.Flow()
	n := 0
	k := 0
	for _, e := range f.Graph().Events {
		if e.Kind != core.EvReturn || !fl.Reachable(e) {
			continue
		}
		fact, x := f.ReturnErrFact(e)
		if fact.Nil == core.NonNil {
			continue
		}
		k++
		// returns A's own error?
		if ce, ok := fact.Def.(*ast.CallExpr); ok && A(ce) {
			n++
			c.Check(rule, fmt.Sprintf("%s/return#%d", f.Name, k), c.P.Pos(e.Pos()), true, "returns the error of "+aName)
			continue
		}
		if x != nil {
			if ce, ok := ast.Unparen(x).(*ast.CallExpr); ok && A(ce) {
				n++
				c.Check(rule, fmt.Sprintf("%s/return#%d", f.Name, k), c.P.Pos(e.Pos()), true, "returns the error of "+aName)
				continue
			}
		}
		if exempt != nil {
			if why := exempt(e); why != "" {
				n++
				c.Check(rule, fmt.Sprintf("%s/return#%d", f.Name, k), c.P.Pos(e.Pos()), true, "exempt: "+why)
				continue
			}
		}
		ok := fl.CallOKAt(e, A)
		detail := ""
		if !ok {
			detail = fmt.Sprintf("a return with a possibly-nil error is reachable without %s having returned nil", aName)
			if p := fl.PathAvoiding(f.Graph().Entry, func(x *core.Event) bool { return x == e }, nil); p != nil {
				detail += ": " + core.PathStr(p)
			}
		}
		n++
		c.Check(rule, fmt.Sprintf("%s/return#%d", f.Name, k), c.P.Pos(e.Pos()), ok, detail)
	}
	return n
}

func short(s string) string {
	if i := strings.LastIndex(s, "/"); i >= 0 {
		return s[i+1:]
	}
	return s
}

// isField matches an expression that is a selection of struct field "Type.field".
func isField(f *core.FuncInfo, field string) func(ast.Expr) bool {
	info := f.Info()
	return func(x ast.Expr) bool { return core.FieldPathOf(info, x) == field }
}

// noRealCallBefore: every path from entry to e contains only builtin calls.
func noRealCallBefore(f *core.FuncInfo, e *core.Event) bool {
	real := func(x *core.Event) bool {
		if x.Kind != core.EvCall {
			return false
		}
		_, isBuiltin := x.Callee.(*types.Builtin)
		return !isBuiltin
	}
	// e must be reachable avoiding real calls, and not reachable through one
	fl := f.Flow()
	avoid := fl.ReachableFrom(f.Graph().Entry, real)
	if !avoid[e] {
		return false
	}
	for _, x := range f.Graph().Events {
		if real(x) && fl.Reachable(x) {
			if p := fl.PathAvoiding(x, func(y *core.Event) bool { return y == e }, nil); p != nil {
				return false
			}
		}
	}
	return true
}

// siteRow is one frozen row of a who-may-call table.
type siteRow struct {
	Fn     string // enclosing declared function (rendered name)
	Callee string
	N      int    // number of sites confirmed by reading
	Why    string // one-line reason
}

type site struct {
	Fn     *core.FuncInfo
	Ev     *core.Event
	Callee string
}

// callSites lists every call/defer/go site (not the synthetic deferred execution) in the
// given packages whose resolved callee name is in callees.
func callSites(p *core.Prog, pkgs []string, callees ...string) []site {
	set := map[string]bool{}
	for _, n := range callees {
		set[n] = true
	}
	var out []site
	for _, rel := range pkgs {
		for _, f := range p.FuncsIn(rel) {
			if f.Body == nil {
				continue
			}
			for _, e := range f.Graph().Events {
				if e.Kind != core.EvCall && e.Kind != core.EvDefer && e.Kind != core.EvGo {
					continue
				}
				if n := core.CalleeName(e); set[n] {
					out = append(out, site{Fn: f, Ev: e, Callee: n})
				}
			}
		}
	}
	return out
}

// siteTable checks the sites against the frozen rows: a site in a function/callee pair that has
// no row, or more sites than the row confirms, is a violation naming the site. Vanished sites are
// not violations; the total must stay >= floor so that the rule cannot pass vacuously.
func siteTable(c *core.Ctx, rule string, sites []site, rows []siteRow, floor int) {
	type key struct{ fn, callee string }
	allowed := map[key]siteRow{}
	for _, r := range rows {
		allowed[key{r.Fn, r.Callee}] = r
	}
	count := map[key]int{}
	for _, s := range sites {
		k := key{s.Fn.Root().Name, s.Callee}
		count[k]++
		r, ok := allowed[k]
		good := ok && count[k] <= r.N
		detail := r.Why
		if !ok {
			// a helper extracted from a confirmed function: accepted when it is unexported and every chain of
			// callers ends (within three steps) in functions that have a row for this callee
			if via, okVia := viaConfirmedCallers(c.P, s.Fn.Root(), func(name string) bool { _, has := allowed[key{name, s.Callee}]; return has }); okVia {
				c.Check(rule, fmt.Sprintf("%s/%s#%d", k.fn, short(s.Callee), count[k]), c.P.Pos(s.Ev.Pos()), true,
					"helper called only from confirmed site functions: "+strings.Join(via, ", "))
				continue
			}
		}
		if !ok {
			detail = fmt.Sprintf("call of %s in %s is not in the confirmed table of sites; triage it and add a row with a reason", s.Callee, k.fn)
		} else if !good {
			detail = fmt.Sprintf("%s has more calls of %s (%d) than the %d confirmed by reading (%s)", k.fn, s.Callee, count[k], r.N, r.Why)
		}
		c.Check(rule, fmt.Sprintf("%s/%s#%d", k.fn, short(s.Callee), count[k]), c.P.Pos(s.Ev.Pos()), good, detail)
	}
	c.Counts["call_sites"] += len(sites)
	c.Floor(rule+" sites", len(sites), floor)
}

// atomEstablished: some atom (a leaf of &&/||/! after decomposition of the recorded branch outcomes) selected by
// pred was established true (1) or false (2) on the path; 0 when none was.
func atomEstablished(st core.State, pred func(ast.Expr) bool) int8 {
	var res int8
	for k, fct := range st {
		if k.Root != nil || !strings.HasPrefix(k.Path, "cond:") || fct.Def == nil || fct.Bool == 0 {
			continue
		}
		var atoms []atomB
		decompose(fct.Def, fct.Bool == 1, &atoms)
		for _, a := range atoms {
			// atoms only: a compound that could not be decomposed does not count
			if be, ok := ast.Unparen(a.x).(*ast.BinaryExpr); ok && (be.Op.String() == "&&" || be.Op.String() == "||") {
				continue
			}
			if !pred(a.x) {
				continue
			}
			if a.val {
				res = 1
			} else if res == 0 {
				res = 2
			}
		}
	}
	return res
}

// atomEqEstablished: for atoms `x == K` / `x != K` selected by pred: 1 = equality established, 2 = inequality.
func atomEqEstablished(st core.State, pred func(ast.Expr) bool) int8 {
	var res int8
	for k, fct := range st {
		if k.Root != nil || !strings.HasPrefix(k.Path, "cond:") || fct.Def == nil || fct.Bool == 0 {
			continue
		}
		var atoms []atomB
		decompose(fct.Def, fct.Bool == 1, &atoms)
		for _, a := range atoms {
			be, ok := ast.Unparen(a.x).(*ast.BinaryExpr)
			if !ok || !pred(a.x) {
				continue
			}
			switch {
			case be.Op.String() == "==" && a.val, be.Op.String() == "!=" && !a.val:
				res = 1
			case be.Op.String() == "==" && !a.val, be.Op.String() == "!=" && a.val:
				if res == 0 {
					res = 2
				}
			}
		}
	}
	return res
}

// derefLocal replaces an identifier that names a local with exactly one assignment (its := declaration) by the
// defining expression, so that a hoisted sub-expression is seen through; anything else is returned unchanged.
func derefLocal(f *core.FuncInfo, x ast.Expr) ast.Expr {
	for depth := 0; depth < 3; depth++ {
		id, ok := ast.Unparen(x).(*ast.Ident)
		if !ok {
			return x
		}
		v, ok := f.Info().ObjectOf(id).(*types.Var)
		if !ok || v.IsField() || v.Pkg() == nil || v.Parent() == v.Pkg().Scope() {
			return x
		}
		var def ast.Expr
		n := 0
		ast.Inspect(f.Root().Body, func(nd ast.Node) bool {
			switch s := nd.(type) {
			case *ast.AssignStmt:
				for i, l := range s.Lhs {
					if lid, ok := l.(*ast.Ident); ok && f.Info().ObjectOf(lid) == types.Object(v) {
						n++
						if s.Tok.String() == ":=" && len(s.Lhs) == len(s.Rhs) {
							def = s.Rhs[i]
						} else {
							n += 10
						}
					}
				}
			case *ast.IncDecStmt:
				if lid, ok := s.X.(*ast.Ident); ok && f.Info().ObjectOf(lid) == types.Object(v) {
					n += 10
				}
			case *ast.RangeStmt:
				for _, l := range []ast.Expr{s.Key, s.Value} {
					if lid, ok := l.(*ast.Ident); ok && f.Info().ObjectOf(lid) == types.Object(v) {
						n += 10
					}
				}
			}
			return true
		})
		if n != 1 || def == nil {
			return x
		}
		x = def
	}
	return x
}

// eofEstablished reads the recorded branch outcomes of a path: 1 = some comparison established `x == io.EOF`,
// 2 = established `x != io.EOF`, 0 = neither (independent of how the test is written: ==, != or inside &&/||).
func eofEstablished(st core.State) int {
	res := 0
	for k, fct := range st {
		if k.Root != nil || !strings.HasPrefix(k.Path, "cond:") || fct.Def == nil || fct.Bool == 0 {
			continue
		}
		var atoms []atomB
		decompose(fct.Def, fct.Bool == 1, &atoms)
		for _, a := range atoms {
			be, ok := ast.Unparen(a.x).(*ast.BinaryExpr)
			if !ok || !strings.HasSuffix(core.ExprStr(be.Y), "io.EOF") && !strings.HasSuffix(core.ExprStr(be.X), "io.EOF") {
				continue
			}
			switch {
			case be.Op.String() == "==" && a.val, be.Op.String() == "!=" && !a.val:
				res = 1
			case be.Op.String() == "==" && !a.val, be.Op.String() == "!=" && a.val:
				if res == 0 {
					res = 2
				}
			}
		}
	}
	return res
}

// withLocalHelpers returns f followed by the unexported declared functions of f's package that f calls directly:
// the places a piece of f may have been extracted to.
func withLocalHelpers(p *core.Prog, f *core.FuncInfo) []*core.FuncInfo {
	out := []*core.FuncInfo{f}
	seen := map[*core.FuncInfo]bool{f: true}
	for _, g := range p.Callees(f) {
		if g.Decl == nil || g.Decl.Name.IsExported() || g.Pkg != f.Pkg || seen[g] || g.Body == nil {
			continue
		}
		seen[g] = true
		out = append(out, g)
	}
	return out
}

// reverse call index (static callees + CHA), built once per program
var callersIndex = map[*core.Prog]map[*core.FuncInfo][]*core.FuncInfo{}

func callersOf(p *core.Prog, f *core.FuncInfo) []*core.FuncInfo {
	idx, ok := callersIndex[p]
	if !ok {
		idx = map[*core.FuncInfo][]*core.FuncInfo{}
		for _, g := range p.AllFuncs() {
			if g.Body == nil {
				continue
			}
			for _, callee := range p.Callees(g) {
				idx[callee.Root()] = append(idx[callee.Root()], g.Root())
			}
		}
		callersIndex[p] = idx
	}
	return idx[f]
}

// viaConfirmedCallers: f is an unexported declared function and every chain of callers reaches, within three
// steps, a function accepted by confirmed; returns the confirmed functions found.
func viaConfirmedCallers(p *core.Prog, f *core.FuncInfo, confirmed func(name string) bool) ([]string, bool) {
	if f.Decl == nil || f.Decl.Name.IsExported() {
		return nil, false
	}
	found := map[string]bool{}
	var walk func(g *core.FuncInfo, depth int) bool
	walk = func(g *core.FuncInfo, depth int) bool {
		cs := callersOf(p, g)
		if len(cs) == 0 || depth > 3 {
			return false
		}
		for _, c := range cs {
			if c == g {
				continue
			}
			if confirmed(c.Name) {
				found[c.Name] = true
				continue
			}
			if c.Decl == nil || c.Decl.Name.IsExported() || !walk(c, depth+1) {
				return false
			}
		}
		return true
	}
	if !walk(f, 1) || len(found) == 0 {
		return nil, false
	}
	var out []string
	for n := range found {
		out = append(out, n)
	}
	sort.Strings(out)
	return out, true
}

// workUnit finds where the work identified by pred lives: a function literal of f, f itself, or a function of the
// same package that f calls directly (a closure extracted into a named function). nil when there is none or the
// choice is ambiguous.
func workUnit(p *core.Prog, f *core.FuncInfo, pred func(*ast.CallExpr) bool) *core.FuncInfo {
	has := func(g *core.FuncInfo) bool {
		if g == nil || g.Body == nil {
			return false
		}
		for _, e := range g.Graph().Events {
			if (e.Kind == core.EvCall || e.Kind == core.EvDeferred) && e.Call != nil && pred(e.Call) {
				return true
			}
		}
		return false
	}
	var found []*core.FuncInfo
	for _, l := range f.Lits {
		if has(l) {
			found = append(found, l)
		}
	}
	if len(found) == 0 && has(f) {
		return f
	}
	if len(found) == 0 {
		seen := map[*core.FuncInfo]bool{}
		for _, e := range f.Graph().Events {
			if e.Kind != core.EvCall || e.Call == nil {
				continue
			}
			fn, _ := e.Callee.(*types.Func)
			g := p.FuncOf(fn)
			if g == nil || g == f || seen[g] || g.Pkg != f.Pkg {
				continue
			}
			seen[g] = true
			if has(g) {
				found = append(found, g)
			}
		}
	}
	if len(found) != 1 {
		return nil
	}
	return found[0]
}

// callsUnit matches the call in f that runs the work unit: the immediate invocation of the literal, or the static
// call of the named function.
func callsUnit(f *core.FuncInfo, unit *core.FuncInfo) func(*ast.CallExpr) bool {
	return func(ce *ast.CallExpr) bool {
		if unit == nil {
			return false
		}
		if l, ok := ast.Unparen(ce.Fun).(*ast.FuncLit); ok {
			return unit.Lit == l
		}
		if unit.Obj == nil {
			return false
		}
		fn, _ := core.Callee(f.Info(), ce).(*types.Func)
		return fn == unit.Obj
	}
}

// swappedArgSites: call sites in the given packages (callee declared in calleePkgs) where an argument is named like a
// different, same-typed parameter of the callee while the argument in that parameter's position is not: the classic
// transposition of two ids of one type. Returns all compared sites and, per site, a description when it is suspicious.
func swappedArgSites(p *core.Prog, pkgs, calleePkgs []string) (sites []site, bad map[*core.Event]string) {
	bad = map[*core.Event]string{}
	inCallee := map[string]bool{}
	for _, r := range calleePkgs {
		inCallee[r] = true
	}
	argName := func(x ast.Expr) string {
		switch a := ast.Unparen(x).(type) {
		case *ast.Ident:
			return strings.ToLower(a.Name)
		case *ast.SelectorExpr:
			return strings.ToLower(a.Sel.Name)
		}
		return ""
	}
	for _, rel := range pkgs {
		for _, f := range p.FuncsIn(rel) {
			if f.Body == nil {
				continue
			}
			for _, e := range f.Graph().Events {
				if e.Kind != core.EvCall || e.Call == nil {
					continue
				}
				fn, ok := e.Callee.(*types.Func)
				if !ok || fn.Pkg() == nil || !inCallee[core.Rel(fn.Pkg().Path())] {
					continue
				}
				sig, ok := fn.Type().(*types.Signature)
				if !ok || sig.Variadic() || sig.Params().Len() != len(e.Call.Args) || sig.Params().Len() < 2 {
					continue
				}
				compared := false
				for i := 0; i < sig.Params().Len(); i++ {
					for j := 0; j < sig.Params().Len(); j++ {
						pi, pj := sig.Params().At(i), sig.Params().At(j)
						if i == j || !types.Identical(pi.Type(), pj.Type()) || pi.Name() == "" || pj.Name() == "" || pi.Name() == "_" || pj.Name() == "_" {
							continue
						}
						if _, basic := pi.Type().Underlying().(*types.Basic); !basic {
							continue
						}
						compared = true
						ai, aj := argName(e.Call.Args[i]), argName(e.Call.Args[j])
						ni, nj := strings.ToLower(pi.Name()), strings.ToLower(pj.Name())
						if ai != "" && ai == nj && ai != ni && aj != nj {
							bad[e] = fmt.Sprintf("argument %q is passed for parameter %q of %s although the callee has a parameter %q of the same type, which receives %q", core.ExprStr(e.Call.Args[i]), pi.Name(), fn.Name(), pj.Name(), core.ExprStr(e.Call.Args[j]))
						}
					}
				}
				if compared {
					sites = append(sites, site{Fn: f, Ev: e, Callee: core.CalleeName(e)})
				}
			}
		}
	}
	return sites, bad
}

// loopEarlyExits lists the statements inside a loop body that leave the loop other than by a return or by the loop
// running out: goto, a labeled break whose label is not inside the body, an unlabeled break that is not absorbed by an
// inner for/range/select/switch.
func loopEarlyExits(c *core.Ctx, loopBody *ast.BlockStmt) []string {
	var exits []string
	var walk func(n ast.Node, breakable bool)
	walk = func(n ast.Node, breakable bool) {
		ast.Inspect(n, func(nd ast.Node) bool {
			switch x := nd.(type) {
			case *ast.FuncLit:
				return false
			case *ast.ForStmt, *ast.RangeStmt, *ast.SelectStmt, *ast.SwitchStmt, *ast.TypeSwitchStmt:
				if nd == n {
					return true
				}
				// an unlabeled break inside belongs to that statement
				walk(nd, false)
				return false
			case *ast.BranchStmt:
				switch {
				case x.Tok == token.GOTO:
					exits = append(exits, "goto @"+c.P.Pos(x.Pos()))
				case x.Tok == token.BREAK && x.Label != nil:
					inside := false
					ast.Inspect(loopBody, func(m ast.Node) bool {
						if ls, ok := m.(*ast.LabeledStmt); ok && ls.Label.Name == x.Label.Name {
							inside = true
						}
						return true
					})
					if !inside {
						exits = append(exits, "break "+x.Label.Name+" @"+c.P.Pos(x.Pos()))
					}
				case x.Tok == token.BREAK && breakable:
					exits = append(exits, "break @"+c.P.Pos(x.Pos()))
				}
			}
			return true
		})
	}
	walk(loopBody, true)
	return exits
}
