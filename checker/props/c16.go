package props

import (
	"fmt"
	"go/ast"
	"go/token"
	"go/types"
	"strings"

	"verifcheck/core"
)

func init() {
	register("C16", core.PropertyMeta{
		Explanation: "Decides structural clauses of authentication and authorization: D1 every HTTP handler that reaches a query/write/storage sink takes a meta.User (so AddRoutes wraps it in authenticate with Config.AuthEnabled); " +
			"D2 in serveQuery, serveWrite, servePromWrite and servePromRead every path to the sink either has authentication disabled or passed the matching Authorize* call with a nil error (a failed authorization leaves the handler); " +
			"D3 the authenticate middleware hands control to the inner handler only when authentication is not required, no admin user exists, or Authenticate/User succeeded (the default arm of the credential-method switch is shown dead: parseCredentials only produces the methods the switch handles); " +
			"D4 AuthorizeQuery returns success only for the first-admin bootstrap, for an admin, or after every privilege of every statement was checked (each failed check leaves the function with an error), and the database checked is the one the statement names, falling back to the request's database only when the statement names none; AuthorizeWrite/AuthorizeDatabase succeed only after UserInfo.AuthorizeDatabase returned true; " +
			"D5 the credential cache: every store to Client.cacheData is followed under the same lock by updateAuthCache, updateAuthCache keeps an entry only if its bcrypt hash equals the user's current hash, a cache hit in Authenticate is tied to the user's current hash, and the cache stores no user record (only hashes). " +
			"The entry Authenticate puts into the credential cache records the hash the password was verified against (the .Hash of the single user record handed to bcrypt.CompareHashAndPassword), never a hash re-read at insertion time. " +
			"NOT decided: correctness of influxql.Statement.RequiredPrivileges (outside the repository), the JWT library, flux authorization inside the reader.",
		RuleText:    "obligation = (rule, function/site); marked path exploration with outcome and branch facts; registry/case agreement for the credential methods; field-level type rules for the cache entry",
		Assumptions: commonAssumptions,
	}, runC16)
}

const httpdp = "services/httpd"

func isSinkCall(f *core.FuncInfo) func(e *core.Event) bool {
	return func(e *core.Event) bool {
		if e.Kind != core.EvCall {
			return false
		}
		se, ok := e.Call.Fun.(*ast.SelectorExpr)
		if !ok {
			return false
		}
		fp := core.RecvFieldOf(e)
		switch fp {
		case "Handler.QueryExecutor":
			return se.Sel.Name == "ExecuteQuery"
		case "Handler.PointsWriter":
			return strings.HasPrefix(se.Sel.Name, "WritePoints")
		case "Handler.Store":
			return strings.HasPrefix(se.Sel.Name, "Read")
		case "Handler.Controller":
			return se.Sel.Name == "Query"
		}
		// type-switched points writer: pw.WritePointsWithContext(...)
		if strings.HasPrefix(se.Sel.Name, "WritePoints") {
			if id, ok := ast.Unparen(se.X).(*ast.Ident); ok && id.Name == "pw" {
				return true
			}
		}
		return false
	}
}

func runC16(c *core.Ctx) {
	userT := c.P.LookupObj(metap, "User")
	c.Need(userT != nil, "type meta.User")

	// functions (root declarations) of httpd that contain a sink, possibly inside closures
	sinkRoots := map[*core.FuncInfo]bool{}
	for _, f := range c.P.FuncsIn(httpdp) {
		if f.Body == nil {
			continue
		}
		if len(f.Graph().Find(isSinkCall(f))) > 0 {
			sinkRoots[f.Root()] = true
		}
	}

	c.Clause("D1", func() {
		n := 0
		for f := range sinkRoots {
			if f.Decl == nil {
				continue
			}
			n++
			has := false
			for _, fld := range f.Decl.Type.Params.List {
				if t := f.Info().TypeOf(fld.Type); t != nil && types.Identical(t, userT.Type()) {
					has = true
				}
			}
			c.Check("sink-handlers-are-authenticated", f.Name+"/takes-meta.User", f.PosStr(), has,
				f.Name+" reaches a query/write/storage sink but does not take a meta.User: AddRoutes would register it without the authentication middleware")
		}
		c.Floor("handlers with sinks", n, 5)
		// AddRoutes wraps user-taking handlers with authenticate(..., h.Config.AuthEnabled)
		ar := c.Fn(httpdp + ".(*Handler).AddRoutes")
		auth := calleeIn(ar, httpdp+".authenticate")
		for i, e := range findOrAbort(c, ar, "authenticate", evCall(auth), 1) {
			good := len(e.Call.Args) == 3 && core.FieldPathOf(ar.Info(), e.Call.Args[2]) == "Config.AuthEnabled"
			c.Check("sink-handlers-are-authenticated", fmt.Sprintf("%s/authenticate#%d", ar.Name, i+1), c.P.Pos(e.Pos()), good,
				"AddRoutes must wrap user-taking handlers with authenticate(hf, h, h.Config.AuthEnabled)")
		}
		// the wrapper is selected by a type assertion on the (w, r, meta.User) signature
		asserted := false
		ast.Inspect(ar.Body, func(nd ast.Node) bool {
			if ta, ok := nd.(*ast.TypeAssertExpr); ok && ta.Type != nil {
				if ft, ok := ta.Type.(*ast.FuncType); ok && len(ft.Params.List) == 3 {
					if t := ar.Info().TypeOf(ft.Params.List[2].Type); t != nil && types.Identical(t, userT.Type()) {
						asserted = true
					}
				}
			}
			return true
		})
		c.Check("sink-handlers-are-authenticated", ar.Name+"/selects-by-signature", ar.PosStr(), asserted, "AddRoutes must recognise handlers by the func(w, r, meta.User) signature")
	})

	c.Clause("D2", func() {
		type spec struct {
			fn      string
			authz   string // method name of the authorization call
			enabled func(x ast.Expr) bool
		}
		isAuthEnabled := func(f *core.FuncInfo) func(ast.Expr) bool {
			return func(x ast.Expr) bool {
				found := false
				ast.Inspect(x, func(nd ast.Node) bool {
					if se, ok := nd.(*ast.SelectorExpr); ok && core.FieldPathOf(f.Info(), se) == "Config.AuthEnabled" {
						found = true
					}
					return true
				})
				return found
			}
		}
		for _, sp := range []spec{
			{httpdp + ".(*Handler).serveQuery", "AuthorizeQuery", nil},
			{httpdp + ".(*Handler).serveWrite", "AuthorizeWrite", nil},
			{httpdp + ".(*Handler).servePromWrite", "AuthorizeWrite", nil},
			{httpdp + ".(*Handler).servePromRead", "AuthorizeDatabase", nil},
		} {
			f := c.Fn(sp.fn)
			info := f.Info()
			enabled := isAuthEnabled(f)
			authz := func(ce *ast.CallExpr) bool {
				se, ok := ce.Fun.(*ast.SelectorExpr)
				return ok && se.Sel.Name == sp.authz
			}
			findOrAbort(c, f, sp.authz, evCall(authz), 1)
			// sink events: direct sink calls, or calls of a local closure that contains a sink
			closureVars := map[types.Object]bool{}
			for _, l := range f.Lits {
				if len(l.Graph().Find(isSinkCall(l))) == 0 {
					continue
				}
				ast.Inspect(f.Body, func(nd ast.Node) bool {
					if as, ok := nd.(*ast.AssignStmt); ok && len(as.Lhs) == len(as.Rhs) {
						for i, r := range as.Rhs {
							if ast.Unparen(r) == ast.Expr(l.Lit) {
								if id, ok := as.Lhs[i].(*ast.Ident); ok {
									closureVars[info.ObjectOf(id)] = true
								}
							}
						}
					}
					return true
				})
			}
			direct := isSinkCall(f)
			sink := func(e *core.Event) bool {
				if direct(e) {
					return true
				}
				if e.Kind == core.EvCall {
					if id, ok := ast.Unparen(e.Call.Fun).(*ast.Ident); ok && closureVars[info.ObjectOf(id)] {
						return true
					}
				}
				return false
			}
			sinks := f.Graph().Find(sink)
			c.Need(len(sinks) >= 1, "sink call in "+sp.fn)
			bad := map[*core.Event]string{}
			seen := map[*core.Event]bool{}
			complete := f.Flow().ExplorePaths(func(k core.VarKey, fct core.Fact) bool {
				if ce, ok := fct.Def.(*ast.CallExpr); ok && authz(ce) {
					return true
				}
				if strings.HasSuffix(k.Path, "AuthEnabled") {
					return true // the configuration flag itself: keeps repeated tests of it consistent along a path
				}
				return k.Root == nil && strings.HasPrefix(k.Path, "cond:") && fct.Def != nil && enabled(fct.Def)
			}, func(e *core.Event, st core.State) {
				if !sink(e) {
					return
				}
				seen[e] = true
				if core.CondOutcome(st, enabled) == 2 {
					return // authentication/authorization disabled by configuration
				}
				if core.OutcomeOK(st, authz) {
					return
				}
				bad[e] = "the sink is reachable with authentication enabled on a path where " + sp.authz + " has not returned nil: the request is executed although the user was not authorized (the response code may still say 403)"
			})
			c.Need(complete, "exploration bound "+sp.fn)
			for i, e := range sinks {
				if !seen[e] {
					continue
				}
				c.Check("authorization-dominates-sink", fmt.Sprintf("%s/sink#%d", f.Name, i+1), c.P.Pos(e.Pos()), bad[e] == "", bad[e])
			}
		}
		// every other handler with a sink must be in the table above or be the flux handler (authorization happens in the reader with the user in the context)
		known := map[string]bool{
			httpdp + ".(*Handler).serveQuery": true, httpdp + ".(*Handler).serveWrite": true,
			httpdp + ".(*Handler).servePromWrite": true, httpdp + ".(*Handler).servePromRead": true,
		}
		for f := range sinkRoots {
			if known[f.Name] {
				continue
			}
			if f.Name == httpdp+".(*Handler).serveFluxQuery" {
				// the user must be placed in the context when authentication is enabled
				withUser := calleeIn(f, metap+".NewContextWithUser")
				findOrAbort(c, f, "meta.NewContextWithUser", evCall(withUser), 1)
				enabled := isAuthEnabled(f)
				bad := ""
				complete := f.Flow().ExplorePathsMarked(func(k core.VarKey, fct core.Fact) bool {
					if strings.HasSuffix(k.Path, "AuthEnabled") {
						return true
					}
					return k.Root == nil && strings.HasPrefix(k.Path, "cond:") && fct.Def != nil && enabled(fct.Def)
				}, func(e *core.Event) string {
					if e.Kind == core.EvCall && withUser(e.Call) {
						return "user-in-ctx"
					}
					return ""
				}, func(e *core.Event, st core.State) {
					if e.Kind == core.EvCall && core.RecvFieldOf(e) == "Handler.Controller" && e.Call.Fun.(*ast.SelectorExpr).Sel.Name == "Query" {
						if core.CondOutcome(st, enabled) != 2 && !core.Marked(st, "user-in-ctx") {
							bad = "the flux controller is invoked with authentication enabled but without the authenticated user in the context: the reader authorizes against no user"
						}
					}
				})
				c.Need(complete, "exploration bound serveFluxQuery")
				c.Check("flux-user-in-context", f.Name+"/Controller.Query", f.PosStr(), bad == "", bad)
				continue
			}
			c.Check("authorization-dominates-sink", f.Name+"/unlisted-sink-handler", f.PosStr(), false,
				"a handler that reaches a query/write/storage sink is not covered by an authorization rule; add it to the table with the Authorize* call that must dominate its sink")
		}
	})

	c.Clause("D3", func() {
		f := c.Fn(httpdp + ".authenticate")
		c.Need(len(f.Lits) >= 1, "handler closure of authenticate")
		var g *core.FuncInfo
		for _, l := range f.Lits {
			if len(l.Graph().Find(func(e *core.Event) bool {
				return e.Kind == core.EvCall && core.CalleeName(e) == "var:inner"
			})) > 0 {
				g = l
			}
		}
		c.Need(g != nil, "closure calling inner")
		info := g.Info()
		isInner := func(e *core.Event) bool { return e.Kind == core.EvCall && core.CalleeName(e) == "var:inner" }
		authn := func(ce *ast.CallExpr) bool {
			se, ok := ce.Fun.(*ast.SelectorExpr)
			return ok && (se.Sel.Name == "Authenticate" || se.Sel.Name == "User") && core.FieldPathOf(info, se.X) == "Handler.MetaClient"
		}
		findOrAbort(c, g, "MetaClient.Authenticate/User", evCall(authn), 2)
		isRequire := func(x ast.Expr) bool { return strings.Contains(core.ExprStr(x), "requireAuthentication") }
		// the default arm of the method switch
		var defPos, defEnd token.Pos
		var methodCases []string
		ast.Inspect(g.Body, func(nd ast.Node) bool {
			sw, ok := nd.(*ast.SwitchStmt)
			if !ok || sw.Tag == nil || !strings.HasSuffix(core.ExprStr(sw.Tag), ".Method") {
				return true
			}
			for _, cl := range sw.Body.List {
				cc := cl.(*ast.CaseClause)
				if cc.List == nil {
					defPos, defEnd = cc.Pos(), cc.End()
				}
				for _, x := range cc.List {
					methodCases = append(methodCases, constName(info, x))
				}
			}
			return true
		})
		// which methods can parseCredentials produce?
		pcf := c.Fn(httpdp + ".parseCredentials")
		produced := map[string]bool{}
		for _, g := range withLocalHelpers(c.P, pcf) { // (a credentials literal may be built by an unexported helper)
			ast.Inspect(g.Body, func(nd ast.Node) bool {
				if kv, ok := nd.(*ast.KeyValueExpr); ok {
					if id, ok := kv.Key.(*ast.Ident); ok && id.Name == "Method" {
						produced[constName(g.Info(), kv.Value)] = true
					}
				}
				return true
			})
		}
		c.Need(len(produced) >= 2, "credential methods produced by parseCredentials")
		defaultDead := defPos.IsValid()
		for m := range produced {
			hit := false
			for _, cs := range methodCases {
				if cs == m {
					hit = true
				}
			}
			c.Check("credential-methods-covered", g.Root().Name+"/"+m, g.PosStr(), hit, "parseCredentials can produce method "+m+" but authenticate has no case for it: such a request reaches the inner handler without any credential check")
			if !hit {
				defaultDead = false
			}
		}
		bad := ""
		n := 0
		complete := g.Flow().ExplorePathsMarked(func(k core.VarKey, fct core.Fact) bool {
			if ce, ok := fct.Def.(*ast.CallExpr); ok && authn(ce) {
				return true
			}
			if k.Root == nil && strings.HasPrefix(k.Path, "cond:") && fct.Def != nil {
				s := core.ExprStr(fct.Def)
				return isRequire(fct.Def) || strings.Contains(s, "user == nil")
			}
			return false
		}, func(e *core.Event) string {
			if defPos.IsValid() && e.Node != nil && defPos <= e.Pos() && e.Pos() < defEnd {
				return "default-arm"
			}
			return ""
		}, func(e *core.Event, st core.State) {
			if !isInner(e) {
				return
			}
			n++
			// not required at all
			for k, fct := range st {
				if k.Root == nil && strings.HasPrefix(k.Path, "cond:") && fct.Def != nil && isRequire(fct.Def) {
					s := core.ExprStr(fct.Def)
					if s == "!requireAuthentication" && fct.Bool == 1 {
						return
					}
					if strings.Contains(s, "AdminUserExists()") && fct.Bool == 2 {
						return // no admin user exists yet (bootstrap) or authentication not required
					}
				}
			}
			if core.OutcomeOK(st, authn) {
				return
			}
			if core.Marked(st, "default-arm") && defaultDead {
				return
			}
			bad = "the inner handler is invoked @" + c.P.Pos(e.Pos()) + " on a path where authentication is required, an admin user exists, and neither MetaClient.Authenticate nor MetaClient.User returned a nil error"
		})
		c.Need(complete && n >= 2, "paths to inner handler in authenticate")
		c.Check("authenticated-before-inner", g.Root().Name+"/inner", g.PosStr(), bad == "", bad)
		// every failure branch writes 401 and returns: the user handed to inner is the authenticated one
		for i, e := range g.Graph().Find(isInner) {
			if len(e.Call.Args) == 3 {
				if isNilExpr(info, e.Call.Args[2]) {
					continue // the not-required fast path
				}
				fact := g.Flow().FactOfExpr(e, e.Call.Args[2])
				_ = fact
				c.Check("authenticated-before-inner", fmt.Sprintf("%s/inner-user#%d", g.Root().Name, i+1), c.P.Pos(e.Pos()), core.ExprStr(e.Call.Args[2]) == "user",
					"the user passed to the inner handler must be the variable set by Authenticate/User")
			}
		}
	})

	c.Clause("D4", func() {
		f := c.Fn(metap + ".(*QueryAuthorizer).AuthorizeQuery")
		info := f.Info()
		authDB := func(ce *ast.CallExpr) bool {
			fn, ok := core.Callee(info, ce).(*types.Func)
			return ok && core.FuncName(fn) == metap+".(*UserInfo).AuthorizeDatabase"
		}
		findOrAbort(c, f, "UserInfo.AuthorizeDatabase", evCall(authDB), 1)
		reqPriv := func(e *core.Event) bool {
			fn, ok := e.Callee.(*types.Func)
			return e.Kind == core.EvCall && ok && fn.Name() == "RequiredPrivileges"
		}
		findOrAbort(c, f, "Statement.RequiredPrivileges", reqPriv, 1)
		// (classified by what is tested, not by the names of the locals)
		adminOf := func(x ast.Expr, typeSuffix string) bool {
			found := false
			ast.Inspect(x, func(nd ast.Node) bool {
				if se, ok := nd.(*ast.SelectorExpr); ok && se.Sel.Name == "Admin" {
					if t := f.Info().TypeOf(se.X); t != nil && strings.HasSuffix(strings.TrimPrefix(t.String(), "*"), typeSuffix) {
						found = true
					}
				}
				return !found
			})
			return found
		}
		isAdmin := func(x ast.Expr) bool {
			se, ok := ast.Unparen(x).(*ast.SelectorExpr)
			return ok && se.Sel.Name == "Admin" && adminOf(x, "UserInfo")
		}
		isBootstrap := func(x ast.Expr) bool { return adminOf(x, "CreateUserStatement") }
		isNoUsers := func(x ast.Expr) bool {
			found := false
			ast.Inspect(x, func(nd ast.Node) bool {
				be, ok := nd.(*ast.BinaryExpr)
				if !ok || be.Op != token.EQL || !isZeroLit(f.Info(), be.Y) {
					return true
				}
				if ce, ok := ast.Unparen(derefLocal(f, be.X)).(*ast.CallExpr); ok {
					if se, ok := ce.Fun.(*ast.SelectorExpr); ok && se.Sel.Name == "UserCount" {
						found = true
					}
				}
				return !found
			})
			return found
		}
		// loops: statements loop and privileges loop
		var stmtLoop, privLoop *core.Loop
		for _, l := range f.Graph().Loops() {
			rs, ok := l.Stmt.(*ast.RangeStmt)
			if !ok {
				continue
			}
			if strings.HasSuffix(core.ExprStr(rs.X), ".Statements") {
				stmtLoop = l
			} else if privLoop == nil || l.Stmt.Pos() > privLoop.Stmt.Pos() {
				privLoop = l
			}
		}
		c.Need(stmtLoop != nil && privLoop != nil && privLoop != stmtLoop, "statement and privilege loops of AuthorizeQuery")
		// each statement's privileges are fetched, each privilege is checked
		minP, _, okP, _ := f.Flow().IterationCount(stmtLoop, reqPriv)
		c.Check("every-statement-checked", f.Name+"/RequiredPrivileges-per-statement", c.P.Pos(stmtLoop.Stmt.Pos()), okP && minP >= 1,
			"an iteration over the statements of the query can complete without asking for the statement's required privileges")
		isPAdmin := func(e *core.Event) bool { return e.Kind == core.EvCond && core.ExprStr(e.Node.(ast.Expr)) == "p.Admin" }
		isAuthCond := func(e *core.Event) bool {
			return e.Kind == core.EvCond && strings.Contains(core.ExprStr(e.Node.(ast.Expr)), "AuthorizeDatabase(")
		}
		for _, chk := range []struct {
			name string
			m    core.Match
		}{{"admin-requirement", isPAdmin}, {"database-privilege", isAuthCond}} {
			min, _, ok, zero := f.Flow().IterationCount(privLoop, chk.m)
			c.Check("every-privilege-checked", f.Name+"/"+chk.name+"-per-privilege", c.P.Pos(privLoop.Stmt.Pos()), ok && min >= 1,
				"an iteration over the required privileges can complete without the "+chk.name+" test: "+core.PathStr(zero))
		}
		// a failed check leaves the function with an error: from the true edge of each check no path returns to a loop head
		for _, ev := range f.Graph().Find(func(e *core.Event) bool { return isPAdmin(e) || isAuthCond(e) }) {
			for _, ed := range ev.Succ {
				if ed.Cond == nil || !ed.Val {
					continue
				}
				reach := f.Flow().ReachableFrom(ev, func(x *core.Event) bool {
					// block the false edge target
					for _, e2 := range ev.Succ {
						if e2.Cond != nil && !e2.Val && x == e2.To {
							return true
						}
					}
					return false
				})
				leaks := reach[privLoop.Head] || reach[stmtLoop.Head]
				okRet := true
				for r := range reach {
					if r.Kind == core.EvReturn {
						if rf, _ := f.ReturnErrFact(r); rf.Nil != core.NonNil {
							okRet = false
						}
					}
				}
				c.Check("failed-check-rejects", fmt.Sprintf("%s/%s", f.Name, core.ExprStr(ev.Node.(ast.Expr))), c.P.Pos(ev.Pos()), !leaks && okRet,
					"after a failed privilege test the function continues with the next privilege/statement or returns without an error")
			}
		}
		// success returns
		k := 0
		badRet := ""
		complete := f.Flow().ExplorePathsMarked(func(kk core.VarKey, fct core.Fact) bool {
			return kk.Root == nil && strings.HasPrefix(kk.Path, "cond:") && fct.Def != nil && (isAdmin(fct.Def) || isBootstrap(fct.Def) || isNoUsers(fct.Def))
		}, func(e *core.Event) string {
			if e == stmtLoop.Head {
				return "entered-statement-loop"
			}
			return ""
		}, func(e *core.Event, st core.State) {
			if e.Kind != core.EvReturn {
				return
			}
			rf, _ := f.ReturnErrFact(e)
			if rf.Nil == core.NonNil {
				return
			}
			k++
			switch {
			case core.CondOutcome(st, isNoUsers) == 1 && core.CondOutcome(st, isBootstrap) == 1:
			case core.CondOutcome(st, isAdmin) == 1:
			case core.Marked(st, "entered-statement-loop") && core.CondOutcome(st, isAdmin) == 2:
			default:
				badRet = "AuthorizeQuery returns success @" + c.P.Pos(e.Pos()) + " on a path that is neither the first-admin bootstrap, nor an admin user, nor the completion of the per-statement checks"
			}
		})
		c.Need(complete && k >= 3, "success returns of AuthorizeQuery")
		c.Check("success-only-when-checked", f.Name+"/success-returns", f.PosStr(), badRet == "", badRet)
		// the database that is checked: the statement's own, else the request's
		var dbObj types.Object
		for _, e := range f.Graph().Find(evCall(authDB)) {
			if len(e.Call.Args) == 2 {
				if id, ok := ast.Unparen(e.Call.Args[1]).(*ast.Ident); ok {
					dbObj = info.ObjectOf(id)
				}
			}
		}
		c.Need(dbObj != nil, "database argument of AuthorizeDatabase in AuthorizeQuery")
		var dbParam types.Object
		for _, fld := range f.Decl.Type.Params.List {
			for _, nm := range fld.Names {
				if nm.Name == "database" {
					dbParam = info.ObjectOf(nm)
				}
			}
		}
		c.Need(dbParam != nil, "parameter database of AuthorizeQuery")
		initOK, fallbackOK, nDef := false, true, 0
		ast.Inspect(f.Body, func(nd ast.Node) bool {
			as, ok := nd.(*ast.AssignStmt)
			if !ok || len(as.Lhs) != 1 || len(as.Rhs) != 1 || !isIdentObj(info, as.Lhs[0], dbObj) {
				return true
			}
			nDef++
			if as.Tok == token.DEFINE {
				// initial definition: the name carried by the privilege (p.Name)
				if se, ok := ast.Unparen(as.Rhs[0]).(*ast.SelectorExpr); ok && se.Sel.Name == "Name" {
					if t := info.TypeOf(se.X); t != nil && strings.HasSuffix(t.String(), "influxql.ExecutionPrivilege") {
						initOK = true
					}
				}
				return true
			}
			// re-definition: only the request's database, only under `db == ""`
			if !isIdentObj(info, as.Rhs[0], dbParam) {
				fallbackOK = false
				return true
			}
			guarded := false
			ast.Inspect(f.Body, func(n2 ast.Node) bool {
				if ifs, ok := n2.(*ast.IfStmt); ok && ifs.Body.Pos() <= as.Pos() && as.End() <= ifs.Body.End() {
					if be, ok := ast.Unparen(ifs.Cond).(*ast.BinaryExpr); ok && be.Op == token.EQL && isIdentObj(info, be.X, dbObj) {
						if tv := info.Types[be.Y]; tv.Value != nil && tv.Value.ExactString() == `""` {
							guarded = true
						}
					}
				}
				return true
			})
			if !guarded {
				fallbackOK = false
			}
			return true
		})
		c.Check("checked-database-is-the-statement's", f.Name+"/db", f.PosStr(), initOK && fallbackOK && nDef >= 1,
			"the database whose grants are checked must be the one the statement names (p.Name), falling back to the request's default database only when the statement names none; otherwise a statement is authorized against one database and executed on another")
		// AuthorizeWrite / AuthorizeDatabase: nil only after UserInfo.AuthorizeDatabase said yes
		for _, nm := range []string{metap + ".WriteAuthorizer.AuthorizeWrite", metap + ".(*QueryAuthorizer).AuthorizeDatabase"} {
			g := c.Fn(nm)
			ginfo := g.Info()
			ad := func(x ast.Expr) bool { return strings.Contains(core.ExprStr(x), "AuthorizeDatabase(") }
			bad := ""
			kk := 0
			complete := g.Flow().ExplorePaths(func(k core.VarKey, fct core.Fact) bool {
				return k.Root == nil && strings.HasPrefix(k.Path, "cond:") && fct.Def != nil && ad(fct.Def)
			}, func(e *core.Event, st core.State) {
				if e.Kind != core.EvReturn {
					return
				}
				x, _ := g.ResultExpr(e, 0)
				if x == nil || !isNilExpr(ginfo, x) {
					return
				}
				kk++
				// cond `!user.AuthorizeDatabase(...)` must have been false
				if core.CondOutcome(st, ad) != 2 {
					bad = nm + " returns nil @" + c.P.Pos(e.Pos()) + " without UserInfo.AuthorizeDatabase having granted the privilege"
				}
			})
			c.Need(complete && kk >= 1, "nil returns of "+nm)
			c.Check("grant-required-for-success", g.Name+"/return-nil", g.PosStr(), bad == "", bad)
		}
	})

	c.Clause("D5", func() {
		// every store to Client.cacheData is followed under the same lock by updateAuthCache
		cacheF := c.P.LookupField(metap, "Client", "cacheData")
		c.Need(cacheF != nil, "field Client.cacheData")
		n := 0
		for _, f := range c.P.FuncsIn(metap) {
			if f.Body == nil {
				continue
			}
			info := f.Info()
			store := func(e *core.Event) bool {
				if e.Kind != core.EvAssign {
					return false
				}
				as, ok := e.Node.(*ast.AssignStmt)
				if !ok {
					return false
				}
				for _, l := range as.Lhs {
					if se, ok := ast.Unparen(l).(*ast.SelectorExpr); ok && info.Uses[se.Sel] == cacheF {
						return true
					}
				}
				return false
			}
			for i, s := range f.Graph().Find(store) {
				n++
				upd := calleeIn(f, metap+".(*Client).updateAuthCache")
				unlock := func(e *core.Event) bool {
					return e.Kind == core.EvCall && strings.HasSuffix(core.CalleeName(e), "Mutex).Unlock") && core.RecvFieldOf(e) == "Client.mu"
				}
				// from the store, updateAuthCache is reached before any Unlock and before any return
				p := f.Flow().PathAvoiding(s, func(x *core.Event) bool { return unlock(x) || x.Kind == core.EvReturn }, evCall(upd))
				exempt := f.Root().Name == metap+".(*Client).Open" || f.Root().Name == metap+".NewClient"
				detail := ""
				if p != nil && !exempt {
					detail = "Client.cacheData is replaced and the lock is released (or the function returns) before updateAuthCache has run: credentials cached against the old metadata keep working although the password/user changed: " + core.PathStr(p)
				}
				if exempt {
					detail = "exempt: initial snapshot before the client is published (the cache is empty)"
				}
				c.Check("cache-invalidated-with-metadata", fmt.Sprintf("%s/store-cacheData#%d", f.Root().Name, i+1), c.P.Pos(s.Pos()), p == nil || exempt, detail)
			}
		}
		c.Floor("stores to Client.cacheData", n, 2)
		// updateAuthCache keeps an entry only if bhash == current hash
		u := c.Fn(metap + ".(*Client).updateAuthCache")
		uinfo := u.Info()
		keep := func(e *core.Event) bool {
			if e.Kind != core.EvAssign {
				return false
			}
			as, ok := e.Node.(*ast.AssignStmt)
			if !ok || len(as.Lhs) != 1 {
				return false
			}
			_, isIx := ast.Unparen(as.Lhs[0]).(*ast.IndexExpr)
			return isIx
		}
		keeps := findOrAbort(c, u, "store into the new cache", keep, 1)
		hashEq := func(x ast.Expr) bool {
			be, ok := ast.Unparen(x).(*ast.BinaryExpr)
			if !ok || be.Op != token.EQL {
				return false
			}
			l, r := core.ExprStr(be.X), core.ExprStr(be.Y)
			return (strings.HasSuffix(l, ".bhash") && strings.HasSuffix(r, ".Hash")) || (strings.HasSuffix(r, ".bhash") && strings.HasSuffix(l, ".Hash"))
		}
		_ = uinfo
		for i, e := range keeps {
			st := u.Flow().In[e]
			// the comparison may be one conjunct of a larger test and its operands may be hoisted into locals
			tied := core.CondOutcome(st, hashEq) == 1
			for k, fct := range st {
				if k.Root != nil || !strings.HasPrefix(k.Path, "cond:") || fct.Def == nil || fct.Bool == 0 {
					continue
				}
				var atoms []atomB
				decompose(fct.Def, fct.Bool == 1, &atoms)
				for _, a := range atoms {
					be, ok := ast.Unparen(a.x).(*ast.BinaryExpr)
					if !ok || !(be.Op == token.EQL && a.val || be.Op == token.NEQ && !a.val) {
						continue
					}
					l, r := core.ExprStr(derefLocal(u, be.X)), core.ExprStr(derefLocal(u, be.Y))
					if strings.HasSuffix(l, ".bhash") && strings.HasSuffix(r, ".Hash") || strings.HasSuffix(r, ".bhash") && strings.HasSuffix(l, ".Hash") {
						tied = true
					}
				}
			}
			c.Check("cache-entry-tied-to-current-hash", fmt.Sprintf("%s/keep#%d", u.Name, i+1), c.P.Pos(e.Pos()), tied,
				"updateAuthCache keeps a cached credential without the test `cached.bhash == userInfo.Hash`: after a password change the old password keeps working through the cache")
		}
		// the new cache replaces the old one
		authF := c.P.LookupField(metap, "Client", "authCache")
		_, w := u.AccessesField(authF)
		c.Check("cache-entry-tied-to-current-hash", u.Name+"/installs-new-cache", u.PosStr(), w, "updateAuthCache must install the rebuilt cache")
		// Authenticate: a cache hit is honoured only for the user's current hash
		a := c.Fn(metap + ".(*Client).Authenticate")
		ainfo := a.Info()
		bad := ""
		k := 0
		bcryptCmp := calleeIn(a, "vendor/golang.org/x/crypto/bcrypt.CompareHashAndPassword", "golang.org/x/crypto/bcrypt.CompareHashAndPassword")
		findOrAbort(c, a, "bcrypt.CompareHashAndPassword", evCall(bcryptCmp), 1)
		complete := a.Flow().ExplorePaths(func(kk core.VarKey, fct core.Fact) bool {
			if ce, ok := fct.Def.(*ast.CallExpr); ok && bcryptCmp(ce) {
				return true
			}
			return kk.Root == nil && strings.HasPrefix(kk.Path, "cond:") && fct.Def != nil
		}, func(e *core.Event, st core.State) {
			if e.Kind != core.EvReturn {
				return
			}
			rf, _ := a.ReturnErrFact(e)
			if rf.Nil == core.NonNil {
				return
			}
			k++
			if core.OutcomeOK(st, bcryptCmp) {
				return // full check against the stored hash
			}
			// cache hit: requires the bhash == current Hash test to have been true on this path
			tied := false
			for kk, fct := range st {
				if kk.Root == nil && strings.HasPrefix(kk.Path, "cond:") && fct.Def != nil && fct.Bool == 1 {
					var atoms []ast.Expr
					var split func(x ast.Expr)
					split = func(x ast.Expr) {
						if be, ok := ast.Unparen(x).(*ast.BinaryExpr); ok && be.Op == token.LAND {
							split(be.X)
							split(be.Y)
							return
						}
						atoms = append(atoms, x)
					}
					split(fct.Def)
					for _, at := range atoms {
						if hashEq(at) {
							tied = true
						}
					}
				}
			}
			if !tied {
				bad = "Authenticate succeeds from the credential cache @" + c.P.Pos(e.Pos()) + " without comparing the cached entry's bcrypt hash with the user's current hash: an entry inserted by a call that raced with a password change keeps the old password valid"
			}
		})
		c.Need(complete && k >= 2, "success returns of Authenticate")
		c.Check("cache-hit-tied-to-current-hash", a.Name+"/success-returns", a.PosStr(), bad == "", bad)
		// the entry Authenticate puts into the cache records the hash the password was VERIFIED against: the bhash
		// of every authUser literal built in Authenticate is <v>.Hash for the same variable <v> whose .Hash was
		// handed to bcrypt.CompareHashAndPassword, and <v> is assigned exactly once. A hash re-read from the
		// metadata at insertion time binds a password that was checked against the old hash to the new one.
		{
			hashVarOf := func(x ast.Expr) types.Object {
				// strips conversions: []byte(v.Hash), string(...)
				for {
					x = ast.Unparen(x)
					if ce, ok := x.(*ast.CallExpr); ok && len(ce.Args) == 1 {
						if tv, ok := ainfo.Types[ce.Fun]; ok && tv.IsType() {
							x = ce.Args[0]
							continue
						}
					}
					break
				}
				if id, ok := x.(*ast.Ident); ok {
					return ainfo.ObjectOf(id) // a local that holds the hash (assigned once, see below)
				}
				se, ok := x.(*ast.SelectorExpr)
				if !ok || se.Sel.Name != "Hash" {
					return nil
				}
				id, ok := ast.Unparen(se.X).(*ast.Ident)
				if !ok {
					return nil
				}
				return ainfo.ObjectOf(id)
			}
			var verified types.Object
			nCmp := 0
			for _, e := range a.Graph().Events {
				if e.Kind == core.EvCall && bcryptCmp(e.Call) && len(e.Call.Args) == 2 {
					nCmp++
					verified = hashVarOf(e.Call.Args[0])
				}
			}
			c.Need(nCmp == 1 && verified != nil, "the single bcrypt comparison of Authenticate against <user record>.Hash")
			nAssign := 0
			ast.Inspect(a.Body, func(nd ast.Node) bool {
				if as, ok := nd.(*ast.AssignStmt); ok {
					for _, l := range as.Lhs {
						if id, ok := ast.Unparen(l).(*ast.Ident); ok && ainfo.ObjectOf(id) == verified {
							nAssign++
						}
					}
				}
				return true
			})
			nLit := 0
			ast.Inspect(a.Body, func(nd ast.Node) bool {
				cl, ok := nd.(*ast.CompositeLit)
				if !ok {
					return true
				}
				t := ainfo.TypeOf(cl)
				if t == nil || !strings.HasSuffix(t.String(), "meta.authUser") {
					return true
				}
				nLit++
				var bh ast.Expr
				for i, el := range cl.Elts {
					if kv, ok := el.(*ast.KeyValueExpr); ok {
						if id, ok := kv.Key.(*ast.Ident); ok && id.Name == "bhash" {
							bh = kv.Value
						}
					} else if st, ok := t.Underlying().(*types.Struct); ok && i < st.NumFields() && st.Field(i).Name() == "bhash" {
						bh = el
					}
				}
				good := bh != nil && hashVarOf(bh) == verified && nAssign == 1
				c.Check("cache-entry-records-the-verified-hash", fmt.Sprintf("%s/authUser-literal#%d", a.Name, nLit), c.P.Pos(cl.Pos()), good,
					"the credential-cache entry built here does not record the hash the password was just verified against (the .Hash of the user record handed to bcrypt.CompareHashAndPassword, looked up once): a password checked against the old hash while a password change is being installed is then cached under the new hash and stays valid")
				return true
			})
			c.Floor("authUser entries built in Authenticate", nLit, 1)
		}
		// the user returned is always the record looked up in the current metadata, never something stored in the cache
		i := 0
		for _, e := range a.Graph().Events {
			if e.Kind != core.EvReturn || !a.Flow().Reachable(e) {
				continue
			}
			rf, _ := a.ReturnErrFact(e)
			if rf.Nil == core.NonNil {
				continue
			}
			x, _ := a.ResultExpr(e, 0)
			if x == nil {
				continue
			}
			i++
			fact := a.Flow().FactOfExpr(e, x)
			ce, ok := fact.Def.(*ast.CallExpr)
			good := ok && strings.HasSuffix(core.ExprStr(ce.Fun), ".user")
			c.Check("user-from-current-metadata", fmt.Sprintf("%s/returned-user#%d", a.Name, i), c.P.Pos(e.Pos()), good,
				"the user returned by Authenticate must be the record just looked up in the current metadata (grants and admin flag change without the password changing)")
		}
		// the cache entry type holds only hashes
		au := c.P.LookupType(metap, "authUser")
		c.Need(au != nil, "type authUser")
		ast_ := au.Underlying().(*types.Struct)
		for i := 0; i < ast_.NumFields(); i++ {
			t := ast_.Field(i).Type().String()
			good := t == "string" || t == "[]byte"
			c.Check("cache-holds-only-hashes", "authUser."+ast_.Field(i).Name(), c.P.Pos(ast_.Field(i).Pos()), good,
				"the credential cache entry stores "+t+": anything but hashes (a user record, grants, an admin flag) goes stale when grants are revoked without a password change")
		}
		_ = ainfo
	})
}
