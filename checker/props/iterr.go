package props

import (
	"fmt"
	"go/ast"
	"go/token"
	"go/types"
	"strings"

	"verifcheck/core"
)

// runExhaustionChecksError (C09 D9): BlockIterator.Next returns false both when the file is exhausted and when it
// failed (a series removed from the file's index while it is being compacted, a read error); only BlockIterator.Err
// tells the two apart. A compaction that treats a failed input as exhausted writes an output without that input's
// remaining keys, reports success, and the engine then deletes the originals. So in the compactor's key iterators:
// on every path that leaves a `Next()` of a BlockIterator with the answer false, `Err()` of a BlockIterator is
// consulted before the function returns.
func runExhaustionChecksError(c *core.Ctx) {
	isBI := func(info *types.Info, ce *ast.CallExpr, name string) bool {
		fn, ok := core.Callee(info, ce).(*types.Func)
		if !ok || fn.Name() != name {
			return false
		}
		sig := fn.Type().(*types.Signature)
		if sig.Recv() == nil {
			return false
		}
		t := sig.Recv().Type()
		if p, ok := t.(*types.Pointer); ok {
			t = p.Elem()
		}
		nt, ok := t.(*types.Named)
		return ok && nt.Obj().Name() == "BlockIterator" && nt.Obj().Pkg() != nil && core.Rel(nt.Obj().Pkg().Path()) == tsm1
	}
	n := 0
	for _, f := range c.P.FuncsIn(tsm1) {
		if f.Body == nil {
			continue
		}
		// scope: the compactor's key iterators (methods of tsmKeyIterator / tsmBatchKeyIterator). FileStore.BlockCount
		// also branches on Next, but it only counts blocks for tests and installs nothing.
		if !strings.Contains(f.Name, "KeyIterator)") {
			continue
		}
		info := f.Info()
		isErr := func(e *core.Event) bool {
			return (e.Kind == core.EvCall) && e.Call != nil && isBI(info, e.Call, "Err")
		}
		k := 0
		for _, e := range f.Graph().Events {
			if e.Kind != core.EvCond {
				continue
			}
			x, _ := e.Node.(ast.Expr)
			if x == nil {
				continue
			}
			neg := false
			x = ast.Unparen(x)
			for {
				if u, ok := x.(*ast.UnaryExpr); ok && u.Op == token.NOT {
					neg = !neg
					x = ast.Unparen(u.X)
					continue
				}
				break
			}
			ce, ok := x.(*ast.CallExpr)
			if !ok || !isBI(info, ce, "Next") {
				continue
			}
			k++
			n++
			bad := ""
			for _, ed := range e.Succ {
				if ed.Cond == nil {
					continue
				}
				nextTrue := ed.Val != neg
				if nextTrue {
					continue
				}
				start := ed.To
				var p []*core.Event
				isEnd := func(t *core.Event) bool { return t.Kind == core.EvReturn || t.Kind == core.EvExit }
				if isErr(start) {
					continue
				}
				if isEnd(start) {
					p = []*core.Event{start}
				} else {
					p = f.Flow().PathAvoiding(start, isEnd, isErr)
				}
				if p != nil {
					bad = fmt.Sprintf("after BlockIterator.Next answered false here, %s can return @%s without consulting BlockIterator.Err: a failed input (series deleted from its index during the compaction, read error) is treated as exhausted, the output silently lacks that file's remaining keys and the originals are deleted after the install", f.Name, c.P.Pos(p[len(p)-1].Pos()))
				}
			}
			c.Check("exhaustion-checks-error", fmt.Sprintf("%s/Next#%d", f.Name, k), c.P.Pos(e.Pos()), bad == "", bad)
		}
	}
	c.Floor("branches on BlockIterator.Next in the compactor", n, 2)
}
