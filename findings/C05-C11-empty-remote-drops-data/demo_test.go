package coordinator

import (
	"bytes"
	"context"
	"encoding/binary"
	"errors"
	"fmt"
	"io"
	"net"
	"testing"
	"time"

	"github.com/influxdata/influxdb/models"
	"github.com/influxdata/influxdb/query"
	"github.com/influxdata/influxdb/services/meta"
	"github.com/influxdata/influxdb/tsdb"
	"github.com/influxdata/influxql"
)

// --- harness: one remote node = real Service.handleConn over TCP with a fake store
type xxStore struct {
	TSDBStore
	createErr error
	itr       query.Iterator
	tagErr    error
	written   [][]models.Point
	empty     bool
}

func (s *xxStore) ShardGroup(ids []uint64) tsdb.ShardGroup {
	if s.empty {
		return nil
	}
	return &xxSG{s: s}
}
func (s *xxStore) TagKeys(ctx context.Context, auth query.FineAuthorizer, shardIDs []uint64, cond influxql.Expr) ([]tsdb.TagKeys, error) {
	return nil, s.tagErr
}
func (s *xxStore) WriteToShard(shardID uint64, points []models.Point) error {
	s.written = append(s.written, points)
	for _, p := range points {
		_ = p.Key() // what the storage layer does first
	}
	return nil
}

type xxSG struct {
	tsdb.ShardGroup
	s *xxStore
}

func (g *xxSG) CreateIterator(ctx context.Context, m *influxql.Measurement, opt query.IteratorOptions) (query.Iterator, error) {
	return g.s.itr, g.s.createErr
}

type xxMeta struct {
	addr string
}

func (c *xxMeta) NodeID() uint64 { return 1 }
func (c *xxMeta) DataNode(id uint64) (*meta.NodeInfo, error) {
	return &meta.NodeInfo{ID: id, TCPAddr: c.addr}, nil
}
func (c *xxMeta) DataNodes() []meta.NodeInfo { return []meta.NodeInfo{{ID: 2, TCPAddr: c.addr}} }
func (c *xxMeta) DataNodeByTCPAddr(tcpAddr string) (*meta.NodeInfo, error) { return nil, nil }

func xxServe(t *testing.T, st *xxStore) (*MetaExecutor, chan interface{}, func()) {
	ln, err := net.Listen("tcp", "127.0.0.1:0")
	if err != nil {
		t.Fatal(err)
	}
	svc := NewService(Config{})
	svc.TSDBStore = st
	crashed := make(chan interface{}, 4)
	go func() {
		for {
			conn, err := ln.Accept()
			if err != nil {
				return
			}
			go func() {
				defer conn.Close()
				defer func() {
					if r := recover(); r != nil { // in production nothing recovers: the data node dies
						crashed <- r
					}
				}()
				var hdr [1]byte
				if _, err := io.ReadFull(conn, hdr[:]); err != nil {
					return
				}
				svc.handleConn(conn)
			}()
		}
	}()
	e := NewMetaExecutor(2*time.Second, 2*time.Second, time.Minute, 4)
	e.MetaClient = &xxMeta{addr: ln.Addr().String()}
	return e, crashed, func() { ln.Close() }
}


// Copy into coordinator/ and run: go test -vet=off -count=1 -run 'TestFinding_EmptyRemoteAnswer' ./coordinator/
//
// A remote node that holds no data for the measurement answers a CreateIterator request with "type unknown";
// the reading node wraps that in a placeholder that is a FloatIterator. ClusterShardMapping.CreateIterator
// collects local and remote inputs in goroutine completion order and Iterators.Merge takes the type of the
// merged iterator from the FIRST input: when the empty remote answer arrives before the local iterator is
// ready, every non-float input (here: the local integer data) is closed and dropped, and the query returns
// nothing - a silently incomplete result that depends on timing and on where the data lives (C05, C11).

type xxIntItr struct{ n int }

func (i *xxIntItr) Stats() query.IteratorStats { return query.IteratorStats{} }
func (i *xxIntItr) Close() error               { return nil }
func (i *xxIntItr) Next() (*query.IntegerPoint, error) {
	i.n++
	if i.n > 2 {
		return nil, nil
	}
	return &query.IntegerPoint{Name: "cpu", Time: int64(i.n), Value: int64(10 * i.n)}, nil
}

type xxSlowLocalSG struct {
	tsdb.ShardGroup
}

func (g *xxSlowLocalSG) CreateIterator(ctx context.Context, m *influxql.Measurement, opt query.IteratorOptions) (query.Iterator, error) {
	time.Sleep(300 * time.Millisecond) // a large local shard: opening its cursors takes longer than the empty remote round trip
	return &xxIntItr{}, nil
}

func TestFinding_EmptyRemoteAnswer(t *testing.T) {
	e, _, done := xxServe(t, &xxStore{empty: true})
	defer done()
	src := Source{Database: "db0", RetentionPolicy: "rp0"}
	csm := &ClusterShardMapping{
		LocalShardMapping:  &LocalShardMapping{ShardMap: map[Source]tsdb.ShardGroup{src: &xxSlowLocalSG{}}},
		RemoteShardMapping: map[Source][]*remoteShardGroup{src: {newRemoteShardGroup(e, 2, shardInfos{{ID: 7}}, false)}},
		MetaExecutor:       e,
	}
	itr, err := csm.CreateIterator(context.Background(), &influxql.Measurement{Database: "db0", RetentionPolicy: "rp0", Name: "cpu"},
		query.IteratorOptions{Expr: &influxql.VarRef{Val: "value"}, Ascending: true, StartTime: influxql.MinTime, EndTime: influxql.MaxTime})
	if err != nil {
		t.Fatal(err)
	}
	if itr == nil {
		t.Fatal("no iterator although the local shard holds two points")
	}
	defer itr.Close()
	n := 0
	switch itr := itr.(type) {
	case query.IntegerIterator:
		for {
			p, err := itr.Next()
			if err != nil {
				t.Fatal(err)
			}
			if p == nil {
				break
			}
			n++
		}
	case query.FloatIterator:
		for {
			p, err := itr.Next()
			if err != nil {
				t.Fatal(err)
			}
			if p == nil {
				break
			}
			n++
		}
	default:
		t.Fatalf("unexpected iterator type %T", itr)
	}
	if n != 2 {
		t.Fatalf("the query returned %d of the 2 points held by the local shard (iterator type %T): the empty answer of the remote node arrived first and the local integer iterator was dropped", n, itr)
	}
}

var _ = bytes.NewReader
var _ = binary.BigEndian
var _ = fmt.Sprint
var _ = errors.New
var _ models.Point
