package storage_test

import (
	"context"
	"net"
	"testing"
	"time"

	"github.com/gogo/protobuf/types"
	"github.com/influxdata/influxdb/coordinator"
	"github.com/influxdata/influxdb/query"
	"github.com/influxdata/influxdb/services/meta"
	"github.com/influxdata/influxdb/services/storage"
	"github.com/influxdata/influxdb/storage/reads/datatypes"
	"github.com/influxdata/influxdb/tsdb"
	"github.com/influxdata/influxql"
)

type zzTSDB struct{}

func (zzTSDB) Shards(ids []uint64) []*tsdb.Shard { return nil }
func (zzTSDB) MeasurementNames(ctx context.Context, auth query.FineAuthorizer, database string, retentionPolicy string, cond influxql.Expr) ([][]byte, error) {
	return nil, nil
}
func (zzTSDB) TagKeys(ctx context.Context, auth query.FineAuthorizer, shardIDs []uint64, cond influxql.Expr) ([]tsdb.TagKeys, error) {
	return nil, nil
}
func (zzTSDB) TagValues(ctx context.Context, auth query.FineAuthorizer, shardIDs []uint64, cond influxql.Expr) ([]tsdb.TagValues, error) {
	return nil, nil
}

type zzServer struct{}

func (zzServer) Reset() error      { return nil }
func (zzServer) HTTPAddr() string   { return "127.0.0.1:1" }
func (zzServer) HTTPScheme() string { return "http" }
func (zzServer) TCPAddr() string    { return "127.0.0.1:2" }

type zzMeta struct{}

func (zzMeta) NodeID() uint64 { return 1 }
func (zzMeta) Database(name string) *meta.DatabaseInfo {
	return &meta.DatabaseInfo{Name: name, DefaultRetentionPolicy: "rp", RetentionPolicies: []meta.RetentionPolicyInfo{{Name: "rp"}}}
}
func (zzMeta) ShardGroupsByTimeRange(database, policy string, min, max time.Time) ([]meta.ShardGroupInfo, error) {
	return nil, nil
}

// A store read-group request whose Group field holds a value other than GROUP_NONE/GROUP_BY is a
// decodable frame; the serving data node must answer with an error, not die.
func TestZZ_ReadGroupUnknownGroupOverTheWire(t *testing.T) {
	ln, err := net.Listen("tcp", "127.0.0.1:0")
	if err != nil {
		t.Fatal(err)
	}
	dln, _ := net.Listen("tcp", "127.0.0.1:0")
	svc := coordinator.NewService(coordinator.Config{})
	svc.Listener, svc.DefaultListener = ln, dln
	svc.Server = zzServer{}
	svc.Store = storage.NewStore(zzTSDB{}, zzMeta{})
	if err := svc.Open(); err != nil {
		t.Fatal(err)
	}
	defer svc.Close()

	conn, err := net.Dial("tcp", ln.Addr().String())
	if err != nil {
		t.Fatal(err)
	}
	defer conn.Close()
	src, _ := types.MarshalAny(&storage.ReadSource{Database: "db", RetentionPolicy: "rp"})
	req := &coordinator.StoreReadGroupRequest{ShardIDs: []uint64{1}, Request: datatypes.ReadGroupRequest{
		ReadSource: src, Group: datatypes.ReadGroupRequest_Group(1), Range: datatypes.TimestampRange{Start: 0, End: 10}}}
	const storeReadGroupRequestMessage = 19
	if err := coordinator.EncodeTLV(conn, storeReadGroupRequestMessage, req); err != nil {
		t.Fatal(err)
	}
	var resp coordinator.StoreReadGroupResponse
	conn.SetReadDeadline(time.Now().Add(2 * time.Second))
	if _, err := coordinator.DecodeTLV(conn, &resp); err != nil {
		t.Fatalf("no reply (the handler goroutine panicked?): %v", err)
	}
	if resp.Err == nil {
		t.Fatal("expected an error reply for an unsupported group mode")
	}
}
