package coordinator

import (
	"bytes"
	"context"
	"encoding/binary"
	"errors"
	"fmt"
	"io"
	"net"
	"testing"
	"time"

	"github.com/influxdata/influxdb/models"
	"github.com/influxdata/influxdb/query"
	"github.com/influxdata/influxdb/services/meta"
	"github.com/influxdata/influxdb/tsdb"
	"github.com/influxdata/influxql"
)

// --- harness: one remote node = real Service.handleConn over TCP with a fake store
type yyStore struct {
	TSDBStore
	createErr error
	itr       query.Iterator
	tagErr    error
	written   [][]models.Point
}

func (s *yyStore) ShardGroup(ids []uint64) tsdb.ShardGroup { return &yySG{s: s} }
func (s *yyStore) TagKeys(ctx context.Context, auth query.FineAuthorizer, shardIDs []uint64, cond influxql.Expr) ([]tsdb.TagKeys, error) {
	return nil, s.tagErr
}
func (s *yyStore) WriteToShard(shardID uint64, points []models.Point) error {
	s.written = append(s.written, points)
	for _, p := range points {
		_ = p.Key() // what the storage layer does first
	}
	return nil
}

type yySG struct {
	tsdb.ShardGroup
	s *yyStore
}

func (g *yySG) CreateIterator(ctx context.Context, m *influxql.Measurement, opt query.IteratorOptions) (query.Iterator, error) {
	return g.s.itr, g.s.createErr
}

type yyMeta struct {
	addr string
}

func (c *yyMeta) NodeID() uint64 { return 1 }
func (c *yyMeta) DataNode(id uint64) (*meta.NodeInfo, error) {
	return &meta.NodeInfo{ID: id, TCPAddr: c.addr}, nil
}
func (c *yyMeta) DataNodes() []meta.NodeInfo { return []meta.NodeInfo{{ID: 2, TCPAddr: c.addr}} }
func (c *yyMeta) DataNodeByTCPAddr(tcpAddr string) (*meta.NodeInfo, error) { return nil, nil }

func yyServe(t *testing.T, st *yyStore) (*MetaExecutor, chan interface{}, func()) {
	ln, err := net.Listen("tcp", "127.0.0.1:0")
	if err != nil {
		t.Fatal(err)
	}
	svc := NewService(Config{})
	svc.TSDBStore = st
	crashed := make(chan interface{}, 4)
	go func() {
		for {
			conn, err := ln.Accept()
			if err != nil {
				return
			}
			go func() {
				defer conn.Close()
				defer func() {
					if r := recover(); r != nil { // in production nothing recovers: the data node dies
						crashed <- r
					}
				}()
				var hdr [1]byte
				if _, err := io.ReadFull(conn, hdr[:]); err != nil {
					return
				}
				svc.handleConn(conn)
			}()
		}
	}()
	e := NewMetaExecutor(2*time.Second, 2*time.Second, time.Minute, 4)
	e.MetaClient = &yyMeta{addr: ln.Addr().String()}
	return e, crashed, func() { ln.Close() }
}


type yyFailingItr struct{ n int }

func (i *yyFailingItr) Stats() query.IteratorStats { return query.IteratorStats{} }
func (i *yyFailingItr) Close() error               { return nil }
func (i *yyFailingItr) Next() (*query.FloatPoint, error) {
	i.n++
	if i.n <= 2 {
		return &query.FloatPoint{Name: "cpu", Time: int64(i.n), Value: float64(i.n)}, nil
	}
	// the third block of the shard cannot be read (corrupt block, killed query, exceeded limit, ...)
	return nil, errors.New("read of block 3 failed: decode error")
}

// Copy into coordinator/ and run: go test -vet=off -count=1 -run 'TestFinding_RemoteIteratorBreaksOff' ./coordinator/
//
// A remote iterator that fails part-way: the serving node logs the error and closes the connection; the
// reading node's ReaderIterator maps the clean end of stream to "no more points", so the query returns the
// points read so far and NO error: the shard was not read completely and the query did not fail (C05).
func TestFinding_RemoteIteratorBreaksOff(t *testing.T) {
	e, _, done := yyServe(t, &yyStore{itr: &yyFailingItr{}})
	defer done()
	itr, err := e.CreateIterator(2, []uint64{1}, context.Background(), &influxql.Measurement{Name: "cpu"}, query.IteratorOptions{})
	if err != nil {
		t.Fatal(err)
	}
	defer itr.Close()
	fi, ok := itr.(query.FloatIterator)
	if !ok {
		t.Fatalf("iterator arrived as %T", itr)
	}
	n := 0
	for {
		p, err := fi.Next()
		if err != nil {
			return // the failure reached the reading node: the query fails, as it must
		}
		if p == nil {
			break
		}
		n++
	}
	t.Fatalf("the remote iterator failed after %d points, but the reading node saw a normal end of data: the query returns a partial result without an error", n)
}

var _ = bytes.NewReader
var _ = binary.BigEndian
var _ = fmt.Sprint
