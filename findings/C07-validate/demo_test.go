package meta

import (
	"fmt"
	"testing"

	"github.com/gogo/protobuf/proto"
	"github.com/hashicorp/raft"
	internal "github.com/influxdata/influxdb/services/meta/internal"
)

// Every request body the execute endpoint accepts must be applicable by the state machine.
func TestZZ_AcceptedCommandCannotPanicApply(t *testing.T) {
	bodies := map[string][]byte{}
	// a structurally valid command envelope without its extension
	typ := internal.Command_CreateDatabaseCommand
	b, _ := proto.Marshal(&internal.Command{Type: &typ})
	bodies["CreateDatabaseCommand without extension"] = b
	// a valid enum value the state machine has no case for
	typ2 := internal.Command_SetDefaultRetentionPolicyCommand
	b2, _ := proto.Marshal(&internal.Command{Type: &typ2})
	bodies["SetDefaultRetentionPolicyCommand"] = b2
	for name, body := range bodies {
		if err := validateCommand(body); err != nil {
			continue // rejected by the endpoint: fine
		}
		s := &store{data: &Data{}, dataChanged: make(chan struct{})}
		func() {
			defer func() {
				if r := recover(); r != nil {
					t.Errorf("%s: accepted by validateCommand, but storeFSM.Apply panics on every replica: %v", name, fmt.Sprint(r)[:60])
				}
			}()
			(*storeFSM)(s).Apply(&raft.Log{Data: body})
		}()
	}
}
