#!/bin/bash
# usage: refcheck.sh <patch.diff> [props...]   (default: all 19)
# Applies a behaviour-preserving refactoring in a scratch worktree of /repo HEAD ($REFCHECK_WT, created on demand and
# reused), runs the quick checks (8 in parallel, pinned binary, scratch evidence directory) and reverts; any check that
# exits non-zero is a false alarm of that check. /repo itself is never touched.
P=$1; shift
PROPS="$@"; [ -z "$PROPS" ] && PROPS="C01 C02 C03 C04 C05 C06 C07 C08 C09 C10 C11 C12 C13 C14 C15 C16 C17 C18 C19"
BIN=${REFCHECK_BIN:-/verif/bin/verifcheck}
WT=${REFCHECK_WT:-/tmp/wt-refcheck}
SV=/tmp/refcheck-verif; mkdir -p $SV/evidence $SV/out; cp /verif/known_findings.json $SV/
export GOFLAGS=-mod=mod GOPROXY=off GOSUMDB=off GOTOOLCHAIN=local; unset GOWORK
[ -d $WT ] || git -C /repo worktree add -q --detach $WT HEAD || exit 2
git -C $WT checkout -q -- .; git -C $WT clean -fdq
# refactorings were written against an older commit: a patch that no longer applies is reported, not counted
git -C $WT apply --check "$P" 2>/dev/null || { echo "PATCH-DOES-NOT-APPLY $P"; exit 3; }
git -C $WT apply "$P"
rm -f $SV/out/*
echo $PROPS | tr ' ' '\n' | xargs -P 8 -I{} sh -c "$BIN -property {} -tier quick -repo $WT -verif $SV > $SV/out/{}.log 2>&1; echo \$? > $SV/out/{}.rc"
bad=0
for p in $PROPS; do
  rc=$(cat $SV/out/$p.rc 2>/dev/null || echo 9)
  if [ "$rc" != 0 ]; then bad=1; echo "ALARM $p on $P"; grep "rule=" $SV/out/$p.log | cut -c1-400 | head -4; fi
done
git -C $WT checkout -q -- .; git -C $WT clean -fdq
[ $bad -eq 0 ] && echo "SILENT $P"
exit $bad
