// Copy into services/hh/ and run: go test -race -vet=off -count=1 -run 'TestFinding_StatisticsRacesWithWriteShard' ./services/hh/
//
// Service.Statistics ranges over the processors map without holding the service mutex, while WriteShard
// registers new processors under the write lock. The monitor service calls Statistics periodically, so in a
// running node this is a concurrent map iteration and map write: a data race (reported by -race) that the Go
// runtime turns into "fatal error: concurrent map iteration and map write", i.e. a crash of the data node (C19).
package hh

import (
	"sync"
	"testing"
	"time"

	"github.com/influxdata/influxdb/models"
	"github.com/influxdata/influxdb/services/meta"
)

type raceMeta struct{}

func (raceMeta) DataNode(id uint64) (*meta.NodeInfo, error) { return &meta.NodeInfo{ID: id}, nil }

type raceWriter struct{}

func (raceWriter) WriteShardBinary(shardID, ownerID uint64, points [][]byte) error { return nil }

func TestFinding_StatisticsRacesWithWriteShard(t *testing.T) {
	cfg := NewConfig()
	cfg.Enabled = true
	cfg.Dir = t.TempDir()
	s := NewService(cfg, raceWriter{})
	s.MetaClient = raceMeta{}
	pt := models.MustNewPoint("cpu", models.NewTags(map[string]string{"host": "a"}), map[string]interface{}{"v": 1.0}, time.Unix(1, 0))

	var wg sync.WaitGroup
	stop := make(chan struct{})
	wg.Add(1)
	go func() {
		defer wg.Done()
		for {
			select {
			case <-stop:
				return
			default:
				s.Statistics(nil) // what the monitor service does every few seconds
			}
		}
	}()
	for shard := uint64(1); shard <= 40; shard++ {
		if err := s.WriteShard(shard, 2+shard%3, []models.Point{pt}); err != nil { // registers a new processor
			t.Fatal(err)
		}
	}
	close(stop)
	wg.Wait()
	s.mu.Lock()
	for _, ps := range s.processors {
		for _, p := range ps {
			p.Close()
		}
	}
	s.mu.Unlock()
}
