package props

import (
	"fmt"
	"go/ast"
	"go/token"
	"go/types"

	"verifcheck/core"
)

// runRunningMaxima (C09 D11): the name of a compaction's output is (highest generation of its inputs, highest sequence
// within that generation)+1; it must differ from the name of every input, otherwise FileStore.Replace renames the
// output over a live input and then deletes it with the other inputs. In Compactor.compact the two maxima are running
// maxima; the structural part decided here: a guard `v > m` (or `m < v`) whose guarded statements assign `v` to a
// variable compares `v` against one of the variables it then assigns `v` to (a running maximum is compared with
// itself, not with a neighbour of the same type).
func runRunningMaxima(c *core.Ctx) {
	f := c.Fn(tsm1 + ".(*Compactor).compact")
	info := f.Info()
	obj := func(x ast.Expr) types.Object {
		if id, ok := ast.Unparen(x).(*ast.Ident); ok {
			return info.ObjectOf(id)
		}
		return nil
	}
	n := 0
	check := func(cond ast.Expr, body []ast.Stmt, pos token.Pos) {
		// strict comparisons v > m / m < v anywhere in the condition
		type cmp struct{ v, m types.Object }
		var cmps []cmp
		ast.Inspect(cond, func(nd ast.Node) bool {
			if be, ok := nd.(*ast.BinaryExpr); ok {
				switch be.Op {
				case token.GTR:
					if a, b := obj(be.X), obj(be.Y); a != nil && b != nil {
						cmps = append(cmps, cmp{a, b})
					}
				case token.LSS:
					if a, b := obj(be.X), obj(be.Y); a != nil && b != nil {
						cmps = append(cmps, cmp{b, a})
					}
				}
			}
			return true
		})
		for _, cm := range cmps {
			assigned := map[types.Object]bool{}
			for _, st := range body {
				if as, ok := st.(*ast.AssignStmt); ok && as.Tok == token.ASSIGN && len(as.Lhs) == len(as.Rhs) {
					for i := range as.Lhs {
						if obj(as.Rhs[i]) == cm.v && obj(as.Lhs[i]) != nil {
							assigned[obj(as.Lhs[i])] = true
						}
					}
				}
			}
			if len(assigned) == 0 {
				continue
			}
			n++
			c.Check("running-maximum-compared-with-itself", fmt.Sprintf("%s/%s>%s#%d", f.Name, cm.v.Name(), cm.m.Name(), n), c.P.Pos(pos), assigned[cm.m],
				fmt.Sprintf("the guard compares %s with %s but the guarded statements store %s into a different variable: the running maximum is compared with a neighbour, the output's (generation, sequence) can then equal an input's, FileStore.Replace renames the output over that live input and deletes it with the other inputs", cm.v.Name(), cm.m.Name(), cm.v.Name()))
		}
	}
	ast.Inspect(f.Body, func(nd ast.Node) bool {
		switch x := nd.(type) {
		case *ast.IfStmt:
			check(x.Cond, x.Body.List, x.Pos())
		case *ast.CaseClause:
			for _, e := range x.List {
				check(e, x.Body, x.Pos())
			}
		}
		return true
	})
	c.Floor("running maxima of (generation, sequence) in Compactor.compact", n, 2)
}
