#!/bin/bash
# usage: seedregress.sh <checker-binary> [worktree]   Re-runs every kept seed against its property's quick check in a scratch
# worktree of /repo HEAD and compares with meta.json's "detected".
BIN=${1:-/verif/bin/verifcheck}; WT=${2:-/tmp/wt-seedregress}
export GOFLAGS=-mod=mod GOPROXY=off GOSUMDB=off GOTOOLCHAIN=local; unset GOWORK
git -C /repo worktree remove --force $WT >/dev/null 2>&1
git -C /repo worktree add -q --detach $WT HEAD || exit 2
SV=/tmp/seedregress-verif; mkdir -p $SV/evidence; cp /verif/known_findings.json $SV/
ok=0; bad=0
for d in /verif/seeded/*/; do
  id=$(basename $d); prop=$(python3 -c "import json;print(json.load(open('$d/meta.json'))['property'])"); want=$(python3 -c "import json;print(json.load(open('$d/meta.json'))['detected'])")
  git -C $WT checkout -q -- .; git -C $WT clean -fdq
  if ! git -C $WT apply $d/patch.diff 2>/dev/null; then echo "NOAPPLY $id"; bad=$((bad+1)); continue; fi
  $BIN -property $prop -tier quick -repo $WT -verif $SV >/tmp/seedregress.out 2>&1; rc=$?
  got=False; [ $rc -eq 1 ] && got=True
  if [ "$got" = "$want" ]; then ok=$((ok+1)); else bad=$((bad+1)); echo "MISMATCH $id property=$prop want=$want got=$got rc=$rc"; fi
done
git -C /repo worktree remove --force $WT >/dev/null 2>&1
echo "seedregress: ok=$ok mismatches=$bad"
