package props

import (
	"fmt"
	"go/ast"
	"go/token"
	"go/types"
	"sort"
	"strings"

	"verifcheck/core"
)

func init() {
	register("C09", core.PropertyMeta{
		Explanation: "Decides structural clauses of C09; that the merged values equal the newest-wins model is a statement about run-time values and is NOT decided. " +
			"D1 a failed or aborted compaction leaves the originals in place: in compactionStrategy.compactGroup the input group is replaced only on paths where CompactFast/CompactFull returned nil, the only other replacement is the removal of the one file named by an errBlockRead, and outputs of a failed install are removed; in Engine.writeSnapshotAndCommit the cache snapshot and WAL segments are released only after FileStore.Replace returned nil (shared with C01); " +
			"D2 the pass-through decision of every merge<T> (ten generated variants) looks at every block: tombstones and partial reads are tested for the first block and for every later block, and overlap with the predecessor is tested for every later block, so a block is copied verbatim only if none of these holds for any block; " +
			"D3 recycled block records are completely re-initialised: wherever a *block may come from the reuse buffer, every field of the struct is assigned unconditionally before use, and the tombstones stored with a block are read from the TSM reader of the iterator that produced the block; " +
			"D4 outputs are installed only as complete files: Compactor.writeNewFiles returns file names only after write() returned nil and removes its temporary outputs otherwise (shared with C01). " +
			"D5 the reservation of the input files (Compactor.add) is released on every exit of CompactFull/CompactFast once it was taken; D6 an abort is honoured between blocks: in Compactor.write every block read is preceded, since the iterator advanced, by a look at the enabled flags, and the function can return errCompactionAborted; D7 the only files compactGroup removes are elements of the slice returned by CompactFast/CompactFull (its own outputs). " +
			"D8 blocks.Less for equal keys equals 'block i lies entirely before block j' on every ordering of the four block bounds (so the stable sort keeps overlapping blocks in file order and the newer value wins); a possibly-successful return of writeNewFiles hands back the accumulated list of files; every read of FileStore.files in a function that replaces the field happens under the store's write lock (atomic read-modify-write). " +
			"D9 in the compactor's key iterators every path that leaves BlockIterator.Next with the answer false consults BlockIterator.Err before returning (a failed input is not treated as exhausted); D10 the cache read concatenates the retained snapshot's entry before the live store's entry on every path (Values.Deduplicate keeps the last value of a timestamp, so the reverse order lets an older snapshot value override a newer acknowledged write while a snapshot is in flight or retained after a failed flush) (shared with C02/C11); D11 in Compactor.compact each running maximum of (generation, sequence) that names the output is compared with the variable it is then stored into. " +
			"NOT decided: value-level merge arithmetic (newest wins, Exclude ranges), block size/count limits, sortedness of output blocks.",
		RuleText:    "obligation = (rule, function, site); path exploration with outcome facts; attribute-set comparison between the first-block test and the per-block loop; struct-field coverage of re-initialisation; definition provenance",
		Assumptions: commonAssumptions,
	}, runC09)
}

func runC09(c *core.Ctx) {
	c.Clause("D1", func() {
		f := c.Fn(tsm1 + ".(*compactionStrategy).compactGroup")
		info := f.Info()
		isCompact := calleeIn(f, tsm1+".(*Compactor).CompactFast", tsm1+".(*Compactor).CompactFull")
		findOrAbort(c, f, "CompactFast/CompactFull", evCall(isCompact), 2)
		isReplace := func(ce *ast.CallExpr) bool {
			se, ok := ce.Fun.(*ast.SelectorExpr)
			return ok && strings.HasPrefix(se.Sel.Name, "Replace") && strings.Contains(core.FieldPathOf(info, se.X), "fileStore")
		}
		reps := findOrAbort(c, f, "fileStore.Replace*", evCall(isReplace), 1)
		groupObj := localOrParam(f, "group")
		c.Need(groupObj != nil, "compactGroup: variable group")
		bad := map[*core.Event]string{}
		complete := f.Flow().ExplorePaths(func(k core.VarKey, fct core.Fact) bool {
			ce, ok := fct.Def.(*ast.CallExpr)
			return ok && isCompact(ce)
		}, func(e *core.Event, st core.State) {
			if e.Kind != core.EvCall || !isReplace(e.Call) || len(e.Call.Args) == 0 {
				return
			}
			if id, ok := ast.Unparen(e.Call.Args[0]).(*ast.Ident); ok && info.ObjectOf(id) == groupObj {
				if !core.OutcomeOK(st, isCompact) {
					bad[e] = "the compaction's input files are replaced on a path where CompactFast/CompactFull has not been established to have returned nil: a failed or aborted compaction removes the originals"
				}
			}
		})
		c.Need(complete, "exploration bound compactGroup")
		nGroup := 0
		for i, r := range reps {
			id, isId := ast.Unparen(r.Call.Args[0]).(*ast.Ident)
			if isId && info.ObjectOf(id) == groupObj {
				nGroup++
				c.Check("install-only-after-successful-compaction", fmt.Sprintf("%s/replace-group#%d", f.Name, nGroup), c.P.Pos(r.Pos()), bad[r] == "", bad[r])
				continue
			}
			// the other replacement: the single corrupt file named by errBlockRead, with no new files
			good := false
			if cl, ok := ast.Unparen(r.Call.Args[0]).(*ast.CompositeLit); ok && len(cl.Elts) == 1 && len(r.Call.Args) >= 2 && info.Types[r.Call.Args[1]].IsNil() {
				if pid, ok := cl.Elts[0].(*ast.Ident); ok {
					// path := err.(errBlockRead).file
					fact := f.Flow().FactOfExpr(r, pid)
					if se, ok := fact.Def.(*ast.SelectorExpr); ok {
						if ta, ok := ast.Unparen(se.X).(*ast.TypeAssertExpr); ok && strings.HasSuffix(core.ExprStr(ta.Type), "errBlockRead") {
							good = true
						}
					}
				}
			}
			c.Check("originals-kept-on-failure", fmt.Sprintf("%s/replace-other#%d", f.Name, i+1), c.P.Pos(r.Pos()), good,
				"a replacement of files other than the compacted group must be the removal of the one unreadable file named by an errBlockRead")
		}
		c.Floor("installations of the compacted group", nGroup, 1)
		// outputs of a failed install are removed
		var install *core.Event
		for _, r := range reps {
			if id, ok := ast.Unparen(r.Call.Args[0]).(*ast.Ident); ok && info.ObjectOf(id) == groupObj {
				install = r
			}
		}
		c.Need(install != nil, "compactGroup: installation call")
		rm := calleeIn(f, "os.Remove")
		rms := f.Graph().Find(evCall(rm))
		onFail := 0
		for _, e := range rms {
			if f.Flow().CallFailedAt(e, func(x *ast.CallExpr) bool { return x == install.Call }) {
				onFail++
			}
		}
		c.Check("failed-install-removes-outputs", f.Name+"/os.Remove-after-failed-Replace", c.P.Pos(install.Pos()), onFail >= 1, "after a failed installation the new files are not removed: they are picked up as data files at the next open although the originals are still there")
		// snapshot side (shared with C01)
		g := c.Fn(tsm1 + ".(*Engine).writeSnapshotAndCommit")
		rep := fieldCallIn(g, "Engine.FileStore", "Replace")
		if len(g.Graph().Find(evCall(rep))) == 0 {
			ginfo := g.Info()
			rep = func(ce *ast.CallExpr) bool {
				se, ok := ce.Fun.(*ast.SelectorExpr)
				return ok && se.Sel.Name == "Replace" && strings.Contains(core.FieldPathOf(ginfo, se.X), "FileStore")
			}
		}
		okRule(c, g, "release-only-after-install", "FileStore.Replace", "Cache.ClearSnapshot", rep, evCall(func(ce *ast.CallExpr) bool {
			se, ok := ce.Fun.(*ast.SelectorExpr)
			return ok && se.Sel.Name == "ClearSnapshot"
		}))
		okRule(c, g, "release-only-after-install", "FileStore.Replace", "WAL.Remove", rep, evCall(calleeIn(g, tsm1+".(*WAL).Remove")))
	})

	c.Clause("D2", func() {
		n := 0
		for _, f := range c.P.FuncsIn(tsm1) {
			if f.Decl == nil || f.Decl.Recv == nil || !strings.HasPrefix(f.Decl.Name.Name, "merge") || typeNameIn(f.Decl.Name.Name) == "" {
				continue
			}
			if !strings.Contains(f.Name, "KeyIterator).merge") {
				continue
			}
			n++
			c.Counts["functions_analysed"]++
			first, each := blockAttrs(f)
			for _, a := range []string{"tombstones", "partiallyRead"} {
				c.Check("pass-through-decision-covers-every-block", f.Name+"/first-block:"+a, f.PosStr(), first[a],
					fmt.Sprintf("the decision to copy blocks verbatim does not test %s of the first block", a))
			}
			for _, a := range []string{"tombstones", "partiallyRead", "overlapsTimeRange"} {
				detail := ""
				switch a {
				case "tombstones":
					detail = "a later block that carries tombstones (a range delete recorded only on its file) is copied verbatim: the deleted points reappear after the compaction"
				case "partiallyRead":
					detail = "a later block of which a part was already merged is copied verbatim: points are duplicated or values already superseded return"
				default:
					detail = "overlap with the preceding block is not tested for later blocks: overlapping blocks are copied verbatim and the output is no longer sorted / de-duplicated"
				}
				c.Check("pass-through-decision-covers-every-block", f.Name+"/every-block:"+a, f.PosStr(), each[a], detail)
			}
			// belief consistency: whatever is tested for the first block is tested for the others
			var missing []string
			for a := range first {
				if !each[a] {
					missing = append(missing, a)
				}
			}
			sort.Strings(missing)
			c.Check("first-block-tests-repeated-for-later-blocks", f.Name, f.PosStr(), len(missing) == 0, fmt.Sprintf("tested for blocks[0] only: %v", missing))
		}
		c.Floor("merge<T> variants", n, 10)
	})

	c.Clause("D3", func() {
		bt := c.P.LookupType(tsm1, "block")
		c.Need(bt != nil, "type tsm1.block")
		st, _ := bt.Underlying().(*types.Struct)
		c.Need(st != nil, "struct tsm1.block")
		sites := 0
		c.Fn(tsm1 + ".(*tsmKeyIterator).Next")
		c.Fn(tsm1 + ".(*tsmBatchKeyIterator).Next")
		for _, f := range c.P.FuncsIn(tsm1) {
			if f.Body == nil || f.Decl == nil {
				continue
			}
			info := f.Info()
			k := 0
			// variables handed back to the caller are the caller's obligation
			returned := map[types.Object]bool{}
			ast.Inspect(f.Body, func(nd ast.Node) bool {
				if rs, ok := nd.(*ast.ReturnStmt); ok {
					for _, r := range rs.Results {
						if id, ok := ast.Unparen(r).(*ast.Ident); ok {
							returned[info.ObjectOf(id)] = true
						}
					}
				}
				return true
			})
			ast.Inspect(f.Body, func(nd ast.Node) bool {
				bs, ok := nd.(*ast.BlockStmt)
				if !ok {
					return true
				}
				for i, s := range bs.List {
					// a local *block: `var v *block`, or `v := helper(...)` where the helper returns a *block
					var obj types.Object
					var ds ast.Stmt = s
					recycled := false
					switch x := s.(type) {
					case *ast.DeclStmt:
						gd, ok := x.Decl.(*ast.GenDecl)
						if !ok || gd.Tok != token.VAR || len(gd.Specs) != 1 {
							continue
						}
						vs := gd.Specs[0].(*ast.ValueSpec)
						if len(vs.Names) != 1 || len(vs.Values) != 0 {
							continue
						}
						obj = info.Defs[vs.Names[0]]
					case *ast.AssignStmt:
						if x.Tok != token.DEFINE || len(x.Lhs) != 1 || len(x.Rhs) != 1 {
							continue
						}
						id, ok := x.Lhs[0].(*ast.Ident)
						if !ok {
							continue
						}
						switch ast.Unparen(x.Rhs[0]).(type) {
						case *ast.CallExpr, *ast.IndexExpr:
							// a block handed out by a helper, or taken from a buffer: not known to be fresh
							obj = info.Defs[id]
							recycled = true
						default:
							continue
						}
					default:
						continue
					}
					if obj == nil || returned[obj] {
						continue
					}
					pt, ok := obj.Type().(*types.Pointer)
					if !ok || !types.Identical(pt.Elem(), bt) {
						continue
					}
					// does it come from the reuse buffer?
					assigned := map[string]bool{}
					var tombDef ast.Expr
					for _, t := range bs.List[i+1:] {
						if ifs, ok := t.(*ast.IfStmt); ok {
							ast.Inspect(ifs, func(x ast.Node) bool {
								if as, ok := x.(*ast.AssignStmt); ok && len(as.Lhs) == 1 && len(as.Rhs) == 1 {
									if id, ok := as.Lhs[0].(*ast.Ident); ok && info.ObjectOf(id) == obj {
										if _, isIdx := ast.Unparen(as.Rhs[0]).(*ast.IndexExpr); isIdx {
											recycled = true
										}
									}
								}
								return true
							})
							continue
						}
						as, ok := t.(*ast.AssignStmt)
						if !ok || as.Tok != token.ASSIGN {
							continue
						}
						for li, l := range as.Lhs {
							se, ok := l.(*ast.SelectorExpr)
							if !ok {
								continue
							}
							if id, ok := se.X.(*ast.Ident); ok && info.ObjectOf(id) == obj {
								assigned[se.Sel.Name] = true
								if se.Sel.Name == "tombstones" && len(as.Rhs) == len(as.Lhs) {
									tombDef = as.Rhs[li]
								}
							}
						}
					}
					if !recycled || len(assigned) == 0 {
						// fresh literal, or a mere alias of an existing block that is only read here
						continue
					}
					k++
					sites++
					var missing []string
					for fi := 0; fi < st.NumFields(); fi++ {
						if !assigned[st.Field(fi).Name()] {
							missing = append(missing, st.Field(fi).Name())
						}
					}
					c.Check("recycled-block-fully-reinitialised", fmt.Sprintf("%s/acquire#%d", f.Name, k), c.P.Pos(ds.Pos()), len(missing) == 0,
						fmt.Sprintf("a block record taken from the reuse buffer keeps %v of the block it described before: the merge treats the new block as (partly) read or mis-ranges it, and its points are dropped or duplicated", missing))
					// tombstones provenance
					good := false
					if id, ok := tombDef.(*ast.Ident); ok {
						// nearest preceding definition of that identifier in the enclosing list
						for j := i - 1; j >= 0 && !good; j-- {
							as, ok := bs.List[j].(*ast.AssignStmt)
							if !ok || len(as.Lhs) != 1 || len(as.Rhs) != 1 {
								continue
							}
							lid, ok := as.Lhs[0].(*ast.Ident)
							if !ok || info.ObjectOf(lid) != info.ObjectOf(id) {
								continue
							}
							ce, ok := as.Rhs[0].(*ast.CallExpr)
							if !ok {
								break
							}
							se, ok := ce.Fun.(*ast.SelectorExpr)
							if !ok || se.Sel.Name != "TombstoneRange" {
								break
							}
							tombRoot := rootIdentOf(info, se.X)
							// the iterator the block bytes were read from
							for jj := j - 1; jj >= 0; jj-- {
								ras, ok := bs.List[jj].(*ast.AssignStmt)
								if !ok || len(ras.Rhs) != 1 {
									continue
								}
								rce, ok := ras.Rhs[0].(*ast.CallExpr)
								if !ok {
									continue
								}
								rse, ok := rce.Fun.(*ast.SelectorExpr)
								if ok && rse.Sel.Name == "Read" {
									good = tombRoot != nil && rootIdentOf(info, rse.X) == tombRoot
									break
								}
							}
							break
						}
					}
					c.Check("block-tombstones-from-own-file", fmt.Sprintf("%s/acquire#%d", f.Name, k), c.P.Pos(ds.Pos()), good,
						"the tombstones stored with a block are not (recognisably) read from the TSM reader of the iterator that produced the block")
				}
				return true
			})
		}
		c.Floor("block acquisitions from the reuse buffer", sites, 4)
	})

	c.Clause("D4", func() {
		f := c.Fn(tsm1 + ".(*Compactor).writeNewFiles")
		cw := calleeIn(f, tsm1+".(*Compactor).write")
		// every return of a non-nil file list happens with write() established ok, or with no write attempted on that path (empty input)
		k := 0
		bad := map[*core.Event]string{}
		winfo4 := f.Info()
		sentinelEstablished := func(st core.State) bool {
			for k, fct := range st {
				if k.Root != nil || !strings.HasPrefix(k.Path, "cond:") || fct.Def == nil || fct.Bool == 0 {
					continue
				}
				var atoms []atomB
				decompose(fct.Def, fct.Bool == 1, &atoms)
				for _, a := range atoms {
					be, ok := ast.Unparen(a.x).(*ast.BinaryExpr)
					if !ok || !(be.Op == token.EQL && a.val || be.Op == token.NEQ && !a.val) {
						continue
					}
					for _, side := range []ast.Expr{be.X, be.Y} {
						var id *ast.Ident
						switch s := ast.Unparen(side).(type) {
						case *ast.Ident:
							id = s
						case *ast.SelectorExpr:
							id = s.Sel
						}
						if id == nil {
							continue
						}
						if v, ok := winfo4.ObjectOf(id).(*types.Var); ok && v.Pkg() != nil && v.Parent() == v.Pkg().Scope() && v.Type().String() == "error" {
							return true
						}
					}
				}
			}
			return false
		}
		complete := f.Flow().ExplorePaths(func(key core.VarKey, fct core.Fact) bool {
			if key.Root == nil && strings.HasPrefix(key.Path, "cond:") {
				return true
			}
			ce, ok := fct.Def.(*ast.CallExpr)
			return ok && cw(ce)
		}, func(e *core.Event, st core.State) {
			if e.Kind != core.EvReturn {
				return
			}
			rs, ok := e.Node.(*ast.ReturnStmt)
			if !ok || len(rs.Results) != 2 {
				return
			}
			if f.Info().Types[rs.Results[0]].IsNil() {
				return
			}
			// write() reports "this file is complete, open the next one" (size / block limits) and "nothing was
			// written, the empty file was dropped" through sentinel errors; only another failure is a broken output
			if core.OutcomeFailed(st, cw) && !sentinelEstablished(st) {
				bad[e] = "file names are returned on a path where the last write() failed: a partially written output would be installed"
			}
		})
		c.Need(complete, "exploration bound writeNewFiles")
		for _, e := range f.Graph().Events {
			if e.Kind != core.EvReturn {
				continue
			}
			rs, ok := e.Node.(*ast.ReturnStmt)
			if !ok || len(rs.Results) != 2 || f.Info().Types[rs.Results[0]].IsNil() {
				continue
			}
			k++
			c.Check("files-returned-only-after-complete-write", fmt.Sprintf("%s/return#%d", f.Name, k), c.P.Pos(e.Pos()), bad[e] == "", bad[e])
		}
		c.Floor("returns of file names from writeNewFiles", k, 1)
	})

	c.Clause("D5", func() {
		// the reservation of the input files is released on every exit after it was taken
		n := 0
		for _, name := range []string{tsm1 + ".(*Compactor).CompactFull", tsm1 + ".(*Compactor).CompactFast"} {
			f := c.Fn(name)
			isAdd := calleeIn(f, tsm1+".(*Compactor).add")
			isRemove := calleeIn(f, tsm1+".(*Compactor).remove")
			adds := findOrAbort(c, f, "Compactor.add", evCall(isAdd), 1)
			addArg := core.ExprStr(adds[0].Call.Args[0])
			bad := ""
			complete := f.Flow().ExplorePathsMarked(func(k core.VarKey, fct core.Fact) bool {
				return k.Root == nil && strings.HasPrefix(k.Path, "cond:") && fct.Def != nil && strings.Contains(core.ExprStr(fct.Def), ".add(")
			}, func(e *core.Event) string {
				if e.Kind == core.EvDefer && isRemove(e.Call) && len(e.Call.Args) == 1 && core.ExprStr(e.Call.Args[0]) == addArg {
					return "release-registered"
				}
				if e.Kind == core.EvCall && isRemove(e.Call) && len(e.Call.Args) == 1 && core.ExprStr(e.Call.Args[0]) == addArg {
					return "release-registered"
				}
				return ""
			}, func(e *core.Event, st core.State) {
				if e.Kind != core.EvReturn || bad != "" {
					return
				}
				// reserved on this path: the test `!c.add(files)` was evaluated false
				reserved := false
				for k, fct := range st {
					if k.Root != nil || !strings.HasPrefix(k.Path, "cond:") || fct.Def == nil || fct.Bool == 0 {
						continue
					}
					var atoms []atomB
					decompose(fct.Def, fct.Bool == 1, &atoms)
					for _, a := range atoms {
						if ce, ok := ast.Unparen(a.x).(*ast.CallExpr); ok && isAdd(ce) && a.val {
							reserved = true
						}
					}
				}
				if reserved && !core.Marked(st, "release-registered") {
					bad = "a return is reachable after the input files were reserved (Compactor.add returned true) without their release being registered: the files can never be compacted again until restart @" + c.P.Pos(e.Pos())
				}
			})
			c.Need(complete, "exploration bound "+f.Name)
			n++
			c.Check("reservation-released-on-every-exit", f.Name, f.PosStr(), bad == "", bad)
		}
		c.Floor("compaction entry points with a reservation", n, 2)
	})

	c.Clause("D6", func() {
		// an abort is honoured between blocks: every block read of Compactor.write is preceded, since the iterator advanced, by a look at the enabled flags
		f := c.Fn(tsm1 + ".(*Compactor).write")
		info := f.Info()
		ce := c.P.LookupField(tsm1, "Compactor", "compactionsEnabled")
		se := c.P.LookupField(tsm1, "Compactor", "snapshotsEnabled")
		c.Need(ce != nil && se != nil, "Compactor.compactionsEnabled / snapshotsEnabled")
		readsFlag := func(e *core.Event) bool {
			if e.Node == nil {
				return false
			}
			found := false
			ast.Inspect(e.Node, func(nd ast.Node) bool {
				if s, ok := nd.(*ast.SelectorExpr); ok && (info.Uses[s.Sel] == ce || info.Uses[s.Sel] == se) {
					found = true
				}
				return !found
			})
			return found
		}
		nexts := findOrAbort(c, f, "iter.Next", func(e *core.Event) bool { return methodCall(e, "Next") }, 1)
		reads := findOrAbort(c, f, "iter.Read", func(e *core.Event) bool { return methodCall(e, "Read") }, 1)
		for i, nx := range nexts {
			p := f.Flow().PathAvoiding(nx, func(e *core.Event) bool {
				for _, r := range reads {
					if e == r {
						return true
					}
				}
				return false
			}, readsFlag)
			detail := ""
			if p != nil {
				detail = "a block is read and written without looking at the enabled flags since the iterator advanced: disabling compactions (as a delete or a close does) is not honoured until the whole file is written: " + core.PathStr(p)
			}
			c.Check("abort-checked-every-block", fmt.Sprintf("%s/iteration#%d", f.Name, i+1), c.P.Pos(nx.Pos()), p == nil, detail)
		}
		// the look leads to an abort: some return under `!enabled` carries a non-nil error
		aborts := 0
		for _, e := range f.Graph().Events {
			if e.Kind != core.EvReturn {
				continue
			}
			if rs, ok := e.Node.(*ast.ReturnStmt); ok && len(rs.Results) == 1 && strings.Contains(core.ExprStr(rs.Results[0]), "errCompactionAborted") {
				aborts++
			}
		}
		c.Check("abort-checked-every-block", f.Name+"/abort-return", f.PosStr(), aborts >= 1, "Compactor.write has no return of errCompactionAborted")
	})

	c.Clause("D8", func() {
		// (a) the order of blocks of one key: a block sorts before another only if it lies entirely before it, so
		// that overlapping blocks keep the (stable) order of their files and the newer file's values win
		less := c.Fn(tsm1 + ".blocks.Less")
		info := less.Info()
		var sameKeyRet ast.Expr
		ast.Inspect(less.Body, func(nd ast.Node) bool {
			ifs, ok := nd.(*ast.IfStmt)
			if !ok {
				return true
			}
			be, ok := ast.Unparen(ifs.Cond).(*ast.BinaryExpr)
			if !ok || be.Op != token.EQL || !isZeroLit(info, be.Y) {
				return true
			}
			for _, s := range ifs.Body.List {
				if rs, ok := s.(*ast.ReturnStmt); ok && len(rs.Results) == 1 {
					sameKeyRet = rs.Results[0]
				}
			}
			return true
		})
		c.Need(sameKeyRet != nil, "blocks.Less: result for equal keys")
		pc := &core.PredCompiler{P: c.P, Sticky: true}
		impl, err := pc.CompileIn(less, sameKeyRet)
		c.Need(err == nil, fmt.Sprintf("blocks.Less: equal-key result is a comparison predicate (%v)", err))
		// terms: a[i].minTime etc. are rendered from the receiver and the two index parameters
		ai, aj := "$recv[$0]", "$recv[$1]"
		assume := core.And(core.Le(ai+".minTime", ai+".maxTime"), core.Le(aj+".minTime", aj+".maxTime"))
		spec := core.Lt(ai+".maxTime", aj+".minTime")
		diff, nval, err := core.Equivalent(core.And(assume, impl), core.And(assume, spec))
		c.Counts["evaluations"] += nval
		detail := ""
		if err != nil {
			detail = "undecided: " + err.Error()
		} else if diff != "" {
			detail = "for blocks of the same key, Less differs from 'block i lies entirely before block j' on " + diff + ": overlapping blocks are then reordered by the stable sort, and the merge lets the older file's value win over the newer one"
		}
		c.Check("same-key-blocks-reordered-only-when-disjoint", less.Name, less.PosStr(), err == nil && diff == "", detail)

		// (b) a successful return of writeNewFiles hands back every file written: its first result is the accumulator
		w := c.Fn(tsm1 + ".(*Compactor).writeNewFiles")
		winfo := w.Info()
		var acc types.Object
		ast.Inspect(w.Body, func(nd ast.Node) bool {
			as, ok := nd.(*ast.AssignStmt)
			if !ok || len(as.Lhs) != 1 || len(as.Rhs) != 1 {
				return true
			}
			ce, ok := as.Rhs[0].(*ast.CallExpr)
			if !ok {
				return true
			}
			if b, ok := core.Callee(winfo, ce).(*types.Builtin); ok && b.Name() == "append" {
				if id, ok := as.Lhs[0].(*ast.Ident); ok {
					if t, ok := winfo.TypeOf(id).Underlying().(*types.Slice); ok && t.Elem().String() == "string" {
						acc = winfo.ObjectOf(id)
					}
				}
			}
			return true
		})
		c.Need(acc != nil, "writeNewFiles: accumulator of written file names")
		k := 0
		for _, e := range w.Graph().Events {
			if e.Kind != core.EvReturn || !w.Flow().Reachable(e) {
				continue
			}
			rs, ok := e.Node.(*ast.ReturnStmt)
			if !ok || len(rs.Results) != 2 {
				continue
			}
			fact, _ := w.ReturnErrFact(e)
			if fact.Nil == core.NonNil {
				continue
			}
			k++
			id, isId := ast.Unparen(rs.Results[0]).(*ast.Ident)
			good := isId && winfo.ObjectOf(id) == acc
			// returning the error of a failed step together with nil files is not a success return
			if !good && fact.Nil != core.IsNil && winfo.Types[rs.Results[0]].IsNil() {
				if rid, ok := ast.Unparen(rs.Results[1]).(*ast.Ident); ok && rid.Name != "nil" {
					good = true
				}
			}
			c.Check("success-returns-every-file-written", fmt.Sprintf("%s/return#%d", w.Name, k), c.P.Pos(e.Pos()), good,
				"a return that may report success does not hand back the accumulated list of written files: the caller then replaces the input files by nothing (or by a subset) and every key of the group disappears")
		}
		c.Floor("possibly-successful returns of writeNewFiles", k, 1)

		// (c) installing files is an atomic read-modify-write of FileStore.files: in a function that assigns the
		// field, every read of it happens while the store's mutex is write-locked
		fld := c.P.LookupField(tsm1, "FileStore", "files")
		c.Need(fld != nil, "field FileStore.files")
		nw := 0
		for _, f := range c.P.FuncsIn(tsm1) {
			if f.Body == nil || f.Decl == nil {
				continue
			}
			_, writes := f.AccessesField(fld)
			if !writes {
				continue
			}
			finfo := f.Info()
			readsAt := func(e *core.Event) bool {
				if e.Node == nil {
					return false
				}
				found := false
				lhs := map[ast.Expr]bool{}
				if as, ok := e.Node.(*ast.AssignStmt); ok {
					for _, l := range as.Lhs {
						lhs[ast.Unparen(l)] = true
					}
				}
				ast.Inspect(e.Node, func(nd ast.Node) bool {
					if _, ok := nd.(*ast.FuncLit); ok {
						return false
					}
					if se, ok := nd.(*ast.SelectorExpr); ok && finfo.Uses[se.Sel] == fld && !lhs[se] {
						found = true
					}
					return !found
				})
				return found
			}
			unlocked := map[*core.Event]bool{}
			any := false
			complete := f.ExploreLocks(func(e *core.Event, st core.LockState) {
				if (e.Kind != core.EvAssign && e.Kind != core.EvCall && e.Kind != core.EvCond && e.Kind != core.EvCase && e.Kind != core.EvReturn) || !readsAt(e) {
					return
				}
				any = true
				w := false
				for _, h := range st.Held() {
					if strings.HasSuffix(h, ".mu#W") {
						w = true
					}
				}
				if !w {
					unlocked[e] = true
				}
			})
			if !complete {
				c.Check("install-is-atomic-read-modify-write", f.Name+"/undecided", f.PosStr(), false, "undecided: exploration bound exceeded")
				continue
			}
			if !any {
				continue
			}
			nw++
			bad := ""
			for e := range unlocked {
				bad = "FileStore.files is read at " + c.P.Pos(e.Pos()) + " without the store's write lock in a function that later replaces the field: an installation that completes in between (a snapshot during a compaction) is overwritten and its file drops out of the active set"
			}
			c.Check("install-is-atomic-read-modify-write", f.Name, f.PosStr(), bad == "", bad)
		}
		c.Floor("functions that read and replace FileStore.files", nw, 1)
	})

	c.Clause("D9", func() { runExhaustionChecksError(c) })
	c.Clause("D10", func() { runCacheReadOrder(c) })
	c.Clause("D11", func() { runRunningMaxima(c) })

	c.Clause("D7", func() {
		// what compactGroup deletes after a failed install are the compaction's outputs
		f := c.Fn(tsm1 + ".(*compactionStrategy).compactGroup")
		info := f.Info()
		filesObj := localOrParam(f, "files")
		c.Need(filesObj != nil, "compactGroup: variable files")
		// files is assigned only from CompactFast/CompactFull
		isCompact := calleeIn(f, tsm1+".(*Compactor).CompactFast", tsm1+".(*Compactor).CompactFull")
		okDefs := true
		ast.Inspect(f.Body, func(nd ast.Node) bool {
			as, ok := nd.(*ast.AssignStmt)
			if !ok {
				return true
			}
			for _, l := range as.Lhs {
				if id, ok := l.(*ast.Ident); ok && info.ObjectOf(id) == filesObj {
					ce, isCall := as.Rhs[0].(*ast.CallExpr)
					if !isCall || !isCompact(ce) {
						okDefs = false
					}
				}
			}
			return true
		})
		c.Check("removed-files-are-outputs", f.Name+"/files-defined-by-compaction", f.PosStr(), okDefs, "the variable holding the new files is assigned from something other than CompactFast/CompactFull")
		k := 0
		ast.Inspect(f.Body, func(nd ast.Node) bool {
			rs, ok := nd.(*ast.RangeStmt)
			if !ok {
				return true
			}
			var val types.Object
			if id, ok := rs.Value.(*ast.Ident); ok {
				val = info.ObjectOf(id)
			}
			ast.Inspect(rs.Body, func(x ast.Node) bool {
				ce, ok := x.(*ast.CallExpr)
				if !ok {
					return true
				}
				fn, ok := core.Callee(info, ce).(*types.Func)
				if !ok || fn.Pkg() == nil || fn.Pkg().Path() != "os" || fn.Name() != "Remove" && fn.Name() != "RemoveAll" {
					return true
				}
				k++
				overFiles := false
				if id, ok := ast.Unparen(rs.X).(*ast.Ident); ok && info.ObjectOf(id) == filesObj {
					overFiles = true
				}
				argIsVal := false
				if id, ok := ast.Unparen(ce.Args[0]).(*ast.Ident); ok && val != nil && info.ObjectOf(id) == val {
					argIsVal = true
				}
				c.Check("removed-files-are-outputs", fmt.Sprintf("%s/os.%s#%d", f.Name, fn.Name(), k), c.P.Pos(ce.Pos()), overFiles && argIsVal,
					"compactGroup removes a file that is not one of the compaction's own outputs: removing an input file destroys data that exists nowhere else")
				return true
			})
			return true
		})
		// removals outside a range over files are not allowed at all
		total := 0
		for _, e := range f.Graph().Events {
			if e.Kind == core.EvCall {
				if fn, ok := e.Callee.(*types.Func); ok && fn.Pkg() != nil && fn.Pkg().Path() == "os" && (fn.Name() == "Remove" || fn.Name() == "RemoveAll") {
					total++
				}
			}
		}
		c.Check("removed-files-are-outputs", f.Name+"/all-removals-inside-range-over-outputs", f.PosStr(), total == k, fmt.Sprintf("%d os.Remove calls, %d of them inside a range over the outputs", total, k))
		c.Floor("removals in compactGroup", k, 1)
	})
}

// blockAttrs collects which attributes of k.blocks[0] and of k.blocks[<loop variable>] a merge function tests.
func blockAttrs(f *core.FuncInfo) (first, each map[string]bool) {
	first, each = map[string]bool{}, map[string]bool{}
	info := f.Info()
	var loopVars []types.Object
	ast.Inspect(f.Body, func(nd ast.Node) bool {
		if fs, ok := nd.(*ast.ForStmt); ok {
			if as, ok := fs.Init.(*ast.AssignStmt); ok && len(as.Lhs) == 1 {
				if id, ok := as.Lhs[0].(*ast.Ident); ok {
					loopVars = append(loopVars, info.ObjectOf(id))
				}
			}
		}
		return true
	})
	isLoopVar := func(x ast.Expr) bool {
		id, ok := ast.Unparen(x).(*ast.Ident)
		if !ok {
			return false
		}
		for _, v := range loopVars {
			if info.ObjectOf(id) == v {
				return true
			}
		}
		return false
	}
	ast.Inspect(f.Body, func(nd ast.Node) bool {
		se, ok := nd.(*ast.SelectorExpr)
		if !ok {
			return true
		}
		ix, ok := ast.Unparen(se.X).(*ast.IndexExpr)
		if !ok {
			return true
		}
		bse, ok := ast.Unparen(ix.X).(*ast.SelectorExpr)
		if !ok || bse.Sel.Name != "blocks" {
			return true
		}
		switch se.Sel.Name {
		case "minTime", "maxTime":
			return true // operands of the overlap test
		}
		if v, isC := intConst(info, ix.Index); isC && v == 0 {
			first[se.Sel.Name] = true
		} else if isLoopVar(ix.Index) {
			each[se.Sel.Name] = true
		}
		return true
	})
	return
}
