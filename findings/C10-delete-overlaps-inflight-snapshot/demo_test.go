// Demonstration of the known finding C10 D8 (delete overlapping an in-flight cache snapshot): copy into
// tsdb/engine/tsm1/ and run
//   go test -vet=off -count=1 -run TestDemoDeleteOverlappingInflightSnapshot ./tsdb/engine/tsm1/
// Fails on the current tree: the deleted points are readable again in the live process and after a restart.
package tsm1
