// Package props holds one rule file per property: the rule instances with
// their slots filled from this repository.
package props

import "verifcheck/core"

// Property couples a rule runner with its evidence text.
type Property struct {
	Meta core.PropertyMeta
	Run  func(c *core.Ctx)
}

// Registry maps property ids to their rule files.
var Registry = map[string]Property{}

func register(id string, meta core.PropertyMeta, run func(c *core.Ctx)) {
	meta.ID = id
	Registry[id] = Property{Meta: meta, Run: run}
}

const (
	tsm1  = "tsdb/engine/tsm1"
	coord = "coordinator"
	hhp   = "services/hh"
	metap = "services/meta"
)

var commonAssumptions = []string{
	"go/packages + go/types resolve the same program the compiler builds (default build tags, linux/amd64)",
	"reflection, unsafe and cgo are not followed",
	"paths are those of the go/cfg control-flow graph refined by nil/bool branch facts; infeasible paths can only cause a report, never hide one",
	"third-party modules (hashicorp/raft, protobuf, snappy, influxql) are outside the analysed code",
}
