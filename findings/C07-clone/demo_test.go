package meta

import "testing"

// A published Data value (a raft snapshot, a client cache) must not change when a later command is applied to its clone.
func TestZZ_CloneIsolation(t *testing.T) {
	d := &Data{}
	d.CreateDataNode("h1", "t1")
	d.CreateMetaNode("m1", "mt1")
	d.CreateDatabase("db")
	d.CreateRetentionPolicy("db", &RetentionPolicyInfo{Name: "rp", ReplicaN: 1}, true)
	d.CreateSubscription("db", "rp", "s1", "ALL", []string{"udp://a:1"})
	d.CreateSubscription("db", "rp", "s2", "ALL", []string{"udp://b:1"})

	snap := d // what storeFSM.Snapshot hands to Persist
	before, _ := snap.MarshalBinary()

	other := d.Clone() // what apply* mutates
	other.DataNode(other.DataNodes[0].ID).Addr = "moved"
	other.SetMetaNode("m1-new", "mt1-new")
	other.DropSubscription("db", "rp", "s1")

	after, _ := snap.MarshalBinary()
	if string(before) != string(after) {
		t.Fatalf("the published metadata changed when its clone was mutated:\nDataNodes=%v MetaNodes=%v Subs=%v",
			snap.DataNodes, snap.MetaNodes, snap.Databases[0].RetentionPolicies[0].Subscriptions)
	}
}
