package props

import (
	"fmt"
	"go/ast"

	"verifcheck/core"
)

// exchangeCalls are the framed read/write helpers that take a connection: when one of them
// fails the stream position of the connection is unknown.
var exchangeCalls = []string{
	coord + ".EncodeTLVT", coord + ".EncodeTLV", coord + ".EncodeLV",
	coord + ".DecodeTLVT", coord + ".DecodeTLV", coord + ".DecodeLV",
	coord + ".WriteTLVT", coord + ".WriteTLV", coord + ".WriteLV", coord + ".WriteType",
	coord + ".ReadTLVT", coord + ".ReadTLV", coord + ".ReadLV", coord + ".ReadType",
}

// connPoisonRule: in every coordinator function that takes a connection from a pool
// (it calls MarkUnusable somewhere), on every path on which a framed exchange on the
// connection failed, MarkUnusable has been called before the function (or the closure
// performing the exchange) returns. Otherwise the connection goes back to the pool with an
// unread or half-written frame and the next request on it reads the previous reply.
func connPoisonRule(c *core.Ctx, rule string) int {
	n := 0
	for _, f := range c.P.FuncsIn(coord) {
		if f.Body == nil || f.Parent != nil {
			continue
		}
		// functions that use pooled connections
		mark := calleeIn(f, coord+".MarkUnusable")
		uses := false
		var all []*core.FuncInfo
		var collect func(x *core.FuncInfo)
		collect = func(x *core.FuncInfo) {
			all = append(all, x)
			if len(x.Graph().Find(evCall(mark))) > 0 {
				uses = true
			}
			for _, l := range x.Lits {
				collect(l)
			}
		}
		collect(f)
		if !uses {
			continue
		}
		// MarkUnusable called unconditionally right after dial in the outer function (streaming calls)?
		outerMarked := func(inner *core.FuncInfo) bool {
			if inner.Parent == nil {
				return false
			}
			// the closure is created after an unconditional MarkUnusable in the parent
			p := inner.Parent
			for _, e := range p.Graph().Events {
				if e.Kind == core.EvCall && mark(e.Call) {
					// every path from entry to the closure call passes it?
					isLitCall := func(x *core.Event) bool {
						return x.Kind == core.EvCall && ast.Unparen(x.Call.Fun) == ast.Expr(inner.Lit)
					}
					if len(p.MustPrecede(func(x *core.Event) bool { return x == e }, isLitCall)) == 0 && len(p.Graph().Find(isLitCall)) > 0 {
						return true
					}
				}
			}
			return false
		}
		for _, g := range all {
			ex := calleeIn(g, exchangeCalls...)
			sites := g.Graph().Find(evCall(ex))
			if len(sites) == 0 {
				continue
			}
			if outerMarked(g) {
				for i, s := range sites {
					c.Check(rule, fmt.Sprintf("%s/%s#%d", g.Root().Name, short(core.CalleeName(s)), i+1), c.P.Pos(s.Pos()), true, "connection is marked unusable unconditionally before the exchange (streaming call)")
					n++
				}
				continue
			}
			gmark := calleeIn(g, coord+".MarkUnusable")
			bad := map[*ast.CallExpr]string{}
			complete := g.Flow().ExplorePathsMarked(func(k core.VarKey, fct core.Fact) bool {
				ce, ok := fct.Def.(*ast.CallExpr)
				return ok && ex(ce)
			}, func(e *core.Event) string {
				if e.Kind == core.EvCall && gmark(e.Call) {
					return "unusable"
				}
				return ""
			}, func(e *core.Event, st core.State) {
				if e.Kind != core.EvReturn || core.Marked(st, "unusable") {
					return
				}
				for _, s := range sites {
					sc := s.Call
					if core.OutcomeFailed(st, func(ce *ast.CallExpr) bool { return ce == sc }) {
						bad[sc] = "a return @" + c.P.Pos(e.Pos()) + " is reachable after this exchange failed without MarkUnusable(conn): the connection returns to the pool mid-frame and the next request on it reads a stale reply"
					}
				}
			})
			c.Need(complete, "exploration bound "+g.Name)
			for i, s := range sites {
				c.Check(rule, fmt.Sprintf("%s/%s#%d", g.Root().Name, short(core.CalleeName(s)), i+1), c.P.Pos(s.Pos()), bad[s.Call] == "", bad[s.Call])
				n++
			}
		}
	}
	return n
}
