package props

import (
	"fmt"
	"go/ast"
	"go/types"
	"sort"
	"strings"

	"verifcheck/core"
)

// runNoReentrantLock (C19 D15): sync.Mutex and sync.RWMutex are not re-entrant. A method that holds the mutex field
// <recv>.<mu> of its own receiver and, while holding it, calls another method ON THE SAME RECEIVER VARIABLE that
// (directly, or through further calls on its own receiver) acquires the same field, blocks forever when the held or
// the requested mode is exclusive, and blocks forever as soon as a writer queues up between the two acquisitions when
// both are shared (sync.RWMutex: "a blocked Lock call excludes new readers"; recursive read locking is prohibited).
// The two lock values are provably the same object: same receiver variable (never reassigned in the caller), same
// field. This is the part of the lock-order clause (D2) that D2 cannot decide, because it does not distinguish two
// instances of one lock class and therefore skips self-edges.
//
// Summary of a method: the set of receiver mutex fields it may acquire synchronously - acquisitions in its own body
// (not in function literals: goroutines and stored callbacks run elsewhere) plus the summaries of the methods it calls
// on its own receiver variable. A callee that acquires only on some of its paths still counts: the caller cannot
// choose the path unless the choice is visible at the call, and the two accepted idioms for that are decided below
// (a boolean/"locked" argument is not one the repository uses on these types).
func runNoReentrantLock(c *core.Ctx, pkgs []string, floor int) {
	type acq struct {
		field string // mutex field name on the receiver
		mode  string // "#W" / "#R"
		pos   string
		via   string
	}
	recvIdent := func(f *core.FuncInfo) *ast.Ident {
		if f.Decl == nil || f.Decl.Recv == nil || len(f.Decl.Recv.List) != 1 || len(f.Decl.Recv.List[0].Names) != 1 {
			return nil
		}
		id := f.Decl.Recv.List[0].Names[0]
		if id.Name == "_" {
			return nil
		}
		return id
	}
	// receiver variable is never assigned in the body
	recvStable := func(f *core.FuncInfo, rv types.Object) bool {
		stable := true
		ast.Inspect(f.Body, func(nd ast.Node) bool {
			if as, ok := nd.(*ast.AssignStmt); ok {
				for _, l := range as.Lhs {
					if id, ok := ast.Unparen(l).(*ast.Ident); ok && f.Info().ObjectOf(id) == rv {
						stable = false
					}
				}
			}
			return true
		})
		return stable
	}
	// key "r.mu#W" -> field "mu" when the lock expression is exactly <recv>.<field>
	fieldOfKey := func(key, recv string) (string, string, bool) {
		i := strings.LastIndex(key, "#")
		if i < 0 {
			return "", "", false
		}
		expr, mode := key[:i], key[i:]
		if !strings.HasPrefix(expr, recv+".") {
			return "", "", false
		}
		fld := strings.TrimPrefix(expr, recv+".")
		if fld == "" || strings.ContainsAny(fld, ".()[] ") {
			return "", "", false
		}
		return fld, mode, true
	}
	sameRecvCall := func(f *core.FuncInfo, e *core.Event, rv types.Object) *core.FuncInfo {
		if e.Kind != core.EvCall || e.Call == nil {
			return nil
		}
		se, ok := e.Call.Fun.(*ast.SelectorExpr)
		if !ok {
			return nil
		}
		id, ok := ast.Unparen(se.X).(*ast.Ident)
		if !ok || f.Info().ObjectOf(id) != rv {
			return nil
		}
		fn, ok := e.Callee.(*types.Func)
		if !ok {
			return nil
		}
		g := c.P.FuncOf(fn)
		if g == nil || g.Body == nil || recvIdent(g) == nil {
			return nil
		}
		return g
	}

	var methods []*core.FuncInfo
	for _, rel := range pkgs {
		for _, f := range c.P.FuncsIn(rel) {
			if f.Body != nil && f.Decl != nil && recvIdent(f) != nil {
				methods = append(methods, f)
			}
		}
	}
	summary := map[*core.FuncInfo]map[string]acq{} // field+mode -> witness
	calls := map[*core.FuncInfo][]*core.FuncInfo{}
	for _, f := range methods {
		rid := recvIdent(f)
		rv := f.Info().ObjectOf(rid)
		s := map[string]acq{}
		for _, op := range f.LockOps() {
			if !op.Acquire || op.Defer {
				continue
			}
			if fld, mode, ok := fieldOfKey(op.Key, rid.Name); ok {
				// make sure the root identifier of the lock expression is the receiver variable itself
				if se, ok := op.Ev.Call.Fun.(*ast.SelectorExpr); ok {
					if fx, ok := ast.Unparen(se.X).(*ast.SelectorExpr); ok {
						if id, ok := ast.Unparen(fx.X).(*ast.Ident); ok && f.Info().ObjectOf(id) == rv {
							if _, dup := s[fld+mode]; !dup {
								s[fld+mode] = acq{fld, mode, c.P.Pos(op.Ev.Pos()), f.Name}
							}
						}
					}
				}
			}
		}
		summary[f] = s
		for _, e := range f.Graph().Events {
			if g := sameRecvCall(f, e, rv); g != nil {
				calls[f] = append(calls[f], g)
			}
		}
	}
	for changed := true; changed; {
		changed = false
		for _, f := range methods {
			for _, g := range calls[f] {
				for k, a := range summary[g] {
					if _, has := summary[f][k]; !has {
						summary[f][k] = a
						changed = true
					}
				}
			}
		}
	}

	nHeldCalls := 0
	for _, f := range methods {
		rid := recvIdent(f)
		rv := f.Info().ObjectOf(rid)
		hasOwn := false
		for _, op := range f.LockOps() {
			if _, _, ok := fieldOfKey(op.Key, rid.Name); ok && op.Acquire {
				hasOwn = true
			}
		}
		if !hasOwn {
			continue
		}
		if !recvStable(f, rv) {
			c.Check("undecided", f.Name+"/receiver-reassigned", f.PosStr(), false, "the receiver variable is assigned in a method that locks a receiver mutex; the re-entrancy rule cannot identify the lock object")
			continue
		}
		type site struct {
			ev     *core.Event
			detail string
		}
		seen := map[*core.Event]bool{}
		bad := map[*core.Event]string{}
		var order []*core.Event
		ownAcq := map[*core.Event]*core.LockOp{}
		for _, op := range f.LockOps() {
			if op.Acquire && !op.Defer {
				ownAcq[op.Ev] = op
			}
		}
		ok := f.ExploreLocks(func(e *core.Event, st core.LockState) {
			if e.Kind != core.EvCall {
				return
			}
			heldFields := map[string]string{} // field -> mode held
			for _, h := range st.Held() {
				if fld, mode, ok := fieldOfKey(h, rid.Name); ok {
					if heldFields[fld] != "#W" {
						heldFields[fld] = mode
					}
				}
			}
			if len(heldFields) == 0 {
				return
			}
			// direct re-acquisition in the same body
			if op := ownAcq[e]; op != nil {
				if fld, mode, ok := fieldOfKey(op.Key, rid.Name); ok {
					if hm, held := heldFields[fld]; held {
						if !seen[e] {
							seen[e] = true
							order = append(order, e)
						}
						bad[e] = fmt.Sprintf("%s acquires %s.%s (%s) while it already holds it (%s) on a path to this statement", f.Name, rid.Name, fld, modeWord(mode), modeWord(hm))
					}
				}
				return
			}
			g := sameRecvCall(f, e, rv)
			if g == nil {
				return
			}
			if !seen[e] {
				seen[e] = true
				order = append(order, e)
			}
			var keys []string
			for k := range summary[g] {
				keys = append(keys, k)
			}
			sort.Strings(keys)
			for _, k := range keys {
				a := summary[g][k]
				if hm, held := heldFields[a.field]; held {
					kind := "blocks forever"
					if hm == "#R" && a.mode == "#R" {
						kind = "blocks forever as soon as a writer asks for the mutex between the two read acquisitions (sync.RWMutex excludes new readers once a Lock call is waiting; recursive read locking is prohibited)"
					}
					bad[e] = fmt.Sprintf("%s holds %s.%s (%s) and calls %s on the same receiver, which acquires the same mutex (%s) in %s @%s: %s", f.Name, rid.Name, a.field, modeWord(hm), g.Name, modeWord(a.mode), a.via, a.pos, kind)
				}
			}
		})
		if !ok {
			c.Check("undecided", f.Name+"/lock-exploration-bound", f.PosStr(), false, "lock exploration bound exceeded")
			continue
		}
		sort.Slice(order, func(i, j int) bool { return order[i].Pos() < order[j].Pos() })
		cnt := map[string]int{}
		for _, e := range order {
			nHeldCalls++
			name := "reacquire"
			if g := sameRecvCall(f, e, rv); g != nil {
				name = g.Decl.Name.Name
			}
			cnt[name]++
			c.Check("no-reentrant-acquire-on-same-receiver", fmt.Sprintf("%s/%s#%d", f.Name, name, cnt[name]), c.P.Pos(e.Pos()), bad[e] == "", bad[e])
		}
	}
	if floor > 0 {
		c.Floor("calls on the own receiver made while a receiver mutex is held", nHeldCalls, floor)
	}
}

func modeWord(m string) string {
	if m == "#R" {
		return "shared"
	}
	return "exclusive"
}
