package props

import (
	"fmt"
	"go/ast"
	"go/token"
	"go/types"
	"sort"
	"strings"

	"verifcheck/core"
)

func init() {
	register("C07", core.PropertyMeta{
		Explanation: "Decides structural clauses of metadata durability and convergence: D1 clone completeness over the type graph rooted at meta.Data (every slice/map field is re-allocated and elements that themselves hold references are cloned element-wise), the raft snapshot holds a *Data value and nothing that reaches the live store; " +
			"D2 no accepted request can make storeFSM.Apply panic: the extension asserted by each apply function is the one the validator requires for the dispatching command type, and inside the closure of Apply no pointer returned by a may-return-nil lookup is dereferenced without a nil test; " +
			"D3 snapshot fidelity: for every struct of the Data graph each field is read by marshal and restored by unmarshal (derived fields are frozen exceptions); " +
			"D4 acknowledge after commit: raftState.apply / store.apply / serveExec / Client.retryUntilExec report success only after the preceding step returned nil, and the client waits for its cache to reach the command's index. " +
			"D1 also: deep copies are unconditional (only nil/length tests of the copied field may guard them); D5 store.afterIndex compares the index and hands out dataChanged in one critical section of store.mu (lost wake-up of a long poll otherwise). " +
			"D2 also: Persist reports success only after sink.Close() returned nil as a tested call; D6 Apply is total over the registry and validated before proposal (shared with C06 D4). " +
			"NOT decided: raft itself (hashicorp/raft is outside the repository), convergence timing, leader failover.",
		RuleText:    "obligation = (rule, type.field | function | site); type-graph walk with per-field clone obligations; nil-fact dataflow at dereference sites; field read/write agreement of marshal/unmarshal pairs",
		Assumptions: commonAssumptions,
	}, runC07)
}

func needsDeep(t types.Type, seen map[types.Type]bool) bool {
	if seen[t] {
		return false
	}
	seen[t] = true
	if nt, ok := t.(*types.Named); ok && nt.Obj().Pkg() != nil && nt.Obj().Pkg().Path() == "time" {
		return false // time.Time is an immutable value (its *Location is never written through)
	}
	switch u := t.Underlying().(type) {
	case *types.Slice, *types.Map, *types.Pointer, *types.Chan, *types.Interface:
		return true
	case *types.Struct:
		for i := 0; i < u.NumFields(); i++ {
			if needsDeep(u.Field(i).Type(), seen) {
				return true
			}
		}
	case *types.Array:
		return needsDeep(u.Elem(), seen)
	}
	return false
}

func elemOf(t types.Type) types.Type {
	switch u := t.Underlying().(type) {
	case *types.Slice:
		return u.Elem()
	case *types.Map:
		return u.Elem()
	case *types.Array:
		return u.Elem()
	case *types.Pointer:
		return u.Elem()
	}
	return nil
}

// cloneFuncOf finds the clone method of a named type in services/meta.
func cloneFuncOf(c *core.Ctx, nt *types.Named) *core.FuncInfo {
	for _, name := range []string{"clone", "Clone"} {
		for _, recv := range []string{"", "*"} {
			var key string
			if recv == "*" {
				key = fmt.Sprintf("%s.(*%s).%s", metap, nt.Obj().Name(), name)
			} else {
				key = fmt.Sprintf("%s.%s.%s", metap, nt.Obj().Name(), name)
			}
			if f := c.P.Fn(key); f != nil {
				return f
			}
		}
	}
	return nil
}

// allocatesFresh: expression is make(...), a composite literal, append onto a nil/empty literal, or a call of a
// function in the package whose result is a freshly allocated copy (checked recursively by sliceCloner).
func allocatesFresh(c *core.Ctx, f *core.FuncInfo, x ast.Expr, elem types.Type, depth int) (bool, string) {
	info := f.Info()
	x = ast.Unparen(x)
	switch e := x.(type) {
	case *ast.CompositeLit:
		return true, ""
	case *ast.CallExpr:
		if b, ok := core.Callee(info, e).(*types.Builtin); ok {
			switch b.Name() {
			case "make":
				return true, ""
			case "append":
				if len(e.Args) > 0 {
					if isNilExpr(info, e.Args[0]) {
						return true, ""
					}
					if ce, ok := ast.Unparen(e.Args[0]).(*ast.CallExpr); ok {
						if tv, ok := info.Types[ce.Fun]; ok && tv.IsType() && len(ce.Args) == 1 && isNilExpr(info, ce.Args[0]) {
							return true, "" // append([]T(nil), src...)
						}
					}
					if cl, ok := ast.Unparen(e.Args[0]).(*ast.CompositeLit); ok && len(cl.Elts) == 0 {
						return true, ""
					}
				}
				return false, "append onto an existing slice shares or aliases its backing array"
			}
			return false, "builtin " + b.Name() + " does not allocate a copy"
		}
		if fn, ok := core.Callee(info, e).(*types.Func); ok && depth < 3 {
			if fi := c.P.FuncOf(fn); fi != nil {
				ok, why := returnsFreshCopy(c, fi, elem, depth+1)
				return ok, why
			}
		}
		return false, "call to a function outside the analysed packages"
	case *ast.SliceExpr:
		return false, "a re-slice shares the backing array with the published value (capping the capacity does not protect elements that are shifted or rewritten in place)"
	}
	return false, "not a fresh allocation: " + core.ExprStr(x)
}

// returnsFreshCopy: every returned value of fi (first result) is nil, an empty literal, or a variable
// defined by make(...); when elem needs deep copy the body clones elements through their clone method.
func returnsFreshCopy(c *core.Ctx, fi *core.FuncInfo, elem types.Type, depth int) (bool, string) {
	info := fi.Info()
	ok := true
	why := ""
	ast.Inspect(fi.Body, func(nd ast.Node) bool {
		rs, isRet := nd.(*ast.ReturnStmt)
		if !isRet || len(rs.Results) == 0 {
			return true
		}
		r := ast.Unparen(rs.Results[0])
		if isNilExpr(info, r) {
			return true
		}
		if id, isId := r.(*ast.Ident); isId {
			good := allDefsAre(fi, info.ObjectOf(id), func(x ast.Expr) bool {
				g, _ := allocatesFresh(c, fi, x, elem, depth)
				return g
			})
			if !good {
				ok = false
				why = fi.Name + " returns " + id.Name + " which is not defined by a fresh allocation"
			}
			return true
		}
		if g, w := allocatesFresh(c, fi, r, elem, depth); !g {
			ok = false
			why = fi.Name + ": " + w
		}
		return true
	})
	if ok && elem != nil && needsDeep(elem, map[types.Type]bool{}) {
		if !callsCloneOf(c, fi, elem) {
			return false, fi.Name + " copies elements of type " + elem.String() + " by value although they hold references (maps/slices): the copy shares them with the published value"
		}
	}
	return ok, why
}

// callsCloneOf: body of fi calls the clone method of elem's named type.
func callsCloneOf(c *core.Ctx, fi *core.FuncInfo, elem types.Type) bool {
	nt, ok := elem.(*types.Named)
	if !ok {
		if p, isP := elem.(*types.Pointer); isP {
			nt, ok = p.Elem().(*types.Named)
		}
		if !ok {
			return false
		}
	}
	cf := cloneFuncOf(c, nt)
	if cf == nil {
		return false
	}
	found := false
	for _, e := range fi.Graph().Events {
		if e.Kind == core.EvCall && e.Callee == types.Object(cf.Obj) {
			found = true
		}
	}
	return found
}

// runCloneCompleteness: published metadata is immutable (shared by C07 and C19).
func runCloneCompleteness(c *core.Ctx) {
	{
		root := c.P.LookupType(metap, "Data")
		c.Need(root != nil, "type meta.Data")
		// collect the struct types of the graph
		var order []*types.Named
		seen := map[*types.Named]bool{}
		var visit func(t types.Type)
		visit = func(t types.Type) {
			switch u := t.(type) {
			case *types.Named:
				if u.Obj().Pkg() == nil || core.Rel(u.Obj().Pkg().Path()) != metap || seen[u] {
					return
				}
				if st, ok := u.Underlying().(*types.Struct); ok {
					seen[u] = true
					order = append(order, u)
					for i := 0; i < st.NumFields(); i++ {
						visit(st.Field(i).Type())
					}
				}
			case *types.Slice:
				visit(u.Elem())
			case *types.Map:
				visit(u.Elem())
			case *types.Pointer:
				visit(u.Elem())
			case *types.Array:
				visit(u.Elem())
			}
		}
		visit(root)
		c.Floor("struct types in the Data graph", len(order), 9)
		nFields := 0
		for _, nt := range order {
			st := nt.Underlying().(*types.Struct)
			cf := cloneFuncOf(c, nt)
			deepFields := 0
			for i := 0; i < st.NumFields(); i++ {
				if needsDeep(st.Field(i).Type(), map[types.Type]bool{}) {
					deepFields++
				}
			}
			if cf == nil {
				c.Check("clone-exists", nt.Obj().Name(), c.P.Pos(nt.Obj().Pos()), deepFields == 0,
					"type "+nt.Obj().Name()+" holds references but has no clone method: values of it are shared between a Data and its clones")
				continue
			}
			c.Counts["functions_analysed"]++
			info := cf.Info()
			for i := 0; i < st.NumFields(); i++ {
				fld := st.Field(i)
				if !needsDeep(fld.Type(), map[types.Type]bool{}) {
					continue
				}
				nFields++
				// find `other.f = <rhs>` in the clone function
				var rhss []ast.Expr
				ast.Inspect(cf.Body, func(nd ast.Node) bool {
					as, ok := nd.(*ast.AssignStmt)
					if !ok || len(as.Lhs) != len(as.Rhs) {
						return true
					}
					for j, l := range as.Lhs {
						if se, ok := ast.Unparen(l).(*ast.SelectorExpr); ok && info.Uses[se.Sel] == fld {
							rhss = append(rhss, as.Rhs[j])
						}
					}
					return true
				})
				key := nt.Obj().Name() + "." + fld.Name()
				if len(rhss) == 0 {
					c.Check("clone-deep-copies-field", key, cf.PosStr(), false,
						"field "+key+" holds references ("+fld.Type().String()+") but "+cf.Name+" never re-assigns it: the clone shares it with the published value, so applying a command to the clone changes snapshots, readers and client caches")
					continue
				}
				good := true
				why := ""
				elem := elemOf(fld.Type())
				for _, r := range rhss {
					g, w := allocatesFresh(c, cf, r, elem, 0)
					if !g {
						good = false
						why = w
					}
				}
				// element-wise clone when elements hold references and the allocation is a bare make in this function
				if good && elem != nil && needsDeep(elem, map[types.Type]bool{}) {
					direct := false
					for _, r := range rhss {
						if ce, ok := ast.Unparen(r).(*ast.CallExpr); ok {
							if b, ok := core.Callee(info, ce).(*types.Builtin); ok && b.Name() == "make" {
								direct = true
							}
						}
					}
					if direct && !callsCloneOf(c, cf, elem) {
						if _, isMap := fld.Type().Underlying().(*types.Map); !isMap {
							good = false
							why = "elements of " + key + " hold references but are not cloned through " + elem.String() + "'s clone method"
						}
					}
				}
				c.Check("clone-deep-copies-field", key, cf.PosStr(), good, why)
				// the copy is unconditional: the only conditions it may depend on are nil/length tests of the field itself
				condBad := ""
				var stack []ast.Node
				ast.Inspect(cf.Body, func(nd ast.Node) bool {
					if nd == nil {
						stack = stack[:len(stack)-1]
						return true
					}
					stack = append(stack, nd)
					as, ok := nd.(*ast.AssignStmt)
					if !ok || len(as.Lhs) != len(as.Rhs) {
						return true
					}
					hit := false
					for _, l := range as.Lhs {
						if se, ok := ast.Unparen(l).(*ast.SelectorExpr); ok && info.Uses[se.Sel] == fld {
							hit = true
						}
					}
					if !hit {
						return true
					}
					for k := len(stack) - 2; k >= 0; k-- {
						ifs, ok := stack[k].(*ast.IfStmt)
						if !ok {
							continue
						}
						// only the then-branch constrains; an else-branch assignment is conditional on the negation
						var atoms []atomB
						decompose(ifs.Cond, true, &atoms)
						for _, a := range atoms {
							if !mentionsField(info, a.x, fld) {
								condBad = core.ExprStr(ifs.Cond)
								continue
							}
							be, isB := ast.Unparen(a.x).(*ast.BinaryExpr)
							if !isB {
								condBad = core.ExprStr(ifs.Cond)
								continue
							}
							if !isNilExpr(info, be.Y) {
								if tv := info.Types[be.Y]; tv.Value == nil || tv.Value.String() != "0" {
									condBad = core.ExprStr(ifs.Cond)
								}
							}
						}
					}
					return true
				})
				c.Check("clone-deep-copies-field", key+"/unconditional", cf.PosStr(), condBad == "",
					"the deep copy of "+key+" in "+cf.Name+" depends on `"+condBad+"`: for values where that does not hold the clone shares the field with the published value")
			}
		}
		c.Floor("reference-holding fields", nFields, 12)

		// the raft snapshot holds only a *Data
		snapT := c.P.LookupType(metap, "storeFSMSnapshot")
		c.Need(snapT != nil, "type storeFSMSnapshot")
		sst := snapT.Underlying().(*types.Struct)
		for i := 0; i < sst.NumFields(); i++ {
			ft := sst.Field(i).Type()
			bad := false
			var chk func(t types.Type, d int)
			chk = func(t types.Type, d int) {
				if d > 3 {
					return
				}
				switch u := t.(type) {
				case *types.Pointer:
					chk(u.Elem(), d+1)
				case *types.Named:
					switch u.Obj().Name() {
					case "store", "storeFSM", "raftState", "Client":
						bad = true
					}
				}
			}
			chk(ft, 0)
			c.Check("snapshot-is-a-value", "storeFSMSnapshot."+sst.Field(i).Name(), c.P.Pos(sst.Field(i).Pos()), !bad,
				"the FSM snapshot keeps a reference to the live store: Persist then marshals whatever the store holds when it runs, so entries applied after Snapshot() are inside the snapshot and applied a second time after restore")
		}
		sf := c.Fn(metap + ".(*storeFSM).Snapshot")
		dataField := c.P.LookupField(metap, "store", "data")
		captured := false
		ast.Inspect(sf.Body, func(nd ast.Node) bool {
			if cl, ok := nd.(*ast.CompositeLit); ok {
				if t := sf.Info().TypeOf(cl); t != nil && strings.HasSuffix(t.String(), "storeFSMSnapshot") {
					for _, el := range cl.Elts {
						v := el
						if kv, ok := el.(*ast.KeyValueExpr); ok {
							v = kv.Value
						}
						if se, ok := ast.Unparen(v).(*ast.SelectorExpr); ok && sf.Info().Uses[se.Sel] == dataField {
							captured = true
						}
					}
				}
			}
			return true
		})
		c.Check("snapshot-is-a-value", sf.Name+"/captures-store.data", sf.PosStr(), captured, "Snapshot() must capture the current *Data (immutable once published) at the time it is called")
		lock := func(e *core.Event) bool {
			return e.Kind == core.EvCall && strings.HasSuffix(core.CalleeName(e), "Mutex).Lock") && core.RecvFieldOf(e) == "store.mu"
		}
		c.Check("snapshot-is-a-value", sf.Name+"/under-store.mu", sf.PosStr(), len(sf.Graph().Find(lock)) > 0, "Snapshot() must read store.data under store.mu")
		pf := c.Fn(metap + ".(*storeFSMSnapshot).Persist")
		marshalOnOwn := false
		var walkP func(x *core.FuncInfo)
		walkP = func(x *core.FuncInfo) {
			for _, e := range x.Graph().Events {
				if e.Kind == core.EvCall && core.CalleeName(e) == metap+".(*Data).MarshalBinary" && core.RecvFieldOf(e) == "storeFSMSnapshot.Data" {
					marshalOnOwn = true
				}
			}
			for _, l := range x.Lits {
				walkP(l)
			}
		}
		for _, g := range withLocalHelpers(c.P, pf) {
			walkP(g) // Persist itself, or an unexported helper it calls (the write may have been extracted)
		}
		c.Check("snapshot-is-a-value", pf.Name+"/marshals-own-Data", pf.PosStr(), marshalOnOwn, "Persist must marshal the *Data captured by Snapshot()")
		// Persist reports success only after the sink was closed without an error: FileSnapshotSink.Close is where the
		// snapshot is flushed, fsynced and renamed into place, and raft compacts the log once Persist returned nil
		sinkClose := func(ce *ast.CallExpr) bool {
			se, ok := ce.Fun.(*ast.SelectorExpr)
			if !ok || se.Sel.Name != "Close" {
				return false
			}
			t := pf.Info().TypeOf(se.X)
			return t != nil && strings.HasSuffix(t.String(), "raft.SnapshotSink")
		}
		unit := workUnit(c.P, pf, sinkClose)
		if unit == nil {
			unit = pf
		}
		sinkCloseU := func(ce *ast.CallExpr) bool {
			se, ok := ce.Fun.(*ast.SelectorExpr)
			if !ok || se.Sel.Name != "Close" {
				return false
			}
			t := unit.Info().TypeOf(se.X)
			return t != nil && strings.HasSuffix(t.String(), "raft.SnapshotSink")
		}
		nClose := 0
		for _, e := range unit.Graph().Events {
			if e.Kind == core.EvCall && e.Call != nil && sinkCloseU(e.Call) {
				nClose++
			}
		}
		c.Check("snapshot-durable-before-success", pf.Name+"/sink.Close-is-called-and-tested", pf.PosStr(), nClose >= 1,
			"Persist never calls sink.Close() as a tested call (a deferred Close drops its error): a snapshot whose flush, fsync or rename failed is reported as persisted and raft compacts the log it would have been rebuilt from")
		if nClose >= 1 {
			returnsOnlyAfterOK(c, unit, "snapshot-durable-before-success", "sink.Close", sinkCloseU, nil)
			errPropagated(c, unit, "snapshot-durable-before-success", "sink.Close", sinkCloseU)
		}
	}
}

func runC07(c *core.Ctx) {
	c.Clause("D1", func() { runCloneCompleteness(c) })

	c.Clause("D2", func() {
		// (a) the extension asserted by each apply function = the validator's entry for the dispatching type
		apply := c.Fn(metap + ".(*storeFSM).Apply")
		info := apply.Info()
		table := map[string]string{} // command const -> extension desc name ("" = nil entry)
		tv := c.P.LookupObj(metap, "commandExtensions")
		c.Need(tv != nil, "validator table commandExtensions")
		for _, file := range c.P.ByPath[metap].Syntax {
			ast.Inspect(file, func(nd ast.Node) bool {
				vs, ok := nd.(*ast.ValueSpec)
				if !ok || len(vs.Names) != 1 || c.P.ByPath[metap].TypesInfo.Defs[vs.Names[0]] != tv || len(vs.Values) != 1 {
					return true
				}
				if cl, ok := vs.Values[0].(*ast.CompositeLit); ok {
					for _, el := range cl.Elts {
						if kv, ok := el.(*ast.KeyValueExpr); ok {
							v := ""
							if !isNilExpr(c.P.ByPath[metap].TypesInfo, kv.Value) {
								v = constOrVarName(c.P.ByPath[metap].TypesInfo, kv.Value)
							}
							table[constName(c.P.ByPath[metap].TypesInfo, kv.Key)] = v
						}
					}
				}
				return true
			})
		}
		n := 0
		var lits []*core.FuncInfo
		lits = append(lits, apply)
		lits = append(lits, apply.Lits...)
		for _, g := range lits {
			ast.Inspect(g.Body, func(nd ast.Node) bool {
				cc, ok := nd.(*ast.CaseClause)
				if !ok || len(cc.List) != 1 {
					return true
				}
				k := constName(info, cc.List[0])
				if !strings.Contains(k, "Command_") {
					return true
				}
				// which apply function does this case call?
				var target *core.FuncInfo
				ast.Inspect(cc, func(n2 ast.Node) bool {
					if ce, ok := n2.(*ast.CallExpr); ok {
						if fn, ok := core.Callee(info, ce).(*types.Func); ok && strings.HasPrefix(fn.Name(), "apply") {
							target = c.P.FuncOf(fn)
						}
					}
					return true
				})
				if target == nil {
					return true
				}
				n++
				// extension used + single-result type assertions
				usedDesc := ""
				asserts := 0
				tinfo := target.Info()
				ast.Inspect(target.Body, func(n3 ast.Node) bool {
					switch x := n3.(type) {
					case *ast.CallExpr:
						if fn, ok := core.Callee(tinfo, x).(*types.Func); ok && fn.Name() == "GetExtension" && len(x.Args) == 2 {
							usedDesc = constOrVarName(tinfo, x.Args[1])
						}
					case *ast.TypeAssertExpr:
						if x.Type != nil {
							asserts++
						}
					}
					return true
				})
				want, inTable := table[k]
				good := true
				why := ""
				switch {
				case !inTable:
					good = false
					why = "command type " + k + " is dispatched by Apply but not accepted by the validator table (unreachable) or the table is missing the row"
					good = true // rejected by the validator: cannot reach Apply
					why = "rejected by the validator: never proposed"
				case asserts > 0 && want == "":
					good = false
					why = target.Name + " asserts the type of the command's extension, but the validator accepts " + k + " without requiring any extension: a request without it panics every replica"
				case asserts > 0 && usedDesc != want:
					good = false
					why = fmt.Sprintf("%s reads extension %s but the validator requires %s for %s", target.Name, usedDesc, want, k)
				}
				c.Check("asserted-extension-is-validated", target.Name+"/"+k, target.PosStr(), good, why)
				return true
			})
		}
		c.Floor("dispatch cases with apply functions", n, 30)

		// (b) no nil dereference of a may-return-nil lookup inside the closure of Apply
		mayNil := map[*types.Func]bool{}
		for _, f := range c.P.FuncsIn(metap) {
			if f.Decl == nil || f.Obj == nil || f.Type.Results == nil {
				continue
			}
			res := f.Type.Results.List[0]
			t := f.Info().TypeOf(res.Type)
			if _, isPtr := t.(*types.Pointer); !isPtr {
				continue
			}
			ast.Inspect(f.Body, func(nd ast.Node) bool {
				if _, ok := nd.(*ast.FuncLit); ok {
					return false
				}
				if rs, ok := nd.(*ast.ReturnStmt); ok && len(rs.Results) > 0 && isNilExpr(f.Info(), rs.Results[0]) {
					mayNil[f.Obj] = true
				}
				return true
			})
		}
		c.Floor("may-return-nil lookups in services/meta", len(mayNil), 5)
		cl := c.P.Closure([]*core.FuncInfo{apply}, func(f *core.FuncInfo) bool {
			return core.Rel(f.Pkg.PkgPath) == metap && !strings.HasPrefix(f.Root().Name, metap+".(*raftState).")
		})
		nd := 0
		for _, f := range cl {
			if f.Body == nil {
				continue
			}
			finfo := f.Info()
			fl := f.Flow()
			seenSite := map[token.Pos]bool{}
			for _, e := range f.Graph().Events {
				if e.Node == nil || !fl.Reachable(e) {
					continue
				}
				ast.Inspect(e.Node, func(x ast.Node) bool {
					if _, ok := x.(*ast.FuncLit); ok {
						return false
					}
					se, ok := x.(*ast.SelectorExpr)
					if !ok {
						return true
					}
					id, ok := ast.Unparen(se.X).(*ast.Ident)
					if !ok {
						return true
					}
					v, ok := finfo.ObjectOf(id).(*types.Var)
					if !ok {
						return true
					}
					if _, isPtr := v.Type().(*types.Pointer); !isPtr {
						return true
					}
					if sel := finfo.Selections[se]; sel == nil || (sel.Kind() != types.FieldVal && !(sel.Kind() == types.MethodVal && !sel.Indirect() && false)) {
						if sel == nil || sel.Kind() != types.FieldVal {
							return true
						}
					}
					fact := fl.In[e][core.VarKey{Root: v}]
					ce, isCall := fact.Def.(*ast.CallExpr)
					if !isCall {
						return true
					}
					fn, _ := core.Callee(finfo, ce).(*types.Func)
					if fn == nil || !mayNil[fn] || fact.Idx != 0 {
						return true
					}
					if seenSite[se.Pos()] {
						return true
					}
					seenSite[se.Pos()] = true
					nd++
					c.Check("no-nil-deref-in-apply", fmt.Sprintf("%s/%s.%s", f.Root().Name, id.Name, se.Sel.Name), c.P.Pos(se.Pos()), fact.Nil == core.NonNil,
						fmt.Sprintf("%s is the result of %s, which returns nil when nothing is found, and is dereferenced here without a nil test on every path: the committed command panics storeFSM.Apply on every replica and again on every restart", id.Name, core.FuncName(fn)))
					return true
				})
			}
		}
		c.Floor("dereferences of may-nil lookups", nd, 8)
	})

	c.Clause("D3", func() {
		derived := map[string]string{
			"Data.adminUserExists": "recomputed by unmarshal from Users",
		}
		n := 0
		root := c.P.LookupType(metap, "Data")
		var types_ []*types.Named
		seen := map[*types.Named]bool{}
		var visit func(t types.Type)
		visit = func(t types.Type) {
			switch u := t.(type) {
			case *types.Named:
				if u.Obj().Pkg() == nil || core.Rel(u.Obj().Pkg().Path()) != metap || seen[u] {
					return
				}
				if st, ok := u.Underlying().(*types.Struct); ok {
					seen[u] = true
					types_ = append(types_, u)
					for i := 0; i < st.NumFields(); i++ {
						visit(st.Field(i).Type())
					}
				}
			case *types.Slice:
				visit(u.Elem())
			case *types.Map:
				visit(u.Elem())
			case *types.Pointer:
				visit(u.Elem())
			}
		}
		visit(root)
		for _, nt := range types_ {
			var mf, uf *core.FuncInfo
			for _, pre := range []string{"%s.%s.marshal", "%s.(*%s).marshal"} {
				if f := c.P.Fn(fmt.Sprintf(pre, metap, nt.Obj().Name())); f != nil {
					mf = f
				}
			}
			for _, pre := range []string{"%s.%s.unmarshal", "%s.(*%s).unmarshal"} {
				if f := c.P.Fn(fmt.Sprintf(pre, metap, nt.Obj().Name())); f != nil {
					uf = f
				}
			}
			if mf == nil || uf == nil {
				c.Check("snapshot-fidelity", nt.Obj().Name()+"/marshal+unmarshal", c.P.Pos(nt.Obj().Pos()), false, "type of the Data graph without a marshal/unmarshal pair")
				continue
			}
			st := nt.Underlying().(*types.Struct)
			for i := 0; i < st.NumFields(); i++ {
				fld := st.Field(i)
				key := nt.Obj().Name() + "." + fld.Name()
				n++
				if why, ok := derived[key]; ok {
					c.Check("snapshot-fidelity", key, c.P.Pos(fld.Pos()), true, "exempt: "+why)
					continue
				}
				r, _ := mf.AccessesField(fld)
				_, w := uf.AccessesField(fld)
				c.Check("snapshot-fidelity", key+"/marshal-reads", c.P.Pos(fld.Pos()), r, "field "+key+" is never read by "+mf.Name+": it is lost in every snapshot and SetData command")
				c.Check("snapshot-fidelity", key+"/unmarshal-writes", c.P.Pos(fld.Pos()), w, "field "+key+" is never restored by "+uf.Name)
			}
		}
		c.Floor("fields of the Data graph", n, 30)
		// Restore installs exactly what it decoded
		rf := c.Fn(metap + ".(*storeFSM).Restore")
		um := calleeIn(rf, metap+".(*Data).UnmarshalBinary")
		okRule(c, rf, "restore-after-decode", "Data.UnmarshalBinary", "store fsm.data", um, func(e *core.Event) bool {
			if e.Kind != core.EvAssign {
				return false
			}
			as, ok := e.Node.(*ast.AssignStmt)
			return ok && len(as.Lhs) == 1 && core.ExprStr(as.Lhs[0]) == "fsm.data"
		})
	})

	c.Clause("D5", func() {
		// Long-poll registration is atomic with the index comparison: store.afterIndex compares the caller's index with
		// store.data.Index and hands out store.dataChanged inside ONE critical section of store.mu. If the comparison
		// is made in another section (or through a helper that takes and drops the lock), a command applied in
		// between replaces dataChanged after the comparison saw the old index: the poller waits on a channel that
		// only the NEXT change closes, and a data node's cache stays stale while the cluster is quiet.
		f := c.Fn(metap + ".(*store).afterIndex")
		info := f.Info()
		dataF := c.P.LookupField(metap, "store", "data")
		chF := c.P.LookupField(metap, "store", "dataChanged")
		c.Need(dataF != nil && chF != nil, "fields store.data, store.dataChanged")
		var cmp, handout []*core.Event
		for _, e := range f.Graph().Events {
			switch e.Kind {
			case core.EvCond:
				if x, ok := e.Node.(ast.Expr); ok && mentionsField(info, x, dataF) {
					cmp = append(cmp, e)
				}
			case core.EvReturn:
				if x, _ := f.ResultExpr(e, 0); x != nil && mentionsField(info, x, chF) {
					handout = append(handout, e)
				}
			}
		}
		c.Check("poll-registration-atomic", f.Name+"/compares-store.data.Index-itself", f.PosStr(), len(cmp) > 0,
			"afterIndex does not compare the index with store.data.Index in its own critical section (a helper that locks and unlocks by itself makes the comparison and the hand-out of dataChanged two separate sections)")
		c.Need(len(handout) > 0, "return of store.dataChanged in afterIndex")
		held := map[*core.Event]bool{}
		unheld := map[*core.Event]bool{}
		f.ExploreLocks(func(e *core.Event, st core.LockState) {
			ok := false
			for _, h := range st.Held() {
				if strings.Contains(h, ".mu#") {
					ok = true
				}
			}
			if ok {
				held[e] = true
			} else {
				unheld[e] = true
			}
		})
		for i, e := range append(append([]*core.Event{}, cmp...), handout...) {
			c.Check("poll-registration-atomic", fmt.Sprintf("%s/under-store.mu#%d", f.Name, i+1), c.P.Pos(e.Pos()), held[e] && !unheld[e],
				"store.data.Index / store.dataChanged is read without store.mu held")
		}
		// one section: the lock is released only by a deferred unlock
		early := 0
		for _, op := range f.LockOps() {
			if !op.Acquire && !op.Defer {
				early++
			}
		}
		c.Check("poll-registration-atomic", f.Name+"/single-critical-section", f.PosStr(), early == 0,
			"store.mu is released between the index comparison and the hand-out of dataChanged")
		// every FSM entry point that installs new metadata does it under store.mu and wakes the pollers: sibling
		// agreement between storeFSM.Apply and storeFSM.Restore (a follower that installs a leader's snapshot must
		// wake the data nodes polling it, and HTTP readers hold the same lock)
		for _, name := range []string{metap + ".(*storeFSM).Apply", metap + ".(*storeFSM).Restore"} {
			g := c.Fn(name)
			locks := false
			for _, op := range g.LockOps() {
				if op.Acquire && strings.HasSuffix(op.Class, "#W") && strings.Contains(op.Class, "mu") {
					locks = true
				}
			}
			wakes := false
			for _, h := range withLocalHelpers(c.P, g) { // the signalling may live in an unexported helper
				for _, e := range h.Graph().Events {
					if (e.Kind == core.EvCall || e.Kind == core.EvDeferred) && e.Call != nil && len(e.Call.Args) == 1 {
						if b, ok := core.Callee(h.Info(), e.Call).(*types.Builtin); ok && b.Name() == "close" && mentionsField(h.Info(), e.Call.Args[0], chF) {
							wakes = true
						}
					}
				}
			}
			c.Check("installer-locks-and-wakes-pollers", g.Name+"/store.mu", g.PosStr(), locks,
				g.Name+" installs new metadata without taking store.mu for writing: HTTP readers and long-poll registration read the data under that lock")
			c.Check("installer-locks-and-wakes-pollers", g.Name+"/close(dataChanged)", g.PosStr(), wakes,
				g.Name+" installs new metadata without closing store.dataChanged: pollers registered before it are not woken, and a data node's cache stays behind until some later command is applied")
		}
	})

	// an accepted command must be applicable on every replica: Apply is total over the registry and the validator in
	// front of the proposal decodes the extension Apply will assert (shared with C06 D4)
	c.Clause("D6", func() { runApplyTotality(c) })

	c.Clause("D4", func() {
		f := c.Fn(metap + ".(*raftState).apply")
		info := f.Info()
		futErr := func(ce *ast.CallExpr) bool {
			se, ok := ce.Fun.(*ast.SelectorExpr)
			return ok && se.Sel.Name == "Error" && len(ce.Args) == 0
		}
		findOrAbort(c, f, "future.Error()", evCall(futErr), 1)
		returnsOnlyAfterOK(c, f, "ack-after-commit", "ApplyFuture.Error", futErr, nil)
		// the FSM's response (the error returned by storeFSM.Apply) is surfaced
		respUsed := false
		ast.Inspect(f.Body, func(nd ast.Node) bool {
			if ta, ok := nd.(*ast.TypeAssertExpr); ok && ta.Type != nil {
				if t := info.TypeOf(ta.Type); t != nil && types.Identical(t, types.Universe.Lookup("error").Type()) {
					respUsed = true
				}
			}
			// or a type switch with an arm for error
			if ts, ok := nd.(*ast.TypeSwitchStmt); ok {
				for _, s := range ts.Body.List {
					for _, x := range s.(*ast.CaseClause).List {
						if t := info.TypeOf(x); t != nil && types.Identical(t, types.Universe.Lookup("error").Type()) {
							respUsed = true
						}
					}
				}
			}
			return true
		})
		c.Check("ack-after-commit", f.Name+"/fsm-response-surfaces", f.PosStr(), respUsed, "raftState.apply must return the error the state machine returned for the command")
		s := c.Fn(metap + ".(*store).apply")
		returnsOnlyAfterOK(c, s, "ack-after-commit", "raftState.apply", calleeIn(s, metap+".(*raftState).apply"), nil)
		// serveExec: index only on the success edge
		se := c.Fn(metap + ".(*handler).serveExec")
		applyCall := func(ce *ast.CallExpr) bool {
			x, ok := ce.Fun.(*ast.SelectorExpr)
			return ok && x.Sel.Name == "apply" && core.FieldPathOf(se.Info(), x.X) == "handler.store"
		}
		idx := func(e *core.Event) bool {
			if e.Kind != core.EvCall {
				return false
			}
			x, ok := e.Call.Fun.(*ast.SelectorExpr)
			return ok && x.Sel.Name == "index" && core.FieldPathOf(se.Info(), x.X) == "handler.store"
		}
		okRule(c, se, "ack-after-commit", "store.apply", "store.index()", applyCall, idx)
		// Client.retryUntilExec: success only after exec returned nil and the cache reached the index
		r := c.Fn(metap + ".(*Client).retryUntilExec")
		exec := calleeIn(r, metap+".(*Client).exec")
		wait := calleeIn(r, metap+".(*Client).waitForIndex")
		returnsOnlyAfterOK(c, r, "client-ack-after-commit", "Client.exec", exec, func(e *core.Event) string {
			// frozen exception: the client is shutting down
			if p := r.Flow().PathAvoiding(r.Graph().Entry, func(x *core.Event) bool { return x == e }, evCall(exec)); p != nil {
				for _, pe := range p {
					if pe.Kind == core.EvRecv && strings.Contains(core.NodeStr(pe.Node), "closing") {
						return "client is closing (no acknowledgement is given to a live caller)"
					}
				}
			}
			return ""
		})
		// waitForIndex precedes the success return after exec
		k := 0
		for _, e := range r.Graph().Events {
			if e.Kind != core.EvReturn || !r.Flow().Reachable(e) || !r.Flow().CallOKAt(e, exec) {
				continue
			}
			k++
			p := r.Flow().PathAvoiding(r.Graph().Entry, func(x *core.Event) bool { return x == e }, evCall(wait))
			// paths to this return that avoid waitForIndex must also avoid the successful exec
			bad := false
			if p != nil {
				for _, pe := range p {
					if pe.Kind == core.EvCall && exec(pe.Call) {
						bad = true
					}
				}
			}
			c.Check("client-ack-after-commit", fmt.Sprintf("%s/success-return#%d", r.Name, k), c.P.Pos(e.Pos()), !bad,
				"retryUntilExec reports success without waiting for the local cache to reach the command's index: a following read on this node may not see the acknowledged change")
		}
		c.Floor("success returns of retryUntilExec", k, 1)
		// the index waited for is the one returned by exec
		for i, e := range findOrAbort(c, r, "waitForIndex", evCall(wait), 1) {
			fact := r.Flow().FactOfExpr(e, e.Call.Args[0])
			ce, ok := fact.Def.(*ast.CallExpr)
			c.Check("client-ack-after-commit", fmt.Sprintf("%s/waitForIndex#%d", r.Name, i+1), c.P.Pos(e.Pos()), ok && exec(ce), "the index waited for must be the index returned by exec")
		}
	})
}

func constOrVarName(info *types.Info, x ast.Expr) string {
	switch e := ast.Unparen(x).(type) {
	case *ast.Ident:
		if o := info.ObjectOf(e); o != nil {
			return o.Name()
		}
	case *ast.SelectorExpr:
		if o := info.ObjectOf(e.Sel); o != nil {
			return o.Name()
		}
	}
	return core.ExprStr(x)
}

var _ = sort.Strings
