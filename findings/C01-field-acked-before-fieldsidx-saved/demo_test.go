// Demonstration of the known finding C01 D7 (field published in memory before fields.idx is saved): copy into tsdb/
// (package tsdb_test) and run
//   go test -vet=off -count=1 -run TestDemoAckedWriteOfFieldWhoseSaveNeverCompleted ./tsdb/
// Fails on the current tree: after the restart the acknowledged point is not returned.
package tsdb_test

import (
	"context"
	"os"
	"path/filepath"
	"testing"
	"time"

	"github.com/influxdata/influxdb/models"
	"github.com/influxdata/influxdb/query"
	"github.com/influxdata/influxdb/tsdb"
	"github.com/influxdata/influxql"
)

// A new field is published in memory (CreateFieldIfNotExists) before fields.idx is saved. A second writer of the same
// field finds it in memory, has nothing to create, skips the save and is acknowledged. If the first writer's save
// does not complete (here: it fails; the same holds when the process dies while it is in flight), the acknowledged
// write of the second writer is in the WAL but its field is in no fields.idx. With a TSI index a restart trusts a
// non-empty fields.idx and does not scan the data, so the acknowledged point is not returned after the restart.
func TestDemoAckedWriteOfFieldWhoseSaveNeverCompleted(t *testing.T) {
	s := MustOpenStore(tsdb.TSI1IndexName)
	defer s.Close()
	s.MustCreateShardWithData("db0", "rp0", 0, `cpu,host=a f1=1 0`)
	sh := s.Shard(0)
	tmp := filepath.Join(sh.Path(), "fields.idx.tmp")
	if err := os.WriteFile(tmp, nil, 0666); err != nil {
		t.Fatal(err)
	}
	pA := models.MustNewPoint("cpu", models.NewTags(map[string]string{"host": "a"}), map[string]interface{}{"f2": 2.0}, time.Unix(10, 0))
	if err := s.WriteToShard(0, []models.Point{pA}); err == nil {
		t.Fatalf("first writer: the save was made to fail, an error was expected")
	}
	os.Remove(tmp)
	pB := models.MustNewPoint("cpu", models.NewTags(map[string]string{"host": "b"}), map[string]interface{}{"f2": 3.0}, time.Unix(20, 0))
	if err := s.WriteToShard(0, []models.Point{pB}); err != nil {
		t.Fatalf("second writer: %v", err)
	}
	read := func() int {
		sh := s.Shard(0)
		itr, err := sh.CreateIterator(context.Background(), &influxql.Measurement{Name: "cpu"}, query.IteratorOptions{
			Expr: influxql.MustParseExpr("f2"), Dimensions: []string{"host"}, StartTime: influxql.MinTime, EndTime: influxql.MaxTime, Ascending: true,
		})
		if err != nil {
			t.Fatal(err)
		}
		if itr == nil {
			return 0
		}
		defer itr.Close()
		n := 0
		fitr := itr.(query.FloatIterator)
		for {
			p, err := fitr.Next()
			if err != nil {
				t.Fatal(err)
			}
			if p == nil {
				break
			}
			if p.Tags.Value("host") == "b" {
				n++
			}
		}
		return n
	}
	if n := read(); n != 1 {
		t.Fatalf("before restart: acknowledged point of writer b read %d times", n)
	}
	if err := s.Reopen(); err != nil {
		t.Fatal(err)
	}
	if n := read(); n != 1 {
		t.Errorf("after restart: the acknowledged point cpu,host=b f2=3 is returned %d times (field f2 known: %v)", n, s.Shard(0).MeasurementFields([]byte("cpu")).Field("f2") != nil)
	}
}
