package core

import (
	"fmt"
	"go/ast"
	"go/constant"
	"go/token"
	"go/types"
	"regexp"
	"sort"
	"strings"
)

// This file implements rule G10: comparison-only predicates decided over all orderings.
// A Go boolean expression is compiled to a small tree whose leaves are comparisons between
// opaque terms, IsZero tests and free boolean atoms; helper predicates declared in the
// repository (single-return bool methods/functions) are inlined. The tree is then evaluated
// over every weak ordering of its terms and every assignment of its boolean atoms and compared
// with a specification tree. This is constant folding over a finite abstract domain.

// BKind is the node kind of a compiled predicate.
type BKind int

const (
	BAnd BKind = iota
	BOr
	BNot
	BLt // A < B
	BLe
	BEq
	BZero // IsZero(A)
	BAtom // free boolean atom A
	BConst
)

// BExpr is a compiled predicate.
type BExpr struct {
	Kind BKind
	L, R *BExpr
	A, B string // term keys / atom name
	Val  bool
}

func And(l, r *BExpr) *BExpr   { return &BExpr{Kind: BAnd, L: l, R: r} }
func Or(l, r *BExpr) *BExpr    { return &BExpr{Kind: BOr, L: l, R: r} }
func Not(l *BExpr) *BExpr      { return &BExpr{Kind: BNot, L: l} }
func Lt(a, b string) *BExpr    { return &BExpr{Kind: BLt, A: a, B: b} }
func Le(a, b string) *BExpr    { return &BExpr{Kind: BLe, A: a, B: b} }
func EqT(a, b string) *BExpr   { return &BExpr{Kind: BEq, A: a, B: b} }
func Zero(a string) *BExpr     { return &BExpr{Kind: BZero, A: a} }
func Atom(a string) *BExpr     { return &BExpr{Kind: BAtom, A: a} }
func ConstB(v bool) *BExpr     { return &BExpr{Kind: BConst, Val: v} }

func (b *BExpr) String() string {
	switch b.Kind {
	case BAnd:
		return "(" + b.L.String() + " && " + b.R.String() + ")"
	case BOr:
		return "(" + b.L.String() + " || " + b.R.String() + ")"
	case BNot:
		return "!" + b.L.String()
	case BLt:
		return b.A + " < " + b.B
	case BLe:
		return b.A + " <= " + b.B
	case BEq:
		return b.A + " == " + b.B
	case BZero:
		return "zero(" + b.A + ")"
	case BAtom:
		return "{" + b.A + "}"
	}
	return fmt.Sprint(b.Val)
}

func (b *BExpr) collect(terms, zeros, atoms map[string]bool) {
	if b == nil {
		return
	}
	switch b.Kind {
	case BLt, BLe, BEq:
		terms[b.A] = true
		terms[b.B] = true
	case BZero:
		zeros[b.A] = true
	case BAtom:
		atoms[b.A] = true
	}
	b.L.collect(terms, zeros, atoms)
	b.R.collect(terms, zeros, atoms)
}

// Rename maps term keys through roles (regexp -> role name); every term must match exactly one role.
func (b *BExpr) Rename(roles map[string]string) (*BExpr, error) {
	terms, zeros, atoms := map[string]bool{}, map[string]bool{}, map[string]bool{}
	b.collect(terms, zeros, atoms)
	all := map[string]bool{}
	for t := range terms {
		all[t] = true
	}
	for t := range zeros {
		all[t] = true
	}
	for t := range atoms {
		all[t] = true
	}
	m := map[string]string{}
	used := map[string]string{}
	for t := range all {
		hit := ""
		for re, role := range roles {
			if regexp.MustCompile(re).MatchString(t) {
				if hit != "" && hit != role {
					return nil, fmt.Errorf("term %q matches two roles (%s, %s)", t, hit, role)
				}
				hit = role
			}
		}
		if hit == "" {
			return nil, fmt.Errorf("term %q of the predicate has no role in the specification", t)
		}
		if prev, ok := used[hit]; ok && prev != t {
			return nil, fmt.Errorf("terms %q and %q both play role %s", prev, t, hit)
		}
		used[hit] = t
		m[t] = hit
	}
	var ren func(x *BExpr) *BExpr
	ren = func(x *BExpr) *BExpr {
		if x == nil {
			return nil
		}
		y := *x
		if v, ok := m[x.A]; ok {
			y.A = v
		}
		if v, ok := m[x.B]; ok {
			y.B = v
		}
		y.L, y.R = ren(x.L), ren(x.R)
		return &y
	}
	return ren(b), nil
}

type valuation struct {
	rank  map[string]int
	bools map[string]bool
}

func (b *BExpr) eval(v *valuation) bool {
	switch b.Kind {
	case BAnd:
		return b.L.eval(v) && b.R.eval(v)
	case BOr:
		return b.L.eval(v) || b.R.eval(v)
	case BNot:
		return !b.L.eval(v)
	case BLt:
		return v.rank[b.A] < v.rank[b.B]
	case BLe:
		return v.rank[b.A] <= v.rank[b.B]
	case BEq:
		return v.rank[b.A] == v.rank[b.B]
	case BZero:
		return v.bools["zero:"+b.A]
	case BAtom:
		return v.bools[b.A]
	}
	return b.Val
}

// weakOrderings enumerates all weak orderings (ordered set partitions) of n items as rank vectors.
func weakOrderings(n int) [][]int {
	if n == 0 {
		return [][]int{{}}
	}
	var out [][]int
	// assign ranks 0..k-1 surjectively
	var rec func(i int, cur []int, maxRank int)
	rec = func(i int, cur []int, maxRank int) {
		if i == n {
			// surjective onto 0..maxRank?
			seen := make([]bool, maxRank+1)
			for _, r := range cur {
				seen[r] = true
			}
			for _, s := range seen {
				if !s {
					return
				}
			}
			out = append(out, append([]int(nil), cur...))
			return
		}
		for r := 0; r < n; r++ {
			m := maxRank
			if r > m {
				m = r
			}
			rec(i+1, append(cur, r), m)
		}
	}
	rec(0, nil, 0)
	return out
}

// Equivalent compares two predicates over all orderings of their terms and all boolean atoms.
// It returns "" when they agree everywhere, else a description of the first disagreeing valuation.
// n is the number of valuations checked.
func Equivalent(impl, spec *BExpr) (diff string, n int, err error) {
	terms, zeros, atoms := map[string]bool{}, map[string]bool{}, map[string]bool{}
	impl.collect(terms, zeros, atoms)
	spec.collect(terms, zeros, atoms)
	var ts, bs []string
	for t := range terms {
		ts = append(ts, t)
	}
	for z := range zeros {
		bs = append(bs, "zero:"+z)
	}
	for a := range atoms {
		bs = append(bs, a)
	}
	sort.Strings(ts)
	sort.Strings(bs)
	if len(ts) > 6 || len(bs) > 10 {
		return "", 0, fmt.Errorf("predicate too large for exhaustive evaluation: %d terms, %d boolean atoms", len(ts), len(bs))
	}
	for _, ranks := range weakOrderings(len(ts)) {
		for mask := 0; mask < 1<<len(bs); mask++ {
			v := &valuation{rank: map[string]int{}, bools: map[string]bool{}}
			for i, t := range ts {
				v.rank[t] = ranks[i]
			}
			for i, b := range bs {
				v.bools[b] = mask&(1<<i) != 0
			}
			n++
			gi, gs := impl.eval(v), spec.eval(v)
			if gi != gs {
				var parts []string
				for _, t := range ts {
					parts = append(parts, fmt.Sprintf("%s=%d", t, v.rank[t]))
				}
				for _, b := range bs {
					parts = append(parts, fmt.Sprintf("%s=%v", b, v.bools[b]))
				}
				return fmt.Sprintf("ordering {%s}: implementation=%v specification=%v", strings.Join(parts, " "), gi, gs), n, nil
			}
		}
	}
	return "", n, nil
}

// PredCompiler compiles Go boolean expressions to BExpr.
type PredCompiler struct {
	P      *Prog
	Sticky bool // keep the numbering of local variables across CompileIn calls
	locals map[types.Object]string
	nLocal int
}

// ResetLocals restarts the numbering of local variables ($l1, $l2, ...).
func (pc *PredCompiler) ResetLocals() { pc.locals = nil }

type predEnv struct {
	info *types.Info
	bind map[types.Object]string // receiver/params of an inlined helper -> caller term key
	fn   *FuncInfo
}

// CompileFuncPredicate compiles the boolean expression x that occurs in function f.
// Receiver is rendered "$recv", parameters "$0", "$1", ...
func (pc *PredCompiler) CompileIn(f *FuncInfo, x ast.Expr) (*BExpr, error) {
	env := &predEnv{info: f.Info(), bind: map[types.Object]string{}, fn: f}
	root := f.Root()
	if root.Decl != nil {
		if root.Decl.Recv != nil && len(root.Decl.Recv.List) > 0 {
			for _, nm := range root.Decl.Recv.List[0].Names {
				env.bind[f.Info().ObjectOf(nm)] = "$recv"
			}
		}
		k := 0
		for _, fld := range root.Decl.Type.Params.List {
			for _, nm := range fld.Names {
				env.bind[f.Info().ObjectOf(nm)] = fmt.Sprintf("$%d", k)
				k++
			}
			if len(fld.Names) == 0 {
				k++
			}
		}
	}
	if !pc.Sticky || pc.locals == nil {
		pc.locals = map[types.Object]string{}
		pc.nLocal = 0
	}
	return pc.compile(env, x, 0)
}

// TermIn renders the operand x of function f as the term name CompileIn would use for it
// (with Sticky set, local variables keep their numbers across calls).
func (pc *PredCompiler) TermIn(f *FuncInfo, x ast.Expr) (string, error) {
	env := &predEnv{info: f.Info(), bind: map[types.Object]string{}, fn: f}
	root := f.Root()
	if root.Decl != nil {
		if root.Decl.Recv != nil && len(root.Decl.Recv.List) > 0 {
			for _, nm := range root.Decl.Recv.List[0].Names {
				env.bind[f.Info().ObjectOf(nm)] = "$recv"
			}
		}
		k := 0
		for _, fld := range root.Decl.Type.Params.List {
			for _, nm := range fld.Names {
				env.bind[f.Info().ObjectOf(nm)] = fmt.Sprintf("$%d", k)
				k++
			}
			if len(fld.Names) == 0 {
				k++
			}
		}
	}
	if !pc.Sticky || pc.locals == nil {
		pc.locals = map[types.Object]string{}
		pc.nLocal = 0
	}
	return pc.term(env, x)
}

// ReturnPredicate returns the single returned boolean expression of a function (error when the
// function is not of the form `return <expr>`, possibly preceded by simple local definitions).
func (pc *PredCompiler) ReturnPredicate(f *FuncInfo) (ast.Expr, error) {
	if f.Body == nil {
		return nil, fmt.Errorf("%s has no body", f.Name)
	}
	var ret *ast.ReturnStmt
	n := 0
	ast.Inspect(f.Body, func(nd ast.Node) bool {
		if _, ok := nd.(*ast.FuncLit); ok {
			return false
		}
		if r, ok := nd.(*ast.ReturnStmt); ok {
			ret = r
			n++
		}
		return true
	})
	if n != 1 || len(ret.Results) != 1 {
		return nil, fmt.Errorf("%s is not a single-return predicate (%d returns)", f.Name, n)
	}
	return ret.Results[0], nil
}

var timeType = "time.Time"

func (pc *PredCompiler) term(env *predEnv, x ast.Expr) (string, error) {
	x = ast.Unparen(x)
	switch e := x.(type) {
	case *ast.Ident:
		o := env.info.ObjectOf(e)
		if s, ok := env.bind[o]; ok {
			return s, nil
		}
		if c, ok := o.(*types.Const); ok {
			return "const:" + c.Val().ExactString(), nil
		}
		if v, ok := o.(*types.Var); ok {
			if v.Parent() == v.Pkg().Scope() {
				return Rel(v.Pkg().Path()) + "." + v.Name(), nil
			}
			// a local with a single definition is followed
			if env.fn != nil {
				if def := singleDef(env.fn, env.info, v); def != nil {
					if u, ok := ast.Unparen(def).(*ast.UnaryExpr); ok && u.Op == token.AND {
						def = u.X
					}
					// (a definition that is not itself a plain term, e.g. the result of a helper call, leaves the
					// local an opaque term of its own)
					if s, err := pc.term(env, def); err == nil {
						return s, nil
					}
				}
			}
			if s, ok := pc.locals[o]; ok {
				return s, nil
			}
			pc.nLocal++
			s := fmt.Sprintf("$l%d", pc.nLocal)
			pc.locals[o] = s
			return s, nil
		}
	case *ast.BasicLit:
		if tv, ok := env.info.Types[e]; ok && tv.Value != nil {
			return "const:" + tv.Value.ExactString(), nil
		}
	case *ast.SelectorExpr:
		if sel := env.info.Selections[e]; sel != nil && sel.Kind() == types.FieldVal {
			base, err := pc.term(env, e.X)
			if err != nil {
				return "", err
			}
			return base + "." + e.Sel.Name, nil
		}
		if o, ok := env.info.ObjectOf(e.Sel).(*types.Var); ok && o.Pkg() != nil {
			return Rel(o.Pkg().Path()) + "." + o.Name(), nil
		}
		if c, ok := env.info.ObjectOf(e.Sel).(*types.Const); ok {
			return "const:" + c.Val().ExactString(), nil
		}
	case *ast.IndexExpr:
		b, err := pc.term(env, e.X)
		if err != nil {
			return "", err
		}
		i, err := pc.term(env, e.Index)
		if err != nil {
			return "", err
		}
		return b + "[" + i + "]", nil
	case *ast.StarExpr:
		return pc.term(env, e.X)
	case *ast.UnaryExpr:
		if e.Op == token.AND {
			return pc.term(env, e.X)
		}
	case *ast.CallExpr:
		if fn, ok := Callee(env.info, e).(*types.Func); ok {
			if se, ok := e.Fun.(*ast.SelectorExpr); ok && fn.Pkg() != nil && fn.Pkg().Path() == "time" {
				switch fn.Name() {
				case "Add":
					a, err := pc.term(env, se.X)
					if err != nil {
						return "", err
					}
					d, err := pc.term(env, e.Args[0])
					if err != nil {
						return "", err
					}
					return a + "+" + d, nil
				case "UTC":
					return pc.term(env, se.X)
				}
			}
		}
		// conversion
		if tv, ok := env.info.Types[e.Fun]; ok && tv.IsType() && len(e.Args) == 1 {
			return pc.term(env, e.Args[0])
		}
		// niladic accessor on a term (p.Time(), x.UnixNano()): an opaque term derived from its receiver
		if se, ok := e.Fun.(*ast.SelectorExpr); ok && len(e.Args) == 0 {
			if _, isFn := Callee(env.info, e).(*types.Func); isFn {
				base, err := pc.term(env, se.X)
				if err == nil {
					return base + "." + se.Sel.Name + "()", nil
				}
			}
		}
	}
	if tv, ok := env.info.Types[x]; ok && tv.Value != nil && tv.Value.Kind() != constant.Unknown {
		return "const:" + tv.Value.ExactString(), nil
	}
	return "", fmt.Errorf("operand %s is not a plain term (variable, field path, constant, t.Add(d)): the predicate leaves the comparison-only fragment", types.ExprString(x))
}

func singleDef(f *FuncInfo, info *types.Info, v *types.Var) ast.Expr {
	var def ast.Expr
	n := 0
	ast.Inspect(f.Root().Body, func(nd ast.Node) bool {
		switch s := nd.(type) {
		case *ast.AssignStmt:
			for i, l := range s.Lhs {
				if id, ok := l.(*ast.Ident); ok && info.ObjectOf(id) == v {
					n++
					if len(s.Lhs) == len(s.Rhs) {
						def = s.Rhs[i]
					} else {
						def = nil
						n += 10
					}
				}
			}
		case *ast.RangeStmt:
			for _, l := range []ast.Expr{s.Key, s.Value} {
				if id, ok := l.(*ast.Ident); ok && info.ObjectOf(id) == v {
					n += 10
				}
			}
		case *ast.IncDecStmt:
			if id, ok := s.X.(*ast.Ident); ok && info.ObjectOf(id) == v {
				n += 10
			}
		}
		return true
	})
	if n == 1 {
		return def
	}
	return nil
}

func (pc *PredCompiler) compile(env *predEnv, x ast.Expr, depth int) (*BExpr, error) {
	if depth > 6 {
		return nil, fmt.Errorf("helper inlining deeper than 6")
	}
	x = ast.Unparen(x)
	if tv, ok := env.info.Types[x]; ok && tv.Value != nil && tv.Value.Kind() == constant.Bool {
		return ConstB(constant.BoolVal(tv.Value)), nil
	}
	switch e := x.(type) {
	case *ast.UnaryExpr:
		if e.Op == token.NOT {
			l, err := pc.compile(env, e.X, depth)
			if err != nil {
				return nil, err
			}
			return Not(l), nil
		}
	case *ast.BinaryExpr:
		switch e.Op {
		case token.LAND, token.LOR:
			l, err := pc.compile(env, e.X, depth)
			if err != nil {
				return nil, err
			}
			r, err := pc.compile(env, e.Y, depth)
			if err != nil {
				return nil, err
			}
			if e.Op == token.LAND {
				return And(l, r), nil
			}
			return Or(l, r), nil
		case token.LSS, token.LEQ, token.GTR, token.GEQ, token.EQL, token.NEQ:
			a, err := pc.term(env, e.X)
			if err != nil {
				return nil, err
			}
			b, err := pc.term(env, e.Y)
			if err != nil {
				return nil, err
			}
			switch e.Op {
			case token.LSS:
				return Lt(a, b), nil
			case token.LEQ:
				return Le(a, b), nil
			case token.GTR:
				return Lt(b, a), nil
			case token.GEQ:
				return Le(b, a), nil
			case token.EQL:
				return EqT(a, b), nil
			default:
				return Not(EqT(a, b)), nil
			}
		}
	case *ast.CallExpr:
		fn, _ := Callee(env.info, e).(*types.Func)
		if fn == nil {
			break
		}
		se, isSel := e.Fun.(*ast.SelectorExpr)
		if fn.Pkg() != nil && fn.Pkg().Path() == "time" && isSel {
			switch fn.Name() {
			case "Before", "After", "Equal":
				a, err := pc.term(env, se.X)
				if err != nil {
					return nil, err
				}
				b, err := pc.term(env, e.Args[0])
				if err != nil {
					return nil, err
				}
				switch fn.Name() {
				case "Before":
					return Lt(a, b), nil
				case "After":
					return Lt(b, a), nil
				default:
					return EqT(a, b), nil
				}
			case "IsZero":
				a, err := pc.term(env, se.X)
				if err != nil {
					return nil, err
				}
				return Zero(a), nil
			}
		}
		// inline a repository helper predicate
		if fi := pc.P.FuncOf(fn); fi != nil {
			body, err := pc.ReturnPredicate(fi)
			if err != nil {
				// not a single-return predicate: an opaque boolean atom named after the callee and its receiver
				name := "call:" + FuncName(fn)
				return Atom(name), nil
			}
			sub := &predEnv{info: fi.Info(), bind: map[types.Object]string{}, fn: fi}
			if fi.Decl.Recv != nil && len(fi.Decl.Recv.List) > 0 && isSel {
				rt, err := pc.term(env, se.X)
				if err != nil {
					return nil, err
				}
				for _, nm := range fi.Decl.Recv.List[0].Names {
					sub.bind[fi.Info().ObjectOf(nm)] = rt
				}
			}
			k := 0
			for _, fld := range fi.Decl.Type.Params.List {
				for _, nm := range fld.Names {
					if k < len(e.Args) {
						at, err := pc.term(env, e.Args[k])
						if err != nil {
							return nil, err
						}
						sub.bind[fi.Info().ObjectOf(nm)] = at
					}
					k++
				}
			}
			return pc.compile(sub, body, depth+1)
		}
	case *ast.Ident, *ast.SelectorExpr:
		// a boolean local with a single definition (named sub-condition) is replaced by its definition
		if id, ok := x.(*ast.Ident); ok && env.fn != nil {
			if v, ok := env.info.ObjectOf(id).(*types.Var); ok && v.Pkg() != nil && v.Parent() != v.Pkg().Scope() {
				if _, bound := env.bind[v]; !bound {
					if def := singleDef(env.fn, env.info, v); def != nil && declaredByDefine(env.fn, env.info, v) {
						if b, err := pc.compile(env, def, depth+1); err == nil {
							return b, nil
						}
					}
				}
			}
		}
		t, err := pc.term(env, x)
		if err == nil {
			return Atom(t), nil
		}
	}
	return nil, fmt.Errorf("expression %s is outside the comparison-only fragment", types.ExprString(x))
}
