package tsdb_test

import (
	"context"
	"fmt"
	"sort"
	"testing"
	"time"

	"github.com/influxdata/influxdb/models"
	"github.com/influxdata/influxdb/query"
	"github.com/influxdata/influxdb/toml"
	"github.com/influxdata/influxdb/tsdb"
	"github.com/influxdata/influxql"
)

func probeNames(t *testing.T, s *Store) []string {
	names, err := s.MeasurementNames(context.Background(), query.OpenAuthorizer, "db0", "", nil)
	if err != nil {
		t.Fatal(err)
	}
	var got []string
	for _, name := range names {
		got = append(got, string(name))
	}
	sort.Strings(got)
	return got
}

// P1: tsi1; series compacted into an L1 file; dropped (tombstone in active log
// file); series file compacted; restart.
func TestC14Probe_P1(t *testing.T) {
	const (
		seriesN = 400
		dropN   = 40
	)

	s := NewStore("tsi1")
	s.EngineOptions.Config.MaxIndexLogFileSize = toml.Size(128)
	if err := s.Open(); err != nil {
		t.Fatal(err)
	}
	defer s.Close()

	if err := s.CreateShard("db0", "rp0", 1, true); err != nil {
		t.Fatal(err)
	}

	points := make([]models.Point, 0, seriesN+1)
	for i := 0; i < seriesN; i++ {
		points = append(points, models.MustNewPoint("cpu",
			models.NewTags(map[string]string{"host": fmt.Sprintf("h%03d", i)}),
			map[string]interface{}{"value": 1.0}, time.Unix(int64(i), 0)))
	}
	points = append(points, models.MustNewPoint("mem",
		models.NewTags(map[string]string{"host": "h000"}),
		map[string]interface{}{"value": 1.0}, time.Unix(0, 0)))
	if err := s.WriteToShard(1, points); err != nil {
		t.Fatal(err)
	}

	cond := influxql.MustParseExpr(`host =~ /^h0[0-3][0-9]$/`)
	if err := s.DeleteSeries("db0", []influxql.Source{&influxql.Measurement{Name: "cpu"}}, cond); err != nil {
		t.Fatal(err)
	}

	// Compact the series file.
	sfile, err := s.Shard(1).SeriesFile()
	if err != nil {
		t.Fatal(err)
	}
	for _, p := range sfile.Partitions() {
		if err := tsdb.NewSeriesPartitionCompactor().Compact(p); err != nil {
			t.Fatal(err)
		}
	}

	n, _ := s.SeriesCardinality(context.Background(), "db0")
	t.Logf("before restart: cardinality=%d (want %d) names=%v", n, seriesN-dropN+1, probeNames(t, s))

	if err := s.Reopen(); err != nil {
		t.Fatal(err)
	}
	n, _ = s.SeriesCardinality(context.Background(), "db0")
	t.Logf("after restart: cardinality=%d (want %d) names=%v", n, seriesN-dropN+1, probeNames(t, s))
	if n != seriesN-dropN+1 {
		t.Errorf("PRISTINE VIOLATION: cardinality=%d want %d", n, seriesN-dropN+1)
	}

	if err := s.DeleteSeries("db0", []influxql.Source{&influxql.Measurement{Name: "cpu"}}, nil); err != nil {
		t.Fatal(err)
	}
	n, _ = s.SeriesCardinality(context.Background(), "db0")
	names := probeNames(t, s)
	t.Logf("after full drop: cardinality=%d (want 1) names=%v", n, names)
	if fmt.Sprint(names) != "[mem]" {
		t.Errorf("PRISTINE VIOLATION: names=%v want [mem]", names)
	}
}

func probeTagValues(t *testing.T, s *Store, shardIDs []uint64, cond string) string {
	var expr influxql.Expr
	if cond != "" {
		expr = influxql.MustParseExpr(cond)
	}
	tvs, err := s.TagValues(context.Background(), query.OpenAuthorizer, shardIDs, expr)
	if err != nil {
		t.Fatal(err)
	}
	var out []string
	for _, tv := range tvs {
		for _, kv := range tv.Values {
			out = append(out, tv.Measurement+":"+kv.Key+"="+kv.Value)
		}
	}
	return fmt.Sprint(out)
}

// P2: two shards share series; the series is dropped from shard 1 only (time
// bounded delete). Compare what shard 1 reports with/without the index having
// been compacted to an L1 file, for both index types.
func TestC14Probe_P2(t *testing.T) {
	for _, index := range []string{"inmem", "tsi1"} {
		for _, logSize := range []int{1 << 20, 1} {
			t.Run(fmt.Sprintf("%s/log=%d", index, logSize), func(t *testing.T) {
				s := NewStore(index)
				s.EngineOptions.Config.MaxIndexLogFileSize = toml.Size(logSize)
				if err := s.Open(); err != nil {
					t.Fatal(err)
				}
				defer s.Close()

				s.MustCreateShardWithData("db0", "rp0", 1,
					`cpu,host=a value=1 10`,
					`cpu,host=b value=1 10`,
					`cpu,host=c value=1 10`,
				)
				s.MustCreateShardWithData("db0", "rp0", 2,
					`cpu,host=a value=1 100000`,
					`cpu,host=b value=1 100000`,
					`cpu,host=d value=1 100000`,
				)

				// Drop host=a where time < 1000s: empties it in shard 1 only.
				cond := influxql.MustParseExpr(`host = 'a' AND time < 1000000000000`)
				if err := s.DeleteSeries("db0", []influxql.Source{&influxql.Measurement{Name: "cpu"}}, cond); err != nil {
					t.Fatal(err)
				}

				t.Logf("shard1 host values: %s", probeTagValues(t, s, []uint64{1}, `_tagKey = 'host'`))
				t.Logf("shard1 host values (host=~/./): %s", probeTagValues(t, s, []uint64{1}, `_tagKey = 'host' AND host =~ /./`))
				t.Logf("shard2 host values: %s", probeTagValues(t, s, []uint64{2}, `_tagKey = 'host'`))
				n, _ := s.Shard(1).SeriesN(), 0
				t.Logf("shard1 SeriesN=%d", n)

				sh := s.Shard(1)
				idx, _ := sh.Index()
				sfile, _ := sh.SeriesFile()
				is := tsdb.IndexSet{Indexes: []tsdb.Index{idx}, SeriesFile: sfile}
				keys, _ := is.MeasurementSeriesKeysByExpr([]byte("cpu"), nil)
				t.Logf("shard1 series: %s", keys)
				keys, _ = is.MeasurementSeriesKeysByExpr([]byte("cpu"), influxql.MustParseExpr(`host = 'a'`))
				t.Logf("shard1 series host=a: %s", keys)
			})
		}
	}
}
