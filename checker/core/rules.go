package core

import (
	"fmt"
	"go/ast"
	"go/types"
	"strings"
)

// Match is a predicate over events.
type Match func(e *Event) bool

// CalleeName renders the resolved callee of a call-like event.
func CalleeName(e *Event) string {
	switch o := e.Callee.(type) {
	case *types.Func:
		return FuncName(o)
	case *types.Var:
		return "var:" + o.Name()
	case *types.Builtin:
		return "builtin:" + o.Name()
	}
	return ""
}

func isCallKind(e *Event, kinds ...EvKind) bool {
	for _, k := range kinds {
		if e.Kind == k {
			return true
		}
	}
	return false
}

// CallTo matches direct calls (not defer/go registrations) whose resolved callee
// has one of the given rendered names.
func CallTo(names ...string) Match {
	set := map[string]bool{}
	for _, n := range names {
		set[n] = true
	}
	return func(e *Event) bool {
		return e.Kind == EvCall && set[CalleeName(e)]
	}
}

// CallOrDeferredTo also matches the synthetic deferred execution.
func CallOrDeferredTo(names ...string) Match {
	set := map[string]bool{}
	for _, n := range names {
		set[n] = true
	}
	return func(e *Event) bool {
		return (e.Kind == EvCall || e.Kind == EvDeferred) && set[CalleeName(e)]
	}
}

// RecvFieldOf returns "Type.field" of the receiver expression of a method call
// when that receiver is a struct field selection (e.g. w.TSDBStore.WriteToShard
// gives "PointsWriter.TSDBStore"), else "".
func RecvFieldOf(e *Event) string {
	if e.Call == nil {
		return ""
	}
	se, ok := e.Call.Fun.(*ast.SelectorExpr)
	if !ok {
		return ""
	}
	return FieldPathOf(e.Fn.Info(), se.X)
}

// FieldPathOf renders a field selection as "Struct.field" (resolved through the type checker).
func FieldPathOf(info *types.Info, x ast.Expr) string {
	fx, ok := ast.Unparen(x).(*ast.SelectorExpr)
	if !ok {
		return ""
	}
	sel := info.Selections[fx]
	if sel == nil || sel.Kind() != types.FieldVal {
		return ""
	}
	t := sel.Recv()
	if p, ok := t.(*types.Pointer); ok {
		t = p.Elem()
	}
	// embedded promotion: find the struct that declares the field
	n, _ := t.(*types.Named)
	if n == nil {
		return "?." + fx.Sel.Name
	}
	return n.Obj().Name() + "." + fx.Sel.Name
}

// FieldCall matches calls of method `method` on the struct field "Type.field".
func FieldCall(field, method string) Match {
	return func(e *Event) bool {
		if e.Kind != EvCall || e.Call == nil {
			return false
		}
		se, ok := e.Call.Fun.(*ast.SelectorExpr)
		if !ok || se.Sel.Name != method {
			return false
		}
		return RecvFieldOf(e) == field
	}
}

// FieldFuncCall matches a call of the func-typed struct field "Type.field".
func FieldFuncCall(field string) Match {
	return func(e *Event) bool {
		if e.Kind != EvCall || e.Call == nil {
			return false
		}
		return FieldPathOf(e.Fn.Info(), e.Call.Fun) == field
	}
}

// Or combines matchers.
func AnyOf(ms ...Match) Match {
	return func(e *Event) bool {
		for _, m := range ms {
			if m(e) {
				return true
			}
		}
		return false
	}
}

// Kind matches events of a kind.
func Kind(k EvKind) Match { return func(e *Event) bool { return e.Kind == k } }

// Find lists events of the function matching m (in ID order).
func (g *Graph) Find(m Match) []*Event {
	var out []*Event
	for _, e := range g.Events {
		if m(e) {
			out = append(out, e)
		}
	}
	return out
}

type edgeKey struct {
	from *Event
	idx  int
}

// feasible reports whether successor edge idx of e can be taken under the dataflow.
func (fl *Flow) feasible(e *Event, idx int) bool {
	st, ok := fl.In[e]
	if !ok {
		return false
	}
	ed := e.Succ[idx]
	if ed.Cond == nil {
		return true
	}
	if fl.feasCache == nil {
		fl.feasCache = map[edgeKey]bool{}
	}
	k := edgeKey{e, idx}
	if v, ok := fl.feasCache[k]; ok {
		return v
	}
	v := fl.refineEdge(fl.transfer(e, st), ed.Cond, ed.Val) != nil
	fl.feasCache[k] = v
	return v
}

// PathAvoiding searches a feasible path from `from` to an event matching
// target that passes no event matching avoid (from itself is not tested
// against avoid/target). It returns the path or nil.
func (fl *Flow) PathAvoiding(from *Event, target, avoid Match) []*Event {
	prev := map[*Event]*Event{from: nil}
	queue := []*Event{from}
	for len(queue) > 0 {
		e := queue[0]
		queue = queue[1:]
		for i, ed := range e.Succ {
			if !fl.feasible(e, i) {
				continue
			}
			t := ed.To
			if _, seen := prev[t]; seen {
				continue
			}
			if avoid != nil && avoid(t) {
				continue
			}
			prev[t] = e
			if target(t) {
				var path []*Event
				for x := t; x != nil; x = prev[x] {
					path = append([]*Event{x}, path...)
				}
				return path
			}
			queue = append(queue, t)
		}
	}
	return nil
}

// ReachableFrom returns the set of events reachable from `from` along feasible
// edges without passing an event matching avoid.
func (fl *Flow) ReachableFrom(from *Event, avoid Match) map[*Event]bool {
	seen := map[*Event]bool{}
	queue := []*Event{from}
	for len(queue) > 0 {
		e := queue[0]
		queue = queue[1:]
		for i, ed := range e.Succ {
			if !fl.feasible(e, i) {
				continue
			}
			t := ed.To
			if seen[t] || (avoid != nil && avoid(t)) {
				continue
			}
			seen[t] = true
			queue = append(queue, t)
		}
	}
	return seen
}

// PathStr renders the interesting part of a path.
func PathStr(path []*Event) string {
	var parts []string
	for _, e := range path {
		switch e.Kind {
		case EvCall, EvReturn, EvCond, EvSend, EvDefer, EvDeferred, EvEntry, EvExit, EvGo:
			parts = append(parts, e.Describe())
		}
	}
	if len(parts) > 14 {
		parts = append(parts[:7], append([]string{"..."}, parts[len(parts)-6:]...)...)
	}
	return strings.Join(parts, " -> ")
}

// IsNormalReturn matches return events (explicit or implicit).
func IsNormalReturn(e *Event) bool { return e.Kind == EvReturn }

// ResultExpr returns the i-th result expression of a return event (nil for
// bare returns); named is the named result variable when the return is bare.
func (f *FuncInfo) ResultExpr(e *Event, i int) (ast.Expr, *types.Var) {
	if rs, ok := e.Node.(*ast.ReturnStmt); ok && len(rs.Results) > 0 {
		if len(rs.Results) > i {
			return rs.Results[i], nil
		}
		return nil, nil // return f() multi-value
	}
	// bare or implicit: named results
	if f.Type.Results == nil {
		return nil, nil
	}
	idx := 0
	for _, fld := range f.Type.Results.List {
		if len(fld.Names) == 0 {
			idx++
			continue
		}
		for _, nm := range fld.Names {
			if idx == i {
				v, _ := f.Info().Defs[nm].(*types.Var)
				return nil, v
			}
			idx++
		}
	}
	return nil, nil
}

// NumResults returns the number of results of the function.
func (f *FuncInfo) NumResults() int {
	if f.Type == nil || f.Type.Results == nil {
		return 0
	}
	n := 0
	for _, fld := range f.Type.Results.List {
		if len(fld.Names) == 0 {
			n++
		} else {
			n += len(fld.Names)
		}
	}
	return n
}

// ErrResultIndex returns the index of the last result if it is of type error, else -1.
func (f *FuncInfo) ErrResultIndex() int {
	if f.Type == nil || f.Type.Results == nil {
		return -1
	}
	n := f.NumResults()
	last := f.Type.Results.List[len(f.Type.Results.List)-1]
	if t := f.Info().TypeOf(last.Type); t != nil && types.Identical(t, types.Universe.Lookup("error").Type()) {
		return n - 1
	}
	return -1
}

// ReturnErrFact gives the fact about the error result at a return event.
func (f *FuncInfo) ReturnErrFact(e *Event) (Fact, ast.Expr) {
	fl := f.Flow()
	i := f.ErrResultIndex()
	if i < 0 {
		return Fact{}, nil
	}
	x, named := f.ResultExpr(e, i)
	if x != nil {
		return fl.FactOfExpr(e, x), x
	}
	if named != nil {
		st := fl.In[e]
		return st[VarKey{Root: named}], nil
	}
	// return f(): unknown
	return Fact{}, nil
}

// MustPrecede checks that every feasible path from entry to each event
// matching B passes an event matching A first. It returns witness paths of
// violations (one per offending B).
func (f *FuncInfo) MustPrecede(A, B Match) [][]*Event {
	fl := f.Flow()
	g := f.Graph()
	var out [][]*Event
	reach := fl.ReachableFrom(g.Entry, A)
	for _, e := range g.Events {
		if B(e) && reach[e] {
			p := fl.PathAvoiding(g.Entry, func(x *Event) bool { return x == e }, A)
			out = append(out, p)
		}
	}
	return out
}

// NoPath checks that no feasible path leads from an event matching A to one matching B.
func (f *FuncInfo) NoPath(A, B Match) [][]*Event {
	fl := f.Flow()
	g := f.Graph()
	var out [][]*Event
	for _, a := range g.Events {
		if !A(a) || !fl.Reachable(a) {
			continue
		}
		if p := fl.PathAvoiding(a, B, nil); p != nil {
			out = append(out, append([]*Event{a}, p...))
		}
	}
	return out
}

// Describe a function position.
func (f *FuncInfo) PosStr() string {
	if f.Decl != nil {
		return f.Prog.Pos(f.Decl.Pos())
	}
	if f.Lit != nil {
		return f.Prog.Pos(f.Lit.Pos())
	}
	return "-"
}

// Errorf helper for anchor failures.
func anchorErr(format string, a ...interface{}) error { return fmt.Errorf(format, a...) }
