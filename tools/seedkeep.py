#!/usr/bin/env python3
"""usage: seedkeep.py <seed-out-dir> <seed-id> <property> "<needs>" "<detected-by or MISSED: reason>"
Runs tools/seedcheck.sh, and if the seed is valid stores it under /verif/seeded/<seed-id>/."""
import sys, os, subprocess, json, shutil, re
sd, sid, prop, needs, det = sys.argv[1:6]
out = subprocess.run(["/verif/tools/seedcheck.sh", sd, prop], capture_output=True, text=True).stdout
print(out[-1500:])
m = re.search(r"RESULT valid=(\w+) detected=(\w+)", out)
if not m or m.group(1) != "yes":
    print("NOT KEPT (invalid)"); sys.exit(1)
dst = f"/verif/seeded/{sid}"
os.makedirs(dst, exist_ok=True)
shutil.copy(os.path.join(sd, "patch.diff"), dst)
demo = [f for f in os.listdir(sd) if f.endswith("_test.go")][0]
shutil.copy(os.path.join(sd, demo), os.path.join(dst, "demo_test.go"))
if os.path.exists(os.path.join(sd, "README.md")):
    shutil.copy(os.path.join(sd, "README.md"), dst)
viol = re.findall(r"rule=(\S+) construct=(\S+)", out)
meta = {
  "property": prop,
  "breaks": open(os.path.join(sd, "README.md")).read()[:1200] if os.path.exists(os.path.join(sd, "README.md")) else "",
  "needs_to_manifest": needs,
  "ran": ["tools/seedcheck.sh: demo passes at /repo HEAD without the patch, fails with it; go build ./... and go test of the touched packages pass with it; ./check.sh %s quick with the patch applied to /repo, then git checkout" % prop],
  "detected": m.group(2) == "yes",
  "detected_by": det,
  "reported": [{"rule": r, "construct": c} for r, c in viol][:6],
  "head_at_validation": subprocess.run(["git","-C","/repo","rev-parse","--short","HEAD"],capture_output=True,text=True).stdout.strip(),
}
json.dump(meta, open(os.path.join(dst, "meta.json"), "w"), indent=1)
print("KEPT", dst, "detected=", meta["detected"])
