package hh

import (
	"sync"
	"testing"
)

// Empty() must be false while blocks are pending (after Advance to a non-last block).
func TestZZ_QueueEmptyAfterAdvance(t *testing.T) {
	dir := t.TempDir()
	q, _ := newQueue(dir, 1<<30, 100)
	if err := q.Open(); err != nil {
		t.Fatal(err)
	}
	defer q.Close()
	for _, s := range []string{"one", "two", "three"} {
		if err := q.Append([]byte(s)); err != nil {
			t.Fatal(err)
		}
	}
	if q.Empty() {
		t.Fatal("empty before advance")
	}
	if _, err := q.Current(); err != nil {
		t.Fatal(err)
	}
	if err := q.Advance(); err != nil {
		t.Fatal(err)
	}
	if q.Empty() {
		t.Fatal("Empty() == true with two blocks pending")
	}
}

// Blocks accepted on the buffered path must survive a clean Close/reopen.
func TestZZ_QueueBufferedSurvivesClose(t *testing.T) {
	dir := t.TempDir()
	q, _ := newQueue(dir, 1<<30, 100)
	if err := q.Open(); err != nil {
		t.Fatal(err)
	}
	// occupy 10 limiter slots so the next append takes the buffered path and is not flushed by the deferred hook
	for i := 0; i < 10; i++ {
		q.limiter.TryTake()
	}
	if err := q.Append([]byte("buffered")); err != nil {
		t.Fatal(err)
	}
	for i := 0; i < 10; i++ {
		q.limiter.Release()
	}
	if err := q.Close(); err != nil {
		t.Fatal(err)
	}
	q2, _ := newQueue(dir, 1<<30, 100)
	if err := q2.Open(); err != nil {
		t.Fatal(err)
	}
	defer q2.Close()
	b, err := q2.Current()
	if err != nil || string(b) != "buffered" {
		t.Fatalf("accepted block lost by Close: %q %v", b, err)
	}
	_ = sync.Mutex{}
}
