package tsm1

import (
	"os"
	"path/filepath"
	"testing"
)

// Torn tail, recovery, further acknowledged writes, second restart.
func TestZZ_WALTailSecondRestart(t *testing.T) {
	dir := t.TempDir()
	open := func() (*WAL, *Cache) {
		w := NewWAL(dir)
		if err := w.Open(); err != nil {
			t.Fatal(err)
		}
		files, _ := segmentFileNames(dir)
		c := NewCache(0)
		if err := NewCacheLoader(files).Load(c); err != nil {
			t.Fatal(err)
		}
		return w, c
	}
	w, _ := open()
	if _, err := w.WriteMulti(map[string][]Value{"cpu,host=A#!~#v": {NewValue(1, 1.0)}}); err != nil {
		t.Fatal(err)
	}
	w.Close()
	// crash left a torn, never acknowledged entry at the tail
	files, _ := segmentFileNames(dir)
	f, _ := os.OpenFile(files[len(files)-1], os.O_WRONLY|os.O_APPEND, 0666)
	f.Write([]byte{1, 0, 0, 0, 50, 1, 2, 3, 4, 5, 6, 7})
	f.Close()
	// restart 1: same order as Engine.Open (WAL.Open, then reload)
	w, c := open()
	if got := len(c.Values([]byte("cpu,host=A#!~#v"))); got != 1 {
		t.Fatalf("restart 1: %d values", got)
	}
	if _, err := w.WriteMulti(map[string][]Value{"cpu,host=A#!~#v": {NewValue(2, 2.0)}}); err != nil {
		t.Fatal(err)
	}
	w.Close()
	// restart 2
	w, c = open()
	defer w.Close()
	if got := len(c.Values([]byte("cpu,host=A#!~#v"))); got != 2 {
		st, _ := os.Stat(filepath.Join(dir, filepath.Base(files[len(files)-1])))
		t.Fatalf("restart 2: acknowledged write lost: %d values (segment size %d)", got, st.Size())
	}
}
