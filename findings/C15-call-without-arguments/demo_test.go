// Demonstration for fix 61be181 (C15): copy into tsdb/engine/tsm1/ (package tsm1) and run
//   go test -vet=off -count=1 -run TestDemoCreateIteratorForCallWithoutArguments ./tsdb/engine/tsm1/
// Fails on 61be181^ (index out of range in Engine.CreateIterator), passes on 61be181.
package tsm1

import (
	"context"
	"fmt"
	"io"
	"os"
	"path/filepath"
	"sort"
	"testing"
	"time"

	"github.com/influxdata/influxdb/models"
	"github.com/influxdata/influxdb/query"
	"github.com/influxdata/influxdb/tsdb"
	"github.com/influxdata/influxdb/tsdb/index/inmem"
	"github.com/influxdata/influxql"
	"go.uber.org/zap"
)

// A CreateIterator request from another node carries its expression as text; `count()` parses. The engine must answer
// it with an error: an index into the empty argument list panics in the connection handler's goroutine, which nothing
// recovers, and the data node dies.
func TestDemoCreateIteratorForCallWithoutArguments(t *testing.T) {
	base, err := os.MkdirTemp("", "demo-noargs-")
	if err != nil {
		t.Fatal(err)
	}
	defer os.RemoveAll(base)
	s0 := seedSCOpen(t, filepath.Join(base, "run0"), nil)
	defer s0.close()
	if err := s0.sh.WritePoints(seedSCPoints("A", 1, 3, 1.5)); err != nil {
		t.Fatal(err)
	}
	for _, expr := range []string{"count()", "first()", "mean()"} {
		func() {
			defer func() {
				if r := recover(); r != nil {
					t.Errorf("CreateIterator(%s) panicked: %v", expr, r)
				}
			}()
			itr, err := s0.sh.CreateIterator(context.Background(), &influxql.Measurement{Name: "cpu"}, query.IteratorOptions{
				Expr: influxql.MustParseExpr(expr), Dimensions: []string{"host"}, StartTime: influxql.MinTime, EndTime: influxql.MaxTime, Ascending: true,
			})
			if err == nil {
				if itr != nil {
					itr.Close()
				}
				t.Errorf("CreateIterator(%s) returned no error", expr)
			}
		}()
	}
}

type seedSCIDSets []*tsdb.SeriesIDSet

func (a seedSCIDSets) ForEach(f func(ids *tsdb.SeriesIDSet)) error {
	for _, v := range a {
		f(v)
	}
	return nil
}

type seedSCShard struct {
	sfile *tsdb.SeriesFile
	sh    *tsdb.Shard
}

func (s *seedSCShard) engine(t *testing.T) *Engine {
	e, err := s.sh.Engine()
	if err != nil {
		t.Fatal(err)
	}
	return e.(*Engine)
}

func (s *seedSCShard) close() {
	s.sh.Close()
	s.sfile.Close()
}

func seedSCOpen(t *testing.T, root string, obs tsdb.FileStoreObserver) *seedSCShard {
	t.Helper()
	sfile := tsdb.NewSeriesFile(filepath.Join(root, "data", "db", "_series"))
	sfile.Logger = zap.NewNop()
	if err := sfile.Open(); err != nil {
		t.Fatalf("open series file: %v", err)
	}

	opts := tsdb.NewEngineOptions()
	opts.Config.WALDir = filepath.Join(root, "wal")
	opts.InmemIndex = inmem.NewIndex("db", sfile)
	opts.SeriesIDSets = seedSCIDSets{}
	if obs != nil {
		opts.FileStoreObserver = obs
	}

	sh := tsdb.NewShard(1,
		filepath.Join(root, "data", "db", "rp", "1"),
		filepath.Join(root, "wal", "db", "rp", "1"),
		sfile, opts)
	// No background work: the test drives snapshots itself.
	sh.CompactionDisabled = true
	if err := sh.Open(); err != nil {
		t.Fatalf("open shard at %s: %v", root, err)
	}
	return &seedSCShard{sfile: sfile, sh: sh}
}

func seedSCPoints(host string, from, to int, v float64) []models.Point {
	var pts []models.Point
	for i := from; i <= to; i++ {
		pts = append(pts, models.MustNewPoint("cpu",
			models.NewTags(map[string]string{"host": host}),
			map[string]interface{}{"value": v + float64(i)},
			time.Unix(int64(i), 0)))
	}
	return pts
}

// seedSCRead returns every (host@time -> value) the shard returns for field of measurement name.
func seedSCRead(t *testing.T, sh *tsdb.Shard, name, field string) map[string]interface{} {
	t.Helper()
	got := map[string]interface{}{}
	itr, err := sh.CreateIterator(context.Background(), &influxql.Measurement{Name: name}, query.IteratorOptions{
		Expr:       influxql.MustParseExpr(field),
		Dimensions: []string{"host"},
		StartTime:  influxql.MinTime,
		EndTime:    influxql.MaxTime,
		Ascending:  true,
	})
	if err != nil {
		t.Fatalf("create iterator: %v", err)
	}
	if itr == nil {
		return got
	}
	defer itr.Close()
	switch itr := itr.(type) {
	case query.FloatIterator:
		for {
			p, err := itr.Next()
			if err != nil {
				t.Fatalf("iterate: %v", err)
			}
			if p == nil {
				break
			}
			got[fmt.Sprintf("%s@%d", p.Tags.Value("host"), p.Time)] = p.Value
		}
	case query.StringIterator:
		for {
			p, err := itr.Next()
			if err != nil {
				t.Fatalf("iterate: %v", err)
			}
			if p == nil {
				break
			}
			got[fmt.Sprintf("%s@%d", p.Tags.Value("host"), p.Time)] = p.Value
		}
	default:
		t.Fatalf("unexpected iterator type %T", itr)
	}
	return got
}

// seedSCMissing returns a description of every expected point that the shard does
// not return with exactly the written value.
func seedSCMissing(t *testing.T, sh *tsdb.Shard, field string, exp []models.Point) []string {
	t.Helper()
	if len(exp) == 0 {
		return nil
	}
	got := seedSCRead(t, sh, string(exp[0].Name()), field)
	var missing []string
	for _, p := range exp {
		k := fmt.Sprintf("%s@%d", p.Tags().GetString("host"), p.Time().UnixNano())
		fields, _ := p.Fields()
		if v, ok := got[k]; !ok {
			missing = append(missing, k+" absent")
		} else if v != fields[field] {
			missing = append(missing, k+" has a different value")
		}
	}
	sort.Strings(missing)
	return missing
}

func seedSCCopyTree(src, dst string) error {
	return filepath.Walk(src, func(path string, info os.FileInfo, err error) error {
		if err != nil {
			// files may disappear while we walk a live directory
			if os.IsNotExist(err) {
				return nil
			}
			return err
		}
		rel, err := filepath.Rel(src, path)
		if err != nil {
			return err
		}
		target := filepath.Join(dst, rel)
		if info.IsDir() {
			return os.MkdirAll(target, 0777)
		}
		if !info.Mode().IsRegular() {
			return nil
		}
		in, err := os.Open(path)
		if err != nil {
			if os.IsNotExist(err) {
				return nil
			}
			return err
		}
		defer in.Close()
		out, err := os.Create(target)
		if err != nil {
			return err
		}
		if _, err := io.Copy(out, in); err != nil {
			out.Close()
			return err
		}
		return out.Close()
	})
}
