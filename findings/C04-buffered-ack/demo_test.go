package hh

import (
	"os"
	"path/filepath"
	"testing"
)

// An append acknowledged on the buffered path is not on disk: a crash right after the
// acknowledgement (simulated by copying the queue directory) loses it.
func TestZZ_BufferedAppendAckedBeforeDurable(t *testing.T) {
	dir := t.TempDir()
	q, _ := newQueue(dir, 1<<30, 100)
	if err := q.Open(); err != nil {
		t.Fatal(err)
	}
	defer q.Close()
	for i := 0; i < 10; i++ { // ten writers in flight => buffered path
		q.limiter.TryTake()
	}
	if err := q.Append([]byte("acked")); err != nil {
		t.Fatal(err)
	}
	// crash image taken after Append returned nil
	crash := t.TempDir()
	ents, _ := os.ReadDir(dir)
	for _, e := range ents {
		b, _ := os.ReadFile(filepath.Join(dir, e.Name()))
		os.WriteFile(filepath.Join(crash, e.Name()), b, 0600)
	}
	q2, _ := newQueue(crash, 1<<30, 100)
	if err := q2.Open(); err != nil {
		t.Fatal(err)
	}
	defer q2.Close()
	b, err := q2.Current()
	if err != nil || string(b) != "acked" {
		t.Fatalf("append that had returned nil is not in the crash image: %q %v", b, err)
	}
}
