package core

import (
	"fmt"
	"go/ast"
	"go/token"
	"go/types"
	"os"
	"strings"
)

// Rule G11: bounded use of decoded lengths.
// A "wire length" is a variable whose value comes from bytes that were read from a
// connection, file or buffer: the target of encoding/binary.Read, or the result of
// binary.<order>.UintNN / binary.Uvarint / binary.Varint (possibly through integer
// conversions). Every use of a wire length as an allocation size (make), slice bound or
// index must be guarded on every path: signed lengths by a lower-bound test, and all
// lengths by an upper-bound test (for slicing: against len/cap of the sliced value).

// BoundsUse is one use of a wire length.
type BoundsUse struct {
	Fn      *FuncInfo
	Ev      *Event
	Var     *types.Var
	Kind    string // "make", "slice-high", "slice-low", "index"
	Base    string // sliced expression (for slice/index uses)
	LowerOK bool
	UpperOK bool
	Detail  string
}

func isBinaryDecodeCall(info *types.Info, ce *ast.CallExpr) bool {
	fn, ok := Callee(info, ce).(*types.Func)
	if !ok || fn.Pkg() == nil || fn.Pkg().Path() != "encoding/binary" {
		return false
	}
	switch fn.Name() {
	case "Uint16", "Uint32", "Uint64", "Uvarint", "Varint", "ReadUvarint", "ReadVarint":
		return true
	}
	return false
}

// wireVars computes the wire-derived integer variables of f.
func wireVars(f *FuncInfo) map[*types.Var]bool {
	info := f.Info()
	w := map[*types.Var]bool{}
	var derives func(x ast.Expr) bool
	derives = func(x ast.Expr) bool {
		x = ast.Unparen(x)
		switch e := x.(type) {
		case *ast.CallExpr:
			if isBinaryDecodeCall(info, e) {
				return true
			}
			if tv, ok := info.Types[e.Fun]; ok && tv.IsType() && len(e.Args) == 1 {
				return derives(e.Args[0])
			}
		case *ast.Ident:
			if v, ok := info.ObjectOf(e).(*types.Var); ok {
				return w[v]
			}
		}
		return false
	}
	changed := true
	for changed {
		changed = false
		ast.Inspect(f.Body, func(nd ast.Node) bool {
			switch s := nd.(type) {
			case *ast.FuncLit:
				return false
			case *ast.AssignStmt:
				if len(s.Rhs) == 1 && len(s.Lhs) > 1 {
					// n, b = int(binary...(b[:4])), b[4:]  is len==len; multi-value call: v, n := binary.Uvarint(b)
					if ce, ok := ast.Unparen(s.Rhs[0]).(*ast.CallExpr); ok && isBinaryDecodeCall(info, ce) {
						if id, ok := s.Lhs[0].(*ast.Ident); ok {
							if v, ok := info.ObjectOf(id).(*types.Var); ok && !w[v] {
								w[v] = true
								changed = true
							}
						}
					}
					return true
				}
				for i, l := range s.Lhs {
					if i >= len(s.Rhs) {
						break
					}
					if id, ok := l.(*ast.Ident); ok && derives(s.Rhs[i]) {
						if v, ok := info.ObjectOf(id).(*types.Var); ok && !w[v] {
							w[v] = true
							changed = true
						}
					}
				}
			case *ast.ValueSpec:
				for i, nm := range s.Names {
					if i < len(s.Values) && derives(s.Values[i]) {
						if v, ok := info.ObjectOf(nm).(*types.Var); ok && !w[v] {
							w[v] = true
							changed = true
						}
					}
				}
			case *ast.CallExpr:
				// binary.Read(r, order, &v)
				if fn, ok := Callee(info, s).(*types.Func); ok && fn.Pkg() != nil && fn.Pkg().Path() == "encoding/binary" && fn.Name() == "Read" && len(s.Args) == 3 {
					if u, ok := ast.Unparen(s.Args[2]).(*ast.UnaryExpr); ok && u.Op == token.AND {
						if id, ok := ast.Unparen(u.X).(*ast.Ident); ok {
							if v, ok := info.ObjectOf(id).(*types.Var); ok && !w[v] {
								if b, ok := v.Type().Underlying().(*types.Basic); ok && b.Info()&types.IsInteger != 0 {
									w[v] = true
									changed = true
								}
							}
						}
					}
				}
			}
			return true
		})
	}
	return w
}

type atomFact struct {
	x   ast.Expr
	val bool
}

// implied decomposes the outcome of a condition into outcomes of its atoms.
func implied(c ast.Expr, val bool, out *[]atomFact) {
	c = ast.Unparen(c)
	switch e := c.(type) {
	case *ast.UnaryExpr:
		if e.Op == token.NOT {
			implied(e.X, !val, out)
			return
		}
	case *ast.BinaryExpr:
		if e.Op == token.LAND && val {
			implied(e.X, true, out)
			implied(e.Y, true, out)
			return
		}
		if e.Op == token.LOR && !val {
			implied(e.X, false, out)
			implied(e.Y, false, out)
			return
		}
		if e.Op == token.LAND || e.Op == token.LOR {
			return
		}
	}
	*out = append(*out, atomFact{c, val})
}

func mentionsVar(info *types.Info, x ast.Expr, v *types.Var) bool {
	found := false
	ast.Inspect(x, func(n ast.Node) bool {
		if id, ok := n.(*ast.Ident); ok && info.ObjectOf(id) == types.Object(v) {
			found = true
		}
		return !found
	})
	return found
}

func isZeroConst(info *types.Info, x ast.Expr) bool {
	tv, ok := info.Types[x]
	return ok && tv.Value != nil && tv.Value.ExactString() == "0"
}

// guardKind classifies what an atom with outcome val establishes about v:
// "lower" (v >= 0), "upper:<bound expr>" (v <= / < bound), or "".
func guardKind(info *types.Info, a atomFact, v *types.Var, narrowDef bool) (lower bool, upper string) {
	be, ok := ast.Unparen(a.x).(*ast.BinaryExpr)
	if !ok {
		return false, ""
	}
	l, r := be.X, be.Y
	op := be.Op
	lm, rm := mentionsVar(info, l, v), mentionsVar(info, r, v)
	if lm == rm {
		return false, ""
	}
	if rm { // put v on the left
		l, r = r, l
		switch op {
		case token.LSS:
			op = token.GTR
		case token.GTR:
			op = token.LSS
		case token.LEQ:
			op = token.GEQ
		case token.GEQ:
			op = token.LEQ
		}
	}
	if !a.val { // negate
		switch op {
		case token.LSS:
			op = token.GEQ
		case token.GEQ:
			op = token.LSS
		case token.GTR:
			op = token.LEQ
		case token.LEQ:
			op = token.GTR
		case token.EQL:
			op = token.NEQ
		case token.NEQ:
			op = token.EQL
		}
	}
	// now: (expr over v) op r   holds
	// a guard that does arithmetic on the length (n+4 > len(b)) bounds n only if the arithmetic cannot wrap:
	// it must be evaluated in int/int64/uint64 while v itself has at most 32 significant bits
	// (an int from binary.Uint32, or a uint8/16/32 widened before the addition).
	if hasArith(l) {
		if b, ok := info.TypeOf(l).Underlying().(*types.Basic); ok {
			switch b.Kind() {
			case types.Int, types.Int64, types.Uint, types.Uint64, types.Uintptr, types.UntypedInt:
				if !narrowDef && !narrowSource(info, l, v) {
					return false, ""
				}
			default:
				return false, ""
			}
		}
	}
	switch op {
	case token.GEQ, token.GTR:
		if isZeroConst(info, r) || (op == token.GTR && types.ExprString(r) == "-1") {
			return true, ""
		}
	case token.LSS, token.LEQ:
		return false, types.ExprString(r)
	case token.EQL:
		// v == const establishes both
		if tv, ok := info.Types[r]; ok && tv.Value != nil {
			return true, types.ExprString(r)
		}
		return false, types.ExprString(r)
	}
	return false, ""
}

// CheckBounds analyses one function (not its nested literals).
func CheckBounds(f *FuncInfo) ([]*BoundsUse, error) {
	if f.Body == nil {
		return nil, nil
	}
	info := f.Info()
	w := wireVars(f)
	if len(w) == 0 {
		return nil, nil
	}
	// collect uses per event
	type rawUse struct {
		ev   *Event
		v    *types.Var
		kind string
		base string
	}
	var raws []rawUse
	varOf := func(x ast.Expr) *types.Var {
		var res *types.Var
		ast.Inspect(x, func(n ast.Node) bool {
			if id, ok := n.(*ast.Ident); ok {
				if v, ok := info.ObjectOf(id).(*types.Var); ok && w[v] && res == nil {
					res = v
				}
			}
			return true
		})
		return res
	}
	for _, e := range f.Graph().Events {
		if e.Node == nil {
			continue
		}
		switch e.Kind {
		case EvCall:
			if b, ok := e.Callee.(*types.Builtin); ok && b.Name() == "make" {
				for _, a := range e.Call.Args[1:] {
					if v := varOf(a); v != nil {
						raws = append(raws, rawUse{e, v, "make", ""})
					}
				}
			}
		}
		// slice / index expressions directly inside this event's node (not inside nested calls handled separately is fine: position attribution is the statement)
		if e.Kind == EvCall || e.Kind == EvDeferred {
			continue
		}
		ast.Inspect(e.Node, func(n ast.Node) bool {
			switch x := n.(type) {
			case *ast.FuncLit:
				return false
			case *ast.SliceExpr:
				base := types.ExprString(x.X)
				if x.High != nil {
					if v := varOf(x.High); v != nil {
						raws = append(raws, rawUse{e, v, "slice-high", base})
					}
				}
				if x.Low != nil {
					if v := varOf(x.Low); v != nil {
						raws = append(raws, rawUse{e, v, "slice-low", base})
					}
				}
			case *ast.IndexExpr:
				if t := info.TypeOf(x.X); t != nil {
					if _, isMap := t.Underlying().(*types.Map); isMap {
						return true
					}
				}
				if v := varOf(x.Index); v != nil {
					raws = append(raws, rawUse{e, v, "index", types.ExprString(x.X)})
				}
			}
			return true
		})
	}
	if len(raws) == 0 {
		return nil, nil
	}
	uses := map[string]*BoundsUse{}
	key := func(r rawUse) string { return fmt.Sprintf("%d/%s/%s/%s", r.ev.ID, r.v.Name(), r.kind, r.base) }
	for _, r := range raws {
		uses[key(r)] = &BoundsUse{Fn: f, Ev: r.ev, Var: r.v, Kind: r.kind, Base: r.base, LowerOK: true, UpperOK: true}
	}
	fl := f.Flow()
	visited := map[string]bool{}
	// guard helpers: a call H(.., v, ..) of a repository function that returns an error; when it returned nil on this
	// path, v has the bounds that every nil-returning path of H establishes for the corresponding parameter
	helperArg := func(ce *ast.CallExpr) (*FuncInfo, map[int]*types.Var) {
		fn, ok := Callee(info, ce).(*types.Func)
		if !ok {
			return nil, nil
		}
		h := f.Prog.FuncOf(fn)
		if h == nil || h.Decl == nil || h.ErrResultIndex() < 0 || h == f.Root() {
			return nil, nil
		}
		args := map[int]*types.Var{}
		for i, a := range ce.Args {
			x := ast.Unparen(a)
			for {
				c2, isCall := x.(*ast.CallExpr)
				if !isCall || len(c2.Args) != 1 {
					break
				}
				if tv, has := info.Types[c2.Fun]; !has || !tv.IsType() {
					break
				}
				x = ast.Unparen(c2.Args[0])
			}
			if id, ok := x.(*ast.Ident); ok {
				if v, ok := info.ObjectOf(id).(*types.Var); ok && w[v] {
					args[i] = v
				}
			}
		}
		if len(args) == 0 {
			return nil, nil
		}
		return h, args
	}
	complete := fl.ExplorePaths(func(k VarKey, fct Fact) bool {
		if k.Root == nil && strings.HasPrefix(k.Path, "cond:") && fct.Def != nil {
			for v := range w {
				if mentionsVar(info, fct.Def, v) {
					return true
				}
			}
		}
		// the error variable of a guard helper call, and the recorded outcome of that call
		if ce, ok := fct.Def.(*ast.CallExpr); ok {
			if h, _ := helperArg(ce); h != nil {
				return true
			}
		}
		return false
	}, func(e *Event, st State) {
		for _, r := range raws {
			if r.ev != e {
				continue
			}
			u := uses[key(r)]
			visited[key(r)] = true
			var atoms []atomFact
			for k, fct := range st {
				if k.Root == nil && strings.HasPrefix(k.Path, "cond:") && fct.Def != nil && fct.Bool != 0 {
					implied(fct.Def, fct.Bool == 1, &atoms)
				}
			}
			lower, upper := false, false
			if b, ok := r.v.Type().Underlying().(*types.Basic); ok && b.Info()&types.IsUnsigned != 0 {
				lower = true
				// an allocation sized by an unsigned value of at most 32 bits is bounded by the type (< 4 GiB)
				if r.kind == "make" && (b.Kind() == types.Uint8 || b.Kind() == types.Uint16 || b.Kind() == types.Uint32) {
					upper = true
				}
			}
			// a value converted from an unsigned decode (int(binary.Uint32)) cannot be negative on 64-bit; the
			// variable's own type decides here: `n := int(binary.BigEndian.Uint32(...))` is int but non-negative.
			if defIsUnsignedNarrow(f, r.v) {
				lower = true
			}
			for _, a := range atoms {
				lo, up := guardKind(info, a, r.v, defIsUnsignedNarrow(f, r.v))
				if lo {
					lower = true
				}
				if up != "" {
					switch r.kind {
					case "make":
						upper = true
					default:
						// must bound against the sliced value's length
						if strings.Contains(up, "len("+r.base+")") || strings.Contains(up, "cap("+r.base+")") || up == "len("+r.base+")" {
							upper = true
						}
						if strings.Contains(types.ExprString(a.x), "len("+r.base+")") {
							upper = true
						}
					}
				}
			}
			// guard helpers that returned nil on this path
			for k, fct := range st {
				if k.Root != nil || !strings.HasPrefix(k.Path, "ok:") {
					continue
				}
				ce, ok := fct.Def.(*ast.CallExpr)
				if !ok {
					continue
				}
				h, args := helperArg(ce)
				if h == nil {
					continue
				}
				for i, av := range args {
					if av != r.v {
						continue
					}
					lo, up := guardSummary(h, i)
					if lo {
						lower = true
					}
					if up && r.kind == "make" {
						upper = true
					}
				}
			}
			if !lower {
				u.LowerOK = false
			}
			if !upper {
				u.UpperOK = false
			}
		}
	})
	if !complete {
		return nil, fmt.Errorf("exploration bound exceeded in %s", f.Name)
	}
	var out []*BoundsUse
	for k, u := range uses {
		if !visited[k] {
			continue // unreachable use
		}
		out = append(out, u)
	}
	return out, nil
}

var guardSummaryCache = map[string][2]bool{}

// guardSummary: what every nil-returning path of the error-returning function h establishes about its i-th
// parameter: a lower bound (>= 0) and an upper bound (compared against anything; only used for allocation sizes).
func guardSummary(h *FuncInfo, i int) (lower, upper bool) {
	key := fmt.Sprintf("%s#%d", h.Name, i)
	if v, ok := guardSummaryCache[key]; ok {
		return v[0], v[1]
	}
	guardSummaryCache[key] = [2]bool{false, false}
	info := h.Info()
	var pv *types.Var
	k := 0
	for _, fld := range h.Decl.Type.Params.List {
		for _, nm := range fld.Names {
			if k == i {
				pv, _ = info.Defs[nm].(*types.Var)
			}
			k++
		}
		if len(fld.Names) == 0 {
			k++
		}
	}
	if pv == nil || assignCount(h, info, pv) > 0 {
		return false, false
	}
	lower, upper = true, true
	typeLower := false
	if b, ok := pv.Type().Underlying().(*types.Basic); ok && b.Info()&types.IsUnsigned != 0 {
		typeLower = true
	}
	seen := 0
	complete := h.Flow().ExplorePaths(func(k VarKey, fct Fact) bool {
		return k.Root == nil && strings.HasPrefix(k.Path, "cond:") && fct.Def != nil && mentionsVar(info, fct.Def, pv)
	}, func(e *Event, st State) {
		if e.Kind != EvReturn {
			return
		}
		fact, _ := h.ReturnErrFact(e)
		if fact.Nil == NonNil {
			return
		}
		seen++
		var atoms []atomFact
		for k, fct := range st {
			if k.Root == nil && strings.HasPrefix(k.Path, "cond:") && fct.Def != nil && fct.Bool != 0 {
				implied(fct.Def, fct.Bool == 1, &atoms)
			}
		}
		lo, up := typeLower, false
		for _, a := range atoms {
			l, u := guardKind(info, a, pv, false)
			if l {
				lo = true
			}
			if u != "" {
				up = true
			}
		}
		if !lo {
			lower = false
		}
		if !up {
			upper = false
		}
	})
	if os.Getenv("VERIFCHECK_DEBUG") != "" {
		fmt.Fprintf(os.Stderr, "guardSummary %s#%d complete=%v seen=%d lower=%v upper=%v\n", h.Name, i, complete, seen, lower, upper)
	}
	if !complete || seen == 0 {
		lower, upper = false, false
	}
	guardSummaryCache[key] = [2]bool{lower, upper}
	return
}

// defIsUnsignedNarrow: every definition of v is a conversion of a binary.UintNN result with NN < 64
// (or a Uvarint), so the value is non-negative when held in an int on 64-bit platforms.
func defIsUnsignedNarrow(f *FuncInfo, v *types.Var) bool {
	info := f.Info()
	ok := true
	n := 0
	check := func(x ast.Expr) {
		n++
		x = ast.Unparen(x)
		for {
			ce, isCall := x.(*ast.CallExpr)
			if !isCall {
				ok = false
				return
			}
			if tv, has := info.Types[ce.Fun]; has && tv.IsType() && len(ce.Args) == 1 {
				x = ast.Unparen(ce.Args[0])
				continue
			}
			fn, _ := Callee(info, ce).(*types.Func)
			if fn == nil || fn.Pkg() == nil || fn.Pkg().Path() != "encoding/binary" || (fn.Name() != "Uint16" && fn.Name() != "Uint32") {
				ok = false
			}
			return
		}
	}
	ast.Inspect(f.Body, func(nd ast.Node) bool {
		if as, isAs := nd.(*ast.AssignStmt); isAs && len(as.Lhs) == len(as.Rhs) {
			for i, l := range as.Lhs {
				if id, isId := l.(*ast.Ident); isId && info.ObjectOf(id) == types.Object(v) {
					check(as.Rhs[i])
				}
			}
		}
		return true
	})
	return ok && n > 0
}

// hasArith reports whether x contains +, -, * or << (a guard over such an expression may wrap).
func hasArith(x ast.Expr) bool {
	found := false
	ast.Inspect(x, func(n ast.Node) bool {
		if be, ok := n.(*ast.BinaryExpr); ok {
			switch be.Op {
			case token.ADD, token.SUB, token.MUL, token.SHL:
				found = true
			}
		}
		return !found
	})
	return found
}

// narrowSource: v's own type has at most 32 bits and every arithmetic node of x that mentions v is
// evaluated in a 64-bit type (v was widened before the arithmetic).
func narrowSource(info *types.Info, x ast.Expr, v *types.Var) bool {
	b, ok := v.Type().Underlying().(*types.Basic)
	if !ok {
		return false
	}
	switch b.Kind() {
	case types.Uint8, types.Uint16, types.Uint32, types.Int8, types.Int16, types.Int32:
	default:
		return false
	}
	good := true
	ast.Inspect(x, func(n ast.Node) bool {
		be, ok := n.(*ast.BinaryExpr)
		if !ok || !mentionsVar(info, be, v) {
			return true
		}
		switch be.Op {
		case token.ADD, token.SUB, token.MUL, token.SHL:
			if tb, ok := info.TypeOf(be).Underlying().(*types.Basic); !ok || tb.Kind() != types.Int && tb.Kind() != types.Int64 && tb.Kind() != types.Uint64 && tb.Kind() != types.Uint {
				good = false
			}
		}
		return true
	})
	return good
}
