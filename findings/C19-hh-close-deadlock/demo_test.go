// Demonstration for fix 4798f4e (C19): copy into services/hh/ (package hh) and run
//   go test -vet=off -count=1 -run TestDemoCloseDoesNotDeadlockWithPurger ./services/hh/
// Fails on 4798f4e^ (Close hangs), passes on 4798f4e.
package hh

import (
	"testing"
	"time"

	"github.com/influxdata/influxdb/toml"
)

// Service.Close closes the closing channel and then waits for the purger goroutine. The purger takes the service
// mutex on every tick. If a tick is taken when Close already holds the mutex, the purger blocks on the mutex and Close
// blocks on the purger. A short purge interval makes the schedule likely; shutting a service down must always finish.
func TestDemoCloseDoesNotDeadlockWithPurger(t *testing.T) {
	for i := 0; i < 200; i++ {
		cfg := NewConfig()
		cfg.Dir = t.TempDir()
		cfg.PurgeInterval = toml.Duration(50 * time.Microsecond)
		s := NewService(cfg, nil)
		s.MetaClient = nil
		if err := s.Open(); err != nil {
			t.Fatal(err)
		}
		time.Sleep(time.Millisecond)
		done := make(chan error, 1)
		go func() { done <- s.Close() }()
		select {
		case err := <-done:
			if err != nil {
				t.Fatal(err)
			}
		case <-time.After(5 * time.Second):
			t.Fatalf("round %d: Service.Close did not return within 5s: it waits for the purger while holding the mutex the purger is blocked on", i)
		}
	}
}
