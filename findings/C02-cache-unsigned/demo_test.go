package tsm1

import (
	"testing"

	"github.com/influxdata/influxdb/tsdb"
)

// A field never holds values of two types: the cache must reject a float written to a key that
// already holds unsigned values, exactly as it does for every other pair of types.
func TestZZ_CacheRejectsTypeConflictWithUnsigned(t *testing.T) {
	for _, first := range []Value{NewIntegerValue(1, 1), NewUnsignedValue(1, 1)} {
		c := NewCache(0)
		if err := c.Write([]byte("cpu,host=a#!~#v"), []Value{first}); err != nil {
			t.Fatal(err)
		}
		err := c.Write([]byte("cpu,host=a#!~#v"), []Value{NewFloatValue(2, 2.5)})
		if err != tsdb.ErrFieldTypeConflict {
			t.Errorf("first value %T: writing a float to the same key returned %v, want ErrFieldTypeConflict", first, err)
		}
	}
}
