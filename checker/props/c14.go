package props

import (
	"fmt"
	"go/ast"
	"go/token"
	"go/types"
	"strings"

	"verifcheck/core"
)

func init() {
	register("C14", core.PropertyMeta{
		Explanation: "Decides structural clauses of C14; that the index answers equal the written-and-not-dropped series after arbitrary histories, and that the two index types agree, are statements about run-time state and are NOT decided. " +
			"D1 series are indexed before their points are written: in Shard.WritePointsWithContext every path to the engine write passes validateSeriesAndFields, and an error of CreateSeriesListIfNotExists is never dropped; " +
			"D2 the index is rebuilt at open: the engine is published in the shard (s._engine) only after the index Open, Engine.Open and LoadMetadataIndex returned nil; in LoadMetadataIndex every batch scan (file keys, cache keys) is followed on every path by the flush of the partial last batch, and no error of addToIndexFromKey is dropped; " +
			"D3 existence and tombstone sets of a TSI log file stay complementary: wherever an id is added to one of LogFile.seriesIDSet / tombstoneSeriesIDSet it is removed from the other in the same branch; " +
			"D4 in-memory back-pointers: wherever a series is attached to a measurement (measurement.AddSeries) the series' Measurement field is that measurement (constructed with it, or assigned before the call); " +
			"D5 a tombstoned series id is never handed out: every path of SeriesIndex.FindIDBySeriesKey that returns a non-zero id tested IsDeleted for it (both the in-memory and the on-disk lookup). " +
			"D6 a delete queues a series for removal from the index only on paths where its key was not crossed out (non-empty) and the flag 'the cache still holds values of it' is false; that the crossing-out passes run first and examine every file is decided under C10 (D1, D7). " +
			"NOT decided: TSI compaction merge semantics, regular-expression predicate evaluation, sketches/cardinality.",
		RuleText:    "obligation = (rule, function, site); must-precede and outcome facts; path-avoidance between batch scan and flush; paired set operations per branch; definition provenance of back-pointers; path exploration with condition facts",
		Assumptions: commonAssumptions,
	}, runC14)
}

func methodCall(e *core.Event, name string) bool {
	if e.Kind != core.EvCall {
		return false
	}
	se, ok := e.Call.Fun.(*ast.SelectorExpr)
	return ok && se.Sel.Name == name
}

func runC14(c *core.Ctx) {
	c.Clause("D1", func() {
		f := c.Fn("tsdb.(*Shard).WritePointsWithContext")
		validate := evCall(calleeIn(f, "tsdb.(*Shard).validateSeriesAndFields"))
		write := func(e *core.Event) bool {
			return methodCall(e, "WritePoints") || methodCall(e, "WritePointsWithContext")
		}
		orderRule(c, f, "indexed-before-written", "validateSeriesAndFields", "engine write", validate, write)
		g := c.Fn("tsdb.(*Shard).validateSeriesAndFields")
		errPropagated(c, g, "index-error-surfaces", "CreateSeriesListIfNotExists", func(ce *ast.CallExpr) bool {
			se, ok := ce.Fun.(*ast.SelectorExpr)
			return ok && se.Sel.Name == "CreateSeriesListIfNotExists"
		})
	})

	c.Clause("D2", func() {
		open := c.Fn("tsdb.(*Shard).openNoLock")
		c.Need(len(open.Lits) >= 1, "openNoLock: opening closure")
		lit := open.Lits[0]
		info := lit.Info()
		engField := c.P.LookupField("tsdb", "Shard", "_engine")
		c.Need(engField != nil, "field Shard._engine")
		publish := func(e *core.Event) bool {
			as, ok := e.Node.(*ast.AssignStmt)
			if !ok || e.Kind != core.EvAssign {
				return false
			}
			for _, l := range as.Lhs {
				if isFieldOf(info, l, engField) {
					return true
				}
			}
			return false
		}
		for _, need := range []struct{ name, method string }{
			{"Index.Open", "Open"}, {"Engine.LoadMetadataIndex", "LoadMetadataIndex"},
		} {
			m := need.method
			okRule(c, lit, "engine-published-after-index-load", need.name, "s._engine = e", func(ce *ast.CallExpr) bool {
				se, ok := ce.Fun.(*ast.SelectorExpr)
				return ok && se.Sel.Name == m
			}, publish)
		}
		// LoadMetadataIndex
		l := c.Fn(tsm1 + ".(*Engine).LoadMetadataIndex")
		scans := findOrAbort(c, l, "batch scans (WalkKeys / ApplyEntryFn)", func(e *core.Event) bool {
			return methodCall(e, "WalkKeys") || methodCall(e, "ApplyEntryFn")
		}, 2)
		linfo := l.Info()
		var keysObj types.Object
		ast.Inspect(l.Body, func(nd ast.Node) bool {
			if as, ok := nd.(*ast.AssignStmt); ok && as.Tok == token.DEFINE && len(as.Lhs) == 1 {
				if id, ok := as.Lhs[0].(*ast.Ident); ok && id.Name == "keys" && keysObj == nil {
					keysObj = linfo.ObjectOf(id)
				}
			}
			return true
		})
		c.Need(keysObj != nil, "LoadMetadataIndex: batch variable keys")
		flushTest := func(e *core.Event) bool {
			if e.Kind != core.EvCond {
				return false
			}
			x, ok := e.Node.(ast.Expr)
			if !ok {
				return false
			}
			be, ok := ast.Unparen(x).(*ast.BinaryExpr)
			if !ok || be.Op != token.GTR && be.Op != token.NEQ {
				return false
			}
			ce, ok := ast.Unparen(be.X).(*ast.CallExpr)
			if !ok || len(ce.Args) != 1 {
				return false
			}
			if b, ok := core.Callee(linfo, ce).(*types.Builtin); !ok || b.Name() != "len" {
				return false
			}
			id, ok := ast.Unparen(ce.Args[0]).(*ast.Ident)
			return ok && linfo.ObjectOf(id) == keysObj
		}
		for i, s := range scans {
			// from the scan, a nil return or the next scan must not be reachable without the remainder test
			var from *core.Event
			for _, sc := range s.Succ {
				from = sc.To
				break
			}
			c.Need(from != nil, "successor of the scan call")
			p := l.Flow().PathAvoiding(s, func(e *core.Event) bool {
				if e == s {
					return false
				}
				if e.Kind == core.EvReturn {
					fact, _ := l.ReturnErrFact(e)
					return fact.Nil != core.NonNil
				}
				return methodCall(e, "WalkKeys") || methodCall(e, "ApplyEntryFn") || methodCall(e, "Save")
			}, flushTest)
			detail := ""
			if p != nil {
				detail = "after this batch scan the function can go on (or return success) without testing for a partial last batch: the last keys scanned (up to a whole batch) are never added to the index, so their series are missing after a restart: " + core.PathStr(p)
			}
			c.Check("partial-batch-flushed", fmt.Sprintf("%s/scan#%d:%s", l.Name, i+1, core.CalleeName(s)), c.P.Pos(s.Pos()), p == nil, detail)
		}
		// the remainder test leads to a flush, and no flush error is dropped
		nFlush := 0
		for _, fn := range append([]*core.FuncInfo{l}, l.Lits...) {
			add := calleeIn(fn, tsm1+".(*Engine).addToIndexFromKey")
			evs := fn.Graph().Find(evCall(add))
			if len(evs) == 0 {
				continue
			}
			nFlush += len(evs)
			errPropagated(c, fn, "index-error-surfaces", "addToIndexFromKey", add)
		}
		c.Floor("addToIndexFromKey calls in LoadMetadataIndex", nFlush, 4)
	})

	c.Clause("D3", func() {
		a := c.P.LookupField("tsdb/index/tsi1", "LogFile", "seriesIDSet")
		b := c.P.LookupField("tsdb/index/tsi1", "LogFile", "tombstoneSeriesIDSet")
		c.Need(a != nil && b != nil, "LogFile.seriesIDSet / tombstoneSeriesIDSet")
		n := 0
		for _, f := range c.P.FuncsIn("tsdb/index/tsi1") {
			if f.Body == nil {
				continue
			}
			info := f.Info()
			type op struct {
				field *types.Var
				add   bool
				arg   string
				pos   token.Pos
			}
			k := 0
			ast.Inspect(f.Body, func(nd ast.Node) bool {
				var list []ast.Stmt
				switch x := nd.(type) {
				case *ast.BlockStmt:
					list = x.List
				case *ast.CaseClause:
					list = x.Body
				default:
					return true
				}
				var ops []op
				for _, s := range list {
					es, ok := s.(*ast.ExprStmt)
					if !ok {
						continue
					}
					ce, ok := es.X.(*ast.CallExpr)
					if !ok || len(ce.Args) != 1 {
						continue
					}
					se, ok := ce.Fun.(*ast.SelectorExpr)
					if !ok {
						continue
					}
					var fld *types.Var
					switch {
					case isFieldOf(info, se.X, a):
						fld = a
					case isFieldOf(info, se.X, b):
						fld = b
					default:
						continue
					}
					switch se.Sel.Name {
					case "Add", "AddNoLock":
						ops = append(ops, op{fld, true, core.ExprStr(ce.Args[0]), ce.Pos()})
					case "Remove", "RemoveNoLock":
						ops = append(ops, op{fld, false, core.ExprStr(ce.Args[0]), ce.Pos()})
					}
				}
				for _, o := range ops {
					if !o.add {
						continue
					}
					k++
					n++
					paired := false
					for _, p := range ops {
						if p.field != o.field && !p.add && p.arg == o.arg {
							paired = true
						}
					}
					other := b.Name()
					if o.field == b {
						other = a.Name()
					}
					c.Check("existence-and-tombstone-sets-complementary", fmt.Sprintf("%s/add#%d:%s", f.Name, k, o.field.Name()), c.P.Pos(o.pos), paired,
						fmt.Sprintf("%s is added to %s without being removed from %s in the same branch: an id in both sets is persisted by the log compaction, and the tombstone of the older generation then hides the live series from every tag predicate", o.arg, o.field.Name(), other))
				}
				return true
			})
		}
		c.Floor("additions to the log file's existence/tombstone sets", n, 2)
	})

	c.Clause("D4", func() {
		mt := c.P.LookupType("tsdb/index/inmem", "measurement")
		c.Need(mt != nil, "type inmem.measurement")
		backField := c.P.LookupField("tsdb/index/inmem", "series", "Measurement")
		c.Need(backField != nil, "field inmem.series.Measurement")
		n := 0
		for _, f := range c.P.FuncsIn("tsdb/index/inmem") {
			if f.Body == nil {
				continue
			}
			info := f.Info()
			k := 0
			for _, e := range f.Graph().Events {
				if !methodCall(e, "AddSeries") || len(e.Call.Args) != 1 {
					continue
				}
				fn, ok := e.Callee.(*types.Func)
				if !ok || !strings.HasSuffix(core.FuncName(fn), "measurement).AddSeries") {
					continue
				}
				k++
				n++
				recv := core.ExprStr(e.Call.Fun.(*ast.SelectorExpr).X)
				arg := e.Call.Args[0]
				good := false
				// (a) constructed with that measurement
				if fact := f.Flow().FactOfExpr(e, arg); fact.Def != nil {
					if ce, ok := ast.Unparen(fact.Def).(*ast.CallExpr); ok {
						if cf, ok := core.Callee(info, ce).(*types.Func); ok && cf.Name() == "newSeries" && len(ce.Args) >= 2 && core.ExprStr(ce.Args[1]) == recv {
							good = true
						}
					}
				}
				// (b) assigned before the call on every path
				if !good {
					argS := core.ExprStr(arg)
					set := func(x *core.Event) bool {
						as, ok := x.Node.(*ast.AssignStmt)
						if !ok || x.Kind != core.EvAssign || len(as.Lhs) != 1 || len(as.Rhs) != 1 {
							return false
						}
						se, ok := as.Lhs[0].(*ast.SelectorExpr)
						return ok && info.Uses[se.Sel] == backField && core.ExprStr(se.X) == argS && core.ExprStr(as.Rhs[0]) == recv
					}
					if len(f.Graph().Find(set)) > 0 {
						viol := f.MustPrecede(set, func(x *core.Event) bool { return x == e })
						good = len(viol) == 0
					}
				}
				c.Check("series-back-pointer-matches-owner", fmt.Sprintf("%s/AddSeries#%d", f.Name, k), c.P.Pos(e.Pos()), good,
					fmt.Sprintf("the series attached to %s keeps a Measurement pointer to another object: drops then empty the stale object and remove the live measurement (or leave the series behind)", recv))
			}
		}
		c.Floor("measurement.AddSeries call sites", n, 2)
	})

	c.Clause("D5", func() {
		f := c.Fn("tsdb.(*SeriesIndex).FindIDBySeriesKey")
		info := f.Info()
		isDel := func(x ast.Expr) bool {
			ce, ok := ast.Unparen(x).(*ast.CallExpr)
			if !ok {
				return false
			}
			se, ok := ce.Fun.(*ast.SelectorExpr)
			return ok && se.Sel.Name == "IsDeleted"
		}
		bad := map[*core.Event]string{}
		seen := map[*core.Event]bool{}
		complete := f.Flow().ExplorePaths(func(k core.VarKey, fct core.Fact) bool {
			return k.Root == nil && strings.HasPrefix(k.Path, "cond:") && fct.Def != nil && strings.Contains(core.ExprStr(fct.Def), "IsDeleted")
		}, func(e *core.Event, st core.State) {
			if e.Kind != core.EvReturn {
				return
			}
			rs, ok := e.Node.(*ast.ReturnStmt)
			if !ok || len(rs.Results) != 1 || isZeroLit(info, rs.Results[0]) {
				return
			}
			seen[e] = true
			// some IsDeleted(<returned id>) test was evaluated to false on this path
			ret := core.ExprStr(rs.Results[0])
			okPath := false
			for k, fct := range st {
				if k.Root != nil || !strings.HasPrefix(k.Path, "cond:") || fct.Def == nil {
					continue
				}
				var atoms []struct {
					x   ast.Expr
					val bool
				}
				var walk func(x ast.Expr, val bool)
				walk = func(x ast.Expr, val bool) {
					x = ast.Unparen(x)
					switch b := x.(type) {
					case *ast.UnaryExpr:
						if b.Op == token.NOT {
							walk(b.X, !val)
							return
						}
					case *ast.BinaryExpr:
						if b.Op == token.LAND && val || b.Op == token.LOR && !val {
							walk(b.X, val)
							walk(b.Y, val)
							return
						}
					}
					atoms = append(atoms, struct {
						x   ast.Expr
						val bool
					}{x, val})
				}
				if fct.Bool == 0 {
					continue
				}
				walk(fct.Def, fct.Bool == 1)
				for _, a := range atoms {
					if isDel(a.x) && !a.val {
						ce := ast.Unparen(a.x).(*ast.CallExpr)
						if len(ce.Args) == 1 && core.ExprStr(ce.Args[0]) == ret {
							okPath = true
						}
					}
				}
			}
			if !okPath {
				bad[e] = "a series id is returned on a path that did not test IsDeleted for it: a dropped series written again gets its old, tombstoned id back and stays filtered out of every listing"
			}
		})
		c.Need(complete, "exploration bound FindIDBySeriesKey")
		k := 0
		for _, e := range f.Graph().Events {
			if !seen[e] {
				continue
			}
			k++
			c.Check("tombstoned-id-never-returned", fmt.Sprintf("%s/return#%d", f.Name, k), c.P.Pos(e.Pos()), bad[e] == "", bad[e])
		}
		c.Floor("non-zero returns of FindIDBySeriesKey", k, 2)
	})

	c.Clause("D6", func() {
		// a series is queued for removal from the index only if it was not crossed out and has no cache values
		f := c.Fn(tsm1 + ".(*Engine).deleteSeriesRange")
		info := f.Info()
		queued := func(e *core.Event) bool {
			as, ok := e.Node.(*ast.AssignStmt)
			if !ok || e.Kind != core.EvAssign || len(as.Lhs) != 1 || len(as.Rhs) != 1 {
				return false
			}
			id, ok := as.Lhs[0].(*ast.Ident)
			if !ok || id.Name != "deleteKeyList" && id.Name != "deleteIDList" {
				return false
			}
			ce, ok := as.Rhs[0].(*ast.CallExpr)
			if !ok {
				return false
			}
			b, ok := core.Callee(info, ce).(*types.Builtin)
			return ok && b.Name() == "append"
		}
		qs := findOrAbort(c, f, "append to the index-removal queue", queued, 2)
		// the key being queued: the value variable of the innermost range loop around the queueing statements
		var keyObj types.Object
		var best token.Pos
		ast.Inspect(f.Body, func(nd ast.Node) bool {
			rs, ok := nd.(*ast.RangeStmt)
			if !ok || !(rs.Pos() <= qs[0].Pos() && qs[0].Pos() < rs.End()) || rs.Pos() < best {
				return true
			}
			if id, ok := rs.Value.(*ast.Ident); ok {
				best = rs.Pos()
				keyObj = info.ObjectOf(id)
			}
			return true
		})
		c.Need(keyObj != nil, "deleteSeriesRange: range variable of the queueing loop")
		// "has cache values" flags: boolean locals set to true under a test of Cache.Values(..)
		cacheFlags := map[types.Object]bool{}
		ast.Inspect(f.Body, func(nd ast.Node) bool {
			ifs, ok := nd.(*ast.IfStmt)
			if !ok || !strings.Contains(core.ExprStr(ifs.Cond), "Cache.Values(") {
				return true
			}
			for _, s := range ifs.Body.List {
				if as, ok := s.(*ast.AssignStmt); ok && len(as.Lhs) == 1 && len(as.Rhs) == 1 && core.ExprStr(as.Rhs[0]) == "true" {
					if id, ok := as.Lhs[0].(*ast.Ident); ok {
						cacheFlags[info.ObjectOf(id)] = true
					}
				}
			}
			return true
		})
		c.Need(len(cacheFlags) >= 1, "deleteSeriesRange: flag set when the cache still holds values of the series")
		// emptyKey(x, val): what the outcome val of atom x says about len(key)==0: 1 = empty, 2 = non-empty, 0 = nothing
		emptyKey := func(x ast.Expr, val bool) int {
			be, ok := ast.Unparen(x).(*ast.BinaryExpr)
			if !ok {
				return 0
			}
			ce, ok := ast.Unparen(be.X).(*ast.CallExpr)
			if !ok || len(ce.Args) != 1 || !isZeroLit(info, be.Y) {
				return 0
			}
			if b, ok := core.Callee(info, ce).(*types.Builtin); !ok || b.Name() != "len" {
				return 0
			}
			if id, ok := ast.Unparen(ce.Args[0]).(*ast.Ident); !ok || info.ObjectOf(id) != keyObj {
				return 0
			}
			isEmpty := false
			switch be.Op {
			case token.EQL:
				isEmpty = val
			case token.NEQ, token.GTR:
				isEmpty = !val
			default:
				return 0
			}
			if isEmpty {
				return 1
			}
			return 2
		}
		mentions := func(x ast.Expr) bool {
			found := false
			ast.Inspect(x, func(nd ast.Node) bool {
				if id, ok := nd.(*ast.Ident); ok && (info.ObjectOf(id) == keyObj || cacheFlags[info.ObjectOf(id)]) {
					found = true
				}
				return !found
			})
			return found
		}
		bad := map[*core.Event]string{}
		complete := f.Flow().ExplorePaths(func(k core.VarKey, fct core.Fact) bool {
			return k.Root == nil && strings.HasPrefix(k.Path, "cond:") && fct.Def != nil && mentions(fct.Def)
		}, func(e *core.Event, st core.State) {
			if !queued(e) {
				return
			}
			var crossed, cache int8
			for k, fct := range st {
				if k.Root != nil || !strings.HasPrefix(k.Path, "cond:") || fct.Def == nil || fct.Bool == 0 {
					continue
				}
				var atoms []atomB
				decompose(fct.Def, fct.Bool == 1, &atoms)
				for _, a := range atoms {
					if r := emptyKey(a.x, a.val); r != 0 {
						crossed = int8(r)
					}
					if id, ok := ast.Unparen(a.x).(*ast.Ident); ok && cacheFlags[info.ObjectOf(id)] {
						if a.val {
							cache = 1
						} else {
							cache = 2
						}
					}
				}
			}
			switch {
			case crossed != 2:
				bad[e] = "a series key is queued for removal from the index on a path where it was not established to be non-empty (keys found in a file or in the cache are crossed out by emptying them)"
			case cache != 2:
				bad[e] = "a series key is queued for removal from the index on a path where the cache was not established to hold no values for it: a series with live points disappears from the index"
			}
		})
		c.Need(complete, "exploration bound deleteSeriesRange")
		for i, q := range qs {
			c.Check("dropped-from-index-only-without-data", fmt.Sprintf("%s/queue#%d", f.Name, i+1), c.P.Pos(q.Pos()), bad[q] == "", bad[q])
		}
	})
}
