// Copy into: tsdb/engine/tsm1
// go test -vet=off -count=1 -run 'TestFinding_FileStoreKeys_RecursiveRLock' ./tsdb/engine/tsm1/
package tsm1

import (
	"sync/atomic"
	"testing"
	"time"
)

// FileStore.Keys takes f.mu.RLock and then calls f.WalkKeys, which takes f.mu.RLock again. sync.RWMutex is not
// re-entrant: when a writer (Replace, Close, ...) asks for the lock between the two read acquisitions, the second
// RLock waits for the writer and the writer waits for the first RLock - the file store is dead for every caller.
func TestFinding_FileStoreKeys_RecursiveRLock(t *testing.T) {
	fs := NewFileStore(t.TempDir())
	var stop int32
	done := make(chan struct{})
	go func() {
		defer close(done)
		for i := 0; i < 2000000 && atomic.LoadInt32(&stop) == 0; i++ {
			fs.Keys()
		}
	}()
	wdone := make(chan struct{})
	go func() {
		defer close(wdone)
		for atomic.LoadInt32(&stop) == 0 {
			// any writer of FileStore.mu; this is what Replace / Close / Open do first
			fs.mu.Lock()
			fs.mu.Unlock()
		}
	}()
	select {
	case <-done:
		atomic.StoreInt32(&stop, 1)
		<-wdone
	case <-time.After(10 * time.Second):
		t.Fatal("FileStore.Keys and a writer of FileStore.mu are deadlocked: Keys read-locks the mutex recursively")
	}
}
