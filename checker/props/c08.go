package props

import (
	"fmt"
	"go/ast"
	"go/token"
	"go/types"
	"strings"

	"verifcheck/core"
)

func init() {
	register("C08", core.PropertyMeta{
		Explanation: "Decides structural clauses of point routing: D1 every selector that picks a shard group by timestamp on the write path (RetentionPolicyInfo.ShardGroupByTimestamp, sgList.ShardGroupAt/Covers) depends on the group's DeletedAt and TruncatedAt (information-flow necessary condition), the metadata selector equals its specification on every weak ordering of its operands, and Covers(t) is ShardGroupAt(t) != nil; " +
			"D2 the shard is chosen by the series key alone: HashID reads only point.key, ShardFor depends only on HashID and len(Shards), every writer of point.key is a canonicalising constructor (frozen table) and the tag sort of the line-protocol scanner covers all tags; " +
			"D3 mapping neither loses nor duplicates a point: on every path through one iteration of MapShards' mapping loop the point is appended to Dropped or mapped exactly once, and every iteration of the group-resolution loop that is not skipped by the guard adds a group or fails the request (a missing group is an error, never a silent drop); " +
			"D4 the retention cut-off is `point time < now - Duration` for finite policies and the guard of the resolution loop is cutoff-or-covered. " +
			"D3 also: the shard pointer kept by MapPoint is the address of a variable of the current iteration. " +
			"NOT decided: agreement between nodes' metadata caches at the moment of the write; the hash function itself.",
		RuleText:    "obligation = (rule, function/site/field); field-dependency closure; exhaustive predicate evaluation; per-iteration path counting; marked path exploration",
		Assumptions: commonAssumptions,
	}, runC08)
}

func runC08(c *core.Ctx) {
	c.Clause("D1", func() {
		trunc := c.P.LookupField(metap, "ShardGroupInfo", "TruncatedAt")
		del := c.P.LookupField(metap, "ShardGroupInfo", "DeletedAt")
		start := c.P.LookupField(metap, "ShardGroupInfo", "StartTime")
		end := c.P.LookupField(metap, "ShardGroupInfo", "EndTime")
		c.Need(trunc != nil && del != nil && start != nil && end != nil, "ShardGroupInfo time fields")
		for _, nm := range []string{metap + ".(*RetentionPolicyInfo).ShardGroupByTimestamp", coord + ".sgList.ShardGroupAt", coord + ".sgList.Covers"} {
			f := c.Fn(nm)
			cl := c.P.Closure([]*core.FuncInfo{f}, core.InPkgs(coord, metap))
			c.Counts["functions_analysed"] += len(cl)
			for _, fv := range []struct {
				v    *types.Var
				what string
			}{{trunc, "TruncatedAt"}, {del, "DeletedAt"}, {start, "StartTime"}, {end, "EndTime"}} {
				reads, _ := core.FieldAccesses(cl, fv.v)
				c.Check("selection-depends-on-liveness", f.Name+"/reads-"+fv.what, f.PosStr(), len(reads) > 0,
					f.Name+" selects a shard group for a timestamp but never reads ShardGroupInfo."+fv.what+": it cannot tell a deleted/truncated group from a live one, so a point at or after a truncation time (or in a deleted group) is routed to the wrong shard")
			}
		}
		// metadata selector truth table (shared with C06-D5)
		pc := &core.PredCompiler{P: c.P}
		f := c.Fn(metap + ".(*RetentionPolicyInfo).ShardGroupByTimestamp")
		// the condition under which a group is returned, as a path condition (guard clauses = nested ifs)
		impl, err := pc.PathCondition(f, func(e *core.Event) bool {
			if e.Kind != core.EvReturn {
				return false
			}
			rs, ok := e.Node.(*ast.ReturnStmt)
			return ok && len(rs.Results) == 1 && !isNilExpr(f.Info(), rs.Results[0])
		}, nil)
		if err != nil {
			c.Check("selector-truth-table", f.Name, f.PosStr(), false, "undecided: "+err.Error())
		} else {
			ren, err := impl.Rename(map[string]string{`\.StartTime$`: "start", `\.EndTime$`: "end", `\.TruncatedAt$`: "trunc", `\.DeletedAt$`: "del", `^\$0$`: "t"})
			if err != nil {
				c.Check("selector-truth-table", f.Name, f.PosStr(), false, "undecided: "+err.Error())
			} else {
				spec := core.And(core.And(core.And(core.Le("start", "t"), core.Lt("t", "end")), core.Zero("del")), core.Or(core.Zero("trunc"), core.Lt("t", "trunc")))
				diff, n, err := core.Equivalent(ren, spec)
				c.Counts["orderings_evaluated"] += n
				c.Check("selector-truth-table", f.Name, f.PosStr(), err == nil && diff == "", fmt.Sprintf("%v %s", err, diff))
			}
		}
		// the per-request acceptance predicate
		if sa := c.P.Fn(coord + ".sgAccepts"); sa != nil {
			x, err := pc.ReturnPredicate(sa)
			if err == nil {
				impl, err := pc.CompileIn(sa, x)
				if err == nil {
					// sgWriteEnd is not a single-return helper: it appears as a term through t.Before(sgWriteEnd(sgi))? it is a call: opaque -> undecided unless inlinable
					_ = impl
				}
			}
		}
		// Covers(t) == (ShardGroupAt(t) != nil)
		cv := c.Fn(coord + ".sgList.Covers")
		at := calleeIn(cv, coord+".sgList.ShardGroupAt")
		k := 0
		for _, e := range cv.Graph().Events {
			if e.Kind != core.EvReturn || !cv.Flow().Reachable(e) {
				continue
			}
			x, _ := cv.ResultExpr(e, 0)
			if x == nil {
				continue
			}
			if tv := cv.Info().Types[x]; tv.Value != nil && tv.Value.String() == "false" {
				continue
			}
			k++
			good := false
			if be, ok := ast.Unparen(x).(*ast.BinaryExpr); ok && be.Op == token.NEQ && isNilExpr(cv.Info(), be.Y) {
				if ce, ok := ast.Unparen(be.X).(*ast.CallExpr); ok && at(ce) && len(ce.Args) == 1 && core.ExprStr(ce.Args[0]) == paramName(cv, 0) {
					good = true
				}
			}
			c.Check("covers-is-lookup", fmt.Sprintf("%s/return#%d", cv.Name, k), c.P.Pos(e.Pos()), good,
				"sgList.Covers must answer `ShardGroupAt(t) != nil`: any coarser test (e.g. the overall span of the list) says 'covered' for a timestamp in a gap between groups, no group is requested for it and the point is reported as dropped")
		}
		c.Floor("Covers returns", k, 1)
	})

	c.Clause("D2", func() {
		keyF := c.P.LookupField("models", "point", "key")
		c.Need(keyF != nil, "field models.point.key")
		h := c.Fn("models.(*point).HashID")
		// HashID reads no other field of point
		st := c.P.LookupType("models", "point").Underlying().(*types.Struct)
		for i := 0; i < st.NumFields(); i++ {
			fld := st.Field(i)
			r, _ := h.AccessesField(fld)
			if fld == keyF {
				c.Check("hash-of-key-only", h.Name+"/reads-key", h.PosStr(), r, "HashID must hash the canonical series key")
			} else {
				c.Check("hash-of-key-only", h.Name+"/ignores-"+fld.Name(), h.PosStr(), !r, "HashID reads point."+fld.Name()+": the shard of a series would depend on more than its key")
			}
		}
		// ShardFor depends only on HashID() and len(Shards)
		sf := c.Fn(metap + ".(*ShardGroupInfo).ShardFor")
		calls := 0
		okCalls := true
		for _, e := range sf.Graph().Events {
			if e.Kind != core.EvCall {
				continue
			}
			calls++
			switch n := core.CalleeName(e); {
			case n == "builtin:len", strings.HasSuffix(n, ".HashID"):
			default:
				if tv, ok := sf.Info().Types[e.Call.Fun]; ok && tv.IsType() {
					continue
				}
				okCalls = false
			}
		}
		c.Check("shard-by-hash-mod-n", sf.Name+"/only-HashID-and-len", sf.PosStr(), okCalls && calls >= 2, "ShardFor may only use p.HashID() and len(sgi.Shards)")
		mod := false
		ast.Inspect(sf.Body, func(nd ast.Node) bool {
			if be, ok := nd.(*ast.BinaryExpr); ok && be.Op == token.REM {
				// operands may be hoisted into locals (n := uint64(len(sgi.Shards)))
				if strings.Contains(core.ExprStr(derefLocal(sf, be.X)), "HashID()") && strings.Contains(core.ExprStr(derefLocal(sf, be.Y)), "len(") {
					mod = true
				}
			}
			return true
		})
		c.Check("shard-by-hash-mod-n", sf.Name+"/HashID%len(Shards)", sf.PosStr(), mod, "the shard index must be HashID() % len(Shards)")
		// who may write point.key
		type wrow struct{ why string }
		allowed := map[string]string{
			"models.(*point).SetName":         "MakeKey(name, sorted tags)",
			"models.(*point).SetTags":         "MakeKey(name, sorted tags)",
			"models.(*point).AddTag":          "tags re-sorted, then MakeKey",
			"models.parsePoint":               "key produced by scanKey (sorted, duplicate-free)",
			"models.NewPoint":                 "MakeKey over sorted tags",
			"models.NewPointFromBytes":        "UnmarshalBinary of a key produced by one of the constructors",
			"models.(*point).UnmarshalBinary": "binary form written by MarshalBinary of a canonical point",
			"models.(*point).Split":           "copies the key of an existing point",
			"models.(*point).AppendString":    "",
			"models.MustNewPoint":             "NewPoint",
			"models.pointKey":                 "",
		}
		n := 0
		for _, f := range c.P.FuncsIn("models") {
			if f.Body == nil {
				continue
			}
			_, w := f.AccessesField(keyF)
			if !w {
				continue
			}
			n++
			why, ok := allowed[f.Root().Name]
			c.Check("who-may-write-series-key", f.Root().Name+"/point.key", f.PosStr(), ok,
				"point.key is written outside the canonicalising constructors; the key decides the shard, so it must always be measurement + tags in sorted order. "+why)
		}
		c.Floor("writers of point.key", n, 5)
		// the scanner's tag sort covers all tags
		sk := c.Fn("models.scanKey")
		ins := calleeIn(sk, "models.insertionSort")
		for i, e := range findOrAbort(c, sk, "insertionSort", evCall(ins), 1) {
			tv := sk.Info().Types[e.Call.Args[0]]
			v, isConst := int64(-1), false
			if tv.Value != nil {
				v, isConst = constInt(tv.Value)
			}
			c.Check("tag-sort-covers-all-tags", fmt.Sprintf("%s/insertionSort#%d", sk.Name, i+1), c.P.Pos(e.Pos()), isConst && v == 0,
				"the in-place tag sort of the line-protocol scanner must start at the first tag (index 0): sorting only a suffix leaves the key non-canonical, so the shard of a series depends on the order the client wrote its tags in")
		}
		// MakeKey sorts or receives sorted tags: NewTags sorts
		nt := c.Fn("models.NewTags")
		c.Check("tag-sort-covers-all-tags", nt.Name+"/sorts", nt.PosStr(), len(nt.Graph().Find(func(e *core.Event) bool {
			return e.Kind == core.EvCall && strings.HasPrefix(core.CalleeName(e), "sort.")
		})) > 0, "NewTags must sort the tags")
	})

	c.Clause("D3", func() { runMapShardsAccounting(c) })

	// the metadata side of group designation: containment, clipping of new groups against live ones, truncation
	c.Clause("D5", func() { runTimePredicates(c) })

	// the canonical series key (which alone selects the shard) sorts the tags by their names: the scanner's
	// comparison looks at the escape-aware tag keys and nothing else (shared with C12 D2)
	c.Clause("D6", func() { runTagKeyComparisons(c) })

	c.Clause("D4", func() { runRetentionCutoff(c) })
}

// runMapShardsAccounting: no point lost, duplicated or wrongly dropped by MapShards (shared by C08 and C17).
func runMapShardsAccounting(c *core.Ctx) {
	{
		f := c.Fn(coord + ".(*PointsWriter).MapShards")
		info := f.Info()
		loops := f.Graph().Loops()
		c.Need(len(loops) >= 1, "loops in MapShards")
		mapPoint := calleeIn(f, coord+".(*ShardMapping).MapPoint")
		isDroppedAppend := func(e *core.Event) bool {
			if e.Kind != core.EvAssign {
				return false
			}
			as, ok := e.Node.(*ast.AssignStmt)
			return ok && len(as.Lhs) == 1 && core.FieldPathOf(info, as.Lhs[0]) == "ShardMapping.Dropped"
		}
		account := func(e *core.Event) bool { return isDroppedAppend(e) || (e.Kind == core.EvCall && mapPoint(e.Call)) }
		var mapLoop, resolveLoop *core.Loop
		for _, l := range loops {
			rs, ok := l.Stmt.(*ast.RangeStmt)
			if !ok {
				continue
			}
			has := func(m core.Match) bool {
				for _, e := range f.Graph().Find(m) {
					if rs.Body.Pos() <= e.Pos() && e.Pos() < rs.Body.End() {
						return true
					}
				}
				return false
			}
			if has(evCall(mapPoint)) {
				mapLoop = l
			}
			if has(evCall(fieldCallIn(f, "PointsWriter.MetaClient", "CreateShardGroup"))) {
				resolveLoop = l
			}
		}
		// the group-resolution loop may have been extracted into an unexported helper of MapShards
		rf := f
		if resolveLoop == nil {
			for _, g := range withLocalHelpers(c.P, f)[1:] {
				for _, l := range g.Graph().Loops() {
					rs, ok := l.Stmt.(*ast.RangeStmt)
					if !ok {
						continue
					}
					for _, e := range g.Graph().Find(evCall(fieldCallIn(g, "PointsWriter.MetaClient", "CreateShardGroup"))) {
						if rs.Body.Pos() <= e.Pos() && e.Pos() < rs.Body.End() {
							resolveLoop, rf = l, g
						}
					}
				}
			}
		}
		c.Need(mapLoop != nil && resolveLoop != nil, "mapping loop and resolution loop of MapShards")
		min, max, ok, zero := f.Flow().IterationCount(mapLoop, account)
		c.Check("every-point-accounted-once", f.Name+"/mapping-loop/min", c.P.Pos(mapLoop.Stmt.Pos()), ok && min == 1,
			"a path through one iteration of the mapping loop neither maps the point nor reports it as dropped: "+core.PathStr(zero))
		c.Check("every-point-accounted-once", f.Name+"/mapping-loop/max", c.P.Pos(mapLoop.Stmt.Pos()), ok && max == 1,
			fmt.Sprintf("a point can be mapped/dropped %d times in one iteration (-1 = unbounded)", max))
		// a point is dropped only when no group was found for it
		for i, e := range f.Graph().Find(isDroppedAppend) {
			st := f.Flow().In[e]
			nilGroup := false
			for k, fct := range st {
				if k.Root != nil && k.Path == "" && fct.Nil == core.IsNil {
					if ce, ok := fct.Def.(*ast.CallExpr); ok && calleeIn(f, coord+".sgList.ShardGroupAt")(ce) {
						nilGroup = true
					}
				}
			}
			c.Check("dropped-only-without-group", fmt.Sprintf("%s/Dropped-append#%d", f.Name, i+1), c.P.Pos(e.Pos()), nilGroup,
				"a point is reported as dropped on a path where sgList.ShardGroupAt did not return nil")
		}
		// the shard handed to MapPoint is sg.ShardFor(p) of the group found for p's own time
		for i, e := range findOrAbort(c, f, "MapPoint", evCall(mapPoint), 1) {
			good := false
			if u, ok := ast.Unparen(e.Call.Args[0]).(*ast.UnaryExpr); ok && u.Op == token.AND {
				fact := f.Flow().FactOfExpr(e, u.X)
				if ce, ok := fact.Def.(*ast.CallExpr); ok && calleeIn(f, metap+".(*ShardGroupInfo).ShardFor")(ce) {
					good = true
				}
			}
			c.Check("shard-from-ShardFor", fmt.Sprintf("%s/MapPoint#%d", f.Name, i+1), c.P.Pos(e.Pos()), good, "the shard passed to MapPoint must be the result of sg.ShardFor(p)")
			// MapPoint keeps the pointer (ShardMapping.Shards[id] = shardInfo): it must point at storage that is this
			// point's own, i.e. a variable declared inside the innermost loop around the call, not one that the next
			// iteration overwrites
			if u, ok := ast.Unparen(e.Call.Args[0]).(*ast.UnaryExpr); ok && u.Op == token.AND {
				if id, ok := ast.Unparen(u.X).(*ast.Ident); ok {
					obj := f.Info().ObjectOf(id)
					var inner ast.Node
					ast.Inspect(f.Body, func(nd ast.Node) bool {
						switch l := nd.(type) {
						case *ast.RangeStmt:
							if l.Body.Pos() <= e.Pos() && e.Pos() < l.Body.End() {
								inner = l.Body
							}
						case *ast.ForStmt:
							if l.Body.Pos() <= e.Pos() && e.Pos() < l.Body.End() {
								inner = l.Body
							}
						}
						return true
					})
					fresh := inner == nil || (obj != nil && inner.Pos() <= obj.Pos() && obj.Pos() < inner.End())
					c.Check("mapped-shard-is-the-points-own", fmt.Sprintf("%s/MapPoint#%d", f.Name, i+1), c.P.Pos(e.Pos()), fresh,
						"MapPoint stores the pointer it is given; the variable whose address is passed is declared outside the loop over the points, so every entry of ShardMapping.Shards ends up pointing at the last point's shard and whole batches are delivered to one shard")
				}
			}
		}
		// resolution loop: guard-skip, or Add, or fail
		add := calleeIn(rf, coord+".(*sgList).Add")
		findOrAbort(c, rf, "sgList.Add", evCall(add), 1)
		var guard ast.Expr
		if rs, ok := resolveLoop.Stmt.(*ast.RangeStmt); ok {
			for _, st := range rs.Body.List {
				if ifs, ok := st.(*ast.IfStmt); ok && guard == nil {
					guard = ifs.Cond
				}
			}
		}
		c.Need(guard != nil, "guard of the resolution loop")
		isGuard := func(x ast.Expr) bool { return x == guard }
		bad := ""
		complete := rf.Flow().ExplorePathsMarked(func(k core.VarKey, fct core.Fact) bool {
			return k.Root == nil && strings.HasPrefix(k.Path, "cond:") && fct.Def == guard
		}, func(e *core.Event) string {
			if e == resolveLoop.BodyEntry {
				return "-added"
			}
			if e.Kind == core.EvCall && add(e.Call) {
				return "added"
			}
			return ""
		}, func(e *core.Event, st core.State) {
			if e != resolveLoop.Head {
				return
			}
			switch core.CondOutcome(st, isGuard) {
			case 0:
				return // first arrival: the guard has not been evaluated yet
			case 1:
				return // skipped by the guard (too old or already covered)
			}
			if !core.Marked(st, "added") {
				bad = "an iteration of the group-resolution loop ends without adding a shard group although the point passed the guard: the mapping loop then finds no group and reports an in-retention point as dropped instead of failing the write"
			}
		})
		c.Need(complete, "exploration bound MapShards")
		c.Check("missing-group-is-an-error", f.Name+"/resolution-loop", c.P.Pos(resolveLoop.Stmt.Pos()), bad == "", bad)
		// list.Add receives the group returned by CreateShardGroup, nil-checked
		csg := fieldCallIn(rf, "PointsWriter.MetaClient", "CreateShardGroup")
		for i, e := range rf.Graph().Find(evCall(add)) {
			var arg ast.Expr = e.Call.Args[0]
			if s, ok := ast.Unparen(arg).(*ast.StarExpr); ok {
				arg = s.X
			}
			fact := rf.Flow().FactOfExpr(e, arg)
			ce, ok := fact.Def.(*ast.CallExpr)
			c.Check("missing-group-is-an-error", fmt.Sprintf("%s/Add#%d", f.Name, i+1), c.P.Pos(e.Pos()), ok && csg(ce) && fact.Nil == core.NonNil,
				"sgList.Add must receive the group returned by MetaClient.CreateShardGroup after a nil check")
		}
		errPropagated(c, rf, "error-surfaces", "CreateShardGroup", csg)
	}
}

// runRetentionCutoff: the write-time retention cut-off of MapShards (shared by C08 and C17).
func runRetentionCutoff(c *core.Ctx) {
	{
		f := c.Fn(coord + ".(*PointsWriter).MapShards")
		durF := c.P.LookupField(metap, "RetentionPolicyInfo", "Duration")
		// The cut-off is computed in MapShards or in an unexported helper it calls. Every expression that can
		// become the cut-off is either time.Now().Add(-rp.Duration), and then only on paths where `rp.Duration > 0`
		// was established, or the minimum representable time (an infinite policy never drops a point).
		isNowMinusDuration := func(g *core.FuncInfo, x ast.Expr) bool {
			ce, ok := ast.Unparen(x).(*ast.CallExpr)
			if !ok || len(ce.Args) != 1 {
				return false
			}
			se, ok := ce.Fun.(*ast.SelectorExpr)
			if !ok || se.Sel.Name != "Add" {
				return false
			}
			inner, ok := ast.Unparen(se.X).(*ast.CallExpr)
			if !ok {
				return false
			}
			if fn, ok := core.Callee(g.Info(), inner).(*types.Func); !ok || fn.Pkg() == nil || fn.Pkg().Path() != "time" || fn.Name() != "Now" {
				return false
			}
			u, ok := ast.Unparen(ce.Args[0]).(*ast.UnaryExpr)
			return ok && u.Op == token.SUB && mentionsField(g.Info(), u.X, durF)
		}
		finite, infinite, badFinite := 0, 0, ""
		for _, g := range withLocalHelpers(c.P, f) {
			// value sites: right-hand sides of assignments to a time.Time local, and returned expressions
			type site struct {
				ev *core.Event
				x  ast.Expr
			}
			var sites []site
			for _, e := range g.Graph().Events {
				switch nd := e.Node.(type) {
				case *ast.AssignStmt:
					if e.Kind == core.EvAssign && len(nd.Lhs) == len(nd.Rhs) {
						for _, r := range nd.Rhs {
							if isNowMinusDuration(g, r) || strings.Contains(core.ExprStr(r), "MinNanoTime") {
								sites = append(sites, site{e, r})
							}
						}
					}
				case *ast.ReturnStmt:
					if e.Kind == core.EvReturn {
						for _, r := range nd.Results {
							if isNowMinusDuration(g, r) || strings.Contains(core.ExprStr(r), "MinNanoTime") {
								sites = append(sites, site{e, r})
							}
						}
					}
				}
			}
			if len(sites) == 0 {
				continue
			}
			ginfo := g.Info()
			complete := g.Flow().ExplorePaths(func(k core.VarKey, fct core.Fact) bool {
				return k.Root == nil && strings.HasPrefix(k.Path, "cond:") && fct.Def != nil && mentionsField(ginfo, fct.Def, durF)
			}, func(e *core.Event, st core.State) {
				for _, s := range sites {
					if s.ev != e {
						continue
					}
					if !isNowMinusDuration(g, s.x) {
						infinite++
						continue
					}
					finite++
					positive := false
					for k, fct := range st {
						if k.Root != nil || !strings.HasPrefix(k.Path, "cond:") || fct.Def == nil || fct.Bool == 0 {
							continue
						}
						var atoms []atomB
						decompose(fct.Def, fct.Bool == 1, &atoms)
						for _, a := range atoms {
							be, ok := ast.Unparen(a.x).(*ast.BinaryExpr)
							if !ok || !mentionsField(ginfo, be.X, durF) || !isZeroLit(ginfo, be.Y) {
								continue
							}
							if be.Op == token.GTR && a.val || be.Op == token.LEQ && !a.val || be.Op == token.NEQ && a.val || be.Op == token.EQL && !a.val {
								positive = true
							}
						}
					}
					if !positive {
						badFinite = "time.Now().Add(-rp.Duration) becomes the cut-off on a path where rp.Duration > 0 was not established @" + c.P.Pos(e.Pos())
					}
				}
			})
			c.Need(complete, "exploration bound "+g.Name)
		}
		c.Check("retention-cutoff", f.Name+"/min=now-Duration", f.PosStr(), finite >= 1 && badFinite == "",
			"for a finite retention policy the cut-off must be time.Now().Add(-rp.Duration), taken only under `rp.Duration > 0`: "+badFinite)
		c.Check("retention-cutoff", f.Name+"/infinite-policy-never-drops", f.PosStr(), infinite >= 1, "the cut-off of an infinite policy must be models.MinNanoTime so that it never drops a point")
		// guard of the resolution loop == tooOld || covered
		pc := &core.PredCompiler{P: c.P}
		var guard ast.Expr
		gf := f // the function that holds the guard: MapShards or the helper the resolution loop was moved to
		for _, g := range withLocalHelpers(c.P, f) {
			for _, l := range g.Graph().Loops() {
				rs, ok := l.Stmt.(*ast.RangeStmt)
				if !ok {
					continue
				}
				for _, st := range rs.Body.List {
					if ifs, ok := st.(*ast.IfStmt); ok {
						txt := core.ExprStr(ifs.Cond)
						ast.Inspect(ifs.Cond, func(x ast.Node) bool {
							if id, ok := x.(*ast.Ident); ok {
								txt += " " + core.ExprStr(derefLocal(g, id))
							}
							return true
						})
						if strings.Contains(txt, "Covers") && guard == nil {
							guard = ifs.Cond
							gf = g
						}
					}
				}
			}
		}
		c.Need(guard != nil, "guard `tooOld || covered` in MapShards")
		impl, err := pc.CompileIn(gf, guard)
		if err != nil {
			c.Check("retention-cutoff", f.Name+"/guard", c.P.Pos(guard.Pos()), false, "undecided: "+err.Error())
			return
		}
		ren, err := impl.Rename(map[string]string{`\.Time\(\)$`: "ptime", `^\$l\d+$`: "min", `^\$\d+$`: "min", `^call:.*Covers$`: "covered"})
		if err != nil {
			c.Check("retention-cutoff", f.Name+"/guard", c.P.Pos(guard.Pos()), false, "undecided: "+err.Error()+" in "+impl.String())
			return
		}
		diff, n, err := core.Equivalent(ren, core.Or(core.Lt("ptime", "min"), core.Atom("covered")))
		c.Counts["orderings_evaluated"] += n
		c.Check("retention-cutoff", f.Name+"/guard", c.P.Pos(guard.Pos()), err == nil && diff == "", fmt.Sprintf("%v %s", err, diff))
	}
}

func isZeroLit(info *types.Info, x ast.Expr) bool {
	tv, ok := info.Types[x]
	return ok && tv.Value != nil && tv.Value.ExactString() == "0"
}
