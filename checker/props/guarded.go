package props

import (
	"fmt"
	"go/ast"
	"go/types"
	"sort"
	"strings"

	"verifcheck/core"
)

// fieldAccess is one access of a struct field inside a method of the struct (or a function literal in it).
type fieldAccess struct {
	Fn     *core.FuncInfo
	Ev     *core.Event
	Write  bool
	Locked bool // some mutex of the receiver is held (W for writes, R or W for reads) on every path reaching the access
}

// guardedAccesses collects, for the struct type named typ in package rel, the accesses to field fld made in
// methods of the type through the receiver, together with whether the receiver's mutex mu is held.
func guardedAccesses(p *core.Prog, rel, typ, fld, mu string) []fieldAccess {
	field := p.LookupField(rel, typ, fld)
	if field == nil {
		return nil
	}
	var out []fieldAccess
	for _, f := range p.FuncsIn(rel) {
		root := f.Root()
		if root.Decl == nil || root.Decl.Recv == nil || len(root.Decl.Recv.List) == 0 || len(root.Decl.Recv.List[0].Names) == 0 || f.Body == nil {
			continue
		}
		rt := root.Info().TypeOf(root.Decl.Recv.List[0].Type)
		if pt, ok := rt.(*types.Pointer); ok {
			rt = pt.Elem()
		}
		nt, ok := rt.(*types.Named)
		if !ok || nt.Obj().Name() != typ {
			continue
		}
		recvName := root.Decl.Recv.List[0].Names[0].Name
		info := f.Info()
		// events that mention recv.fld
		type acc struct {
			write bool
		}
		at := map[*core.Event]*acc{}
		for _, e := range f.Graph().Events {
			if e.Node == nil {
				continue
			}
			lhs := map[ast.Expr]bool{}
			switch s := e.Node.(type) {
			case *ast.AssignStmt:
				for _, l := range s.Lhs {
					for x := ast.Unparen(l); ; {
						lhs[x] = true
						switch y := x.(type) {
						case *ast.IndexExpr:
							x = ast.Unparen(y.X)
							continue
						case *ast.SelectorExpr:
							x = ast.Unparen(y.X)
							continue
						}
						break
					}
				}
			case *ast.IncDecStmt:
				lhs[ast.Unparen(s.X)] = true
			}
			ast.Inspect(e.Node, func(nd ast.Node) bool {
				if _, ok := nd.(*ast.FuncLit); ok {
					return false
				}
				se, ok := nd.(*ast.SelectorExpr)
				if !ok || info.Uses[se.Sel] != field {
					return true
				}
				if id, ok := ast.Unparen(se.X).(*ast.Ident); !ok || id.Name != recvName {
					return true
				}
				a := at[e]
				if a == nil {
					a = &acc{}
					at[e] = a
				}
				if lhs[se] {
					a.write = true
				}
				// delete(recv.fld, k) writes the map
				return true
			})
			if ce, ok := e.Node.(*ast.CallExpr); ok && e.Kind == core.EvCall {
				if b, ok := core.Callee(info, ce).(*types.Builtin); ok && b.Name() == "delete" && len(ce.Args) > 0 {
					if a := at[e]; a != nil {
						a.write = true
					}
				}
			}
		}
		if len(at) == 0 {
			continue
		}
		okAt := map[*core.Event]bool{}
		badAt := map[*core.Event]bool{}
		f.ExploreLocks(func(e *core.Event, st core.LockState) {
			a := at[e]
			if a == nil {
				return
			}
			held := false
			for _, h := range st.Held() {
				if strings.HasPrefix(h, recvName+"."+mu+"#") {
					if !a.write || strings.HasSuffix(h, "#W") {
						held = true
					}
				}
			}
			if held {
				okAt[e] = true
			} else {
				badAt[e] = true
			}
		})
		for e, a := range at {
			if !okAt[e] && !badAt[e] {
				continue // unreachable
			}
			out = append(out, fieldAccess{Fn: f, Ev: e, Write: a.write, Locked: okAt[e] && !badAt[e]})
		}
	}
	sort.Slice(out, func(i, j int) bool { return out[i].Ev.Pos() < out[j].Ev.Pos() })
	return out
}

// guardedRow is one confirmed "field is guarded by mutex" fact.
type guardedRow struct {
	Rel, Type, Field, Mu string
	Why                  string
	Exempt               map[string]string // accessing function (short name) -> reason, confirmed by reading
}

// callersHold: every call of the method root (through a receiver expression x) happens at an event where x.mu is
// held (write-held when needWrite) on every path; functions that have no callers in the package are not accepted.
func callersHold(p *core.Prog, rel string, root *core.FuncInfo, mu string, needWrite bool, depth int) (bool, string) {
	return callersHoldVia(p, rel, root, -1, mu, needWrite, depth)
}

// callersHoldVia: the guarded struct reaches root as its receiver (argIdx < 0) or as its argIdx-th argument.
func callersHoldVia(p *core.Prog, rel string, root *core.FuncInfo, argIdx int, mu string, needWrite bool, depth int) (bool, string) {
	if depth > 3 || root.Obj == nil {
		return false, "no resolvable callers"
	}
	n := 0
	for _, g := range p.FuncsIn(rel) {
		if g.Body == nil || g.Root() == root {
			continue // (calls of a function from itself happen in the lock context of its outer caller)
		}
		var sites []*core.Event
		for _, e := range g.Graph().Events {
			if (e.Kind == core.EvCall || e.Kind == core.EvDeferred) && e.Callee == types.Object(root.Obj) {
				sites = append(sites, e)
			}
		}
		if len(sites) == 0 {
			continue
		}
		subject := func(e *core.Event) ast.Expr {
			if argIdx < 0 {
				if se, ok := e.Call.Fun.(*ast.SelectorExpr); ok {
					return se.X
				}
				return nil
			}
			if argIdx < len(e.Call.Args) {
				return e.Call.Args[argIdx]
			}
			return nil
		}
		okAt, badAt := map[*core.Event]bool{}, map[*core.Event]bool{}
		g.ExploreLocks(func(e *core.Event, st core.LockState) {
			for _, s := range sites {
				if s != e {
					continue
				}
				sx := subject(e)
				if sx == nil {
					badAt[e] = true
					continue
				}
				x := core.ExprStr(sx)
				held := false
				for _, h := range st.Held() {
					if strings.HasPrefix(h, x+"."+mu+"#") && (!needWrite || strings.HasSuffix(h, "#W")) {
						held = true
					}
				}
				if held {
					okAt[e] = true
				} else {
					badAt[e] = true
				}
			}
		})
		for _, s := range sites {
			if !okAt[s] && !badAt[s] {
				continue
			}
			n++
			if badAt[s] {
				// the caller may itself be a helper that is only called with the lock held: follow the guarded
				// struct to the caller's receiver or to one of its parameters
				if sx := subject(s); sx != nil {
					if id, ok := ast.Unparen(sx).(*ast.Ident); ok {
						gr := g.Root()
						via := -2
						if gr.Decl != nil && gr.Decl.Recv != nil && len(gr.Decl.Recv.List) > 0 && len(gr.Decl.Recv.List[0].Names) > 0 && gr.Decl.Recv.List[0].Names[0].Name == id.Name {
							via = -1
						} else if gr.Decl != nil {
							k := 0
							for _, fld := range gr.Decl.Type.Params.List {
								for _, nm := range fld.Names {
									if nm.Name == id.Name {
										via = k
									}
									k++
								}
								if len(fld.Names) == 0 {
									k++
								}
							}
						}
						if via != -2 {
							if ok, _ := callersHoldVia(p, rel, gr, via, mu, needWrite, depth+1); ok {
								continue
							}
						}
					}
				}
				return false, "called without the lock from " + g.Name + " @" + p.Pos(s.Pos())
			}
		}
	}
	if n == 0 {
		return false, "no callers in the package"
	}
	return true, ""
}

// guardedByRule checks the rows: every access of the field in the struct's methods is made with the mutex held,
// directly or because every caller of the accessing helper holds it; constructors (functions that return the
// struct) are not methods and are not examined.
func guardedByRule(c *core.Ctx, rows []guardedRow) {
	for _, r := range rows {
		accs := guardedAccesses(c.P, r.Rel, r.Type, r.Field, r.Mu)
		if len(accs) == 0 {
			c.Check("field-guarded-by-mutex", fmt.Sprintf("%s.%s.%s/undecided", r.Rel, r.Type, r.Field), "", false, "undecided: no accesses found (anchor moved)")
			continue
		}
		perFn := map[string][]fieldAccess{}
		var order []string
		for _, a := range accs {
			if _, ok := perFn[a.Fn.Name]; !ok {
				order = append(order, a.Fn.Name)
			}
			perFn[a.Fn.Name] = append(perFn[a.Fn.Name], a)
		}
		c.Counts["guarded_accesses"] += len(accs)
		for _, name := range order {
			bad := ""
			pos := ""
			if why, ok := r.Exempt[short(name)]; ok {
				c.Check("field-guarded-by-mutex", fmt.Sprintf("%s.%s.%s/%s", r.Rel, r.Type, r.Field, short(name)), "", true, "exempt: "+why)
				continue
			}
			for _, a := range perFn[name] {
				if a.Locked {
					continue
				}
				if ok, why := callersHold(c.P, r.Rel, a.Fn.Root(), r.Mu, a.Write, 1); !ok {
					kind := "read"
					if a.Write {
						kind = "written"
					}
					bad = fmt.Sprintf("%s.%s is %s without %s held (%s): %s", r.Type, r.Field, kind, r.Mu, why, r.Why)
					pos = c.P.Pos(a.Ev.Pos())
				}
			}
			c.Check("field-guarded-by-mutex", fmt.Sprintf("%s.%s.%s/%s", r.Rel, r.Type, r.Field, short(name)), pos, bad == "", bad)
		}
	}
}

// DumpGuarded prints, for every struct of the packages that has a sync mutex field, how each other field is
// accessed in the struct's methods (development aid: verifcheck -guarded pkg,pkg).
func DumpGuarded(p *core.Prog, pkgs string) {
	for _, rel := range strings.Split(pkgs, ",") {
		pkg := p.ByPath[rel]
		if pkg == nil {
			continue
		}
		sc := pkg.Types.Scope()
		for _, nm := range sc.Names() {
			tn, ok := sc.Lookup(nm).(*types.TypeName)
			if !ok {
				continue
			}
			st, ok := tn.Type().Underlying().(*types.Struct)
			if !ok {
				continue
			}
			var mus []string
			for i := 0; i < st.NumFields(); i++ {
				t := st.Field(i).Type().String()
				if t == "sync.Mutex" || t == "sync.RWMutex" {
					mus = append(mus, st.Field(i).Name())
				}
			}
			if len(mus) == 0 {
				continue
			}
			for i := 0; i < st.NumFields(); i++ {
				fl := st.Field(i)
				if t := fl.Type().String(); t == "sync.Mutex" || t == "sync.RWMutex" {
					continue
				}
				for _, mu := range mus {
					accs := guardedAccesses(p, rel, nm, fl.Name(), mu)
					locked, unlocked := 0, 0
					var where []string
					for _, a := range accs {
						if a.Locked {
							locked++
						} else {
							unlocked++
							w := "r"
							if a.Write {
								w = "w"
							}
							where = append(where, fmt.Sprintf("%s@%s(%s)", short(a.Fn.Name), p.Pos(a.Ev.Pos()), w))
						}
					}
					if locked >= 3 && unlocked > 0 && unlocked*3 <= locked {
						fmt.Printf("%s.%s.%s under %s: locked=%d unlocked=%d  %s\n", rel, nm, fl.Name(), mu, locked, unlocked, strings.Join(where, " "))
					}
				}
			}
		}
	}
}
