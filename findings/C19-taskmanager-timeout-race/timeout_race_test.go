// Copy into query/ and run: go test -race -vet=off -count=1 -run 'TestFinding_TimedOutQueryLogRaces' ./query/
//
// With log-timed-out-queries enabled, TaskManager.waitForQuery reads t.queries[qid] (twice) without holding the
// task manager's mutex when a query exceeds the timeout, while other queries are attached and detached under
// the write lock: a concurrent map read and map write (fatal runtime error) on a busy node; if the query was
// detached in the meantime the lookup yields nil and the field access panics (C19).
package query_test

import (
	"testing"
	"time"

	"github.com/influxdata/influxdb/query"
	"github.com/influxdata/influxql"
)

func TestFinding_TimedOutQueryLogRaces(t *testing.T) {
	tm := query.NewTaskManager()
	tm.QueryTimeout = time.Millisecond
	tm.LogTimedoutQueries = true
	q, err := influxql.ParseQuery(`SELECT value FROM cpu`)
	if err != nil {
		t.Fatal(err)
	}
	var detach []func()
	for i := 0; i < 300; i++ {
		_, d, err := tm.AttachQuery(q, query.ExecutionOptions{Database: "db0"}, nil)
		if err != nil {
			t.Fatal(err)
		}
		detach = append(detach, d)
		if i%7 == 0 {
			time.Sleep(2 * time.Millisecond) // let some of the attached queries run into their timeout
		}
	}
	time.Sleep(20 * time.Millisecond)
	for _, d := range detach {
		d()
	}
}
