package props

import (
	"fmt"
	"go/ast"
	"go/token"
	"go/types"
	"sort"
	"strings"

	"verifcheck/core"
)

func init() {
	register("C06", core.PropertyMeta{
		Explanation: "Decides structural clauses of metadata determinism and invariants: D1 nothing reachable from storeFSM.Apply inside services/meta consumes a nondeterministic input (wall clock outside the excluded deletion stamps, random numbers, goroutines, select, order-sensitive map iteration); " +
			"D2 copy-on-write apply: every apply* function mutates only a clone, installs it only on paths where no mutating call failed, performs no mutation after installing, and only the frozen set of functions may store store.data; " +
			"D3 ID counters are only incremented (or loaded by unmarshal); D4 the Apply switch, the registry of command types and the validator's table agree; " +
			"D5 the time predicates of shard-group selection, clipping, truncation and expiry are equal to their specification on every weak ordering of their operands (exhaustive truth tables); D6 the owner round-robin advances by one position per assigned replica. " +
			"D7 the snapshot codec agrees with itself: every field transfer of marshal/unmarshal in services/meta has matching field and getter names. " +
			"D8 clone completeness (shared with C07); D9 the membership scan in front of adding a requested owner is exhaustive; D10 a group is marked deleted exactly when the shard removed was its last. " +
			"D5 also: the lookup of the live group for a timestamp scans every group (no early exit). " +
			"NOT decided: disjointness and ID uniqueness after arbitrary command sequences, evenness of the owner spread as an arithmetic fact.",
		RuleText:    "obligation = (rule, function/site); call-graph closure for D1; outcome dataflow + path exploration for D2; exhaustive evaluation of compiled predicates over all weak orderings for D5",
		Assumptions: append([]string{"hashicorp/raft delivers the same log to every replica"}, commonAssumptions...),
	}, runC06)
}

func metaApplyFuncs(c *core.Ctx) []*core.FuncInfo {
	var out []*core.FuncInfo
	for _, f := range c.P.FuncsIn(metap) {
		if f.Decl != nil && strings.HasPrefix(f.Name, metap+".(*storeFSM).apply") {
			out = append(out, f)
		}
	}
	sort.Slice(out, func(i, j int) bool { return out[i].Name < out[j].Name })
	return out
}

func runC06(c *core.Ctx) {
	c.Clause("D1", func() {
		root := c.Fn(metap + ".(*storeFSM).Apply")
		cl := c.P.Closure([]*core.FuncInfo{root}, func(f *core.FuncInfo) bool {
			if core.Rel(f.Pkg.PkgPath) != metap {
				return false
			}
			// raftState methods are the replication layer itself, not the state machine's logic
			return !strings.HasPrefix(f.Root().Name, metap+".(*raftState).")
		})
		c.Counts["functions_analysed"] += len(cl)
		c.Floor("closure of storeFSM.Apply", len(cl), 60)
		allowedNow := map[string]string{
			metap + ".(*Data).DeleteDataNode":   "DeletedAt stamp of a shard group (excluded from the deterministic state by the property)",
			metap + ".(*Data).DeleteShardGroup": "DeletedAt stamp",
			metap + ".(*Data).DropShard":        "DeletedAt stamp",
			metap + ".(*Data).RemoveShardOwner": "DeletedAt stamp",
			metap + ".(*Data).PruneShardGroups": "cut-off for pruning groups that are already deleted",
		}
		n := 0
		for _, f := range cl {
			if f.Body == nil {
				continue
			}
			info := f.Info()
			for _, e := range f.Graph().Events {
				switch e.Kind {
				case core.EvCall:
					name := core.CalleeName(e)
					switch {
					case name == "time.Now":
						why, ok := allowedNow[f.Root().Name]
						good := ok
						detail := why
						if ok {
							// the value may only flow into a DeletedAt field or a local cut-off
							good = nowFlowsOnlyToDeletedAt(f, e)
							if !good {
								detail = "time.Now() in " + f.Root().Name + " flows somewhere other than a DeletedAt stamp / prune cut-off"
							}
						} else {
							detail = "wall-clock time is read inside the replicated state machine: replicas applying the same log compute different metadata"
						}
						n++
						c.Check("no-nondeterministic-input", f.Root().Name+"/time.Now", c.P.Pos(e.Pos()), good, detail)
					case strings.HasPrefix(name, "math/rand.") || strings.HasPrefix(name, "crypto/rand."):
						n++
						c.Check("no-nondeterministic-input", f.Root().Name+"/"+name, c.P.Pos(e.Pos()), false, "random number drawn inside the replicated state machine")
					}
				case core.EvGo:
					n++
					c.Check("no-nondeterministic-input", f.Root().Name+"/go-statement", c.P.Pos(e.Pos()), false, "goroutine started inside the replicated state machine")
				}
			}
			// select statements and map ranges
			ast.Inspect(f.Body, func(nd ast.Node) bool {
				switch s := nd.(type) {
				case *ast.FuncLit:
					return false
				case *ast.SelectStmt:
					n++
					c.Check("no-nondeterministic-input", f.Root().Name+"/select", c.P.Pos(s.Pos()), false, "select inside the replicated state machine")
				case *ast.RangeStmt:
					t := info.TypeOf(s.X)
					if t == nil {
						return true
					}
					if _, isMap := t.Underlying().(*types.Map); !isMap {
						return true
					}
					n++
					ok, why := mapRangeOrderInsensitive(f, s)
					c.Check("map-iteration-order-insensitive", f.Root().Name+"/range-over-map", c.P.Pos(s.Pos()), ok, why)
				}
				return true
			})
		}
		c.Floor("nondeterminism sites examined", n, 6)
	})

	c.Clause("D2", func() {
		dataField := c.P.LookupField(metap, "store", "data")
		c.Need(dataField != nil, "field store.data")
		applies := metaApplyFuncs(c)
		c.Floor("apply* functions", len(applies), 30)
		cloneFn := metap + ".(*Data).Clone"
		for _, f := range applies {
			c.Counts["functions_analysed"]++
			info := f.Info()
			isDataStore := func(e *core.Event) bool {
				if e.Kind != core.EvAssign {
					return false
				}
				as, ok := e.Node.(*ast.AssignStmt)
				if !ok {
					return false
				}
				for _, l := range as.Lhs {
					if se, ok := ast.Unparen(l).(*ast.SelectorExpr); ok && info.Uses[se.Sel] == dataField {
						return true
					}
				}
				return false
			}
			stores := f.Graph().Find(isDataStore)
			if len(stores) == 0 {
				continue // no-op commands
			}
			// (a) what is installed is a clone (or a fresh value for SetData)
			for i, s := range stores {
				as := s.Node.(*ast.AssignStmt)
				good := false
				var rhs ast.Expr
				for j, l := range as.Lhs {
					if se, ok := ast.Unparen(l).(*ast.SelectorExpr); ok && info.Uses[se.Sel] == dataField && j < len(as.Rhs) {
						rhs = as.Rhs[j]
					}
				}
				if id, ok := ast.Unparen(rhs).(*ast.Ident); ok {
					good = allDefsAre(f, info.ObjectOf(id), func(x ast.Expr) bool {
						ce, ok := ast.Unparen(x).(*ast.CallExpr)
						return ok && calleeIn(f, cloneFn)(ce)
					})
				}
				if u, ok := ast.Unparen(rhs).(*ast.UnaryExpr); ok && u.Op == token.AND {
					if _, isLit := u.X.(*ast.CompositeLit); isLit {
						good = true // SetData: brand-new value
					}
				}
				c.Check("install-only-a-clone", fmt.Sprintf("%s/store-data#%d", f.Name, i+1), c.P.Pos(s.Pos()), good,
					"the value installed as store.data must be a variable defined only by fsm.data.Clone() (or a fresh &Data{}); got "+core.ExprStr(rhs))
			}
			// (b) no mutating method is invoked on the published value
			for _, e := range f.Graph().Events {
				if e.Kind != core.EvCall {
					continue
				}
				se, ok := e.Call.Fun.(*ast.SelectorExpr)
				if !ok {
					continue
				}
				rx, ok := ast.Unparen(se.X).(*ast.SelectorExpr)
				if !ok || info.Uses[rx.Sel] != dataField {
					continue
				}
				fn, _ := e.Callee.(*types.Func)
				name := core.FuncName(fn)
				readonly := name == cloneFn || !mutatesReceiver(c.P, fn)
				// SetData installs a fresh value first, then fills it
				if !readonly {
					if p := f.Flow().PathAvoiding(f.Graph().Entry, func(x *core.Event) bool { return x == e }, func(x *core.Event) bool {
						if !isDataStore(x) {
							return false
						}
						as := x.Node.(*ast.AssignStmt)
						u, ok := ast.Unparen(as.Rhs[0]).(*ast.UnaryExpr)
						return ok && u.Op == token.AND
					}); p == nil {
						readonly = true
					}
				}
				c.Check("never-mutate-published", fmt.Sprintf("%s/%s", f.Name, short(name)), c.P.Pos(e.Pos()), readonly,
					"a mutating method is called directly on the published store.data instead of on its clone")
			}
			// (c) installed only when nothing failed; nothing mutated or rejected after installing
			bad := ""
			complete := f.Flow().ExplorePathsMarked(func(k core.VarKey, fct core.Fact) bool {
				_, isCall := fct.Def.(*ast.CallExpr)
				return isCall
			}, func(e *core.Event) string {
				if isDataStore(e) {
					// SetData installs a brand-new empty value and then fills it: nothing of a clone is published
					if u, ok := ast.Unparen(e.Node.(*ast.AssignStmt).Rhs[0]).(*ast.UnaryExpr); ok && u.Op == token.AND {
						return ""
					}
					return "installed"
				}
				return ""
			}, func(e *core.Event, st core.State) {
				if isDataStore(e) {
					for k, fct := range st {
						if k.Root == nil && strings.HasPrefix(k.Path, "fail:") {
							bad = "store.data is installed @" + c.P.Pos(e.Pos()) + " on a path where " + core.ExprStr(fct.Def) + " returned an error"
						}
					}
				}
				if core.Marked(st, "installed") {
					if e.Kind == core.EvCall {
						if fn, ok := e.Callee.(*types.Func); ok && isDataMethod(fn) && mutatesReceiver(c.P, fn) {
							bad = "a mutating call (" + core.CalleeName(e) + ") @" + c.P.Pos(e.Pos()) + " follows the installation of the new metadata: a later failure leaves a rejected command's changes installed"
						}
					}
					if e.Kind == core.EvReturn {
						x, _ := f.ResultExpr(e, 0)
						if x != nil && !isNilExpr(info, x) {
							bad = "an error is returned @" + c.P.Pos(e.Pos()) + " after the new metadata was installed: a rejected command changes the state"
						}
					}
				}
			})
			c.Need(complete, "exploration bound "+f.Name)
			c.Check("rejected-command-changes-nothing", f.Name+"/install-discipline", f.PosStr(), bad == "", bad)
		}
		// who may write store.data
		type w struct{ fn, why string }
		allowed := map[string]string{
			metap + ".(*storeFSM).Restore":             "snapshot restore (raft never calls it concurrently)",
			metap + ".(*storeFSM).applySetDataCommand": "SetData replaces the whole value",
			metap + ".(*storeFSM).Apply":               "Term/Index bookkeeping after the switch (in-place, frozen row)",
			metap + ".newStore":                        "constructor",
			metap + ".(*store).open":                   "initial value before the store is published",
			metap + ".(*store).reset":                  "leave-cluster reset: raft is closed first, a fresh value is installed under the store mutex",
		}
		for _, f := range applies {
			allowed[f.Name] = "copy-on-write apply"
		}
		n := 0
		for _, f := range c.P.FuncsIn(metap) {
			if f.Body == nil {
				continue
			}
			info := f.Info()
			ast.Inspect(f.Body, func(nd ast.Node) bool {
				if _, ok := nd.(*ast.FuncLit); ok {
					return false
				}
				var lhs []ast.Expr
				switch s := nd.(type) {
				case *ast.AssignStmt:
					lhs = s.Lhs
				case *ast.IncDecStmt:
					lhs = []ast.Expr{s.X}
				}
				for _, l := range lhs {
					// store.data = ..., or store.data.<field> = ...
					hit := false
					ast.Inspect(l, func(x ast.Node) bool {
						if se, ok := x.(*ast.SelectorExpr); ok && info.Uses[se.Sel] == dataField {
							hit = true
						}
						return true
					})
					if !hit {
						continue
					}
					if _, isIndex := ast.Unparen(l).(*ast.IndexExpr); isIndex {
						continue
					}
					n++
					why, ok := allowed[f.Root().Name]
					if !ok {
						// a helper extracted from a confirmed writer: unexported and called only from rows of the table
						if via, okVia := viaConfirmedCallers(c.P, f.Root(), func(name string) bool { _, has := allowed[name]; return has }); okVia {
							ok, why = true, "helper of "+strings.Join(via, ", ")
						}
					}
					c.Check("who-may-store-metadata", f.Root().Name+"/store.data", c.P.Pos(l.Pos()), ok,
						"store.data (or a field of the published value) is written outside the state machine's apply functions: "+why)
				}
				return true
			})
		}
		c.Floor("stores to store.data", n, 30)
	})

	c.Clause("D3", func() {
		n := 0
		for _, fld := range []string{"MaxNodeID", "MaxShardGroupID", "MaxShardID"} {
			v := c.P.LookupField(metap, "Data", fld)
			c.Need(v != nil, "field Data."+fld)
			for _, f := range c.P.FuncsIn(metap) {
				if f.Body == nil {
					continue
				}
				info := f.Info()
				ast.Inspect(f.Body, func(nd ast.Node) bool {
					switch s := nd.(type) {
					case *ast.IncDecStmt:
						if se, ok := ast.Unparen(s.X).(*ast.SelectorExpr); ok && info.Uses[se.Sel] == v {
							n++
							c.Check("ids-only-grow", fmt.Sprintf("%s/Data.%s", f.Root().Name, fld), c.P.Pos(s.Pos()), s.Tok == token.INC, "ID counter is decremented")
						}
					case *ast.AssignStmt:
						for i, l := range s.Lhs {
							se, ok := ast.Unparen(l).(*ast.SelectorExpr)
							if !ok || info.Uses[se.Sel] != v {
								continue
							}
							n++
							good := false
							why := "ID counter assigned outside unmarshal / monotone import"
							switch {
							case strings.HasSuffix(f.Root().Name, ".unmarshal"):
								good = true
								why = "loaded from the snapshot"
							case s.Tok == token.ADD_ASSIGN:
								good = true
							case i < len(s.Rhs):
								// monotone: guarded by `if other > data.Max...` or assigned max(...)
								good = assignIsMonotone(f, s, v)
								if good {
									why = "monotone assignment (guarded by a greater-than test)"
								}
							}
							c.Check("ids-only-grow", fmt.Sprintf("%s/Data.%s=", f.Root().Name, fld), c.P.Pos(s.Pos()), good, why)
						}
					case *ast.KeyValueExpr:
						if id, ok := s.Key.(*ast.Ident); ok && info.Uses[id] == v {
							n++
							c.Check("ids-only-grow", fmt.Sprintf("%s/Data.%s:", f.Root().Name, fld), c.P.Pos(s.Pos()), true, "literal construction of a new Data value")
						}
					}
					return true
				})
			}
		}
		c.Floor("ID counter writes", n, 6)
		// the new IDs used by CreateShardGroup / CreateDataNode / CreateMetaNode come from the counters after the increment
		for _, spec := range [][2]string{{metap + ".(*Data).CreateShardGroup", "MaxShardGroupID"}, {metap + ".(*Data).CreateShardGroup", "MaxShardID"},
			{metap + ".(*Data).CreateDataNode", "MaxNodeID"}, {metap + ".(*Data).CreateMetaNode", "MaxNodeID"}} {
			f := c.Fn(spec[0])
			v := c.P.LookupField(metap, "Data", spec[1])
			inc := func(e *core.Event) bool {
				if s, ok := e.Node.(*ast.IncDecStmt); ok && e.Kind == core.EvAssign {
					if se, ok := ast.Unparen(s.X).(*ast.SelectorExpr); ok && f.Info().Uses[se.Sel] == v {
						return true
					}
				}
				return false
			}
			use := func(e *core.Event) bool {
				if e.Kind != core.EvAssign || inc(e) {
					return false
				}
				found := false
				ast.Inspect(e.Node, func(x ast.Node) bool {
					if se, ok := x.(*ast.SelectorExpr); ok && f.Info().Uses[se.Sel] == v {
						found = true
					}
					return true
				})
				return found
			}
			if len(f.Graph().Find(use)) == 0 {
				continue
			}
			orderRule(c, f, "fresh-id-after-increment", spec[1]+"++", "use of "+spec[1], inc, use)
		}
	})

	c.Clause("D4", func() { runApplyTotality(c) })

	// a command applied to a clone must not reach the published value that snapshots and readers hold: otherwise a
	// replica restored from a snapshot differs from the replicas that applied the log (shared with C07 D1 / C19 D4)
	c.Clause("D8", func() { runCloneCompleteness(c) })

	// a group is marked deleted exactly when it lost its last shard (shared with C17 D7)
	c.Clause("D10", func() { runGroupDeletedWithLastShard(c) })

	c.Clause("D9", func() {
		// No shard lists an owner twice: a function that adds the owner it is asked for (ShardOwner{NodeID: <param>}) first
		// scans the owners for that node and returns on a match, and that scan looks at every owner (no break/goto out
		// of it: the owner list has no guaranteed order, CreateShardGroup's round-robin wraps around).
		n := 0
		for _, g := range c.P.FuncsIn(metap) {
			if g.Decl == nil || g.Body == nil || g.Lit != nil {
				continue
			}
			info := g.Info()
			params := map[types.Object]bool{}
			for _, fld := range g.Decl.Type.Params.List {
				for _, nm := range fld.Names {
					params[info.Defs[nm]] = true
				}
			}
			var asked types.Object
			var askedPos token.Pos
			ast.Inspect(g.Body, func(nd ast.Node) bool {
				cl, ok := nd.(*ast.CompositeLit)
				if !ok {
					return true
				}
				if nt, ok := info.TypeOf(cl).(*types.Named); !ok || nt.Obj().Name() != "ShardOwner" {
					return true
				}
				for _, el := range cl.Elts {
					if kv, ok := el.(*ast.KeyValueExpr); ok {
						if id, ok := ast.Unparen(kv.Value).(*ast.Ident); ok && params[info.ObjectOf(id)] {
							asked, askedPos = info.ObjectOf(id), cl.Pos()
						}
					}
				}
				return true
			})
			if asked == nil {
				continue
			}
			n++
			// the membership scan: a range loop whose body returns under `<x>.NodeID == asked`
			var scan *ast.RangeStmt
			ast.Inspect(g.Body, func(nd ast.Node) bool {
				rs, ok := nd.(*ast.RangeStmt)
				if !ok || scan != nil {
					return true
				}
				for _, st := range rs.Body.List {
					ifs, ok := st.(*ast.IfStmt)
					if !ok {
						continue
					}
					be, ok := ast.Unparen(ifs.Cond).(*ast.BinaryExpr)
					if !ok || be.Op != token.EQL {
						continue
					}
					se, ok := ast.Unparen(be.X).(*ast.SelectorExpr)
					if !ok || se.Sel.Name != "NodeID" || !isIdentObj(info, be.Y, asked) {
						continue
					}
					for _, b := range ifs.Body.List {
						if _, ok := b.(*ast.ReturnStmt); ok {
							scan = rs
						}
					}
				}
				return true
			})
			if scan == nil {
				c.Check("owner-added-once", g.Name+"/membership-scan", c.P.Pos(askedPos), false,
					"the function adds the requested node as an owner without first scanning the owners for it: a repeated request lists the node twice, and removing the node later strips only one copy")
				continue
			}
			exits := loopEarlyExits(c, scan.Body)
			c.Check("owner-added-once", g.Name+"/membership-scan", c.P.Pos(scan.Pos()), len(exits) == 0 && scan.Pos() < askedPos,
				"the scan that looks for the requested node among the owners stops early ("+strings.Join(exits, ", ")+"): an owner behind the stopping point is not seen and the node is added a second time")
		}
		c.Floor("functions adding a requested owner", n, 1)
	})

	c.Clause("D5", func() { runTimePredicates(c) })

	c.Clause("D6", func() { runOwnerRoundRobin(c) })

	c.Clause("D7", func() {
		// The snapshot codec of the metadata agrees with itself: every `x.F = pb.GetG()` of an unmarshal method and
		// every `F: proto.T(x.G)` of a marshal method in services/meta has F == G. A counter or id restored from
		// another field makes a replica that was restored from a snapshot (or restarted) hand out ids that are
		// already in use and diverge from the replicas that applied the log.
		exempt := map[string]string{}
		n := 0
		for _, g := range c.P.FuncsIn(metap) {
			if g.Decl == nil || g.Decl.Recv == nil || g.Body == nil || g.Lit != nil {
				continue
			}
			info := g.Info()
			switch g.Decl.Name.Name {
			case "unmarshal":
				ast.Inspect(g.Body, func(nd ast.Node) bool {
					as, ok := nd.(*ast.AssignStmt)
					if !ok || len(as.Lhs) != 1 || len(as.Rhs) != 1 {
						return true
					}
					lhs, ok := as.Lhs[0].(*ast.SelectorExpr)
					if !ok {
						return true
					}
					if _, isField := info.ObjectOf(lhs.Sel).(*types.Var); !isField {
						return true
					}
					rhs := ast.Unparen(as.Rhs[0])
					if ce, ok := rhs.(*ast.CallExpr); ok {
						if b, ok := core.Callee(info, ce).(*types.Builtin); ok && b.Name() == "make" {
							return true // allocation sized by the snapshot's list (deprecated-format migration), elements follow
						}
					}
					// unwrap one conversion or helper call around the getter
					getter := ""
					ast.Inspect(rhs, func(m ast.Node) bool {
						if ce, ok := m.(*ast.CallExpr); ok && len(ce.Args) == 0 {
							if se, ok := ce.Fun.(*ast.SelectorExpr); ok && strings.HasPrefix(se.Sel.Name, "Get") && getter == "" {
								if fn, ok := info.ObjectOf(se.Sel).(*types.Func); ok && fn.Pkg() != nil && strings.HasSuffix(fn.Pkg().Path(), "services/meta/internal") {
									getter = strings.TrimPrefix(se.Sel.Name, "Get")
								}
							}
						}
						return true
					})
					if getter == "" {
						return true
					}
					n++
					key := g.Name + "/" + lhs.Sel.Name
					_, ex := exempt[key]
					c.Check("snapshot-codec-fields-agree", key, c.P.Pos(as.Pos()), ex || strings.EqualFold(getter, lhs.Sel.Name),
						"field "+lhs.Sel.Name+" is restored from the snapshot's "+getter+": a replica restored from a snapshot differs from the state that was saved")
					return true
				})
			case "marshal":
				ast.Inspect(g.Body, func(nd ast.Node) bool {
					kv, ok := nd.(*ast.KeyValueExpr)
					if !ok {
						return true
					}
					kid, ok := kv.Key.(*ast.Ident)
					if !ok {
						return true
					}
					ce, ok := ast.Unparen(kv.Value).(*ast.CallExpr)
					if !ok || len(ce.Args) != 1 {
						return true
					}
					fn, ok := core.Callee(info, ce).(*types.Func)
					if !ok || fn.Pkg() == nil || !strings.HasSuffix(fn.Pkg().Path(), "protobuf/proto") {
						return true
					}
					se, ok := ast.Unparen(ce.Args[0]).(*ast.SelectorExpr)
					if !ok {
						// one conversion/method around the field, e.g. proto.Int64(x.F.UnixNano()), proto.Int64(int64(x.F))
						ast.Inspect(ce.Args[0], func(m ast.Node) bool {
							if s2, ok := m.(*ast.SelectorExpr); ok && se == nil {
								if v, ok := info.ObjectOf(s2.Sel).(*types.Var); ok && v.IsField() {
									se = s2
								}
							}
							return true
						})
					}
					if se == nil {
						return true
					}
					n++
					key := g.Name + "/" + kid.Name
					_, ex := exempt[key]
					c.Check("snapshot-codec-fields-agree", key, c.P.Pos(kv.Pos()), ex || strings.EqualFold(kid.Name, se.Sel.Name),
						"snapshot field "+kid.Name+" is written from "+se.Sel.Name+": a replica restored from the snapshot differs from the state that was saved")
					return true
				})
			}
		}
		c.Floor("field transfers in the metadata snapshot codec", n, 40)
	})
}

// runTimePredicates: exhaustive truth tables of the shard-group time predicates (shared by C06, C08, C17).
func runTimePredicates(c *core.Ctx) {
	{
		// the lookup of the live group for a timestamp examines every group of the policy: the list is ordered by
		// effective end and keeps deleted groups, so no order of start times may be assumed (no break/goto out of the
		// scan; CreateShardGroup uses this lookup as its "already exists" test)
		lf := c.Fn(metap + ".(*RetentionPolicyInfo).ShardGroupByTimestamp")
		var scan *ast.RangeStmt
		ast.Inspect(lf.Body, func(nd ast.Node) bool {
			if rs, ok := nd.(*ast.RangeStmt); ok && scan == nil {
				scan = rs
			}
			return true
		})
		if scan == nil {
			c.Check("group-lookup-scans-every-group", lf.Name+"/scan", lf.PosStr(), false, "undecided: no range loop over the shard groups in the lookup")
		} else {
			exits := loopEarlyExits(c, scan.Body)
			c.Check("group-lookup-scans-every-group", lf.Name+"/scan", c.P.Pos(scan.Pos()), len(exits) == 0,
				"the lookup stops scanning early ("+strings.Join(exits, ", ")+"): a live group behind the stopping point is not found, and CreateShardGroup then creates a second live group over the same time range")
		}
	}
	{
		pc := &core.PredCompiler{P: c.P}
		n := 0
		check := func(key string, f *core.FuncInfo, x ast.Expr, roles map[string]string, spec *core.BExpr) {
			n++
			impl, err := pc.CompileIn(f, x)
			if err != nil {
				c.Check("time-predicate", key, c.P.Pos(x.Pos()), false, "undecided: "+err.Error())
				return
			}
			ren, err := impl.Rename(roles)
			if err != nil {
				c.Check("time-predicate", key, c.P.Pos(x.Pos()), false, "undecided: "+err.Error()+" in "+impl.String())
				return
			}
			diff, cnt, err := core.Equivalent(ren, spec)
			if err != nil {
				c.Check("time-predicate", key, c.P.Pos(x.Pos()), false, "undecided: "+err.Error())
				return
			}
			c.Counts["orderings_evaluated"] += cnt
			c.Check("time-predicate", key, c.P.Pos(x.Pos()), diff == "", "implementation "+ren.String()+" differs from specification "+spec.String()+" at "+diff)
		}
		sgRoles := map[string]string{`\.StartTime$`: "start", `\.EndTime$`: "end", `\.TruncatedAt$`: "trunc", `\.DeletedAt$`: "del"}
		with := func(extra map[string]string) map[string]string {
			m := map[string]string{}
			for k, v := range sgRoles {
				m[k] = v
			}
			for k, v := range extra {
				m[k] = v
			}
			return m
		}
		contains := func(t string) *core.BExpr { return core.And(core.Le("start", t), core.Lt(t, "end")) }
		deleted := core.Not(core.Zero("del"))
		truncated := core.Not(core.Zero("trunc"))

		f := c.Fn(metap + ".(*ShardGroupInfo).Contains")
		x, err := pc.ReturnPredicate(f)
		c.Need(err == nil, "Contains is a single-return predicate")
		check(f.Name, f, x, with(map[string]string{`^\$0$`: "t"}), contains("t"))

		f = c.Fn(metap + ".(*ShardGroupInfo).Overlaps")
		x, err = pc.ReturnPredicate(f)
		c.Need(err == nil, "Overlaps is a single-return predicate")
		check(f.Name, f, x, with(map[string]string{`^\$0$`: "min", `^\$1$`: "max"}), core.And(core.Le("start", "max"), core.Lt("min", "end")))

		f = c.Fn(metap + ".(*ShardGroupInfo).Deleted")
		x, err = pc.ReturnPredicate(f)
		c.Need(err == nil, "Deleted is a single-return predicate")
		check(f.Name, f, x, sgRoles, deleted)
		f = c.Fn(metap + ".(*ShardGroupInfo).Truncated")
		x, err = pc.ReturnPredicate(f)
		c.Need(err == nil, "Truncated is a single-return predicate")
		check(f.Name, f, x, sgRoles, truncated)

		f = c.Fn(metap + ".(*Data).TruncateShardGroups")
		conds := ifConds(f)
		c.Need(len(conds) == 2, "two conditions in TruncateShardGroups")
		check(f.Name+"/skip", f, conds[0], with(map[string]string{`^\$0$`: "t"}),
			core.Or(core.Or(core.Le("end", "t"), deleted), core.And(truncated, core.Lt("trunc", "t"))))
		check(f.Name+"/future-group", f, conds[1], with(map[string]string{`^\$0$`: "t"}), core.Le("t", "start"))

		f = c.Fn(metap + ".(*Data).CreateShardGroup")
		var clip []ast.Expr
		// the clipping statements: `if <cond> { <local> = <local> }` (startTime = endI / endTime = startI)
		ast.Inspect(f.Body, func(nd ast.Node) bool {
			ifs, ok := nd.(*ast.IfStmt)
			if !ok || ifs.Else != nil || len(ifs.Body.List) != 1 {
				return true
			}
			as, ok := ifs.Body.List[0].(*ast.AssignStmt)
			if !ok || as.Tok != token.ASSIGN || len(as.Lhs) != 1 || len(as.Rhs) != 1 {
				return true
			}
			l, lok := as.Lhs[0].(*ast.Ident)
			r, rok := as.Rhs[0].(*ast.Ident)
			if !lok || !rok {
				return true
			}
			lt, rt := f.Info().TypeOf(l), f.Info().TypeOf(r)
			if lt != nil && rt != nil && lt.String() == "time.Time" && rt.String() == "time.Time" {
				clip = append(clip, ifs.Cond)
			}
			return true
		})
		c.Need(len(clip) == 2, "two clipping conditions in CreateShardGroup")
		// locals are numbered in order of first appearance inside each condition
		check(f.Name+"/clip-start", f, clip[0], map[string]string{`^\$2$`: "t", `^\$l1$`: "endI", `^\$l2$`: "startTime"},
			core.And(core.Le("endI", "t"), core.Lt("startTime", "endI")))
		check(f.Name+"/clip-end", f, clip[1], map[string]string{`^\$2$`: "t", `\.StartTime$`: "startI", `^\$l\d+$`: "endTime"},
			core.And(core.Lt("t", "startI"), core.Lt("startI", "endTime")))

		f = c.Fn(metap + ".(*RetentionPolicyInfo).ExpiredShardGroups")
		// condition under which a group is appended to the result (independent of how the tests are arranged)
		var pathTarget core.Match // nil: the append of a selected group
		pathCheck := func(key string, g *core.FuncInfo, roles map[string]string, spec *core.BExpr) {
			n++
			isAppend := func(e *core.Event) bool {
				if pathTarget != nil {
					return pathTarget(e)
				}
				if e.Kind != core.EvAssign {
					return false
				}
				as, ok := e.Node.(*ast.AssignStmt)
				if !ok || len(as.Rhs) != 1 {
					return false
				}
				ce, ok := ast.Unparen(as.Rhs[0]).(*ast.CallExpr)
				if !ok {
					return false
				}
				b, ok := core.Callee(g.Info(), ce).(*types.Builtin)
				return ok && b.Name() == "append"
			}
			if len(g.Graph().Find(isAppend)) == 0 {
				c.Check("time-predicate", key, g.PosStr(), false, "undecided: no append of a selected group found in "+g.Name)
				return
			}
			impl, err := pc.PathCondition(g, isAppend, nil)
			if err != nil {
				c.Check("time-predicate", key, g.PosStr(), false, "undecided: "+err.Error())
				return
			}
			ren, err := impl.Rename(roles)
			if err != nil {
				c.Check("time-predicate", key, g.PosStr(), false, "undecided: "+err.Error()+" in "+impl.String())
				return
			}
			diff, cnt, err := core.Equivalent(ren, spec)
			if err != nil {
				c.Check("time-predicate", key, g.PosStr(), false, "undecided: "+err.Error())
				return
			}
			c.Counts["orderings_evaluated"] += cnt
			c.Check("time-predicate", key, g.PosStr(), diff == "", "selection condition "+ren.String()+" differs from specification "+spec.String()+" at "+diff)
		}
		expRoles := map[string]string{`^\$0$`: "t", `^\$recv\.Duration$`: "dur", `^const:0$`: "zero", `\.EndTime\+\$recv\.Duration$`: "endPlusDur", `\.DeletedAt$`: "del"}
		// the group a timestamp is routed to: the condition under which ShardGroupByTimestamp returns a group
		// (computed as a path condition, so guard clauses and nested ifs are the same thing)
		sel := c.Fn(metap + ".(*RetentionPolicyInfo).ShardGroupByTimestamp")
		pathTarget = func(e *core.Event) bool {
			if e.Kind != core.EvReturn {
				return false
			}
			rs, ok := e.Node.(*ast.ReturnStmt)
			return ok && len(rs.Results) == 1 && !isNilExpr(sel.Info(), rs.Results[0])
		}
		pathCheck(sel.Name+"/selector", sel, with(map[string]string{`^\$0$`: "t"}),
			core.And(core.And(contains("t"), core.Not(deleted)), core.Or(core.Not(truncated), core.Lt("t", "trunc"))))
		pathTarget = nil
		pathCheck(f.Name+"/expired-selection", f, expRoles,
			core.And(core.And(core.Zero("del"), core.Not(core.EqT("dur", "zero"))), core.Lt("endPlusDur", "t")))
		f = c.Fn(metap + ".(*RetentionPolicyInfo).DeletedShardGroups")
		pathCheck(f.Name+"/deleted-selection", f, sgRoles, deleted)
		c.Floor("time predicates", n, 11)
	}
}

// runOwnerRoundRobin: stride of the owner assignment in CreateShardGroup.
func runOwnerRoundRobin(c *core.Ctx) {
	{
		// owner round-robin in CreateShardGroup: within the replica loop the node index advances by exactly one per
		// appended owner, and the owner appended is DataNodes[index % len(DataNodes)]
		f := c.Fn(metap + ".(*Data).CreateShardGroup")
		ownersField := c.P.LookupField(metap, "ShardInfo", "Owners")
		// the assignment loop may have been extracted into an unexported helper of CreateShardGroup
		for _, g := range withLocalHelpers(c.P, f) {
			_, w := g.AccessesField(ownersField)
			if w {
				f = g
				break
			}
		}
		info := f.Info()
		isOwnerAppend := func(e *core.Event) bool {
			if e.Kind != core.EvAssign {
				return false
			}
			as, ok := e.Node.(*ast.AssignStmt)
			if !ok || len(as.Lhs) != 1 {
				return false
			}
			se, ok := ast.Unparen(as.Lhs[0]).(*ast.SelectorExpr)
			return ok && info.Uses[se.Sel] == ownersField
		}
		apps := findOrAbort(c, f, "append to ShardInfo.Owners", isOwnerAppend, 1)
		// the index variable
		var idxObj types.Object
		ast.Inspect(f.Body, func(nd ast.Node) bool {
			if ix, ok := nd.(*ast.IndexExpr); ok && core.FieldPathOf(info, ix.X) == "Data.DataNodes" {
				ast.Inspect(ix.Index, func(x ast.Node) bool {
					if id, ok := x.(*ast.Ident); ok {
						if v, ok := info.ObjectOf(id).(*types.Var); ok && !v.IsField() && idxObj == nil && v.Name() != "data" {
							idxObj = v
						}
					}
					return true
				})
			}
			return true
		})
		c.Need(idxObj != nil, "round-robin index variable in CreateShardGroup")
		isInc := func(e *core.Event) bool {
			if e.Kind != core.EvAssign {
				return false
			}
			if s, ok := e.Node.(*ast.IncDecStmt); ok && s.Tok == token.INC {
				return isIdentObj(info, s.X, idxObj)
			}
			return false
		}
		// innermost loop containing the append
		var inner *core.Loop
		for _, l := range f.Graph().Loops() {
			var body *ast.BlockStmt
			switch s := l.Stmt.(type) {
			case *ast.ForStmt:
				body = s.Body
			case *ast.RangeStmt:
				body = s.Body
			}
			if body != nil && body.Pos() <= apps[0].Pos() && apps[0].Pos() < body.End() {
				if inner == nil || l.Stmt.Pos() > inner.Stmt.Pos() {
					inner = l
				}
			}
		}
		c.Need(inner != nil, "replica loop around the owner append")
		minA, maxA, ok1, _ := f.Flow().IterationCount(inner, isOwnerAppend)
		minI, maxI, ok2, _ := f.Flow().IterationCount(inner, isInc)
		c.Check("round-robin-stride", f.Name+"/one-owner-per-iteration", c.P.Pos(apps[0].Pos()), ok1 && minA == 1 && maxA == 1,
			fmt.Sprintf("each replica iteration must append exactly one owner (min=%d max=%d)", minA, maxA))
		c.Check("round-robin-stride", f.Name+"/index-advances-by-one", c.P.Pos(apps[0].Pos()), ok2 && minI == 1 && maxI == 1,
			fmt.Sprintf("the node index must advance by exactly one per appended owner (increments per iteration: min=%d max=%d): otherwise replicas of one shard land on the same node or the spread is uneven", minI, maxI))
		// the node chosen is indexed by the running index modulo the node count (no other variable)
		good := false
		ast.Inspect(f.Body, func(nd ast.Node) bool {
			if ix, ok := nd.(*ast.IndexExpr); ok && core.FieldPathOf(info, ix.X) == "Data.DataNodes" {
				if be, ok := ast.Unparen(ix.Index).(*ast.BinaryExpr); ok && be.Op == token.REM && isIdentObj(info, be.X, idxObj) {
					mod := ast.Unparen(be.Y)
					// the modulus may be hoisted into a local: nodeN := len(data.DataNodes)
					if id, isId := mod.(*ast.Ident); isId {
						if fact := f.Flow().FactOfExpr(f.Graph().Exit, id); fact.Def != nil {
							mod = ast.Unparen(fact.Def)
						} else {
							ast.Inspect(f.Body, func(d ast.Node) bool {
								if as, ok := d.(*ast.AssignStmt); ok && len(as.Lhs) == 1 && len(as.Rhs) == 1 {
									if lid, ok := as.Lhs[0].(*ast.Ident); ok && info.ObjectOf(lid) == info.ObjectOf(id) {
										mod = ast.Unparen(as.Rhs[0])
									}
								}
								return true
							})
						}
					}
					if ce, ok := mod.(*ast.CallExpr); ok && isLenCall(info, ce) && core.FieldPathOf(info, ce.Args[0]) == "Data.DataNodes" {
						good = true
					}
				}
			}
			return true
		})
		c.Check("round-robin-stride", f.Name+"/DataNodes[index%len]", f.PosStr(), good, "the owner must be DataNodes[index % len(DataNodes)] with the running index alone")
		// the shard count loop: shardN*replicaN divisible by the node count
		// (value formula; matched as the loop condition `shardN*replicaN % len(DataNodes) != 0`)
	}
}

// ifConds lists the conditions of the if statements of f in source order (nested literals excluded).
func ifConds(f *core.FuncInfo) []ast.Expr {
	var out []ast.Expr
	ast.Inspect(f.Body, func(nd ast.Node) bool {
		if _, ok := nd.(*ast.FuncLit); ok {
			return false
		}
		if s, ok := nd.(*ast.IfStmt); ok {
			out = append(out, s.Cond)
		}
		return true
	})
	return out
}

func isDataMethod(fn *types.Func) bool {
	sig, ok := fn.Type().(*types.Signature)
	if !ok || sig.Recv() == nil {
		return false
	}
	t := sig.Recv().Type()
	if p, ok := t.(*types.Pointer); ok {
		t = p.Elem()
	}
	nt, ok := t.(*types.Named)
	return ok && nt.Obj().Name() == "Data" && nt.Obj().Pkg() != nil && core.Rel(nt.Obj().Pkg().Path()) == metap
}

var mutCache = map[*types.Func]bool{}

// mutatesReceiver: the method (transitively, within its package) assigns through its receiver.
func mutatesReceiver(p *core.Prog, fn *types.Func) bool {
	if fn == nil {
		return false
	}
	if v, ok := mutCache[fn]; ok {
		return v
	}
	mutCache[fn] = false
	fi := p.FuncOf(fn)
	if fi == nil || fi.Decl == nil || fi.Decl.Recv == nil || len(fi.Decl.Recv.List) == 0 || len(fi.Decl.Recv.List[0].Names) == 0 {
		return false
	}
	if _, isPtr := fi.Decl.Recv.List[0].Type.(*ast.StarExpr); !isPtr {
		return false
	}
	info := fi.Info()
	recv := info.ObjectOf(fi.Decl.Recv.List[0].Names[0])
	res := false
	rooted := func(x ast.Expr) bool {
		for {
			switch e := ast.Unparen(x).(type) {
			case *ast.SelectorExpr:
				x = e.X
			case *ast.IndexExpr:
				x = e.X
			case *ast.StarExpr:
				x = e.X
			case *ast.Ident:
				return info.ObjectOf(e) == recv
			default:
				return false
			}
		}
	}
	ast.Inspect(fi.Body, func(nd ast.Node) bool {
		switch s := nd.(type) {
		case *ast.AssignStmt:
			for _, l := range s.Lhs {
				if _, isId := ast.Unparen(l).(*ast.Ident); !isId && rooted(l) {
					res = true
				}
			}
		case *ast.IncDecStmt:
			if rooted(s.X) {
				res = true
			}
		case *ast.CallExpr:
			if se, ok := s.Fun.(*ast.SelectorExpr); ok {
				if callee, ok := core.Callee(info, s).(*types.Func); ok && rooted(se.X) {
					if _, isId := ast.Unparen(se.X).(*ast.Ident); isId && mutatesReceiver(p, callee) {
						res = true
					}
				}
			}
			if b, ok := core.Callee(info, s).(*types.Builtin); ok && b.Name() == "delete" && len(s.Args) > 0 && rooted(s.Args[0]) {
				res = true
			}
		}
		return true
	})
	// locals that alias receiver storage (pointers obtained from receiver methods) are treated as mutation when assigned through
	if !res {
		ast.Inspect(fi.Body, func(nd ast.Node) bool {
			if as, ok := nd.(*ast.AssignStmt); ok {
				for _, l := range as.Lhs {
					if se, ok := ast.Unparen(l).(*ast.SelectorExpr); ok {
						if id, ok := ast.Unparen(se.X).(*ast.Ident); ok {
							if v, ok := info.ObjectOf(id).(*types.Var); ok && v != recv {
								if _, isPtr := v.Type().(*types.Pointer); isPtr {
									res = true
								}
							}
						}
					}
				}
			}
			return true
		})
	}
	mutCache[fn] = res
	return res
}

// nowFlowsOnlyToDeletedAt: the time.Now() call is the RHS (possibly via .UTC()/.Add()) of an assignment to a
// DeletedAt field or to a local variable that is only compared.
func nowFlowsOnlyToDeletedAt(f *core.FuncInfo, e *core.Event) bool {
	as, ok := e.Stmt.(*ast.AssignStmt)
	if !ok || len(as.Lhs) != 1 {
		return false
	}
	switch l := ast.Unparen(as.Lhs[0]).(type) {
	case *ast.SelectorExpr:
		return l.Sel.Name == "DeletedAt"
	case *ast.Ident:
		// local cut-off: used only as an argument of Before/After comparisons
		obj := f.Info().ObjectOf(l)
		ok := true
		ast.Inspect(f.Body, func(nd ast.Node) bool {
			if ce, isCall := nd.(*ast.CallExpr); isCall {
				for _, a := range ce.Args {
					if id, isId := ast.Unparen(a).(*ast.Ident); isId && f.Info().ObjectOf(id) == obj {
						if se, isSel := ce.Fun.(*ast.SelectorExpr); !isSel || (se.Sel.Name != "Before" && se.Sel.Name != "After") {
							ok = false
						}
					}
				}
			}
			if a2, isAs := nd.(*ast.AssignStmt); isAs && a2 != as {
				for _, r := range a2.Rhs {
					if id, isId := ast.Unparen(r).(*ast.Ident); isId && f.Info().ObjectOf(id) == obj {
						ok = false
					}
				}
			}
			return true
		})
		return ok
	}
	return false
}

// mapRangeOrderInsensitive recognises loop bodies whose effect does not depend on iteration order.
func mapRangeOrderInsensitive(f *core.FuncInfo, rs *ast.RangeStmt) (bool, string) {
	info := f.Info()
	var keyObj, valObj types.Object
	if id, ok := rs.Key.(*ast.Ident); ok {
		keyObj = info.ObjectOf(id)
	}
	if id, ok := rs.Value.(*ast.Ident); ok {
		valObj = info.ObjectOf(id)
	}
	stmts := rs.Body.List
	// (a) every statement writes a map element indexed by the range key, or deletes by key
	allKeyed := len(stmts) > 0
	for _, st := range stmts {
		switch s := st.(type) {
		case *ast.AssignStmt:
			for _, l := range s.Lhs {
				ix, ok := ast.Unparen(l).(*ast.IndexExpr)
				if !ok || !isIdentObj(info, ix.Index, keyObj) {
					allKeyed = false
				}
			}
		case *ast.ExprStmt:
			ce, ok := s.X.(*ast.CallExpr)
			if !ok {
				allKeyed = false
				break
			}
			if b, ok := core.Callee(info, ce).(*types.Builtin); !ok || b.Name() != "delete" {
				allKeyed = false
			}
		default:
			allKeyed = false
		}
	}
	if allKeyed {
		return true, "every statement writes/deletes a map element keyed by the range key"
	}
	// (b) arg-min / arg-max with a total tie-break on the key
	// (the selection may be preceded by definitions of named sub-conditions: fewer := freq < minFreq)
	named := map[types.Object]ast.Expr{}
	selStmts := stmts
	for len(selStmts) > 1 {
		as, ok := selStmts[0].(*ast.AssignStmt)
		if !ok || as.Tok != token.DEFINE || len(as.Lhs) != 1 || len(as.Rhs) != 1 {
			break
		}
		id, ok := as.Lhs[0].(*ast.Ident)
		if !ok {
			break
		}
		if b, isB := info.TypeOf(as.Rhs[0]).Underlying().(*types.Basic); !isB || b.Kind() != types.Bool && b.Kind() != types.UntypedBool {
			break
		}
		named[info.ObjectOf(id)] = as.Rhs[0]
		selStmts = selStmts[1:]
	}
	if len(selStmts) == 1 {
		if ifs, ok := selStmts[0].(*ast.IfStmt); ok && ifs.Else == nil && keyObj != nil && valObj != nil {
			strictOnVal, tieOnKey := false, false
			var walk func(x ast.Expr)
			walk = func(x ast.Expr) {
				if id, isId := ast.Unparen(x).(*ast.Ident); isId {
					if def, has := named[info.ObjectOf(id)]; has {
						walk(def)
					}
					return
				}
				be, ok := ast.Unparen(x).(*ast.BinaryExpr)
				if !ok {
					return
				}
				switch be.Op {
				case token.LOR:
					walk(be.X)
					walk(be.Y)
				case token.LSS, token.GTR:
					if mentionsObj(info, be, valObj) && !mentionsObj(info, be, keyObj) {
						strictOnVal = true
					}
				case token.LAND:
					// freq == minFreq && id < minId
					l, lok := ast.Unparen(be.X).(*ast.BinaryExpr)
					r, rok := ast.Unparen(be.Y).(*ast.BinaryExpr)
					if lok && rok {
						if l.Op != token.EQL {
							l, r = r, l
						}
						if l.Op == token.EQL && mentionsObj(info, l, valObj) && (r.Op == token.LSS || r.Op == token.GTR) && mentionsObj(info, r, keyObj) {
							tieOnKey = true
						}
					}
				}
			}
			walk(ifs.Cond)
			if strictOnVal && tieOnKey {
				return true, "arg-min/arg-max selection with a strict tie-break on the (unique) map key"
			}
			if strictOnVal {
				return false, "selection of a minimum/maximum over a map without a tie-break on the key: with equal values the winner depends on Go's randomized map iteration order, so replicas diverge"
			}
		}
	}
	// (c) only commutative accumulation
	comm := len(stmts) > 0
	for _, st := range stmts {
		switch s := st.(type) {
		case *ast.IncDecStmt:
		case *ast.AssignStmt:
			if s.Tok != token.ADD_ASSIGN && s.Tok != token.OR_ASSIGN && s.Tok != token.AND_ASSIGN {
				comm = false
			}
		default:
			comm = false
		}
	}
	if comm {
		return true, "commutative accumulation only"
	}
	// (d) the loop only appends, and the result is sorted afterwards in the same function
	onlyAppend := len(stmts) > 0
	var target types.Object
	for _, st := range stmts {
		as, ok := st.(*ast.AssignStmt)
		if !ok || len(as.Lhs) != 1 || len(as.Rhs) != 1 {
			onlyAppend = false
			break
		}
		ce, ok := as.Rhs[0].(*ast.CallExpr)
		if !ok {
			onlyAppend = false
			break
		}
		if b, ok := core.Callee(info, ce).(*types.Builtin); !ok || b.Name() != "append" {
			onlyAppend = false
			break
		}
		if id, ok := as.Lhs[0].(*ast.Ident); ok {
			target = info.ObjectOf(id)
		}
	}
	if onlyAppend && target != nil {
		sorted := false
		ast.Inspect(f.Body, func(nd ast.Node) bool {
			if ce, ok := nd.(*ast.CallExpr); ok && ce.Pos() > rs.End() {
				if fn, ok := core.Callee(info, ce).(*types.Func); ok && fn.Pkg() != nil && fn.Pkg().Path() == "sort" {
					for _, a := range ce.Args {
						if mentionsObj(info, a, target) {
							sorted = true
						}
					}
				}
			}
			return true
		})
		if sorted {
			return true, "collects into a slice that is sorted before use"
		}
	}
	return false, "the body of a range over a map is order-sensitive (not keyed writes, not commutative, no tie-broken selection, not sorted afterwards): replicas iterate in different orders"
}

// assignIsMonotone: the assignment to counter v is guarded by a condition `x > data.v` (or <).
func assignIsMonotone(f *core.FuncInfo, as *ast.AssignStmt, v *types.Var) bool {
	info := f.Info()
	ok := false
	ast.Inspect(f.Body, func(nd ast.Node) bool {
		ifs, isIf := nd.(*ast.IfStmt)
		if !isIf || !(ifs.Body.Pos() <= as.Pos() && as.End() <= ifs.Body.End()) {
			return true
		}
		if be, isBin := ast.Unparen(ifs.Cond).(*ast.BinaryExpr); isBin && (be.Op == token.GTR || be.Op == token.LSS) {
			var other ast.Expr
			if se, isSel := ast.Unparen(be.Y).(*ast.SelectorExpr); isSel && info.Uses[se.Sel] == v && be.Op == token.GTR {
				other = be.X
			}
			if se, isSel := ast.Unparen(be.X).(*ast.SelectorExpr); isSel && info.Uses[se.Sel] == v && be.Op == token.LSS {
				other = be.Y
			}
			if other != nil {
				ok = true
			}
		}
		return true
	})
	return ok
}

// runApplyTotality: storeFSM.Apply is total over the command registry and the validator in front of it (shared by C06 and C07).
func runApplyTotality(c *core.Ctx) {
	f := c.Fn(metap + ".(*storeFSM).Apply")
	// registry: constants of internal.Command_Type
	registry := map[string]bool{}
	pkg := c.P.ByPath[metap+"/internal"]
	c.Need(pkg != nil, "package services/meta/internal")
	sc := pkg.Types.Scope()
	for _, nm := range sc.Names() {
		if k, ok := sc.Lookup(nm).(*types.Const); ok {
			if nt, ok := k.Type().(*types.Named); ok && nt.Obj().Name() == "Command_Type" {
				registry[k.Pkg().Name()+"."+k.Name()] = true
			}
		}
	}
	c.Floor("command type registry", len(registry), 33)
	cases := map[string]bool{}
	var all []*core.FuncInfo
	all = append(all, f)
	all = append(all, f.Lits...)
	for _, g := range all {
		for _, sw := range valueSwitches(g) {
			hit := 0
			for _, cs := range sw.cases {
				if registry[cs] {
					hit++
				}
			}
			if hit >= 10 {
				for _, cs := range sw.cases {
					cases[cs] = true
				}
			}
		}
	}
	c.Floor("Apply switch cases", len(cases), 30)
	// validator table
	table := map[string]bool{}
	tv := c.P.LookupObj(metap, "commandExtensions")
	hasTable := tv != nil
	if hasTable {
		for _, file := range c.P.ByPath[metap].Syntax {
			ast.Inspect(file, func(nd ast.Node) bool {
				vs, ok := nd.(*ast.ValueSpec)
				if !ok || len(vs.Names) != 1 || c.P.ByPath[metap].TypesInfo.Defs[vs.Names[0]] != tv || len(vs.Values) != 1 {
					return true
				}
				if cl, ok := vs.Values[0].(*ast.CompositeLit); ok {
					for _, el := range cl.Elts {
						if kv, ok := el.(*ast.KeyValueExpr); ok {
							table[constName(c.P.ByPath[metap].TypesInfo, kv.Key)] = true
						}
					}
				}
				return true
			})
		}
	}
	var names []string
	for k := range registry {
		names = append(names, k)
	}
	sort.Strings(names)
	for _, k := range names {
		switch {
		case cases[k] && (!hasTable || table[k]):
			c.Check("apply-total-over-registry", f.Name+"/"+k, f.PosStr(), hasTable, "handled by Apply"+map[bool]string{true: " and accepted by the validator", false: ", but no validator table exists: a command without its extension still panics"}[hasTable])
		case cases[k] && !table[k]:
			c.Check("apply-total-over-registry", f.Name+"/"+k, f.PosStr(), true, "handled by Apply, rejected by the validator (never proposed)")
		case !cases[k] && table[k]:
			c.Check("apply-total-over-registry", f.Name+"/"+k, f.PosStr(), false, "the validator accepts "+k+" but storeFSM.Apply has no case for it: the default branch panics on every replica")
		default:
			c.Check("apply-total-over-registry", f.Name+"/"+k, f.PosStr(), hasTable, "no case in Apply; rejected by the validator")
		}
	}
	for k := range table {
		if !registry[k] {
			c.Check("apply-total-over-registry", f.Name+"/"+k, f.PosStr(), false, "validator table mentions a constant outside the registry")
		}
	}
	// the validator consults the table and rejects on a miss, and it dominates store.apply in serveExec
	if hasTable {
		vf := c.Fn(metap + ".validateCommand")
		consults := false
		ast.Inspect(vf.Body, func(nd ast.Node) bool {
			if ix, ok := nd.(*ast.IndexExpr); ok {
				if id, ok := ix.X.(*ast.Ident); ok && vf.Info().ObjectOf(id) == tv {
					consults = true
				}
			}
			return true
		})
		c.Check("validator-consults-table", vf.Name+"/commandExtensions[...]", vf.PosStr(), consults, "validateCommand must look the command type up in commandExtensions")
		getExt := calleeIn(vf, "github.com/gogo/protobuf/proto.GetExtension")
		c.Check("validator-checks-extension", vf.Name+"/proto.GetExtension", vf.PosStr(), len(vf.Graph().Find(evCall(getExt))) > 0,
			"validateCommand must verify that the command carries the extension Apply will assert")
	}
	se := c.Fn(metap + ".(*handler).serveExec")
	okRule(c, se, "validate-before-propose", "validateCommand", "store.apply", calleeIn(se, metap+".validateCommand"),
		func(e *core.Event) bool { return e.Kind == core.EvCall && core.RecvFieldOf(e) == "handler.store" && e.Call.Fun.(*ast.SelectorExpr).Sel.Name == "apply" })

}
