#!/bin/bash
# usage: fixregress.sh <checker-binary>
# For every "fixed" record of known_findings.json: revert that fix commit in a scratch worktree of /repo HEAD and run
# the property's quick check; the check must report a violation again (a fixed entry suppresses nothing).
BIN=${1:-/verif/bin/verifcheck}; WT=/tmp/wt-fixregress
export GOFLAGS=-mod=mod GOPROXY=off GOSUMDB=off GOTOOLCHAIN=local; unset GOWORK
git -C /repo worktree remove --force $WT >/dev/null 2>&1
git -C /repo worktree add -q --detach $WT HEAD || exit 2
SV=/tmp/fixregress-verif; mkdir -p $SV/evidence; cp /verif/known_findings.json $SV/
python3 - <<'P' > /tmp/fixregress.list
import json
for f in json.load(open('/verif/known_findings.json'))['fixed']:
    print(f['property'], f['commit'])
P
ok=0; bad=0
while read prop commit; do
  git -C $WT checkout -q -- .; git -C $WT clean -fdq
  if ! git -C /repo show $commit --format= -- . ':!*_test.go' | git -C $WT apply -R 2>/dev/null; then echo "CANNOT-REVERT $prop $commit (later commits touch the same lines)"; continue; fi
  $BIN -property $prop -tier quick -repo $WT -verif $SV >/tmp/fixregress.out 2>&1; rc=$?
  if [ $rc -eq 1 ]; then ok=$((ok+1)); echo "REPORTED-AGAIN $prop $commit: $(grep 'rule=' /tmp/fixregress.out | head -1 | cut -c1-150)"; else bad=$((bad+1)); echo "NOT-REPORTED $prop $commit rc=$rc"; fi
done < /tmp/fixregress.list
git -C /repo worktree remove --force $WT >/dev/null 2>&1
echo "fixregress: reported-again=$ok not-reported=$bad"
