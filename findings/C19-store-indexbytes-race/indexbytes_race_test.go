// Copy into tsdb/ and run: go test -race -vet=off -count=1 -run 'TestFinding_IndexBytesRacesWithCreateShard' ./tsdb/
//
// Store.IndexBytes calls s.shardIDs() - which ranges over the s.shards map - before it takes s.mu.RLock,
// while CreateShard writes the map under the write lock. IndexBytes serves a statement a user can send at any
// time (coordinator/statement_executor.go), so this is a concurrent map iteration and map write on a running
// node: a data race, and a fatal runtime error when the runtime notices it (C19).
package tsdb_test

import (
	"sync"
	"testing"
)

func TestFinding_IndexBytesRacesWithCreateShard(t *testing.T) {
	s := MustOpenStore("inmem")
	defer s.Close()

	var wg sync.WaitGroup
	stop := make(chan struct{})
	wg.Add(1)
	go func() {
		defer wg.Done()
		for {
			select {
			case <-stop:
				return
			default:
				s.IndexBytes()
			}
		}
	}()
	for id := uint64(1); id <= 30; id++ {
		if err := s.CreateShard("db0", "rp0", id, true); err != nil {
			t.Fatal(err)
		}
	}
	close(stop)
	wg.Wait()
}
