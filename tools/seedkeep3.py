#!/usr/bin/env python3
"""usage: seedkeep3.py <checker-binary> <blind-log-dir> <prop> <k> <new-id>
Round-3 keeper: validity (demo fails with / passes without the patch, existing tests pass with it) was established by
tools/seedcheck.sh at the commit the seed was written against (log in <blind-log-dir>/<prop>-<k>.log, blind binary).
This script re-applies the patch at /repo HEAD in a scratch worktree, runs the property's quick check with the given
(final) binary, runs every other property's check when the own one is silent, and stores the seed under
/verif/seeded/<new-id>/ with an honest meta.json (detected = own check at HEAD; detected_blind = first run)."""
import sys, os, subprocess, json, shutil, re
binp, logdir, prop, k, sid = sys.argv[1:6]
rnd = int(os.environ.get("SEED_ROUND", "3"))
sd = os.environ.get("SEED_DIR_PREFIX", "/tmp/seed3-out-") + f"{prop}/{k}"
blind = open(f"{logdir}/{prop}-{k}.log").read()
m = re.search(r"RESULT valid=(\w+) detected=(\w+)", blind)
if not m or m.group(1) != "yes":
    print("NOT KEPT (not valid in the blind run)", sid); sys.exit(1)
env = dict(os.environ, GOFLAGS="-mod=mod", GOPROXY="off", GOSUMDB="off", GOTOOLCHAIN="local"); env.pop("GOWORK", None)
wt = f"/tmp/wt-keep3-{os.getpid()}"; sv = f"/tmp/keep3-verif-{os.getpid()}"
subprocess.run(["git","-C","/repo","worktree","add","-q","--detach",wt,"HEAD"],check=True)
try:
    os.makedirs(sv+"/evidence",exist_ok=True); shutil.copy("/verif/known_findings.json",sv)
    if subprocess.run(["git","-C",wt,"apply",sd+"/patch.diff"]).returncode != 0:
        print("NOAPPLY at HEAD", sid); sys.exit(2)
    def run(p):
        r = subprocess.run([binp,"-property",p,"-tier","quick","-repo",wt,"-verif",sv],capture_output=True,text=True,env=env)
        return r.returncode, re.findall(r"rule=(\S+) construct=(\S+)", r.stdout)
    rc, viol = run(prop)
    cross = []
    if rc != 1 and os.environ.get('SEED_NOCROSS') != '1':
        for i in range(1,20):
            p = "C%02d"%i
            if p == prop: continue
            rc2, v2 = run(p)
            if rc2 == 1: cross.append({"property":p,"reported":[{"rule":r,"construct":c} for r,c in v2][:3]})
finally:
    subprocess.run(["git","-C","/repo","worktree","remove","--force",wt]); shutil.rmtree(sv,ignore_errors=True)
dst = f"/verif/seeded/{sid}"; os.makedirs(dst,exist_ok=True)
shutil.copy(sd+"/patch.diff",dst)
demo=[f for f in os.listdir(sd) if f.endswith("_test.go")][0]
shutil.copy(os.path.join(sd,demo),os.path.join(dst,"demo_test.go"))
readme = open(sd+"/README.md").read() if os.path.exists(sd+"/README.md") else ""
if readme: shutil.copy(sd+"/README.md",dst)
trig = ""
for line in readme.splitlines():
    if re.search(r"trigger", line, re.I):
        trig = line.strip()[:400]; break
meta = {
 "property": prop, "round": rnd,
 "breaks": readme[:1200],
 "needs_to_manifest": trig or "see README.md",
 "ran": ["tools/seedcheck.sh at the commit the seed was written against (see head_at_blind_validation): demo passes without the patch, fails with it; go build ./... and go test of the touched packages pass with it",
         "tools/seedkeep3.py: patch re-applied at /repo HEAD in a scratch worktree, ./bin/verifcheck -property %s -tier quick against it" % prop],
 "detected": rc == 1,
 "detected_blind": m.group(2) == "yes",
 "detected_by": "",
 "reported": [{"rule": r, "construct": c} for r, c in viol][:6],
 "cross_detected_by": cross,
 "head_at_blind_validation": os.environ.get("SEED_BLIND_BASE", "74fdcd6"),
 "head_at_validation": subprocess.run(["git","-C","/repo","rev-parse","--short","HEAD"],capture_output=True,text=True).stdout.strip(),
}
json.dump(meta, open(os.path.join(dst,"meta.json"),"w"), indent=1)
print("KEPT", sid, "blind=", meta["detected_blind"], "after=", meta["detected"], "cross=", [c["property"] for c in cross])
