package props

import (
	"fmt"
	"go/ast"
	"go/token"
	"go/types"
	"strings"

	"golang.org/x/tools/go/types/typeutil"

	"verifcheck/core"
)

func init() {
	register("C03", core.PropertyMeta{
		Explanation: "Decides the outcome table of the cluster write path over every path (= every combination of per-owner outcomes): D1 the per-owner goroutine sends exactly one result, offers the points to hinted handoff exactly once exactly when the owner is remote and (its queue is non-empty or the remote write failed retryably), and the value it sends obeys the specification (handoff error surfaces; accepted handoff is success under level any; otherwise the write's own error); " +
			"D2 the collector: required = 1 | floor(n/2)+1 | n evaluated by constant folding for n=1..64, the level switch covers the registry of models.ConsistencyLevel, success only under wrote >= required, wrote incremented only for nil results, partial/failed/timeout classification; " +
			"D3 a remote write is acknowledged only after the store returned nil / the response code was 0 (frozen exceptions: shard group gone, request without db/rp); D5 a failed framed exchange poisons the pooled connection; D6 one hinted-handoff processor per (node, shard): creation is re-checked under the write lock. " +
			"D2 also: the collector loop is left only by a classified return or by running out of owners (no break/goto); D7 no call into the handoff path transposes its two same-typed ids (argument names against the callee's parameter names). " +
			"D8 no owner goroutine passes the batch it shares with the others to a callee that stores into its elements (shared with C19 D11). " +
			"NOT decided: timing (within the timeout), scheduling of the owner goroutines.",
		RuleText:    "obligation = (rule, function, path class); path exploration of the owner closure with markers for the handoff call and outcome/branch facts; integer expression evaluation of the quorum formula over n=1..64",
		Assumptions: commonAssumptions,
	}, runC03)
}

func runC03(c *core.Ctx) {
	const pw = coord + ".(*PointsWriter).writeToShardWithContext"

	c.Clause("D1", func() {
		f := c.Fn(pw)
		// the per-owner goroutine literal: the one started by a go statement that calls HintedHandoff.WriteShard
		var g *core.FuncInfo
		for _, l := range f.Lits {
			if len(l.Graph().Find(evCall(fieldCallIn(l, "PointsWriter.HintedHandoff", "WriteShard")))) > 0 {
				g = l
			}
		}
		c.Need(g != nil, "owner goroutine in writeToShardWithContext")
		info := g.Info()
		hhWrite := fieldCallIn(g, "PointsWriter.HintedHandoff", "WriteShard")
		hhEmpty := fieldCallIn(g, "PointsWriter.HintedHandoff", "Empty")
		remote := fieldCallIn(g, "PointsWriter.ShardWriter", "WriteShard")
		isSend := func(e *core.Event) bool { return e.Kind == core.EvSend }
		sends := findOrAbort(c, g, "result send", isSend, 4)
		findOrAbort(c, g, "HintedHandoff.WriteShard", evCall(hhWrite), 2)
		findOrAbort(c, g, "HintedHandoff.Empty", evCall(hhEmpty), 1)
		findOrAbort(c, g, "ShardWriter.WriteShard", evCall(remote), 1)
		findOrAbort(c, g, "hh.IsRetryable", evCall(calleeIn(g, hhp+".IsRetryable")), 1)

		// exactly one send per path
		miss := g.Flow().PathAvoiding(g.Graph().Entry, core.IsNormalReturn, isSend)
		c.Check("exactly-one-result", g.Root().Name+"/owner-goroutine/at-least-one-send", g.PosStr(), miss == nil,
			"a path through the owner goroutine ends without sending a result: the collector waits for the timeout: "+core.PathStr(miss))
		dbl := g.NoPath(isSend, isSend)
		c.Check("exactly-one-result", g.Root().Name+"/owner-goroutine/at-most-one-send", g.PosStr(), len(dbl) == 0,
			"a path sends two results for one owner (over-counted acknowledgement): "+firstPath(dbl))
		dblHH := g.NoPath(evCall(hhWrite), evCall(hhWrite))
		c.Check("handoff-at-most-once", g.Root().Name+"/owner-goroutine/hh-at-most-once", g.PosStr(), len(dblHH) == 0,
			"the points of one owner can be offered to hinted handoff twice on one path: "+firstPath(dblHH))

		isLocal := func(x ast.Expr) bool { return strings.Contains(core.ExprStr(x), "NodeID()") && !strings.Contains(core.ExprStr(x), "Empty(") }
		isQNE := func(x ast.Expr) bool { return strings.Contains(core.ExprStr(x), ".Empty(") }
		isRetry := func(x ast.Expr) bool { return strings.Contains(core.ExprStr(x), "IsRetryable(") }
		isAny := func(x ast.Expr) bool { return strings.Contains(core.ExprStr(x), "ConsistencyLevelAny") }
		type verdict struct {
			bad string
			n   int
		}
		perSend := map[*core.Event]*verdict{}
		classes := map[string]bool{}
		complete := g.Flow().ExplorePathsMarked(func(k core.VarKey, fct core.Fact) bool {
			if ce, ok := fct.Def.(*ast.CallExpr); ok {
				return true || ce != nil
			}
			if k.Root == nil && strings.HasPrefix(k.Path, "cond:") {
				return true
			}
			return k.Root != nil && k.Path == ""
		}, func(e *core.Event) string {
			if e.Kind == core.EvCall && hhWrite(e.Call) {
				return "hh"
			}
			if e.Kind == core.EvCall && remote(e.Call) {
				return "remote"
			}
			return ""
		}, func(e *core.Event, st core.State) {
			if e.Kind != core.EvSend {
				return
			}
			v := perSend[e]
			if v == nil {
				v = &verdict{}
				perSend[e] = v
			}
			v.n++
			// classified by the atoms the path established, however the tests are written (nested ifs, guard
			// clauses with the condition inverted, named sub-conditions)
			local := atomEstablished(st, isLocal) == 1
			qne := atomEstablished(st, isQNE) == 2 // Empty(..) established false
			retry := atomEstablished(st, isRetry) == 1
			hhCalled := core.Marked(st, "hh")
			want := !local && (qne || retry)
			classes[fmt.Sprintf("local=%v qne=%v retry=%v hh=%v", local, qne, retry, hhCalled)] = true
			if hhCalled != want {
				v.bad = fmt.Sprintf("handoff offered=%v but the path has local-owner=%v queue-not-empty=%v retryable-failure=%v (must be offered exactly when the owner is remote and its queue is non-empty or the remote write failed for a retryable reason)", hhCalled, local, qne, retry)
				return
			}
			// the value sent
			var sent ast.Expr
			if u, ok := ast.Unparen(e.Node.(*ast.SendStmt).Value).(*ast.UnaryExpr); ok {
				if cl, ok := u.X.(*ast.CompositeLit); ok && len(cl.Elts) >= 2 {
					sent = cl.Elts[1]
					if kv, ok := sent.(*ast.KeyValueExpr); ok {
						sent = kv.Value
					}
					for _, el := range cl.Elts {
						if kv, ok := el.(*ast.KeyValueExpr); ok {
							if id, ok := kv.Key.(*ast.Ident); ok && id.Name == "Err" {
								sent = kv.Value
							}
						}
					}
				}
			}
			if sent == nil {
				v.bad = "cannot identify the Err value of the result sent"
				return
			}
			sentNil := isNilExpr(info, sent)
			var sentFact core.Fact
			if k, ok := core.KeyOf(info, sent); ok {
				sentFact = st[k]
				if sentFact.Nil == core.IsNil {
					sentNil = true // a variable that is nil on this path
				}
			}
			sentDefCall, _ := sentFact.Def.(*ast.CallExpr)
			switch {
			case hhCalled && core.OutcomeFailed(st, hhWrite):
				if sentDefCall == nil || !hhWrite(sentDefCall) {
					v.bad = "hinted handoff refused the points but the result sent is not the handoff error (" + core.ExprStr(sent) + ")"
				}
			case hhCalled:
				// accepted enqueue
				anyLevel := core.CondOutcome(st, isAny)
				if a := atomEqEstablished(st, isAny); a != 0 {
					anyLevel = a
				}
				switch anyLevel {
				case 0:
					v.bad = "an accepted hinted-handoff enqueue is reported without distinguishing consistency level any: under any a durably queued write is a success, here the path always sends " + core.ExprStr(sent)
				case 1:
					if !sentNil {
						v.bad = "under consistency any an accepted hinted-handoff enqueue must be reported as success (nil), got " + core.ExprStr(sent)
					}
				default:
					if sentNil {
						v.bad = "an enqueue to hinted handoff is reported as a stored write although the level is not any"
					}
				}
			default:
				// no handoff: the write's own outcome is what is sent
				if sentNil {
					v.bad = "a nil result is sent without any write having been attempted on this path"
					if core.Marked(st, "remote") || local {
						v.bad = "a constant nil result is sent instead of the outcome of the write"
					}
				} else if sentDefCall == nil {
					v.bad = "the result sent (" + core.ExprStr(sent) + ") is not the outcome of a write/create call on this path"
				}
			}
		})
		c.Need(complete, "exploration bound owner goroutine")
		for i, s := range sends {
			v := perSend[s]
			bad := "send not reached by the exploration"
			if v != nil {
				bad = v.bad
			}
			c.Check("owner-outcome-table", fmt.Sprintf("%s/owner-goroutine/send#%d", g.Root().Name, i+1), c.P.Pos(s.Pos()), bad == "", bad)
		}
		c.Counts["owner_path_classes"] = len(classes)
		c.Floor("owner path classes", len(classes), 4)
	})

	c.Clause("D2", func() {
		f := c.Fn(pw)
		info := f.Info()
		// locate `required`
		var reqObj types.Object
		var ownersLen *ast.CallExpr
		ast.Inspect(f.Body, func(nd ast.Node) bool {
			if as, ok := nd.(*ast.AssignStmt); ok && as.Tok == token.DEFINE && len(as.Lhs) == 1 && len(as.Rhs) == 1 && reqObj == nil {
				if ce, ok := as.Rhs[0].(*ast.CallExpr); ok && isLenCall(info, ce) && core.FieldPathOf(info, ce.Args[0]) == "ShardInfo.Owners" {
					reqObj = info.ObjectOf(as.Lhs[0].(*ast.Ident))
					ownersLen = ce
				}
			}
			return true
		})
		// helper form: required := h(level, len(shard.Owners)) with h a pure
		// integer function of this package, folded per level below
		var reqHelper *core.FuncInfo
		var reqHelperArgs []ast.Expr
		if reqObj == nil {
			ast.Inspect(f.Body, func(nd ast.Node) bool {
				as, ok := nd.(*ast.AssignStmt)
				if !ok || as.Tok != token.DEFINE || len(as.Lhs) != 1 || len(as.Rhs) != 1 || reqObj != nil {
					return true
				}
				ce, ok := as.Rhs[0].(*ast.CallExpr)
				if !ok {
					return true
				}
				fn, _ := typeutil.Callee(info, ce).(*types.Func)
				h := c.P.FuncOf(fn)
				if h == nil {
					return true
				}
				hasLen := false
				for _, a := range ce.Args {
					if lc, ok := ast.Unparen(a).(*ast.CallExpr); ok && isLenCall(info, lc) && core.FieldPathOf(info, lc.Args[0]) == "ShardInfo.Owners" {
						hasLen = true
					}
				}
				if hasLen {
					reqObj = info.ObjectOf(as.Lhs[0].(*ast.Ident))
					reqHelper, reqHelperArgs = h, ce.Args
				}
				return true
			})
		}
		c.Need(reqObj != nil, "required := len(shard.Owners)")
		_ = ownersLen
		ownersField := c.P.LookupField(metap, "ShardInfo", "Owners")
		c.Need(ownersField != nil, "meta.ShardInfo.Owners")
		// the switch over the consistency level
		registry := map[string]bool{}
		levelVal := map[string]int64{}
		if pkg := c.P.ByPath["models"]; pkg != nil {
			sc := pkg.Types.Scope()
			for _, nme := range sc.Names() {
				if k, ok := sc.Lookup(nme).(*types.Const); ok {
					if nt, ok := k.Type().(*types.Named); ok && nt.Obj().Name() == "ConsistencyLevel" {
						registry["models."+k.Name()] = true
						if v, ok := constInt(k.Val()); ok {
							levelVal["models."+k.Name()] = v
						}
					}
				}
			}
		}
		c.Need(len(registry) >= 4, "registry of models.ConsistencyLevel constants")
		var sw *ast.SwitchStmt
		ast.Inspect(f.Body, func(nd ast.Node) bool {
			if s, ok := nd.(*ast.SwitchStmt); ok && s.Tag != nil && sw == nil {
				if t := info.TypeOf(s.Tag); t != nil && strings.HasSuffix(t.String(), "models.ConsistencyLevel") {
					sw = s
				}
			}
			return true
		})
		c.Need(sw != nil || reqHelper != nil, "switch over the consistency level")
		formula := map[string]ast.Expr{}
		var swList []ast.Stmt
		swPos := f.Decl.Pos()
		if sw != nil {
			swList = sw.Body.List
			swPos = sw.Pos()
		}
		if reqHelper != nil {
			swPos = reqHelper.Decl.Pos()
		}
		for _, cl := range swList {
			cc := cl.(*ast.CaseClause)
			for _, x := range cc.List {
				name := constName(info, x)
				for _, st := range cc.Body {
					if as, ok := st.(*ast.AssignStmt); ok && len(as.Lhs) == 1 && len(as.Rhs) == 1 {
						if id, ok := as.Lhs[0].(*ast.Ident); ok && info.ObjectOf(id) == reqObj {
							formula[name] = as.Rhs[0]
						}
					}
				}
			}
		}
		spec := map[string]func(n int64) int64{
			"models.ConsistencyLevelAny":    func(n int64) int64 { return 1 },
			"models.ConsistencyLevelOne":    func(n int64) int64 { return 1 },
			"models.ConsistencyLevelQuorum": func(n int64) int64 { return n/2 + 1 },
			"models.ConsistencyLevelAll":    func(n int64) int64 { return n },
		}
		for name := range registry {
			sp, known := spec[name]
			if !known {
				c.Check("level-registry-covered", f.Name+"/"+name, c.P.Pos(swPos), false, "consistency level "+name+" is in the registry but has no specification in the checker and no case in the switch: triage")
				continue
			}
			bad := ""
			for n := int64(1); n <= 64 && bad == ""; n++ {
				var got int64
				if reqHelper != nil {
					args := make([]int64, len(reqHelperArgs))
					for i, a := range reqHelperArgs {
						if t := info.TypeOf(a); t != nil && strings.HasSuffix(t.String(), "models.ConsistencyLevel") {
							args[i] = levelVal[name]
							continue
						}
						v, ok := core.EvalInt(info, a, nil, map[types.Object]int64{ownersField: n})
						if !ok {
							bad = "argument " + core.ExprStr(a) + " of " + reqHelper.Name + " is not integer arithmetic over the owner count"
							break
						}
						args[i] = v
					}
					if bad != "" {
						break
					}
					v, ok := core.EvalIntFunc(reqHelper, args)
					if !ok {
						bad = reqHelper.Name + " is not a pure integer function the checker can fold for " + name
						break
					}
					got = v
				} else if e, ok := formula[name]; ok {
					v, ok := core.EvalInt(info, e, map[types.Object]int64{reqObj: n}, map[types.Object]int64{ownersField: n})
					if !ok {
						bad = "the expression assigned to required for " + name + " (" + core.ExprStr(e) + ") is not integer arithmetic over the owner count"
						break
					}
					got = v
				} else {
					got = n // falls through with the initial value len(shard.Owners)
				}
				if got != sp(n) {
					bad = fmt.Sprintf("required for %s with %d owners evaluates to %d, specification says %d", name, n, got, sp(n))
				}
			}
			c.Check("required-by-level", f.Name+"/"+name, c.P.Pos(swPos), bad == "", bad)
		}
		// collector loop rules via path exploration
		wroteObj := findVar(f, "wrote")
		c.Need(wroteObj != nil, "variable wrote")
		geReq := func(x ast.Expr) bool {
			be, ok := ast.Unparen(x).(*ast.BinaryExpr)
			return ok && be.Op == token.GEQ && isIdentObj(info, be.X, wroteObj) && isIdentObj(info, be.Y, reqObj)
		}
		gtZero := func(x ast.Expr) bool {
			be, ok := ast.Unparen(x).(*ast.BinaryExpr)
			if !ok || be.Op != token.GTR || !isIdentObj(info, be.X, wroteObj) {
				return false
			}
			tv := info.Types[be.Y]
			if tv.Value == nil {
				return false
			}
			v, _ := constInt(tv.Value)
			return v == 0
		}
		partial := c.P.LookupObj(coord, "ErrPartialWrite")
		failed := c.P.LookupObj(coord, "ErrWriteFailed")
		timeoutErr := c.P.LookupObj(coord, "ErrTimeout")
		c.Need(partial != nil && failed != nil && timeoutErr != nil, "coordinator error sentinels")
		badNil, badInc, badPartial, badFail := "", "", "", ""
		nNil, nInc, nPartial := 0, 0, 0
		complete := f.Flow().ExplorePaths(func(k core.VarKey, fct core.Fact) bool {
			if k.Root == nil && strings.HasPrefix(k.Path, "cond:") && fct.Def != nil && (geReq(fct.Def) || gtZero(fct.Def)) {
				return true
			}
			return k.Path == ".Err"
		}, func(e *core.Event, st core.State) {
			switch e.Kind {
			case core.EvReturn:
				x, _ := f.ResultExpr(e, 0)
				if x == nil {
					return
				}
				if isNilExpr(info, x) {
					nNil++
					if core.CondOutcome(st, geReq) != 1 {
						badNil = "success is returned @" + c.P.Pos(e.Pos()) + " on a path where `wrote >= required` was not established"
					}
				} else if id, ok := ast.Unparen(x).(*ast.Ident); ok && info.ObjectOf(id) == partial {
					nPartial++
					if core.CondOutcome(st, gtZero) != 1 {
						badPartial = "ErrPartialWrite returned without `wrote > 0` @" + c.P.Pos(e.Pos())
					}
				} else if id, ok := ast.Unparen(x).(*ast.Ident); ok && info.ObjectOf(id) == failed {
					if core.CondOutcome(st, gtZero) == 1 {
						badFail = "ErrWriteFailed returned although some owner stored the write @" + c.P.Pos(e.Pos())
					}
				}
			case core.EvAssign:
				if inc, ok := e.Node.(*ast.IncDecStmt); ok && isIdentObj(info, inc.X, wroteObj) {
					nInc++
					okNil := false
					for k, fct := range st {
						if k.Path == ".Err" && fct.Nil == core.IsNil {
							okNil = true
						}
					}
					if !okNil {
						badInc = "wrote is incremented @" + c.P.Pos(e.Pos()) + " on a path where the received result's Err is not known to be nil"
					}
				}
			}
		})
		c.Need(complete, "exploration bound collector")
		c.Need(nNil >= 1 && nInc >= 1 && nPartial >= 1, "collector returns/increment found")
		c.Check("success-iff-required-met", f.Name+"/return-nil", f.PosStr(), badNil == "", badNil)
		c.Check("count-only-successes", f.Name+"/wrote++", f.PosStr(), badInc == "", badInc)
		c.Check("partial-vs-failed", f.Name+"/ErrPartialWrite", f.PosStr(), badPartial == "", badPartial)
		c.Check("partial-vs-failed", f.Name+"/ErrWriteFailed", f.PosStr(), badFail == "", badFail)
		// the collector hears every owner: the loop around the select is left only by a return (classified above)
		// or by running out of owners; a break/goto out of it makes the partial/failed verdict depend on the
		// order in which the owners answered
		{
			var loop ast.Stmt
			var loopBody *ast.BlockStmt
			ast.Inspect(f.Body, func(nd ast.Node) bool {
				if _, ok := nd.(*ast.FuncLit); ok {
					return false
				}
				var body *ast.BlockStmt
				switch l := nd.(type) {
				case *ast.RangeStmt:
					body = l.Body
				case *ast.ForStmt:
					body = l.Body
				}
				if body == nil || loop != nil {
					return true
				}
				for _, st := range body.List {
					if _, ok := st.(*ast.SelectStmt); ok {
						loop, loopBody = nd.(ast.Stmt), body
					}
				}
				return true
			})
			c.Need(loop != nil, "collector loop (loop whose body is the select over results, timeout and closing)")
			exits := loopEarlyExits(c, loopBody)
			c.Check("collector-hears-every-owner", f.Name+"/collector-loop-exits", c.P.Pos(loop.Pos()), len(exits) == 0,
				"the collector loop is left early ("+strings.Join(exits, ", ")+") without a classified return: owners that answer later are not counted, so too few successes can be reported as a failure (or the reverse) depending on arrival order")
		}
		// ErrTimeout only inside the timer case of the select
		nT := 0
		ast.Inspect(f.Body, func(nd ast.Node) bool {
			cc, ok := nd.(*ast.CommClause)
			if !ok {
				return true
			}
			isTimer := false
			if es, ok := cc.Comm.(*ast.ExprStmt); ok {
				if u, ok := es.X.(*ast.UnaryExpr); ok && u.Op == token.ARROW {
					if se, ok := u.X.(*ast.SelectorExpr); ok && se.Sel.Name == "C" {
						if t := info.TypeOf(se.X); t != nil && strings.HasSuffix(t.String(), "time.Timer") {
							isTimer = true
						}
					}
				}
			}
			for _, st := range cc.Body {
				ast.Inspect(st, func(n2 ast.Node) bool {
					if rs, ok := n2.(*ast.ReturnStmt); ok && len(rs.Results) == 1 {
						if id, ok := rs.Results[0].(*ast.Ident); ok && info.ObjectOf(id) == timeoutErr {
							nT++
							c.Check("timeout-only-from-timer", fmt.Sprintf("%s/return-ErrTimeout#%d", f.Name, nT), c.P.Pos(rs.Pos()), isTimer,
								"ErrTimeout is returned from a select case that is not the receive from the write-timeout timer")
						}
					}
					return true
				})
			}
			return true
		})
		// any ErrTimeout return outside a CommClause?
		total := 0
		ast.Inspect(f.Body, func(nd ast.Node) bool {
			if rs, ok := nd.(*ast.ReturnStmt); ok && len(rs.Results) == 1 {
				if id, ok := rs.Results[0].(*ast.Ident); ok && info.ObjectOf(id) == timeoutErr {
					total++
				}
			}
			return true
		})
		c.Check("timeout-only-from-timer", f.Name+"/all-ErrTimeout-in-timer-case", f.PosStr(), total == nT && nT >= 1,
			fmt.Sprintf("%d return(s) of ErrTimeout, %d inside select cases", total, nT))
		// the timer is armed with the configured write timeout
		armed := false
		for _, e := range f.Graph().Find(evCall(calleeIn(f, "time.NewTimer"))) {
			if core.FieldPathOf(info, e.Call.Args[0]) == "PointsWriter.WriteTimeout" {
				armed = true
			}
		}
		c.Check("timeout-only-from-timer", f.Name+"/timer=WriteTimeout", f.PosStr(), armed, "the collector's timer must be created from PointsWriter.WriteTimeout")
	})

	c.Clause("D3", func() {
		// ShardWriter.WriteShardBinary: nil only after Code()==0 or shard group gone
		f := c.Fn(coord + ".(*ShardWriter).WriteShardBinary")
		info := f.Info()
		isCode := func(x ast.Expr) bool { return strings.Contains(core.ExprStr(x), ".Code()") }
		bad := ""
		nRet := 0
		complete := f.Flow().ExplorePaths(func(k core.VarKey, fct core.Fact) bool {
			if k.Root == nil && strings.HasPrefix(k.Path, "cond:") && fct.Def != nil && isCode(fct.Def) {
				return true
			}
			return k.Root != nil && k.Path == ""
		}, func(e *core.Event, st core.State) {
			if e.Kind != core.EvReturn {
				return
			}
			x, _ := f.ResultExpr(e, 0)
			if x == nil || !isNilExpr(info, x) {
				return
			}
			nRet++
			if core.CondOutcome(st, isCode) == 2 {
				return
			}
			// frozen exception: shard group no longer exists (sgi == nil)
			for k, fct := range st {
				if k.Root != nil && k.Path == "" && fct.Nil == core.IsNil {
					if ce, ok := fct.Def.(*ast.CallExpr); ok && fieldCallIn(f, "ShardWriter.MetaClient", "ShardOwner")(ce) {
						return
					}
				}
			}
			bad = "WriteShardBinary returns nil @" + c.P.Pos(e.Pos()) + " without the response code having been checked to be 0 (and the shard group is not known to be gone)"
		})
		c.Need(complete && nRet >= 1, "nil returns of WriteShardBinary")
		c.Check("remote-ack-honest", f.Name+"/return-nil", f.PosStr(), bad == "", bad)
		// WriteShard delegates to WriteShardBinary
		ws := c.Fn(coord + ".(*ShardWriter).WriteShard")
		returnsOnlyAfterOK(c, ws, "remote-ack-honest", "WriteShardBinary", calleeIn(ws, coord+".(*ShardWriter).WriteShardBinary"), nil)

		// Service.processWriteShardRequest: nil only after WriteToShard returned nil
		g := c.Fn(coord + ".(*Service).processWriteShardRequest")
		ginfo := g.Info()
		wts := fieldCallIn(g, "Service.TSDBStore", "WriteToShard")
		findOrAbort(c, g, "TSDBStore.WriteToShard", evCall(wts), 1)
		bad = ""
		nRet = 0
		complete = g.Flow().ExplorePaths(func(k core.VarKey, fct core.Fact) bool {
			if ce, ok := fct.Def.(*ast.CallExpr); ok && wts(ce) {
				return true
			}
			return k.Root == nil && strings.HasPrefix(k.Path, "cond:")
		}, func(e *core.Event, st core.State) {
			if e.Kind != core.EvReturn {
				return
			}
			x, _ := g.ResultExpr(e, 0)
			if x == nil || !isNilExpr(ginfo, x) {
				return
			}
			nRet++
			if core.OutcomeOK(st, wts) {
				return
			}
			// frozen exception: request from an old sender without db/rp for an unknown shard
			if core.CondOutcome(st, func(x ast.Expr) bool {
				s := core.ExprStr(x)
				return strings.Contains(s, `db == ""`) && strings.Contains(s, `rp == ""`)
			}) == 1 {
				return
			}
			bad = "processWriteShardRequest acknowledges (returns nil) @" + c.P.Pos(e.Pos()) + " without TSDBStore.WriteToShard having returned nil"
		})
		c.Need(complete && nRet >= 1, "nil returns of processWriteShardRequest")
		c.Check("remote-ack-honest", g.Name+"/return-nil", g.PosStr(), bad == "", bad)
		// handleConn answers the write request with the processing error
		hc := c.Fn(coord + ".(*Service).handleConn")
		pwr := calleeIn(hc, coord+".(*Service).processWriteShardRequest")
		resp := calleeIn(hc, coord+".(*Service).writeShardResponse")
		for i, e := range findOrAbort(c, hc, "writeShardResponse", evCall(resp), 1) {
			fact := hc.Flow().FactOfExpr(e, e.Call.Args[1])
			ce, ok := fact.Def.(*ast.CallExpr)
			c.Check("remote-ack-honest", fmt.Sprintf("%s/writeShardResponse#%d", hc.Name, i+1), c.P.Pos(e.Pos()), ok && pwr(ce),
				"the write-shard response must carry the error returned by processWriteShardRequest")
		}
		// writeShardResponse: code != 0 iff error
		wr := c.Fn(coord + ".(*Service).writeShardResponse")
		setCode := calleeIn(wr, coord+".(*WriteShardResponse).SetCode")
		codes := findOrAbort(c, wr, "SetCode", evCall(setCode), 2)
		for i, e := range codes {
			tv := wr.Info().Types[e.Call.Args[0]]
			v, isConst := int64(-1), false
			if tv.Value != nil {
				v, isConst = constInt(tv.Value)
			}
			var eNil core.Nilness
			for k, fct := range wr.Flow().In[e] {
				if k.Root != nil && k.Path == "" && types.Identical(k.Root.Type(), types.Universe.Lookup("error").Type()) {
					eNil = fct.Nil
				}
			}
			good := isConst && ((v == 0 && eNil == core.IsNil) || (v != 0 && eNil == core.NonNil))
			c.Check("remote-ack-honest", fmt.Sprintf("%s/SetCode#%d", wr.Name, i+1), c.P.Pos(e.Pos()), good,
				fmt.Sprintf("response code %d is set on the branch where the error is %s", v, eNil))
		}
	})

	c.Clause("D5", func() {
		n := connPoisonRule(c, "failed-exchange-poisons-connection")
		c.Floor("exchange sites on pooled connections", n, 28)
	})

	// the batch offered to each owner is the batch the client wrote: no owner goroutine passes the shared slice to a
	// callee that stores into its elements (shared with C19 D11)
	c.Clause("D8", func() { runSharedBatchNotMutated(c) })

	c.Clause("D7", func() {
		// The handoff path is keyed by two ids of one type (owner/node id, shard id) that travel through WriteShard,
		// Empty, processor, setProcessor and the processors' constructors. A transposed pair addresses the queue of
		// another (node, shard): Empty then answers "empty" for a non-empty queue and new points overtake queued ones,
		// or a write lands in the wrong queue. Every call into services/hh from the coordinator and from hh itself
		// is compared with the callee's parameter names.
		sites, bad := swappedArgSites(c.P, []string{coord, hhp}, []string{hhp, coord})
		k := map[string]int{}
		for _, st := range sites {
			key := st.Fn.Root().Name + "/" + short(st.Callee)
			k[key]++
			d, isBad := bad[st.Ev]
			c.Check("id-pair-not-transposed", fmt.Sprintf("%s#%d", key, k[key]), c.P.Pos(st.Ev.Pos()), !isBad, d)
		}
		c.Floor("call sites with two same-typed id parameters", len(sites), 8)
	})

	c.Clause("D6", func() {
		// one processor per (node, shard): NewNodeProcessor + setProcessor only after a lookup under the write lock
		n := 0
		for _, f := range c.P.FuncsIn(hhp) {
			if f.Body == nil {
				continue
			}
			set := calleeIn(f, hhp+".(*Service).setProcessor")
			sets := f.Graph().Find(evCall(set))
			if len(sets) == 0 {
				continue
			}
			lock := func(e *core.Event) bool {
				return e.Kind == core.EvCall && core.CalleeName(e) == "sync.(*RWMutex).Lock" && core.RecvFieldOf(e) == "Service.mu"
			}
			unlock := func(e *core.Event) bool {
				return e.Kind == core.EvCall && core.CalleeName(e) == "sync.(*RWMutex).Unlock" && core.RecvFieldOf(e) == "Service.mu"
			}
			lookup := evCall(calleeIn(f, hhp+".(*Service).processor"))
			for i, s := range sets {
				n++
				key := fmt.Sprintf("%s/setProcessor#%d", f.Root().Name, i+1)
				// Open() populates the map before the service is published: holds the lock but needs no lookup
				if f.Root().Name == hhp+".(*Service).Open" {
					c.Check("one-processor-per-queue", key, c.P.Pos(s.Pos()), true, "exempt: start-up scan of the handoff directory before the service is published (each directory entry is distinct)")
					continue
				}
				// lock < lookup < set, with no unlock between lookup and set
				bad := ""
				if p := f.Flow().PathAvoiding(f.Graph().Entry, func(x *core.Event) bool { return x == s }, lock); p != nil {
					bad = "setProcessor reachable without Service.mu.Lock in the same function"
				} else {
					// every path from the last Lock to set passes a lookup
					for _, l := range f.Graph().Find(lock) {
						if p := f.Flow().PathAvoiding(l, func(x *core.Event) bool { return x == s }, lookup); p != nil {
							bad = "a processor is created and registered under the write lock without re-checking that none exists: two concurrent first writes for the same (node, shard) each create a processor over one queue directory: " + core.PathStr(p)
						}
					}
					for _, lk := range f.Graph().Find(lookup) {
						if p := f.Flow().PathAvoiding(lk, func(x *core.Event) bool { return x == s }, nil); p != nil {
							for _, pe := range p {
								if unlock(pe) {
									bad = "Service.mu is released between the lookup and setProcessor"
								}
							}
						}
					}
				}
				c.Check("one-processor-per-queue", key, c.P.Pos(s.Pos()), bad == "", bad)
			}
		}
		c.Floor("setProcessor sites", n, 2)
		// every NewNodeProcessor outside Open is registered through setProcessor in the same function (so the rule above sees it)
		for _, s := range callSites(c.P, []string{hhp, coord}, hhp+".NewNodeProcessor") {
			if s.Fn.Root().Name == hhp+".(*Service).Open" {
				continue
			}
			has := len(s.Fn.Graph().Find(evCall(calleeIn(s.Fn, hhp+".(*Service).setProcessor")))) > 0
			c.Check("one-processor-per-queue", s.Fn.Root().Name+"/NewNodeProcessor-registered-here", c.P.Pos(s.Ev.Pos()), has,
				"a NodeProcessor is created in a function that does not register it with setProcessor under the same critical section")
		}
	})
}

func firstPath(ps [][]*core.Event) string {
	if len(ps) == 0 {
		return ""
	}
	return core.PathStr(ps[0])
}

func findVar(f *core.FuncInfo, name string) types.Object {
	var out types.Object
	info := f.Info()
	ast.Inspect(f.Body, func(nd ast.Node) bool {
		if _, ok := nd.(*ast.FuncLit); ok {
			return false
		}
		if id, ok := nd.(*ast.Ident); ok && id.Name == name && out == nil {
			if o := info.Defs[id]; o != nil {
				out = o
			}
		}
		return true
	})
	return out
}
