package props

import (
	"fmt"
	"go/ast"
	"go/token"
	"go/types"
	"sort"
	"strings"

	"verifcheck/core"
)

func init() {
	register("C05", core.PropertyMeta{
		Explanation: "Decides structural clauses of the distributed-read contract: D1 at every site that decodes a coordinator *Response carrying an `Err error` field, a non-nil Err reaches the caller as a non-nil error on every path (a remote error reply can never be taken for an empty result); " +
			"D2 the retry loops of remoteShardGroup and the fan-outs of ClusterShardMapping/ClusterStoreMapping return success only after every call of the round returned nil, mark the failing node dirty before re-partitioning, and re-partition only over clean owners; " +
			"D3 on every path through one iteration of the shard-assignment loops a shard is appended to exactly one node bucket (the no-owner skip is a recorded finding; giving up returns nil from shuffleShards); the 'source already mapped' guard reads the map the loop fills; " +
			"D4 the value-type dispatch on the remote read path is exhaustive over the five iterator/point types. " +
			"D6 a remote iterator that breaks off makes the query fail: a coordinator handler that streams a query iterator to the connection writes to the connection when that call fails, before it returns (the reader takes a clean end of the connection for the end of the data; found and fixed in a6058eb). " +
			"D7 every fan-out method of ClusterShardMapping/ClusterStoreMapping passes the loop over the remote shard groups on every path to a return that may report success, unless the path established that there are no remote groups. " +
			"D8 the range predicates that select the shard groups of a query equal their specification (shared with C06 D5 / C08 D5). " +
			"NOT decided: liveness of owners, equality of the merged result with a single-node result, a connection cut by the network or a crash of the serving node exactly at a frame boundary (the point stream has no end marker the reader insists on).",
		RuleText:    "obligation = (rule, function, site); nil/outcome dataflow per decode site; per-iteration min/max count of bucket appends over the loop's path graph; case sets of type switches against the iterator family",
		Assumptions: commonAssumptions,
	}, runC05)
}

// respErrSites finds, in every function of the coordinator package, variables of a named
// coordinator type with an `Err error` field that are filled by a Decode*/UnmarshalBinary call.
type decodeSite struct {
	f    *core.FuncInfo
	ev   *core.Event
	root types.Object
	typ  string
}

func findDecodeSites(c *core.Ctx) []decodeSite {
	var out []decodeSite
	for _, f := range c.P.FuncsIn(coord) {
		if f.Body == nil {
			continue
		}
		info := f.Info()
		for _, e := range f.Graph().Events {
			if e.Kind != core.EvCall {
				continue
			}
			var id *ast.Ident
			switch core.CalleeName(e) {
			case coord + ".DecodeTLVT", coord + ".DecodeTLV", coord + ".DecodeLV":
				if len(e.Call.Args) < 2 {
					continue
				}
				u, ok := ast.Unparen(e.Call.Args[1]).(*ast.UnaryExpr)
				if !ok || u.Op != token.AND {
					continue
				}
				id, _ = ast.Unparen(u.X).(*ast.Ident)
			default:
				// resp.UnmarshalBinary(buf) on a local response variable
				se, ok := e.Call.Fun.(*ast.SelectorExpr)
				if !ok || se.Sel.Name != "UnmarshalBinary" {
					continue
				}
				id, _ = ast.Unparen(se.X).(*ast.Ident)
			}
			if id == nil {
				continue
			}
			if v, isVar := info.ObjectOf(id).(*types.Var); !isVar || v.IsField() || v.Parent() == nil || v.Parent() == v.Pkg().Scope() {
				continue
			}
			if f.Decl != nil && f.Decl.Recv != nil && len(f.Decl.Recv.List) > 0 && len(f.Decl.Recv.List[0].Names) > 0 && info.ObjectOf(f.Decl.Recv.List[0].Names[0]) == info.ObjectOf(id) {
				continue // the receiver of an UnmarshalBinary method itself
			}
			obj := info.ObjectOf(id)
			nt, ok := obj.Type().(*types.Named)
			if !ok {
				continue
			}
			st, ok := nt.Underlying().(*types.Struct)
			if !ok {
				continue
			}
			hasErr := false
			for i := 0; i < st.NumFields(); i++ {
				if st.Field(i).Name() == "Err" && types.Identical(st.Field(i).Type(), types.Universe.Lookup("error").Type()) {
					hasErr = true
				}
			}
			if !hasErr {
				continue
			}
			out = append(out, decodeSite{f: f, ev: e, root: obj, typ: nt.Obj().Name()})
		}
	}
	return out
}

func runC05(c *core.Ctx) {
	c.Clause("D1", func() {
		sites := findDecodeSites(c)
		n := 0
		for _, s := range sites {
			// only client-side decodes of responses (requests decoded by the server carry no Err field anyway)
			f := s.f
			info := f.Info()
			fl := f.Flow()
			decode := func(ce *ast.CallExpr) bool { return ce == s.ev.Call }
			errKey := core.VarKey{Root: s.root, Path: ".Err"}
			isRespErr := func(x ast.Expr) bool {
				k, ok := core.KeyOf(info, x)
				return ok && k == errKey
			}
			mentionsRespErr := func(x ast.Expr) bool {
				found := false
				ast.Inspect(x, func(nd ast.Node) bool {
					if ex, ok := nd.(ast.Expr); ok && isRespErr(ex) {
						found = true
					}
					return !found
				})
				return found
			}
			bad := ""
			seenReturn := false
			complete := fl.ExplorePaths(func(k core.VarKey, fct core.Fact) bool {
				if k == errKey {
					return true
				}
				if ce, ok := fct.Def.(*ast.CallExpr); ok && decode(ce) {
					return true
				}
				// keep facts of the variable that is returned (err)
				return k.Root != nil && k.Path == "" && types.Identical(k.Root.Type(), types.Universe.Lookup("error").Type())
			}, func(e *core.Event, st core.State) {
				if e.Kind != core.EvReturn || !core.OutcomeOK(st, decode) {
					return // only paths on which the decode is known to have succeeded
				}
				idx := f.ErrResultIndex()
				if idx < 0 {
					return
				}
				seenReturn = true
				x, named := f.ResultExpr(e, idx)
				respFact := st[errKey]
				if x != nil && isRespErr(x) {
					return // returns resp.Err itself
				}
				if respFact.Nil == core.IsNil {
					return // checked, and nil
				}
				var retFact core.Fact
				if x != nil {
					if k, ok := core.KeyOf(info, x); ok {
						retFact = st[k]
					} else {
						retFact = fl.FactOfExpr(e, x)
					}
					if mentionsRespErr(x) {
						return // wraps resp.Err
					}
				} else if named != nil {
					retFact = st[core.VarKey{Root: named}]
				}
				if respFact.Nil == core.NonNil && retFact.Nil == core.NonNil {
					return
				}
				if respFact.Nil == core.NonNil {
					bad = fmt.Sprintf("on the path where %s.Err is non-nil the function returns an error value that is not known to be non-nil (%s) @%s", s.root.Name(), exprOrNamed(x, named), c.P.Pos(e.Pos()))
				} else {
					bad = fmt.Sprintf("%s.Err is never examined on a path to the return @%s: a remote error reply is taken for a successful (empty) answer", s.root.Name(), c.P.Pos(e.Pos()))
				}
			})
			c.Need(complete, "exploration bound "+f.Name)
			if f.ErrResultIndex() < 0 {
				continue // function cannot return an error
			}
			if !seenReturn {
				bad = "no return is reached with the decode established successful: the decode error is not checked before the response is used"
			}
			n++
			c.Check("remote-error-surfaces", fmt.Sprintf("%s/%s", f.Root().Name, s.typ), c.P.Pos(s.ev.Pos()), bad == "", bad)
		}
		c.Floor("response decode sites", n, 18)
	})

	c.Clause("D2", func() {
		rsg := func(m string) string { return coord + ".(*remoteShardGroup)." + m }
		n := 0
		for _, m := range []string{"FieldDimensions", "CreateIterator", "IteratorCost", "ReadFilter", "ReadGroup"} {
			f := c.Fn(rsg(m))
			exec := fieldCallIn(f, "remoteShardGroup.executor", m)
			wait := calleeIn(f, "vendor/golang.org/x/sync/errgroup.(*Group).Wait", "golang.org/x/sync/errgroup.(*Group).Wait")
			either := func(ce *ast.CallExpr) bool { return exec(ce) || wait(ce) }
			findOrAbort(c, f, "executor."+m, evCall(exec), 1)
			findOrAbort(c, f, "errgroup.Wait", evCall(wait), 1)
			n += returnsOnlyAfterOK(c, f, "success-only-after-ok-round", "executor/"+m+" or g.Wait", either, nil)
			// dirty before re-partition
			dirty := evCall(fieldCallIn(f, "remoteShardGroup.dirty", "Store"))
			shuffle := calleeIn(f, rsg("shuffleShards"))
			orderRule(c, f, "dirty-before-reshuffle", "dirty.Store", "shuffleShards", dirty, evCall(shuffle))
			// the retry is skipped when retry is disabled: the first error is returned
			// inside each fan-out closure: failing node marked dirty before the error is returned
			for _, l := range f.Lits {
				lexec := fieldCallIn(l, "remoteShardGroup.executor", m)
				if len(l.Graph().Find(evCall(lexec))) == 0 {
					continue
				}
				ldirty := evCall(fieldCallIn(l, "remoteShardGroup.dirty", "Store"))
				k := 0
				for _, e := range l.Graph().Events {
					if e.Kind != core.EvReturn || !l.Flow().Reachable(e) {
						continue
					}
					rf, _ := l.ReturnErrFact(e)
					if rf.Nil != core.NonNil {
						continue
					}
					k++
					p := l.Flow().PathAvoiding(l.Graph().Entry, func(x *core.Event) bool { return x == e }, ldirty)
					c.Check("failing-node-marked-dirty", fmt.Sprintf("%s/closure-error-return#%d", f.Name, k), c.P.Pos(e.Pos()), p == nil,
						"a fan-out closure returns the error of a remote call without first storing the node in the dirty set: the next shuffle would pick the same failing node again")
					n++
				}
				errPropagated(c, l, "error-surfaces", "executor."+m, lexec)
				n += returnsOnlyAfterOK(c, l, "closure-success-after-ok", "executor."+m, lexec, nil)
			}
		}
		// shuffleShards picks only clean owners: the dirty set is consulted
		sh := c.Fn(rsg("shuffleShards"))
		load := evCall(fieldCallIn(sh, "remoteShardGroup.dirty", "Load"))
		findOrAbort(c, sh, "dirty.Load", load, 1)
		// ClusterShardMapping / ClusterStoreMapping fan-outs
		for _, nm := range []string{coord + ".(*ClusterShardMapping).FieldDimensions", coord + ".(*ClusterShardMapping).CreateIterator",
			coord + ".(*ClusterShardMapping).IteratorCost", coord + ".(*ClusterStoreMapping).ReadFilter", coord + ".(*ClusterStoreMapping).ReadGroup"} {
			f := c.Fn(nm)
			wait := calleeIn(f, "golang.org/x/sync/errgroup.(*Group).Wait")
			findOrAbort(c, f, "errgroup.Wait", evCall(wait), 1)
			n += returnsOnlyAfterOK(c, f, "fanout-success-after-wait", "g.Wait", wait, func(e *core.Event) string {
				if noRealCallBefore(f, e) {
					return "nothing mapped: no operation precedes this return"
				}
				return ""
			})
			errPropagated(c, f, "error-surfaces", "g.Wait", wait)
			// every goroutine closure propagates the error of the call it makes
			for _, l := range f.Lits {
				for _, e := range l.Graph().Events {
					if e.Kind != core.EvCall || e.Call == nil {
						continue
					}
					tv := l.Info().TypeOf(e.Call)
					if !lastIsError(tv) {
						continue
					}
					if _, isFn := e.Callee.(*types.Func); !isFn {
						continue
					}
					name := core.CalleeName(e)
					if !strings.HasPrefix(name, coord+".") {
						continue
					}
					ok, detail := errUsedPublic(l, e)
					c.Check("closure-error-surfaces", fmt.Sprintf("%s/%s", l.Name, short(name)), c.P.Pos(e.Pos()), ok, detail)
					n++
				}
			}
		}
		c.Floor("D2 obligations", n, 20)
	})

	c.Clause("D3", func() {
		type loopSpec struct {
			fn      string
			bucket  string // map variable name filled by the loop
			minLoop int
		}
		n := 0
		for _, spec := range []loopSpec{
			{coord + ".(*ClusterShardMapper).mapShards", "shardsByNodeID", 1},
			{coord + ".(*ClusterStoreMapper).mapShards", "shardsByNodeID", 1},
			{coord + ".(*remoteShardGroup).shuffleShards", "shardsByNodeID", 1},
		} {
			f := c.Fn(spec.fn)
			info := f.Info()
			// bucket appends: shardsByNodeID[x] = append(shardsByNodeID[x], si)
			isBucketAppend := func(e *core.Event) bool {
				if e.Kind != core.EvAssign {
					return false
				}
				as, ok := e.Node.(*ast.AssignStmt)
				if !ok || len(as.Lhs) != 1 || len(as.Rhs) != 1 {
					return false
				}
				ix, ok := as.Lhs[0].(*ast.IndexExpr)
				if !ok {
					return false
				}
				id, ok := ix.X.(*ast.Ident)
				if !ok || id.Name != spec.bucket {
					return false
				}
				ce, ok := as.Rhs[0].(*ast.CallExpr)
				if !ok {
					return false
				}
				b, ok := core.Callee(info, ce).(*types.Builtin)
				return ok && b.Name() == "append"
			}
			found := 0
			for _, l := range f.Graph().Loops() {
				rs, ok := l.Stmt.(*ast.RangeStmt)
				if !ok {
					continue
				}
				// innermost loop over shards: the range value is what gets appended
				val, ok := rs.Value.(*ast.Ident)
				if !ok {
					continue
				}
				valObj := info.ObjectOf(val)
				appendsVal := func(e *core.Event) bool {
					if !isBucketAppend(e) {
						return false
					}
					ce := e.Node.(*ast.AssignStmt).Rhs[0].(*ast.CallExpr)
					for _, a := range ce.Args[1:] {
						if id, ok := a.(*ast.Ident); ok && info.ObjectOf(id) == valObj {
							return true
						}
					}
					return false
				}
				// does this loop's body (directly) contain such an append?
				direct := false
				ast.Inspect(rs.Body, func(nd ast.Node) bool {
					if inner, ok := nd.(*ast.RangeStmt); ok && inner != rs {
						return false
					}
					if as, ok := nd.(*ast.AssignStmt); ok {
						for _, e := range f.Graph().Events {
							if e.Node == ast.Node(as) && appendsVal(e) {
								direct = true
							}
						}
					}
					return true
				})
				if !direct {
					continue
				}
				found++
				min, max, ok2, zero := f.Flow().IterationCount(l, appendsVal)
				c.Need(ok2, "iteration paths of shard loop in "+spec.fn)
				key := fmt.Sprintf("%s/shard-loop#%d", f.Name, found)
				// exclusive-node mode (only shards of one node are selected) legitimately skips shards:
				// recognised by the append being guarded by OwnedBy(<fixed node>) with no alternative branch.
				exclusive := false
				if min == 0 {
					for _, ze := range zero {
						if ze.Kind == core.EvCond {
							if ce, ok := ast.Unparen(ze.Node.(ast.Expr)).(*ast.CallExpr); ok {
								if fn, ok := core.Callee(info, ce).(*types.Func); ok && fn.Name() == "OwnedBy" {
									if len(ce.Args) == 1 && strings.Contains(core.ExprStr(ce.Args[0]), "NodeID") {
										exclusive = true
									}
								}
							}
						}
					}
				}
				c.Check("at-most-once", key+"/max", c.P.Pos(rs.Pos()), max == 1,
					fmt.Sprintf("a path through one iteration appends the shard to a node bucket %d times (-1 = unbounded): the shard would be read more than once", max))
				n++
				if exclusive {
					c.Check("at-least-once", key+"/min(exclusive-node-mode)", c.P.Pos(rs.Pos()), true, "shards not owned by the requested node are skipped by design when a node is addressed explicitly")
					continue
				}
				if min == 0 {
					// which guard lets the shard fall through?
					guard := "unguarded"
					for _, ze := range zero {
						if ze.Kind == core.EvCond {
							guard = core.ExprStr(ze.Node.(ast.Expr))
						}
					}
					// frozen exception: a live shard without owners cannot be published by the metadata
					// (Data.RemoveShardOwner deletes an ownerless shard, Data.DeleteDataNode reassigns orphans or
					// marks the group deleted), so the defensive skip on an empty owner list is unreachable.
					if isOwnersLenGuard(info, zero, valObj) || isOwnersLenGuardViaHelper(c, f, zero, valObj) {
						c.Check("at-least-once", key+"/min(no-owners-skip)", c.P.Pos(rs.Pos()), true,
							"exempt: skip of a shard with an empty owner list; the metadata never publishes a live shard without owners (see C06)")
						n++
						continue
					}
					c.Check("at-least-once", key+"/min", c.P.Pos(rs.Pos()), false,
						"a path through one iteration neither assigns the shard to a node nor aborts the mapping (last guard: "+guard+"): the shard is silently left out of the query: "+core.PathStr(zero))
				} else {
					c.Check("at-least-once", key+"/min", c.P.Pos(rs.Pos()), true, "")
				}
				n++
			}
			c.Need(found >= spec.minLoop, "shard assignment loop in "+spec.fn)
		}
		// the "already mapped" guard of ClusterShardMapper.mapShards tests the map that the loop fills for every source
		f := c.Fn(coord + ".(*ClusterShardMapper).mapShards")
		info := f.Info()
		guardOK := false
		guardPos := f.PosStr()
		ast.Inspect(f.Body, func(nd ast.Node) bool {
			ifs, ok := nd.(*ast.IfStmt)
			if !ok || ifs.Init == nil {
				return true
			}
			// the guard in question protects the metadata lookup
			looksUp := false
			ast.Inspect(ifs.Body, func(n2 ast.Node) bool {
				if ce, ok := n2.(*ast.CallExpr); ok {
					if fn, ok := core.Callee(info, ce).(*types.Func); ok && fn.Name() == "ShardGroupsByTimeRange" {
						looksUp = true
					}
				}
				return true
			})
			if !looksUp {
				return true
			}
			as, ok := ifs.Init.(*ast.AssignStmt)
			if !ok || len(as.Lhs) != 2 || len(as.Rhs) != 1 {
				return true
			}
			ix, ok := as.Rhs[0].(*ast.IndexExpr)
			if !ok {
				return true
			}
			if id, ok := as.Lhs[0].(*ast.Ident); !ok || id.Name != "_" {
				return true
			}
			fp := core.FieldPathOf(info, ix.X)
			if fp == "" {
				return true
			}
			// is it used as the guard of an if with negation (!ok)?
			if strings.HasSuffix(fp, ".RemoteShardMapping") || strings.HasSuffix(fp, ".ShardMap") {
				if _, isSrc := ix.Index.(*ast.Ident); isSrc && core.ExprStr(ix.Index) == "source" {
					guardPos = c.P.Pos(as.Pos())
					// the guarded block must store into the same map on every path that completes the block
					stores := 0
					ast.Inspect(f.Body, func(n2 ast.Node) bool {
						if a2, ok := n2.(*ast.AssignStmt); ok {
							for _, l := range a2.Lhs {
								if lx, ok := l.(*ast.IndexExpr); ok && core.FieldPathOf(info, lx.X) == fp {
									stores++
								}
							}
						}
						return true
					})
					// RemoteShardMapping is the map that receives an entry for every processed source with remote shards
					if fp == "ClusterShardMapping.RemoteShardMapping" && stores >= 2 {
						guardOK = true
					}
				}
			}
			return true
		})
		c.Check("mapped-once-per-source", f.Name+"/already-mapped-guard", guardPos, guardOK,
			"the guard that skips an already mapped source must test ClusterShardMapping.RemoteShardMapping (the map this loop appends remote groups to); testing another map re-maps the source and every remote shard is read twice")
		n++
		c.Floor("D3 obligations", n, 6)
	})

	c.Clause("D5", func() {
		n := connPoisonRule(c, "failed-exchange-poisons-connection")
		c.Floor("exchange sites on pooled connections", n, 28)
	})

	c.Clause("D6", func() { runStreamFailureSignalled(c) })

	c.Clause("D7", func() { runEveryRemoteGroupConsulted(c) })

	// which shard groups a query consults is decided by the inclusive/exclusive range predicates of the metadata
	// (ShardGroupsByTimeRange = !Deleted && Overlaps): a predicate narrower than its specification leaves shards
	// that hold data in range out of the mapping without an error (same obligations as C06 D5 / C08 D5)
	c.Clause("D8", func() { runTimePredicates(c) })

	c.Clause("D4", func() {
		family := []string{"Float", "Integer", "Unsigned", "String", "Boolean"}
		check := func(fn string, suffix string, pkgPrefix string, minSwitches int) {
			f := c.Fn(fn)
			got := 0
			for _, sw := range typeSwitches(f) {
				hit := map[string]bool{}
				for _, t := range sw.cases {
					for _, fam := range family {
						if t == pkgPrefix+fam+suffix {
							hit[fam] = true
						}
					}
				}
				if len(hit) < 3 {
					continue
				}
				got++
				var missing []string
				for _, fam := range family {
					if !hit[fam] {
						missing = append(missing, fam+suffix)
					}
				}
				c.Check("value-type-dispatch-exhaustive", fmt.Sprintf("%s/typeswitch#%d", f.Name, got), c.P.Pos(sw.pos), len(missing) == 0,
					"type switch over the iterator family has no case for "+strings.Join(missing, ", ")+": values of that type are dropped or mis-typed when they cross nodes")
			}
			c.Need(got >= minSwitches, "type switch over "+suffix+" family in "+fn)
		}
		check(coord+".(*Service).processCreateIteratorRequest", "Iterator", "query.", 1)
		check("query.(*IteratorEncoder).EncodeIterator", "Iterator", "query.", 1)
		// NewReaderIterator: value switch over influxql.DataType constants
		f := c.Fn("query.NewReaderIterator")
		got := 0
		for _, sw := range valueSwitches(f) {
			hit := map[string]bool{}
			for _, cs := range sw.cases {
				for _, fam := range family {
					if cs == "influxql."+fam {
						hit[fam] = true
					}
				}
			}
			if len(hit) < 3 {
				continue
			}
			got++
			var missing []string
			for _, fam := range family {
				if !hit[fam] {
					missing = append(missing, fam)
				}
			}
			c.Check("value-type-dispatch-exhaustive", fmt.Sprintf("%s/switch#%d", f.Name, got), c.P.Pos(sw.pos), len(missing) == 0,
				"switch over influxql.DataType has no case for "+strings.Join(missing, ", "))
		}
		c.Need(got >= 1, "DataType switch in NewReaderIterator")
		// the five generated encode<T>Iterator methods are all called from EncodeIterator
		enc := c.Fn("query.(*IteratorEncoder).EncodeIterator")
		for _, fam := range family {
			name := "query.(*IteratorEncoder).encode" + fam + "Iterator"
			c.Check("value-type-dispatch-exhaustive", enc.Name+"/calls-encode"+fam+"Iterator", enc.PosStr(),
				len(enc.Graph().Find(evCall(calleeIn(enc, name)))) > 0, "EncodeIterator never calls "+name)
		}
	})
}

func decodedDirectly(st core.State, m func(*ast.CallExpr) bool) bool {
	// `_, err := Decode(...)` followed by a direct return: the decode outcome is not established;
	// treat the decode as having happened when a fact defined by it exists.
	for _, f := range st {
		if ce, ok := f.Def.(*ast.CallExpr); ok && m(ce) {
			return true
		}
	}
	return false
}

func exprOrNamed(x ast.Expr, v *types.Var) string {
	if x != nil {
		return core.ExprStr(x)
	}
	if v != nil {
		return v.Name()
	}
	return "?"
}

func lastIsError(t types.Type) bool {
	if t == nil {
		return false
	}
	if tup, ok := t.(*types.Tuple); ok {
		if tup.Len() == 0 {
			return false
		}
		t = tup.At(tup.Len() - 1).Type()
	}
	return types.Identical(t, types.Universe.Lookup("error").Type())
}

func errUsedPublic(f *core.FuncInfo, e *core.Event) (bool, string) { return errUsed(f, e) }

type switchInfo struct {
	pos   token.Pos
	cases []string
	hasDefault bool
}

// typeSwitches lists the type switches of f (including nested literals) with their case types rendered "pkg.Name".
func typeSwitches(f *core.FuncInfo) []switchInfo {
	var out []switchInfo
	info := f.Info()
	ast.Inspect(f.Body, func(nd ast.Node) bool {
		ts, ok := nd.(*ast.TypeSwitchStmt)
		if !ok {
			return true
		}
		si := switchInfo{pos: ts.Pos()}
		for _, cl := range ts.Body.List {
			cc := cl.(*ast.CaseClause)
			if cc.List == nil {
				si.hasDefault = true
			}
			for _, x := range cc.List {
				if t := info.TypeOf(x); t != nil {
					si.cases = append(si.cases, types.TypeString(t, func(p *types.Package) string { return p.Name() }))
				}
			}
		}
		sort.Strings(si.cases)
		out = append(out, si)
		return true
	})
	return out
}

// valueSwitches lists expression switches with their constant case labels rendered "pkg.Name".
func valueSwitches(f *core.FuncInfo) []switchInfo {
	var out []switchInfo
	info := f.Info()
	ast.Inspect(f.Body, func(nd ast.Node) bool {
		ss, ok := nd.(*ast.SwitchStmt)
		if !ok {
			return true
		}
		si := switchInfo{pos: ss.Pos()}
		for _, cl := range ss.Body.List {
			cc := cl.(*ast.CaseClause)
			if cc.List == nil {
				si.hasDefault = true
			}
			for _, x := range cc.List {
				si.cases = append(si.cases, constName(info, x))
			}
		}
		out = append(out, si)
		return true
	})
	return out
}

func constName(info *types.Info, x ast.Expr) string {
	switch e := ast.Unparen(x).(type) {
	case *ast.Ident:
		if c, ok := info.ObjectOf(e).(*types.Const); ok && c.Pkg() != nil {
			return c.Pkg().Name() + "." + c.Name()
		}
	case *ast.SelectorExpr:
		if c, ok := info.ObjectOf(e.Sel).(*types.Const); ok && c.Pkg() != nil {
			return c.Pkg().Name() + "." + c.Name()
		}
	}
	return core.ExprStr(x)
}

// isOwnersLenGuard: the last branch on the zero-append path tests len(<shard>.Owners) against 0.
func isOwnersLenGuard(info *types.Info, path []*core.Event, shard types.Object) bool {
	var last ast.Expr
	for _, e := range path {
		if e.Kind == core.EvCond {
			last = e.Node.(ast.Expr)
		}
	}
	be, ok := ast.Unparen(last).(*ast.BinaryExpr)
	if last == nil || !ok {
		return false
	}
	ce, ok := ast.Unparen(be.X).(*ast.CallExpr)
	if !ok || !isLenCall(info, ce) || len(ce.Args) != 1 {
		return false
	}
	se, ok := ast.Unparen(ce.Args[0]).(*ast.SelectorExpr)
	if !ok || se.Sel.Name != "Owners" {
		return false
	}
	id, ok := se.X.(*ast.Ident)
	if !ok || info.ObjectOf(id) != shard {
		return false
	}
	tv := info.Types[be.Y]
	if tv.Value == nil {
		return false
	}
	v, _ := constInt(tv.Value)
	return v == 0 && (be.Op == token.GTR || be.Op == token.EQL || be.Op == token.NEQ)
}

// runEveryRemoteGroupConsulted is shared by C05 (D7) and C11 (D6).
func runEveryRemoteGroupConsulted(c *core.Ctx) {
	// every fan-out of the cluster mappings asks every remote shard group: no return that may report success is
	// reachable without passing the loop over RemoteShardMapping (an answer computed from the local shards alone
	// depends on where the data lives)
	n := 0
	for _, f := range c.P.FuncsIn(coord) {
		if f.Decl == nil || f.Decl.Recv == nil || f.Body == nil {
			continue
		}
		if !strings.HasPrefix(f.Name, coord+".(*ClusterShardMapping).") && !strings.HasPrefix(f.Name, coord+".(*ClusterStoreMapping).") {
			continue
		}
		info := f.Info()
		// the loop over the remote groups: a range statement whose operand mentions RemoteShardMapping
		var heads []*core.Event
		for _, l := range f.Graph().Loops() {
			rs, ok := l.Stmt.(*ast.RangeStmt)
			if !ok || !strings.Contains(core.ExprStr(rs.X), "RemoteShardMapping") && !strings.Contains(core.ExprStr(rs.X), "RemoteShardGroups") {
				continue
			}
			if f.NumResults() == 0 || f.Decl.Name.Name == "Close" {
				continue
			}
			// only loops that call something on the group (fan-outs), not bookkeeping such as Close
			calls := false
			ast.Inspect(rs.Body, func(nd ast.Node) bool {
				if ce, ok := nd.(*ast.CallExpr); ok {
					if se, ok := ce.Fun.(*ast.SelectorExpr); ok && se.Sel.Name == f.Decl.Name.Name {
						calls = true
					}
				}
				return true
			})
			if calls {
				heads = append(heads, l.Head)
			}
		}
		if len(heads) == 0 {
			continue
		}
		n++
		isHead := func(e *core.Event) bool {
			for _, h := range heads {
				if e == h {
					return true
				}
			}
			return false
		}
		_ = info
		isRemote := func(x ast.Expr) bool {
			s := core.ExprStr(x)
			return strings.Contains(s, "RemoteShardMapping") || strings.Contains(s, "RemoteShardGroups")
		}
		bad := map[*core.Event]bool{}
		seen := map[*core.Event]bool{}
		complete := f.Flow().ExplorePathsMarked(func(k core.VarKey, fct core.Fact) bool {
			return k.Root == nil && strings.HasPrefix(k.Path, "cond:") && fct.Def != nil && isRemote(fct.Def)
		}, func(e *core.Event) string {
			if isHead(e) {
				return "asked"
			}
			return ""
		}, func(e *core.Event, st core.State) {
			if e.Kind != core.EvReturn {
				return
			}
			if f.ErrResultIndex() >= 0 {
				if fact, _ := f.ReturnErrFact(e); fact.Nil == core.NonNil {
					return
				}
			}
			seen[e] = true
			if core.Marked(st, "asked") {
				return
			}
			// nothing to ask: the path established that there are no remote groups
			for k, fct := range st {
				if k.Root != nil || !strings.HasPrefix(k.Path, "cond:") || fct.Def == nil || fct.Bool == 0 {
					continue
				}
				var atoms []atomB
				decompose(fct.Def, fct.Bool == 1, &atoms)
				for _, a := range atoms {
					be, ok := ast.Unparen(a.x).(*ast.BinaryExpr)
					if !ok || !isRemote(be.X) || !strings.HasPrefix(core.ExprStr(be.X), "len(") {
						continue
					}
					if tv := f.Info().Types[be.Y]; tv.Value == nil || tv.Value.String() != "0" {
						continue
					}
					if be.Op == token.EQL && a.val || (be.Op == token.NEQ || be.Op == token.GTR) && !a.val {
						return
					}
				}
			}
			bad[e] = true
		})
		c.Need(complete, "exploration bound "+f.Name)
		k := 0
		for _, e := range f.Graph().Events {
			if !seen[e] {
				continue
			}
			k++
			c.Check("every-remote-group-consulted", fmt.Sprintf("%s/return#%d", f.Name, k), c.P.Pos(e.Pos()), !bad[e],
				"a result is returned without asking the remote shard groups (and without having established that there are none): the answer is computed from the shards of this node only and differs from the answer the same data gives on one node")
		}
	}
	c.Floor("fan-out methods of the cluster mappings", n, 6)
}

// isOwnersLenGuardViaHelper: the zero-append path ends on `!ok` / `ok` where ok is the second result of a helper
// of this program called with the shard, and the helper returns a non-true second result only on paths where
// len(<param>.Owners) == 0 was established: the same frozen exception as isOwnersLenGuard, seen through a
// selection helper.
func isOwnersLenGuardViaHelper(c *core.Ctx, f *core.FuncInfo, path []*core.Event, shard types.Object) bool {
	info := f.Info()
	var last ast.Expr
	for _, e := range path {
		if e.Kind == core.EvCond {
			last = e.Node.(ast.Expr)
		}
	}
	if last == nil {
		return false
	}
	x := ast.Unparen(last)
	if ue, ok := x.(*ast.UnaryExpr); ok && ue.Op == token.NOT {
		x = ast.Unparen(ue.X)
	}
	okID, ok := x.(*ast.Ident)
	if !ok {
		return false
	}
	okObj := info.ObjectOf(okID)
	// the defining assignment: _, ok := h(..., shard, ...)
	var call *ast.CallExpr
	idx, defs := -1, 0
	ast.Inspect(f.Root().Body, func(nd ast.Node) bool {
		as, isAs := nd.(*ast.AssignStmt)
		if !isAs {
			return true
		}
		for i, l := range as.Lhs {
			if lid, isID := l.(*ast.Ident); isID && info.ObjectOf(lid) == okObj {
				defs++
				if ce, isCall := as.Rhs[0].(*ast.CallExpr); isCall && len(as.Rhs) == 1 && len(as.Lhs) > 1 {
					call, idx = ce, i
				}
			}
		}
		return true
	})
	if call == nil || defs != 1 {
		return false
	}
	fn, _ := core.Callee(info, call).(*types.Func)
	h := c.P.FuncOf(fn)
	if h == nil || h.Decl == nil || h.Body == nil {
		return false
	}
	// which parameter receives the shard?
	var param types.Object
	k := 0
	for _, fld := range h.Decl.Type.Params.List {
		for _, nm := range fld.Names {
			if k < len(call.Args) {
				a := ast.Unparen(call.Args[k])
				if ue, isU := a.(*ast.UnaryExpr); isU && ue.Op == token.AND {
					a = ast.Unparen(ue.X)
				}
				if id, isID := a.(*ast.Ident); isID && info.ObjectOf(id) == shard {
					param = h.Info().Defs[nm]
				}
			}
			k++
		}
	}
	if param == nil {
		return false
	}
	hinfo := h.Info()
	noOwners := func(st core.State) bool {
		for key, fct := range st {
			if key.Root != nil || !strings.HasPrefix(key.Path, "cond:") || fct.Def == nil || fct.Bool == 0 {
				continue
			}
			var atoms []atomB
			decompose(fct.Def, fct.Bool == 1, &atoms)
			for _, a := range atoms {
				be, isB := ast.Unparen(a.x).(*ast.BinaryExpr)
				if !isB {
					continue
				}
				ce, isC := ast.Unparen(be.X).(*ast.CallExpr)
				if !isC || !isLenCall(hinfo, ce) || len(ce.Args) != 1 {
					continue
				}
				se, isS := ast.Unparen(ce.Args[0]).(*ast.SelectorExpr)
				if !isS || se.Sel.Name != "Owners" {
					continue
				}
				if id, isID := se.X.(*ast.Ident); !isID || hinfo.ObjectOf(id) != param {
					continue
				}
				tv := hinfo.Types[be.Y]
				if tv.Value == nil {
					continue
				}
				if v, _ := constInt(tv.Value); v != 0 {
					continue
				}
				if (be.Op == token.EQL && a.val) || ((be.Op == token.GTR || be.Op == token.NEQ) && !a.val) {
					return true
				}
			}
		}
		return false
	}
	good, seen := true, 0
	complete := h.Flow().ExplorePaths(func(key core.VarKey, fct core.Fact) bool {
		return key.Root == nil && strings.HasPrefix(key.Path, "cond:")
	}, func(e *core.Event, st core.State) {
		if e.Kind != core.EvReturn {
			return
		}
		r, _ := h.ResultExpr(e, idx)
		if r == nil {
			good = false
			return
		}
		if tv := hinfo.Types[r]; tv.Value != nil && tv.Value.String() == "true" {
			return
		}
		seen++
		if !noOwners(st) {
			good = false
		}
	})
	return complete && good && seen > 0
}
