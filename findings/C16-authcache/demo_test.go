package meta

import (
	"testing"

	"golang.org/x/crypto/bcrypt"
)

// A password change has reached this node (cacheData holds the new hash). An Authenticate call that
// raced with the change inserted a cache entry for the OLD password after updateAuthCache had run
// (it read the user record before the change and finished its bcrypt comparison after it).
// The old password must not authenticate through that entry.
func TestZZ_AuthCacheTiedToCurrentHash(t *testing.T) {
	oldHash, _ := bcrypt.GenerateFromPassword([]byte("old-secret"), bcrypt.MinCost)
	newHash, _ := bcrypt.GenerateFromPassword([]byte("new-secret"), bcrypt.MinCost)
	c := &Client{authCache: map[string]authUser{}}
	c.cacheData = &Data{Users: []UserInfo{{Name: "bob", Hash: string(newHash)}}}
	// the entry the racing call inserted: salted hash of the old password, tied to the old bcrypt hash
	salt, hashed, _ := c.saltedHash("old-secret")
	c.authCache["bob"] = authUser{salt: salt, hash: hashed, bhash: string(oldHash)}

	if _, err := c.Authenticate("bob", "old-secret"); err == nil {
		t.Fatal("the old password still authenticates through the credential cache after the password change reached this node")
	}
	if _, err := c.Authenticate("bob", "new-secret"); err != nil {
		t.Fatalf("new password rejected: %v", err)
	}
}
