package props

import (
	"fmt"
	"go/ast"
	"go/token"
	"go/types"
	"strings"

	"verifcheck/core"
)

func init() {
	register("C02", core.PropertyMeta{
		Explanation: "Decides ONLY the rejection/typing clauses of C02 (the equality of reads with a last-write-wins model over all layouts is a statement about run-time values and is not decided): " +
			"D1 the type-conflict rejection path: in Shard.validateSeriesAndFields a point whose validation failed is never kept and a point whose validation succeeded is always kept (per loop iteration, on every path), every rejection is counted, a non-partial error aborts, and a positive drop count surfaces as a PartialWriteError; Shard.WritePointsWithContext hands the engine exactly the validated slice, aborts before the engine on a non-partial error and returns the partial error after a successful engine write; in the engine, a field flagged with ErrFieldTypeConflict is never appended to the values written and the conflict is the function's result; " +
			"D2 one type per field: MeasurementFields.CreateFieldIfNotExists re-checks under its mutex against the re-read map (shared with C19); the cache's per-entry type tag distinguishes all five value types; " +
			"D3 the value-type dispatch on the write path is exhaustive over the five field types; " +
			"D4 two structural necessary conditions of last-write-wins on the read path: Values.Deduplicate (and its typed siblings) sort with a stable sort so that among equal timestamps the later write stays last, and every block a KeyCursor reads is filtered with the tombstones of the file the block came from; D5 who may hand out a cache entry's own value slice (frozen table: Cache.values, called only by the compactor's cache key iterator). D6 the cache read concatenates the retained snapshot's entry before the live store's entry on every path (Values.Deduplicate keeps the last value of a timestamp, so the reverse order lets an older snapshot value override a newer acknowledged write while a snapshot is in flight or retained after a failed flush) (shared with C09/C11).",
		RuleText:    "obligation = (rule, function, site); per-iteration marked path exploration with outcome facts; type-switch / value-switch exhaustiveness against the five-type family",
		Assumptions: commonAssumptions,
	}, runC02)
}

func runC02(c *core.Ctx) {
	c.Clause("D1", func() {
		f := c.Fn("tsdb.(*Shard).validateSeriesAndFields")
		info := f.Info()
		validate := func(ce *ast.CallExpr) bool {
			se, ok := ce.Fun.(*ast.SelectorExpr)
			return ok && se.Sel.Name == "Validate" && strings.HasSuffix(core.ExprStr(se.X), "FieldValidator")
		}
		vs := findOrAbort(c, f, "FieldValidator.Validate", evCall(validate), 1)
		// the loop that contains the validation
		var loop *core.Loop
		for _, l := range f.Graph().Loops() {
			if l.Stmt.Pos() <= vs[0].Pos() && vs[0].Pos() < l.Stmt.End() {
				if loop == nil || l.Stmt.Pos() > loop.Stmt.Pos() {
					if _, isRange := l.Stmt.(*ast.RangeStmt); isRange {
						loop = l
					}
				}
			}
		}
		c.Need(loop != nil, "validation loop of validateSeriesAndFields")
		pointsObj := info.ObjectOf(f.Decl.Type.Params.List[0].Names[0])
		isKeep := func(e *core.Event) bool {
			if e.Kind != core.EvAssign {
				return false
			}
			as, ok := e.Node.(*ast.AssignStmt)
			if !ok || len(as.Lhs) != 1 {
				return false
			}
			ix, ok := ast.Unparen(as.Lhs[0]).(*ast.IndexExpr)
			return ok && isIdentObj(info, ix.X, pointsObj) && e.Pos() > loop.Stmt.Pos()
		}
		var droppedObj types.Object
		ast.Inspect(f.Body, func(nd ast.Node) bool {
			if vsp, ok := nd.(*ast.ValueSpec); ok {
				for _, nm := range vsp.Names {
					if nm.Name == "dropped" {
						droppedObj = info.ObjectOf(nm)
					}
				}
			}
			return true
		})
		c.Need(droppedObj != nil, "drop counter of validateSeriesAndFields")
		isCount := func(e *core.Event) bool {
			if e.Kind != core.EvAssign {
				return false
			}
			switch s := e.Node.(type) {
			case *ast.IncDecStmt:
				return isIdentObj(info, s.X, droppedObj)
			case *ast.AssignStmt:
				return len(s.Lhs) == 1 && isIdentObj(info, s.Lhs[0], droppedObj) && s.Tok == token.ADD_ASSIGN
			}
			return false
		}
		badKeep, badLose, badCount := "", "", ""
		complete := f.Flow().ExplorePathsMarked(func(k core.VarKey, fct core.Fact) bool {
			ce, ok := fct.Def.(*ast.CallExpr)
			return ok && validate(ce)
		}, func(e *core.Event) string {
			switch {
			case e == loop.BodyEntry:
				return "-kept,-validated,-counted"
			case e.Kind == core.EvCall && validate(e.Call):
				return "validated"
			case isKeep(e):
				return "kept"
			case isCount(e):
				return "counted"
			}
			return ""
		}, func(e *core.Event, st core.State) {
			if e != loop.Head || !core.Marked(st, "validated") {
				return
			}
			kept := core.Marked(st, "kept")
			if core.OutcomeFailed(st, validate) {
				if kept {
					badKeep = "a point whose field validation failed (type conflict) is kept in the slice handed to the engine"
				}
				if !core.Marked(st, "counted") {
					badCount = "a point rejected by field validation is dropped without being counted: the write is acknowledged as complete although a point was discarded"
				}
			}
			if core.OutcomeOK(st, validate) && !kept {
				badLose = "a point that passed field validation is not kept: a valid point of the batch is lost because another point conflicted"
			}
		})
		c.Need(complete, "exploration bound validateSeriesAndFields")
		c.Check("rejected-point-not-written", f.Name+"/failed-validation-not-kept", c.P.Pos(loop.Stmt.Pos()), badKeep == "", badKeep)
		c.Check("rejected-point-not-written", f.Name+"/rejection-counted", c.P.Pos(loop.Stmt.Pos()), badCount == "", badCount)
		c.Check("valid-points-survive", f.Name+"/passed-validation-kept", c.P.Pos(loop.Stmt.Pos()), badLose == "", badLose)
		// a positive drop count surfaces as a PartialWriteError: the final return's error is assigned under `dropped > 0`
		partial := false
		ast.Inspect(f.Body, func(nd ast.Node) bool {
			ifs, ok := nd.(*ast.IfStmt)
			if !ok {
				return true
			}
			be, ok := ast.Unparen(ifs.Cond).(*ast.BinaryExpr)
			if !ok || be.Op != token.GTR || !isIdentObj(info, be.X, droppedObj) || !isZeroLit(info, be.Y) {
				return true
			}
			for _, st := range ifs.Body.List {
				if as, ok := st.(*ast.AssignStmt); ok && len(as.Rhs) == 1 {
					if cl, ok := as.Rhs[0].(*ast.CompositeLit); ok {
						if t := info.TypeOf(cl); t != nil && strings.HasSuffix(t.String(), "tsdb.PartialWriteError") {
							partial = true
						}
					}
				}
			}
			return true
		})
		c.Check("drops-surface-as-partial-write", f.Name+"/dropped>0", f.PosStr(), partial, "a positive drop count must be turned into a PartialWriteError before validateSeriesAndFields returns")
		// the slice returned is points[:j]
		for i, e := range f.Graph().Events {
			_ = i
			if e.Kind != core.EvReturn || e.Node == nil {
				continue
			}
			rs := e.Node.(*ast.ReturnStmt)
			if len(rs.Results) != 3 || isNilExpr(info, rs.Results[0]) {
				continue
			}
			se, ok := ast.Unparen(rs.Results[0]).(*ast.SliceExpr)
			good := ok && isIdentObj(info, se.X, pointsObj) && se.High != nil && se.Low == nil
			c.Check("rejected-point-not-written", f.Name+"/returns-points[:j]", c.P.Pos(e.Pos()), good, "the function must return the compacted prefix points[:j] (only the kept points)")
		}

		// Shard.WritePointsWithContext
		w := c.Fn("tsdb.(*Shard).WritePointsWithContext")
		winfo := w.Info()
		val := calleeIn(w, "tsdb.(*Shard).validateSeriesAndFields")
		findOrAbort(c, w, "validateSeriesAndFields", evCall(val), 1)
		engineWrite := func(e *core.Event) bool {
			if e.Kind != core.EvCall {
				return false
			}
			fn, ok := e.Callee.(*types.Func)
			return ok && (fn.Name() == "WritePointsWithContext" || fn.Name() == "WritePoints") && fn != w.Obj
		}
		ews := findOrAbort(c, w, "engine write", engineWrite, 1)
		for i, e := range ews {
			arg := e.Call.Args[len(e.Call.Args)-1]
			fact := w.Flow().FactOfExpr(e, arg)
			ce, ok := fact.Def.(*ast.CallExpr)
			c.Check("engine-gets-validated-points", fmt.Sprintf("%s/engine-write#%d", w.Name, i+1), c.P.Pos(e.Pos()), ok && val(ce) && fact.Idx == 0,
				"the points handed to the engine must be the slice returned by validateSeriesAndFields (rejected points removed)")
		}
		// non-partial validation error aborts before the engine; the partial error is the final result
		isPartialAssert := func(x ast.Expr) bool { return strings.Contains(core.ExprStr(x), "!ok") || core.ExprStr(x) == "ok" }
		_ = isPartialAssert
		badAbort := ""
		complete = w.Flow().ExplorePaths(func(k core.VarKey, fct core.Fact) bool {
			if ce, ok := fct.Def.(*ast.CallExpr); ok && val(ce) {
				return true
			}
			if ta, ok := fct.Def.(*ast.TypeAssertExpr); ok && ta != nil {
				return true
			}
			return k.Root == nil && strings.HasPrefix(k.Path, "cond:")
		}, func(e *core.Event, st core.State) {
			if !engineWrite(e) {
				return
			}
			if core.OutcomeFailed(st, val) {
				// must be on the path where the error was recognised as a PartialWriteError
				okPartial := false
				for k, fct := range st {
					if k.Root == nil && strings.HasPrefix(k.Path, "cond:") && fct.Def != nil && strings.Contains(core.ExprStr(fct.Def), "ok") {
						s := core.ExprStr(fct.Def)
						if (s == "!ok" && fct.Bool == 2) || (s == "ok" && fct.Bool == 1) {
							okPartial = true
						}
					}
				}
				if !okPartial {
					badAbort = "the engine write is reachable after validateSeriesAndFields failed with an error that was not recognised as a PartialWriteError"
				}
			}
		})
		c.Need(complete, "exploration bound Shard.WritePointsWithContext")
		c.Check("hard-error-aborts-before-engine", w.Name+"/engine-write", w.PosStr(), badAbort == "", badAbort)
		// final return carries the partial error
		var writeErr types.Object
		ast.Inspect(w.Body, func(nd ast.Node) bool {
			if as, ok := nd.(*ast.AssignStmt); ok && len(as.Lhs) == 1 && len(as.Rhs) == 1 {
				if r, ok := as.Rhs[0].(*ast.Ident); ok {
					fact := core.Fact{}
					_ = fact
					if l, ok := as.Lhs[0].(*ast.Ident); ok && r.Name == "err" && l.Name != "err" && l.Name != "_" {
						writeErr = winfo.ObjectOf(l)
					}
				}
			}
			return true
		})
		c.Need(writeErr != nil, "variable holding the partial write error")
		k := 0
		for _, e := range w.Graph().Events {
			if e.Kind != core.EvReturn || e.Node == nil || !w.Flow().Reachable(e) {
				continue
			}
			// returns after a successful engine write
			after := false
			for _, ew := range ews {
				if p := w.Flow().PathAvoiding(ew, func(x *core.Event) bool { return x == e }, nil); p != nil {
					if rf, _ := w.ReturnErrFact(e); rf.Nil != core.NonNil {
						after = true
					}
				}
			}
			if !after {
				continue
			}
			k++
			x, _ := w.ResultExpr(e, 0)
			c.Check("partial-error-is-returned", fmt.Sprintf("%s/final-return#%d", w.Name, k), c.P.Pos(e.Pos()), x != nil && isIdentObj(winfo, x, writeErr),
				"after a successful engine write the function must return the partial-write error it remembered (nil only if nothing was rejected); returning a constant nil hides rejected points from the client")
		}
		c.Floor("final returns of Shard.WritePointsWithContext", k, 1)

		// engine: a conflicting field is never appended
		en := c.Fn(tsm1 + ".(*Engine).WritePointsWithContext")
		einfo := en.Info()
		var seriesErr types.Object
		ast.Inspect(en.Body, func(nd ast.Node) bool {
			if vsp, ok := nd.(*ast.ValueSpec); ok {
				for _, nm := range vsp.Names {
					if nm.Name == "seriesErr" {
						seriesErr = einfo.ObjectOf(nm)
					}
				}
			}
			return true
		})
		c.Need(seriesErr != nil, "variable seriesErr")
		conflict := func(e *core.Event) bool {
			if e.Kind != core.EvAssign {
				return false
			}
			as, ok := e.Node.(*ast.AssignStmt)
			return ok && len(as.Lhs) == 1 && isIdentObj(einfo, as.Lhs[0], seriesErr)
		}
		isAppend := func(e *core.Event) bool {
			if e.Kind != core.EvAssign {
				return false
			}
			as, ok := e.Node.(*ast.AssignStmt)
			if !ok || len(as.Lhs) != 1 || len(as.Rhs) != 1 {
				return false
			}
			ix, ok := ast.Unparen(as.Lhs[0]).(*ast.IndexExpr)
			if !ok {
				return false
			}
			id, ok := ast.Unparen(ix.X).(*ast.Ident)
			return ok && id.Name == "values"
		}
		findOrAbort(c, en, "seriesErr assignment", conflict, 2)
		findOrAbort(c, en, "append to values", isAppend, 1)
		var inner *core.Loop
		for _, l := range en.Graph().Loops() {
			if fs, ok := l.Stmt.(*ast.ForStmt); ok && fs.Cond != nil && strings.Contains(core.ExprStr(fs.Cond), "iter.Next()") {
				inner = l
			}
		}
		c.Need(inner != nil, "field loop of Engine.WritePointsWithContext")
		bad := ""
		complete = en.Flow().ExplorePathsMarked(func(k core.VarKey, fct core.Fact) bool { return false }, func(e *core.Event) string {
			switch {
			case e == inner.BodyEntry:
				return "-conflict,-appended"
			case conflict(e):
				return "conflict"
			case isAppend(e):
				return "appended"
			}
			return ""
		}, func(e *core.Event, st core.State) {
			if e == inner.Head && core.Marked(st, "conflict") && core.Marked(st, "appended") {
				bad = "a field flagged with a type conflict is still appended to the values written to the cache and WAL: the field ends up holding values of two types"
			}
		})
		c.Need(complete, "exploration bound Engine.WritePointsWithContext")
		c.Check("conflicting-field-not-written", en.Name+"/field-loop", c.P.Pos(inner.Stmt.Pos()), bad == "", bad)
		// the conflict is the function's final result
		last := false
		for _, e := range en.Graph().Events {
			if e.Kind == core.EvReturn && e.Node != nil {
				if x, _ := en.ResultExpr(e, 0); x != nil && isIdentObj(einfo, x, seriesErr) {
					last = true
				}
			}
		}
		c.Check("conflict-is-reported", en.Name+"/return-seriesErr", en.PosStr(), last, "the engine must return the recorded field type conflict after writing the remaining fields")
	})

	c.Clause("D2", func() {
		runFieldCreateUnderLock(c)
		// the cache's type tag distinguishes the five value types (distinct non-zero tags)
		f := c.Fn(tsm1 + ".valueType")
		tags := map[string]int64{}
		ast.Inspect(f.Body, func(nd ast.Node) bool {
			cc, ok := nd.(*ast.CaseClause)
			if !ok || len(cc.List) != 1 || len(cc.Body) != 1 {
				return true
			}
			rs, ok := cc.Body[0].(*ast.ReturnStmt)
			if !ok || len(rs.Results) != 1 {
				return true
			}
			if tv := f.Info().Types[rs.Results[0]]; tv.Value != nil {
				v, _ := constInt(tv.Value)
				if t := f.Info().TypeOf(cc.List[0]); t != nil {
					tags[t.String()] = v
				}
			}
			return true
		})
		seen := map[int64]string{}
		for _, fam := range valueFamily {
			name := "github.com/influxdata/influxdb/tsdb/engine/tsm1." + fam + "Value"
			v, ok := tags[name]
			good := ok && v != 0
			if prev, dup := seen[v]; dup && ok {
				good = false
				_ = prev
			}
			seen[v] = fam
			c.Check("cache-type-tag-per-value-type", f.Name+"/"+fam+"Value", f.PosStr(), good,
				"valueType gives "+fam+"Value no distinct non-zero tag: a cache entry holding such values skips the type check and accepts values of another type for the same key")
		}
		// entry.add / newEntryValues compare tags and reject
		for _, nm := range []string{tsm1 + ".(*entry).add", tsm1 + ".newEntryValues"} {
			g := c.Fn(nm)
			conflict := c.P.LookupObj("tsdb", "ErrFieldTypeConflict")
			rets := 0
			for _, e := range g.Graph().Events {
				if e.Kind == core.EvReturn && e.Node != nil {
					for _, r := range e.Node.(*ast.ReturnStmt).Results {
						if se, ok := ast.Unparen(r).(*ast.SelectorExpr); ok && g.Info().ObjectOf(se.Sel) == conflict {
							rets++
						}
					}
				}
			}
			c.Check("cache-type-tag-per-value-type", g.Name+"/rejects-mismatch", g.PosStr(), rets >= 1 && len(g.Graph().Find(evCall(calleeIn(g, tsm1+".valueType")))) >= 1,
				nm+" must compare the values' type tags and return ErrFieldTypeConflict on a mismatch")
		}
	})

	c.Clause("D4", func() { runReadPathStructure(c) })
	c.Clause("D6", func() { runCacheReadOrder(c) })

	c.Clause("D5", func() {
		// Who may hand out a cache entry's own value slice: readers sort, deduplicate and filter what they are
		// given in place, and writers append into its spare capacity, so a function of the cache that returns
		// entry.values itself (instead of a copy) lets one reader's view change under another. Frozen table.
		allowed := map[string]string{
			tsm1 + ".(*Cache).values": "only the cache key iterator of the compactor calls it, on a snapshot that is no longer written (who-may-call below)",
		}
		valuesF := c.P.LookupField(tsm1, "entry", "values")
		c.Need(valuesF != nil, "field entry.values")
		n := 0
		for _, g := range c.P.FuncsIn(tsm1) {
			if g.Body == nil || g.Lit != nil || g.NumResults() == 0 {
				continue
			}
			info := g.Info()
			for _, e := range g.Graph().Events {
				if e.Kind != core.EvReturn {
					continue
				}
				for i := 0; i < g.NumResults(); i++ {
					x, _ := g.ResultExpr(e, i)
					if x == nil {
						continue
					}
					x = derefLocal(g, ast.Unparen(x))
					if sl, ok := ast.Unparen(x).(*ast.SliceExpr); ok {
						x = sl.X
					}
					se, ok := ast.Unparen(x).(*ast.SelectorExpr)
					if !ok || info.ObjectOf(se.Sel) != types.Object(valuesF) {
						continue
					}
					n++
					why, okSite := allowed[g.Root().Name]
					c.Check("who-may-hand-out-entry-storage", fmt.Sprintf("%s/return-entry.values", g.Root().Name), c.P.Pos(e.Pos()), okSite,
						map[bool]string{true: why, false: "the function returns a cache entry's own value slice: a reader that deduplicates, filters or merges its result in place (Cache.Values' callers, IteratorCost) changes what other readers and the next snapshot see, and a writer appending into the slice's spare capacity changes an open reader's values"}[okSite])
				}
			}
		}
		c.Floor("functions returning entry.values itself", n, 1)
		sites := callSites(c.P, []string{tsm1}, tsm1+".(*Cache).values")
		for i, st := range sites {
			ok := strings.HasPrefix(st.Fn.Root().Name, tsm1+".(*cacheKeyIterator)")
			c.Check("who-may-hand-out-entry-storage", fmt.Sprintf("%s/calls-Cache.values#%d", st.Fn.Root().Name, i+1), c.P.Pos(st.Ev.Pos()), ok,
				"Cache.values (no copy) may only be used by the compactor's cache key iterator")
		}
		c.Floor("callers of Cache.values", len(sites), 1)
	})

	c.Clause("D3", func() {
		check := func(fn string, wantCases []string, kind string) {
			f := c.Fn(fn)
			found := false
			var sws []switchInfo
			if kind == "value" {
				sws = valueSwitches(f)
			} else {
				sws = typeSwitches(f)
			}
			for i, sw := range sws {
				hit := 0
				for _, w := range wantCases {
					for _, cs := range sw.cases {
						if cs == w {
							hit++
						}
					}
				}
				if hit < 3 {
					continue
				}
				found = true
				var missing []string
				for _, w := range wantCases {
					ok := false
					for _, cs := range sw.cases {
						if cs == w {
							ok = true
						}
					}
					if !ok {
						missing = append(missing, w)
					}
				}
				c.Check("write-dispatch-exhaustive", fmt.Sprintf("%s/switch#%d", f.Name, i+1), c.P.Pos(sw.pos), len(missing) == 0,
					"the write path's dispatch over the field value types has no case for "+strings.Join(missing, ", "))
			}
			c.Need(found, "value-type dispatch in "+fn)
		}
		fts := []string{"models.Float", "models.Integer", "models.Unsigned", "models.String", "models.Boolean"}
		check(tsm1+".(*Engine).WritePointsWithContext", fts, "value")
		check("tsdb.dataTypeFromModelsFieldType", fts, "value")
	})
}
