package props

import (
	"fmt"
	"go/ast"
	"go/types"
	"strings"

	"verifcheck/core"
)

// runCacheReadOrder (C02 D6, shared as C09 D9 and C11 D7): Cache.Values concatenates the values of the retained
// snapshot (older: cut before the live store was started) and of the live store (newer) and lets Values.Deduplicate
// resolve equal timestamps, which keeps the LAST value. Last-write-wins therefore requires the snapshot's entry to be
// placed in the concatenation before the live store's entry on every path: in Cache.Values no append of the live
// entry can be followed by an append of the snapshot entry, and a slice literal lists the snapshot entry first.
// The same order is required of the compactor-side Cache.values? No: that one reads a single store. Decided here:
// every function of tsm1 that looks up BOTH `<cache>.store.entry(k)` and `<cache>.snapshot.store.entry(k)`.
func runCacheReadOrder(c *core.Ctx) {
	nFns, nPairs := 0, 0
	for _, f := range c.P.FuncsIn(tsm1) {
		if f.Body == nil || f.Decl == nil {
			continue
		}
		info := f.Info()
		var live, snap types.Object
		ast.Inspect(f.Body, func(nd ast.Node) bool {
			as, ok := nd.(*ast.AssignStmt)
			if !ok || len(as.Lhs) != 1 || len(as.Rhs) != 1 {
				return true
			}
			ce, ok := ast.Unparen(as.Rhs[0]).(*ast.CallExpr)
			if !ok {
				return true
			}
			se, ok := ce.Fun.(*ast.SelectorExpr)
			if !ok || se.Sel.Name != "entry" {
				return true
			}
			if core.FieldPathOf(info, se.X) != "Cache.store" {
				return true
			}
			id, ok := ast.Unparen(as.Lhs[0]).(*ast.Ident)
			if !ok {
				return true
			}
			inner := ast.Unparen(se.X).(*ast.SelectorExpr)
			if core.FieldPathOf(info, inner.X) == "Cache.snapshot" {
				snap = info.ObjectOf(id)
			} else {
				live = info.ObjectOf(id)
			}
			return true
		})
		if live == nil || snap == nil {
			continue
		}
		nFns++
		isEntryPtrSlice := func(t types.Type) bool {
			return t != nil && strings.HasSuffix(t.String(), "[]*"+core.ModulePath+"/"+tsm1+".entry")
		}
		argObj := func(x ast.Expr) types.Object {
			if id, ok := ast.Unparen(x).(*ast.Ident); ok {
				return info.ObjectOf(id)
			}
			return nil
		}
		var appLive, appSnap []*core.Event
		for _, e := range f.Graph().Events {
			if e.Kind != core.EvCall || e.Call == nil {
				continue
			}
			id, ok := ast.Unparen(e.Call.Fun).(*ast.Ident)
			if !ok {
				continue
			}
			if b, ok := info.ObjectOf(id).(*types.Builtin); !ok || b.Name() != "append" {
				continue
			}
			if len(e.Call.Args) < 2 || !isEntryPtrSlice(info.TypeOf(e.Call.Args[0])) {
				continue
			}
			// within one append call the arguments are in order too
			li, si := -1, -1
			for i, a := range e.Call.Args[1:] {
				switch argObj(a) {
				case live:
					li = i
				case snap:
					si = i
				}
			}
			if li >= 0 {
				appLive = append(appLive, e)
			}
			if si >= 0 {
				appSnap = append(appSnap, e)
			}
			if li >= 0 && si >= 0 {
				nPairs++
				c.Check("snapshot-values-before-live-values", fmt.Sprintf("%s/append-both#%d", f.Name, nPairs), c.P.Pos(e.Pos()), si < li,
					"the live store's entry is appended before the retained snapshot's entry: Values.Deduplicate keeps the last value of a timestamp, so the older snapshot value then overrides a newer acknowledged write while a snapshot is in flight or retained after a failed flush")
			}
		}
		// slice literals
		nLit := 0
		ast.Inspect(f.Body, func(nd ast.Node) bool {
			cl, ok := nd.(*ast.CompositeLit)
			if !ok || !isEntryPtrSlice(info.TypeOf(cl)) {
				return true
			}
			li, si := -1, -1
			for i, el := range cl.Elts {
				switch argObj(el) {
				case live:
					li = i
				case snap:
					si = i
				}
			}
			if li >= 0 || si >= 0 {
				nLit++
				nPairs++
				c.Check("snapshot-values-before-live-values", fmt.Sprintf("%s/literal#%d", f.Name, nLit), c.P.Pos(cl.Pos()), li >= 0 && si >= 0 && si < li,
					"the entries are concatenated from a literal that does not list the retained snapshot's entry before the live store's entry: Values.Deduplicate keeps the last value of a timestamp, so the older snapshot value then overrides a newer acknowledged write")
			}
			return true
		})
		if nLit == 0 && len(appLive) == 0 && len(appSnap) == 0 {
			nFns-- // looks both entries up but concatenates nothing (Cache.Type)
			continue
		}
		if nLit == 0 {
			c.Need(len(appLive) > 0 && len(appSnap) > 0, f.Name+": appends of the live entry and of the snapshot entry to the concatenation")
		}
		k := 0
		for _, l := range appLive {
			for _, s := range appSnap {
				if l == s {
					continue
				}
				k++
				nPairs++
				p := f.Flow().PathAvoiding(l, func(x *core.Event) bool { return x == s }, nil)
				c.Check("snapshot-values-before-live-values", fmt.Sprintf("%s/live#%d-then-snapshot", f.Name, k), c.P.Pos(s.Pos()), p == nil,
					"on some path the live store's entry is appended to the concatenation @"+c.P.Pos(l.Pos())+" before the retained snapshot's entry: Values.Deduplicate keeps the last value of a timestamp, so the older snapshot value then overrides a newer acknowledged write while a snapshot is in flight or retained after a failed flush")
			}
		}
	}
	c.Floor("functions that read both the live store and the retained snapshot of the cache", nFns, 1)
	c.Floor("ordered pairs (live entry, snapshot entry) in the concatenation", nPairs, 1)
}
