#!/usr/bin/env python3
"""Regenerates MANIFEST.json from the table below (kept in one place so the
manifest stays valid while checks are added)."""
import json, os

HERE = os.path.dirname(os.path.abspath(__file__))

# property id -> (claimed?, text, note, technique, design_ref)   -- or NA reason
CLAIMED = {
 "C01": dict(
  text="Structural necessary conditions of crash durability decided on every control-flow path of the anchored functions: fsync-before-acknowledge in the WAL, snapshot/compaction commit ordering (sync < rename < remove-old < dir-sync; WAL segments and cache snapshot released only after FileStore.Replace returned nil; a retried cache snapshot releases no WAL segment - found and fixed in fc11571), tombstone commit order, recovery order in Engine.Open, the WAL-tail typestate (append-mode reopen), and a frozen who-may-destroy table for shard files. A crash point is a position on a path, so an ordering that holds on all paths holds at every crash point; values replayed are not decided.",
  note="Does not decide: that replay reproduces exactly the written values, torn-tail arithmetic, file-system semantics of fsync/rename. Trusts go/types resolution and the go/cfg graph; function anchors are resolved by name. One known finding (a write relying on a field that is in memory but in no saved fields.idx is acknowledged; lost for reads after a TSI restart) is listed in known_findings.json with a demonstration.",
  technique="static analysis: must-precede / error-outcome dataflow over go/cfg + typed AST, who-may-call table",
  ref="§4 C01"),
 "C04": dict(
  text="Structural clauses of the hinted-handoff queue contract decided on every path: append acknowledged only after write+fsync (buffered path is a recorded known finding), flush before close and before tail rotation, Empty() a function of queue content and never of the file cursor, one agreed at-end predicate, SendWrite advances only after the target answered / EOF / undecodable block, footer written and synced before the head offset moves, frozen who-may-discard table with a guarded inactive-processor purge, gap-free batch split, segment list sorted by numeric id with head=first/tail=last, and every caller of addSegment moves queue.tail to the new segment before it can return success (found the dangling tail after an age purge, fixed in f6a12a7).",
  note="Does not decide ordering across concurrent appenders, crash images of torn blocks, or size-limit arithmetic. One known finding (buffered append acknowledged before durable) is listed in known_findings.json.",
  technique="static analysis: outcome dataflow + path exploration over go/cfg, who-may-call table, comparison-shape agreement",
  ref="§4 C04"),
 "C05": dict(
  text="Structural clauses of the distributed read path: every decode site of a coordinator *Response with an Err field surfaces a non-nil Err as a non-nil error on every path; retry loops and fan-outs return success only after every call of the round returned nil and mark failing nodes dirty before re-partitioning; per-iteration analysis of the shard-assignment loops shows each shard is appended to exactly one node bucket (or the mapping aborts); the already-mapped guard tests the map the loop fills; a failed framed exchange on a pooled connection is followed by MarkUnusable on every path; the value-type dispatch of the remote iterator path is exhaustive; a handler that streams a query iterator writes to the connection when streaming fails, before the connection closes (the reader takes a clean end of the connection for end of data); every fan-out of the cluster mappings passes the loop over the remote shard groups before a success return unless there are none; the range predicates that select the shard groups of a query equal their specification.",
  note="Does not decide liveness of owners, equality of the merged result with a single-node result, or truncated streams. The skip of a shard with an empty owner list is exempted on the grounds that the metadata never publishes a live shard without owners (C06 invariant).",
  technique="static analysis: per-site nil/outcome dataflow, loop-iteration path counting, type-switch exhaustiveness",
  ref="§4 C05"),
 "C03": dict(
  text="The outcome table of the cluster write path decided over every path of the per-owner goroutine and the collector (each path = one combination of per-owner outcomes): exactly one result per owner, hinted handoff offered exactly once exactly when required, accepted handoff = success under level any on both handoff branches, handoff error surfaces, required = 1 | floor(n/2)+1 | n by constant folding for n=1..64 with the level registry covered, success only under wrote >= required, partial/failed/timeout classification, honest remote acknowledgement (store returned nil / code 0), failed exchange poisons the pooled connection, one handoff processor per (node, shard); the collector loop is left only by a classified return or by running out of owners (no break/goto: the verdict must not depend on arrival order); no call into the handoff path transposes its two same-typed ids (argument names against the callee's parameter names, 57 sites).",
  note="Does not decide timing (success within the timeout) or goroutine scheduling; arrival order is irrelevant by construction because the collector only counts. Frozen exceptions: shard group gone, request without db/rp from an old sender.",
  technique="static analysis: path exploration with markers and outcome facts, integer expression folding, site rules",
  ref="§4 C03"),
 "C06": dict(
  text="Structural clauses of metadata determinism and invariants: nothing nondeterministic (clock outside the excluded DeletedAt stamps, randomness, goroutines, select, order-sensitive map iteration) is reachable from storeFSM.Apply within services/meta; copy-on-write apply discipline on every path (only a clone is mutated and installed, never after a failed call, nothing mutated or rejected after installation; frozen who-may-store table); ID counters only grow; Apply's switch, the command-type registry and the validator table agree; the time predicates of shard-group selection, clipping, truncation and expiry equal their specification on every weak ordering of their operands (exhaustive truth tables); the owner round-robin advances one node per replica; the snapshot codec agrees with itself (every field transfer of marshal/unmarshal in services/meta has matching field and getter names, 52 transfers); clone completeness (shared with C07); the membership scan in front of adding a requested shard owner is exhaustive; a group is marked deleted exactly when the shard removed was its last (length before the removal against 1 or after it against 0).",
  note="Does not decide disjointness/ID uniqueness after arbitrary command sequences as arithmetic facts, or evenness of spread beyond the round-robin stride. Trusts hashicorp/raft to deliver the same log everywhere.",
  technique="static analysis: call-graph closure lint, outcome dataflow + marked path exploration, exhaustive evaluation of compiled comparison predicates over all weak orderings",
  ref="§4 C06"),
 "C07": dict(
  text="Structural clauses of metadata durability/convergence: clone completeness over the type graph of meta.Data (every reference-holding field re-allocated, reference-holding elements cloned element-wise), the raft snapshot captures an immutable *Data under the store lock and nothing that reaches the live store; no accepted request can panic Apply (asserted extension = validated extension per command type; no dereference of a may-return-nil lookup without a nil test anywhere in Apply's closure); marshal/unmarshal field agreement for every struct of the Data graph; acknowledgement only after raft commit and, on the client, after the cache reached the command's index; deep copies in clone methods are unconditional (only nil/length tests of the copied field may guard them); the long-poll registration (store.afterIndex) compares the index and hands out dataChanged in one critical section.",
  note="Does not decide raft itself, leader failover or convergence timing. Frozen exceptions: Data.adminUserExists is derived; retryUntilExec returns nil while the client is closing.",
  technique="static analysis: type-graph walk with per-field obligations, nil-fact dataflow, marshal/unmarshal field agreement",
  ref="§4 C07"),
 "C15": dict(
  text="Structural clauses of inter-node protocol robustness and fidelity: every use of a length decoded from the wire (allocation size, slice bound, index) is guarded on every path (sign and upper bound; frame reader bounded by MaxMessageSize); request-type registry = dispatch cases; a request that fails to decode never reaches the store, an undecodable point makes the write request fail; marshal/unmarshal field agreement for every message struct, the five point codecs and the aux codec; no unchecked type assertion on decoded data; every 'unhandled case' panic reachable from the connection handler (CHA closure, ~4700 functions) is either in a type switch that misses no member of the value-type family or in a frozen, guard-checked row; failed exchanges poison pooled connections; in every UnmarshalBinary of the coordinator's wire types the error of every fallible call is tested or returned.",
  note="Does not decide panics inside protobuf/snappy, semantic equality of decoded expressions, or allocation on the client side of a stream beyond the uint32 frame length. CHA call graph over the loaded packages; reflection not followed.",
  technique="static analysis: wire-length guard dataflow with decomposed branch conditions, registry/case-set agreement, codec field agreement, call-graph closure panic classification",
  ref="§4 C15"),
 "C08": dict(
  text="Structural clauses of point routing: every write-path selector of a shard group by timestamp depends on DeletedAt/TruncatedAt and the metadata selector, clipping and truncation predicates equal their specification on every weak ordering of their operands; Covers(t) is ShardGroupAt(t) != nil; the shard is a function of the canonical series key alone (HashID reads only point.key, ShardFor = HashID % len(Shards), frozen table of key writers, tag sort covers all tags); per-iteration path counting shows every point is mapped or dropped exactly once, dropped only without a group, and a missing group fails the request; the retention cut-off is now-Duration for finite policies; the shard pointer that MapPoint keeps is the address of a variable of the current point's iteration.",
  note="Does not decide agreement between nodes' metadata caches at write time or properties of the hash function. One observed behaviour is not claimed: a too-old point is written (not dropped) when a group covering it is already in the per-request list.",
  technique="static analysis: field-dependency closure, exhaustive predicate truth tables, loop-iteration path counting, marked path exploration",
  ref="§4 C08"),
 "C17": dict(
  text="Structural clauses of retention enforcement: DeleteShard only on a hit in a map whose every store derives (through the range statements) from DeletedShardGroups() or from ExpiredShardGroups(now) after DeleteShardGroup returned nil; both listings consulted for every policy on every pass; the condition under which a group is selected as expired/deleted (computed as a path condition, independent of code arrangement) equals its specification on all orderings and stays within time.Time comparisons; frozen table of DeleteShard call sites; every pass prunes and no error aborts a pass; write-time cut-off and never-drop-inside-retention shared with C08. A group is marked deleted exactly when the shard removed from it was its last one (shared with C06).",
  note="Does not decide liveness of the ticker ('eventually') or clock behaviour.",
  technique="static analysis: map-store provenance through range statements, outcome facts, path-condition compilation + exhaustive ordering evaluation, who-may-call table",
  ref="§4 C17"),
 "C16": dict(
  text="Structural clauses of authentication/authorization: every HTTP handler that reaches a query/write/storage sink takes a meta.User and is wrapped by authenticate(.., Config.AuthEnabled); on every path of serveQuery/serveWrite/servePromWrite/servePromRead the sink is reached only with authentication disabled or after the matching Authorize* call returned nil; the middleware calls the inner handler only after Authenticate/User succeeded (or auth not required / no admin yet), with the default arm of the method switch shown dead; AuthorizeQuery succeeds only via bootstrap, admin, or completed per-statement/per-privilege checks, each failed check rejects, and the database checked is the statement's own; AuthorizeWrite/AuthorizeDatabase succeed only after the grant test; the credential cache is invalidated with every metadata replacement, keeps/honours entries only for the user's current hash, stores only hashes, and Authenticate always returns the record from the current metadata.",
  note="Does not decide influxql.Statement.RequiredPrivileges, the JWT library, or flux authorization inside the reader. servePromRead is guarded by Config.PromReadAuthEnabled by design.",
  technique="static analysis: marked path exploration with outcome/branch facts, registry/case agreement, type rules on the cache entry",
  ref="§4 C16"),
 "C10": dict(
  text="Structural clauses of delete correctness: inside a delete, tombstones are committed on every overlapping file (the error of the parallel apply is checked) before the cache range is removed and before the WAL delete entry is written, and the index is touched only after the file walk and the cache walk that cross out surviving series; level, series-file and TSI compactions are disabled before the first deleteSeriesRange on every path and re-enabled by a deferred call, and enableLevelCompactions restarts compactions only when no delete still holds them; WAL replay handles every WALEntry implementation; the inclusive range-overlap predicates equal their specification on every ordering of their operands; lock pairing inside the delete's closures; FileStore.Apply reports an error if any file's function failed; the reconciliation pass examines every file so a series with points left in a non-overlapping file stays listed; a delete covers every container of not-yet-filed points (Cache.store and the in-flight Cache.snapshot) or excludes cache snapshots while it runs; a tag value is listed only for a series that still exists (found that a TSI index kept listing the value of a dropped series, fixed in 185e5ef); a cache entry's values are indexed only after Deduplicate sorted them.",
  note="Does not decide exactness of Values.Exclude index arithmetic or the tombstone file format. One known finding (a delete overlapping an in-flight cache snapshot resurrects the deleted points) is listed in known_findings.json with a demonstration.",
  technique="static analysis: outcome/marker path exploration over go/cfg, registry agreement of the WAL entry family, exhaustive predicate evaluation over weak orderings, lock balance exploration",
  ref="§9 C10"),
 "C19": dict(
  text="Structural necessary conditions of safe concurrent operation: every sync.Mutex/RWMutex acquisition in the anchored packages is released on every path before the function returns or covered by a deferred release (two intentional hand-offs are frozen rows with companion obligations); the lock-class graph 'M may be acquired while L is held' (with callee summaries) is acyclic; check-then-act under one lock for field creation (re-read after taking the mutex, existing type compared, update derived from the re-read map) and one hinted-handoff processor per queue; published metadata is immutable (clone completeness and value-snapshot rule shared with C07); variables captured by the coordinator's fan-out goroutines are written only under a mutex; connection-pool tokens are paired; cache snapshot, closed-segment list and segment roll happen in one critical section that excludes writers; a guarded-by table (hh.Service.processors, tsm1.FileStore.files, tsdb.Store.shards/sfiles, inmem.Index.measurements/series, query.TaskManager.queries): every access in the struct's methods happens with the mutex held, directly or through callers that all hold it; a snapshot's points leave the cache only after their file is installed, and a hinted-handoff segment that stops being the tail has flushed its buffered blocks (clauses shared with C01/C09 and C04).",
  note="Does not decide data-race freedom under every schedule (no sound alias analysis is available; locks are identified by access path and class), visibility of acknowledged writes to reads, or liveness.",
  technique="static analysis: exact per-path lock balance exploration, lock-class order graph (Tarjan SCC) with callee summaries, outcome/def facts for check-then-act, held-lock sets at captured-variable writes",
  ref="§9 C19"),
 "C02": dict(
  text="Only the rejection/typing clauses and two structural read-path conditions of C02: in validateSeriesAndFields a point whose validation failed is never kept and one whose validation succeeded is always kept (per loop iteration, every path), every rejection is counted and surfaces as a PartialWriteError; Shard.WritePointsWithContext hands the engine exactly the validated slice and returns the partial error after a successful engine write; a field flagged with a type conflict is never appended to the values written; field creation re-checks the type under its mutex; the cache's per-entry type tag distinguishes all five value types; the write-path value-type dispatch is exhaustive; Values.Deduplicate sorts stably; every block read by a KeyCursor is filtered with the tombstones of its own file; who may hand out a cache entry's own value slice (frozen table: only Cache.values, called only by the compactor's cache key iterator); every field lookup tested for nil on the shard write path also compares the field's type (found the validate/create window, fixed in 92bc028).",
  note="Does not decide that reads equal a last-write-wins model over all layouts (a statement about run-time values): merge arithmetic across cache/files/compactions is not decided.",
  technique="static analysis: per-iteration marked path exploration with outcome facts, type-switch/value-switch exhaustiveness, call-shape rules on the read path",
  ref="§9 C02"),
 "C13": dict(
  text="Structural clauses of the storage codecs: writer/reader table agreement (WAL entry-type registry = Type() of each entry = reader switch, each tag instantiating the type that reports it; per-key value tag written for a value type = tag under which it is rebuilt, for all five types; block type byte packed by every encoder of a field type = byte both its iterator and array decoders require, distinct across types, dispatchers route a byte to code of its type; every timestamp/integer scheme tag an encoder emits is handled by every decoder dispatch, including the batch decoders' function tables and range guards); the WAL reader advances its valid-byte count only after both reads, the snappy decode and UnmarshalBinary succeeded, unknown entry type is an error, only Next/Reset write the count and Reset restores every field; typed block decode errors surface; no decoded WAL entry stores a slice aliasing the pooled decode buffer; every timestamp delta divided by the power-of-ten divisor was tested for divisibility (index-range cover).",
  note="Does not decide bit-for-bit equality of decode(encode(v)) with v, simple8b/Gorilla/bit-packing arithmetic, or that the WAL entry decoders' cursor arithmetic stays in bounds for every input ('without crashing' is not claimed: it needs integer reasoning this analysis lacks).",
  technique="static analysis: typed-AST table extraction and agreement, outcome facts at the count update, who-may-write, alias taint inside UnmarshalBinary, index-range cover between test and division loops",
  ref="§9 C13"),
 "C12": dict(
  text="Structural clauses of point encoding: every length decoded from a binary point bounds a slice/allocation only after a non-wrapping test against the input length on every path; every tag-key comparison of the parser's sort machinery (sorted fast path, insertion-sort comparator, duplicate check) compares keys extracted by the escape-aware scanner, and package models never locates a line-protocol delimiter with a raw byte search; NewPointFromBytes yields a point only after UnmarshalBinary succeeded and a nil point with every error; escape tables are backslash+character pairs shared by escape and unescape, and every delimiter the measurement/tag scanners stop at is escaped by the writer; the gate in front of tag escaping (Tags.needsEscape) looks for every character of the tag escape table in keys and in values; a float token in scientific notation is accepted by scanNumber only after parseFloatBytes validated it; the field-type dispatch validating/rebuilding binary points covers the five types; per line of ParsePointsWithPrecision a failed parse is recorded and not kept, a successful one is kept, nothing aborts the loop, and failures surface as the error.",
  note="Does not decide that a valid line 'means what it says', numeric parsing, timestamp precision arithmetic (the overflow test of SafeCalcTime: seeded change C12-3 is not detected), UTF-8 handling, or exact text/binary round-trip equality.",
  technique="static analysis: wire-length guard analysis with wrap-safety, definition provenance of comparison operands, typed-AST table agreement, enum exhaustiveness, per-iteration marked path exploration",
  ref="§9 C12"),
 "C09": dict(
  text="Structural clauses of snapshot/compaction safety: in compactGroup the input files are replaced only on paths where CompactFast/CompactFull returned nil, the only other replacement removes the one unreadable file named by an errBlockRead, and the outputs of a failed installation are removed; the cache snapshot and WAL segments are released only after FileStore.Replace returned nil; the verbatim pass-through decision of all ten generated merge<T> variants tests tombstones and partial reads for the first and for every later block and overlap for every later block; block records taken from the reuse buffer have every struct field re-assigned, and their tombstones come from the reader of the iterator that produced the block; writeNewFiles returns file names only after write() succeeded; the reservation of the input files is released on every exit of CompactFull/CompactFast; Compactor.write looks at the enabled flags before every block read; compactGroup removes only elements of the slice the compaction returned; blocks.Less for equal keys equals 'entirely before' on all orderings; a success return of writeNewFiles returns the accumulated file list; FileStore.files is read under the write lock wherever it is replaced.",
  note="Does not decide value-level merge arithmetic (newest wins, excluded ranges), block size/count limits, or sortedness of output blocks.",
  technique="static analysis: path exploration with outcome facts, attribute-set comparison between first-block test and per-block loop, struct-field coverage of re-initialisation, definition provenance",
  ref="§9 C09"),
 "C11": dict(
  text="Structural clauses of query determinism: points streamed between nodes keep every attribute (for the five point types encode<T>Point reads every struct field, decode<T>Point sets every field, and the stream decoder delivers the whole struct or a covering field-wise copy; the option/interval/varref/measurement/stats codecs restore exactly the fields they read and read exactly the wire fields they set); for each of the ten storage-cursor merge functions next<T> the behaviour on every weak ordering of (cache key, file key, EOF) equals the merge table (both exhausted / equal keys: cache value and both advance / cache first in the cursor's direction / file first); ascending and descending code is mirror-symmetric wherever both are written out (if/else arms on opt.Ascending, '&&' alternatives over the same operands, ascending/descending cursor siblings): same comparisons with < and > exchanged; the placeholder for an empty remote answer, which claims a typed iterator interface, is recognised where the merged type is decided (inputs arrive in goroutine completion order); conditions comparing name and tag set together treat a series as the pair (13 sites); every fan-out of the cluster mappings asks every remote shard group before returning a result.",
  note="Does not decide window arithmetic, fill values, aggregate functions, limit/offset, or equality of multi-shard/multi-node results with a single-shard evaluation.",
  technique="static analysis: struct-field coverage of codecs, marked path exploration + exhaustive evaluation of compiled path conditions over all weak orderings, comparison-sequence mirror agreement",
  ref="§9 C11"),
 "C14": dict(
  text="Structural clauses of index/data agreement: every path to the engine write in Shard.WritePointsWithContext passes validateSeriesAndFields and an error of CreateSeriesListIfNotExists surfaces; the engine is published in the shard only after index Open and LoadMetadataIndex returned nil, each batch scan of LoadMetadataIndex is followed on every path by the flush of the partial last batch and no addToIndexFromKey error is dropped; the TSI log file's existence and tombstone sets stay complementary (an id added to one is removed from the other in the same branch); wherever a series is attached to an in-memory measurement its Measurement back-pointer is that measurement; SeriesIndex.FindIDBySeriesKey never returns an id without having tested IsDeleted for it on that path. a delete queues a series for index removal only when its key was not crossed out and the cache holds no values of it (the order and completeness of the crossing-out passes are decided under C10).",
  note="Does not decide that index answers equal the written-and-not-dropped series after arbitrary histories, agreement of the two index types, TSI compaction merge semantics, or predicate evaluation.",
  technique="static analysis: must-precede and outcome facts, path avoidance between scan and flush, paired set operations per branch, definition provenance, path exploration with condition facts",
  ref="§9 C14"),
 "C18": dict(
  text="Structural clauses of backup/restore/shard copy: the copy-shard handler's work closure returns nil only after backupRemoteShard, CreateShard and RestoreShard returned nil, the success response is sent only when the closure returned nil, Client.CopyShard returns the response's Err, and the meta handler adds the owner only after rpcClient.CopyShard returned nil; Engine.CreateSnapshot links files only after the forced WriteSnapshot succeeded or failed with ErrSnapshotInProgress while the caller allowed skipping the cache, and only Engine.Backup may allow that (call-site table); the time-bounded export's block test equals 'block overlaps [start,end]' and its two file tests together equal 'file overlaps the window' on every ordering of their operands (under min<=max, start<=end); Engine.overlay installs uploaded files only after the archive was read to io.EOF and aborts on any other read error; Backup/Export remove nothing but the temporary snapshot directory; every coordinator connection handler (20) writes to the connection when its work closure failed (sibling agreement), and pkg/tar.Stream writes the end-of-archive marker only after a complete walk.",
  note="Does not decide equality of reads on the restored shard, tar framing or hard-link semantics. Observed and not covered by a rule: the time-bounded export fails (with an error) for a TSM file that has a tombstone file.",
  technique="static analysis: outcome facts and path exploration, predicate compilation + exhaustive evaluation over weak orderings, definition provenance",
  ref="§9 C18"),
}

NA = {
}

PENDING_REASON = "no sound static rule has been built for this property yet in this session (checker under construction); not claimed"

def main():
    props = [json.loads(l)["id"] for l in open(os.path.join(HERE, "properties.jsonl"))]
    checks = []
    na = []
    for pid in props:
        if pid in CLAIMED:
            c = CLAIMED[pid]
            checks.append({
                "property_id": pid,
                "quick_cmd": f"./check.sh {pid} quick",
                "thorough_cmd": f"./check.sh {pid} thorough",
                "evidence_file": f"/verif/evidence/{pid}.json",
                "replay_cmd_template": "./bin/verifcheck -explain {path}",
                "engine": "verifcheck",
                "level_claimed": {"category": "other", "text": c["text"], "design_ref": c["ref"]},
                "level_note": c["note"],
                "technique": c["technique"],
            })
        else:
            na.append({"property_id": pid, "reason": NA.get(pid, PENDING_REASON)})
    m = {
        "version": 1,
        "setup_cmd": "cd /verif && export GOFLAGS=-mod=mod GOPROXY=off GOSUMDB=off GOTOOLCHAIN=local && (cd checker && go build -o ../bin/verifcheck .) && (cd /repo && go build ./coordinator/... ./services/... ./tsdb/... ./models/... ./query/... ./tcp/... ./pkg/... ./cmd/...)",
        "hooks": {
            "guard": "verif",
            "enable": "none needed: the checks are static and read /repo's working tree; no instrumentation is compiled in",
            "baseline_off_cmd": "cd /repo && export GOFLAGS=-mod=mod && go test -vet=off -count=1 -timeout 25m ./...",
            "source_commits": [],
            "add_only": True,
        },
        "engines": [{
            "name": "verifcheck",
            "path": "/verif/checker",
            "serves_properties": [c["property_id"] for c in checks],
            "kind_free_text": "repository-specific static analyser (go/packages + go/types + go/cfg): branch-sensitive nil/outcome dataflow, must-precede and no-path rules, path enumeration, who-may-call/who-may-write tables, table agreement",
        }],
        "checks": checks,
        "not_applicable": na,
        "notes": "All claims are at level 'other': named structural clauses of each property decided from source on every run; see DESIGN.md section 4 for what is and is not decided per property. known_findings.json lists fixed defects and recorded findings.",
    }
    json.dump(m, open(os.path.join(HERE, "MANIFEST.json"), "w"), indent=1)
    print("claimed", len(checks), "not_applicable", len(na))

if __name__ == "__main__":
    main()
