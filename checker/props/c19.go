package props

import (
	"fmt"
	"go/ast"
	"go/token"
	"go/types"
	"sort"
	"strings"

	"verifcheck/core"
)

func init() {
	register("C19", core.PropertyMeta{
		Explanation: "Decides structural necessary conditions of safe concurrent operation: D1 lock pairing: on every path of every function of the anchored packages each sync.Mutex/RWMutex acquisition is released before the function returns (or covered by a deferred release); the two intentional hand-offs are frozen rows with companion obligations on the releasing functions; " +
			"D2 lock order: the graph 'class M may be acquired while class L is held' (direct acquisitions plus summaries of repository callees) has no cycle between distinct lock classes; " +
			"D3 check-then-act under one lock: MeasurementFields.CreateFieldIfNotExists re-reads the published field map after taking the mutex and derives the copy-on-write update from that re-read value; one hinted-handoff processor per queue (shared with C03); " +
			"D4 published metadata is immutable: clone completeness over meta.Data and the value-snapshot rule (shared with C07); D5 variables captured by the fan-out goroutines of the coordinator are written only while a mutex is held; " +
			"D6 connection-pool tokens are paired: after a successful tryTake every path of boundedPool.Get returns a wrapped connection or frees the token; D7 the cache snapshot, the closed WAL segment list and the segment roll happen in one critical section that excludes writers (shared with C01). " +
			"D9 guarded-by table (candidates inferred statistically with `verifcheck -guarded`, each row confirmed by reading every access): the listed fields are accessed in their struct's methods only with the struct's mutex held (write-held for writes), directly or because every chain of callers holds it; this found three genuine races (580bb20, ff23628, 74fdcd6). " +
			"D10 a snapshot's points leave the cache only after their file is installed; a hinted-handoff segment that stops being the tail has flushed its buffered blocks (shared with C01/C09, C04). D3 also: every field lookup tested for nil on the shard write path compares the field's type. " +
			"D11 the batch shared by the owner goroutines is passed on only as a fresh copy to callees that store into it; D12 WaitGroup.Wait is never called while holding a mutex that a goroutine of that group acquires; D13 create-if-absent functions re-check under the write lock; D14 a receive from a pointer channel that a sibling method closes tests the pointer (or the ok flag) first. " +
			"D15 no re-entrant acquisition: while a method holds a mutex field of its own receiver it does not call a method on the same receiver variable that (directly or through further calls on its receiver) acquires the same field - sync mutexes are not re-entrant, and a recursive read lock deadlocks as soon as a writer queues up in between; this is the same-object part of the lock order that D2 must skip, and it found three genuine deadlocks (cf90be7, 1f18a5a, 54b97dc); thorough sweeps every package. " +
			"NOT decided: freedom from data races under every schedule (no sound alias analysis is available: locks are identified by access path and class), visibility of acknowledged writes to reads, liveness.",
		RuleText:    "obligation = (rule, function, lock key | site); exact per-path lock balance exploration (no merging); lock-class graph with callee summaries; outcome/def facts for check-then-act; per-event held-lock sets for captured-variable writes",
		Assumptions: append([]string{"locks are identified by the text of their receiver expression within a function and by (struct type, field) across functions; two instances of one class are not distinguished"}, commonAssumptions...),
	}, runC19)
}

var lockPkgs = []string{coord, hhp, metap, "tsdb", tsm1, "tsdb/index/inmem", "tsdb/index/tsi1", "services/retention", "services/httpd", "query"}

func runC19(c *core.Ctx) {
	c.Clause("D1", func() {
		handoff := map[string]string{
			"tsdb.(*SeriesFile).Retain/f.refs#R":            "returns the release function of the read lock it takes (refs.RUnlock); callers defer it",
			tsm1 + ".(*TSMReader).BatchDelete/r.deleteMu#W": "hands deleteMu to the returned batch; batchDelete.Commit and Rollback release it",
		}
		nOps, nFuncs := 0, 0
		for _, rel := range lockPkgs {
			for _, f := range c.P.FuncsIn(rel) {
				if f.Body == nil {
					continue
				}
				ops := f.LockOps()
				if len(ops) == 0 {
					continue
				}
				nFuncs++
				acq := map[string]bool{}
				for _, op := range ops {
					if op.Acquire && !op.Defer {
						acq[op.Key] = true
						nOps++
					}
				}
				leaks, complete := f.LockLeaks()
				if !complete {
					c.Check("lock-pairing", f.Name+"/undecided", f.PosStr(), false, "undecided: exploration bound exceeded")
					continue
				}
				leaked := map[string]*core.LockLeak{}
				for _, l := range leaks {
					leaked[l.Key] = l
				}
				var keys []string
				for k := range acq {
					keys = append(keys, k)
				}
				sort.Strings(keys)
				for _, k := range keys {
					id := f.Name + "/" + k
					l, bad := leaked[k]
					if why, ok := handoff[id]; ok {
						c.Check("lock-pairing", id, f.PosStr(), true, "exempt (hand-off): "+why)
						continue
					}
					pos := f.PosStr()
					detail := ""
					if bad {
						pos = c.P.Pos(l.Ret.Pos())
						detail = fmt.Sprintf("%s is acquired in %s and is still held at the return @%s with no deferred release: the next acquirer blocks forever", k, f.Name, pos)
					}
					c.Check("lock-pairing", id, pos, !bad, detail)
				}
			}
		}
		c.Counts["lock_acquisitions"] = nOps
		c.Counts["functions_analysed"] += nFuncs
		c.Floor("lock acquisitions", nOps, 500)
		// companions of the hand-offs
		rt := c.Fn("tsdb.(*SeriesFile).Retain")
		okRet := false
		ast.Inspect(rt.Body, func(nd ast.Node) bool {
			if rs, ok := nd.(*ast.ReturnStmt); ok && len(rs.Results) == 1 {
				if se, ok := ast.Unparen(rs.Results[0]).(*ast.SelectorExpr); ok && se.Sel.Name == "RUnlock" && core.FieldPathOf(rt.Info(), se.X) == "SeriesFile.refs" {
					okRet = true
				}
			}
			return true
		})
		c.Check("handoff-released", rt.Name+"/returns-refs.RUnlock", rt.PosStr(), okRet, "SeriesFile.Retain must return the RUnlock method value of the lock it took")
		for _, nm := range []string{tsm1 + ".(*batchDelete).Commit", tsm1 + ".(*batchDelete).Rollback"} {
			g := c.Fn(nm)
			released := false
			for _, op := range g.LockOps() {
				if !op.Acquire && strings.Contains(op.Key, "deleteMu") {
					released = true
					if !op.Defer {
						// a direct unlock must be on every path to every return
						un := op.Ev
						if p := g.Flow().PathAvoiding(g.Graph().Entry, core.IsNormalReturn, func(x *core.Event) bool { return x == un }); p != nil {
							released = false
						}
					}
				}
			}
			c.Check("handoff-released", g.Name+"/releases-deleteMu", g.PosStr(), released, nm+" must release TSMReader.deleteMu on every path (it was taken by BatchDelete)")
		}
	})

	if c.Tier == "thorough" {
		// the same pairing rule swept over every other package of the repository
		c.Clause("D1-all-packages", func() {
			inQuick := map[string]bool{}
			for _, r := range lockPkgs {
				inQuick[r] = true
			}
			var rels []string
			for rel := range c.P.ByPath {
				if !inQuick[rel] && !strings.HasPrefix(rel, "vendor/") {
					rels = append(rels, rel)
				}
			}
			sort.Strings(rels)
			nOps := 0
			for _, rel := range rels {
				for _, f := range c.P.FuncsIn(rel) {
					if f.Body == nil {
						continue
					}
					ops := f.LockOps()
					acq := map[string]bool{}
					for _, op := range ops {
						if op.Acquire && !op.Defer {
							acq[op.Key] = true
						}
					}
					if len(acq) == 0 {
						continue
					}
					leaks, complete := f.LockLeaks()
					if !complete {
						c.Check("lock-pairing", f.Name+"/undecided", f.PosStr(), false, "undecided: exploration bound exceeded")
						continue
					}
					leaked := map[string]*core.LockLeak{}
					for _, l := range leaks {
						leaked[l.Key] = l
					}
					var keys []string
					for k := range acq {
						keys = append(keys, k)
					}
					sort.Strings(keys)
					for _, k := range keys {
						nOps++
						l, bad := leaked[k]
						pos, detail := f.PosStr(), ""
						if bad {
							pos = c.P.Pos(l.Ret.Pos())
							detail = fmt.Sprintf("%s is acquired in %s and is still held at the return @%s with no deferred release", k, f.Name, pos)
						}
						c.Check("lock-pairing", f.Name+"/"+k, pos, !bad, detail)
					}
				}
			}
			c.Counts["lock_acquisitions_other_packages"] = nOps
		})
	}

	c.Clause("D2", func() {
		// acquisition summaries
		type fset map[string]bool
		direct := map[*core.FuncInfo]fset{}
		var funcs []*core.FuncInfo
		inScope := core.InPkgs(lockPkgs...)
		for _, rel := range lockPkgs {
			for _, f := range c.P.FuncsIn(rel) {
				if f.Body == nil {
					continue
				}
				funcs = append(funcs, f)
				s := fset{}
				for _, op := range f.LockOps() {
					if op.Acquire && !op.Defer && op.Class != "" {
						s[classOf(op.Class)] = true
					}
				}
				direct[f] = s
			}
		}
		summary := map[*core.FuncInfo]fset{}
		for _, f := range funcs {
			s := fset{}
			for k := range direct[f] {
				s[k] = true
			}
			summary[f] = s
		}
		staticCallees := func(f *core.FuncInfo) []*core.FuncInfo {
			var out []*core.FuncInfo
			for _, e := range f.Graph().Events {
				if e.Kind != core.EvCall {
					continue
				}
				if fn, ok := e.Callee.(*types.Func); ok {
					if g := c.P.FuncOf(fn); g != nil && inScope(g) {
						out = append(out, g)
					}
				}
			}
			return out
		}
		callees := map[*core.FuncInfo][]*core.FuncInfo{}
		for _, f := range funcs {
			callees[f] = staticCallees(f)
		}
		for changed := true; changed; {
			changed = false
			for _, f := range funcs {
				for _, g := range callees[f] {
					for k := range summary[g] {
						if !summary[f][k] {
							summary[f][k] = true
							changed = true
						}
					}
				}
			}
		}
		// edges
		type edge struct{ from, to string }
		witness := map[edge]string{}
		for _, f := range funcs {
			ops := f.LockOps()
			if len(ops) == 0 {
				continue
			}
			keyClass := map[string]string{}
			opAt := map[*core.Event]*core.LockOp{}
			for _, op := range ops {
				if op.Class != "" {
					keyClass[op.Key] = classOf(op.Class)
				}
				if op.Acquire && !op.Defer {
					opAt[op.Ev] = op
				}
			}
			f.ExploreLocks(func(e *core.Event, st core.LockState) {
				if e.Kind != core.EvCall {
					return
				}
				held := st.Held()
				if len(held) == 0 {
					return
				}
				var targets []string
				if op := opAt[e]; op != nil && op.Class != "" {
					targets = append(targets, classOf(op.Class))
				} else if fn, ok := e.Callee.(*types.Func); ok {
					if g := c.P.FuncOf(fn); g != nil && inScope(g) {
						for k := range summary[g] {
							targets = append(targets, k)
						}
					}
				}
				for _, hk := range held {
					hc := keyClass[hk]
					if hc == "" {
						continue
					}
					for _, t := range targets {
						if t == hc {
							continue
						}
						ed := edge{hc, t}
						if _, dup := witness[ed]; !dup {
							witness[ed] = fmt.Sprintf("%s @%s", f.Name, c.P.Pos(e.Pos()))
						}
					}
				}
			})
		}
		adj := map[string][]string{}
		nodes := map[string]bool{}
		for ed := range witness {
			adj[ed.from] = append(adj[ed.from], ed.to)
			nodes[ed.from], nodes[ed.to] = true, true
		}
		c.Counts["lock_classes"] = len(nodes)
		c.Counts["lock_order_edges"] = len(witness)
		c.Floor("lock classes in the order graph", len(nodes), 10)
		// two-cycles and longer cycles: report each strongly connected component with more than one node
		sccs := tarjan(nodes, adj)
		frozen := map[string]string{}
		n := 0
		for _, comp := range sccs {
			if len(comp) < 2 {
				continue
			}
			sort.Strings(comp)
			n++
			key := strings.Join(comp, "<->")
			var ws []string
			for _, a := range comp {
				for _, b := range comp {
					if w, ok := witness[edge{a, b}]; ok {
						ws = append(ws, fmt.Sprintf("%s held while acquiring %s in %s", a, b, w))
					}
				}
			}
			sort.Strings(ws)
			if len(ws) > 6 {
				ws = ws[:6]
			}
			why, ok := frozen[key]
			c.Check("lock-order-acyclic", key, "-", ok, "lock classes are acquired in both orders (potential deadlock): "+strings.Join(ws, "; ")+" "+why)
		}
		if n == 0 {
			c.Check("lock-order-acyclic", "no-cycle", "-", true, fmt.Sprintf("%d classes, %d edges, no cycle", len(nodes), len(witness)))
		}
	})

	c.Clause("D3", func() { runFieldCreateUnderLock(c) })

	c.Clause("D4", func() { runCloneCompleteness(c) })

	c.Clause("D10", func() {
		// "a read sees at least all writes acknowledged before it began" while a cache snapshot commits: the snapshot's
		// points leave the cache (ClearSnapshot(true)) only after their TSM file is in the file store, otherwise a read
		// scheduled in between finds them in neither (same clause as C01/C09, necessary here for every schedule)
		g := c.Fn(tsm1 + ".(*Engine).writeSnapshotAndCommit")
		rep := fieldCallIn(g, "Engine.FileStore", "Replace")
		findOrAbort(c, g, "FileStore.Replace", evCall(rep), 1)
		okRule(c, g, "acknowledged-points-visible-during-snapshot-commit", "FileStore.Replace", "Cache.ClearSnapshot", rep, evCall(func(ce *ast.CallExpr) bool {
			se, ok := ce.Fun.(*ast.SelectorExpr)
			return ok && se.Sel.Name == "ClearSnapshot"
		}))
		// hinted-handoff traffic above ten concurrent writers takes the buffered path: a segment that stops being the
		// tail must not keep accepted blocks in memory (same clause as C04 D9)
		f := c.Fn(hhp + ".(*segment).append")
		fl := calleeIn(f, hhp+".(*segment).flush")
		full := c.P.LookupObj(hhp, "ErrSegmentFull")
		c.Need(full != nil, "hh.ErrSegmentFull")
		n := 0
		for _, e := range f.Graph().Events {
			if e.Kind != core.EvReturn || !f.Flow().Reachable(e) {
				continue
			}
			x, _ := f.ResultExpr(e, 0)
			if x == nil {
				continue
			}
			id, ok := ast.Unparen(x).(*ast.Ident)
			if !ok || f.Info().ObjectOf(id) != full {
				continue
			}
			n++
			c.Check("buffered-blocks-flushed-before-rotation", fmt.Sprintf("%s/return-ErrSegmentFull#%d", f.Name, n), c.P.Pos(e.Pos()), f.Flow().CallOKAt(e, fl),
				"under concurrent hinted-handoff writers (buffered path) segment.append reports ErrSegmentFull without flushing its buffer: the queue rotates the tail and the accepted blocks are never written while the old segment is readable")
		}
		c.Floor("ErrSegmentFull returns", n, 1)
	})

	c.Clause("D11", func() { runSharedBatchNotMutated(c) })

	c.Clause("D13", func() { runDoubleCheckedInsert(c, lockPkgs, 1) })

	c.Clause("D14", func() { runClosedChannelReceives(c, lockPkgs, 2) })

	c.Clause("D15", func() {
		runNoReentrantLock(c, lockPkgs, 100)
		if c.Tier == "thorough" {
			// every other package of the repository
			in := map[string]bool{}
			for _, r := range lockPkgs {
				in[r] = true
			}
			var rest []string
			for rel := range c.P.ByPath {
				if !in[rel] {
					rest = append(rest, rel)
				}
			}
			sort.Strings(rest)
			runNoReentrantLock(c, rest, 0)
		}
	})

	c.Clause("D12", func() {
		runNoWaitUnderLock(c, lockPkgs, 3)
		if c.Tier == "thorough" {
			// every other package of the repository
			in := map[string]bool{}
			for _, r := range lockPkgs {
				in[r] = true
			}
			var rest []string
			for rel := range c.P.ByPath {
				if !in[rel] {
					rest = append(rest, rel)
				}
			}
			sort.Strings(rest)
			runNoWaitUnderLock(c, rest, 0)
		}
	})

	runC19rest(c)
}

// runFieldCreateUnderLock: check-then-act of MeasurementFields.CreateFieldIfNotExists (shared by C19 and C02).
func runFieldCreateUnderLock(c *core.Ctx) {
	{
		f := c.Fn("tsdb.(*MeasurementFields).CreateFieldIfNotExists")
		info := f.Info()
		lock := func(e *core.Event) bool {
			return e.Kind == core.EvCall && (core.CalleeName(e) == "sync.(*RWMutex).Lock" || core.CalleeName(e) == "sync.(*Mutex).Lock") && core.RecvFieldOf(e) == "MeasurementFields.mu"
		}
		load := func(e *core.Event) bool {
			return e.Kind == core.EvCall && core.CalleeName(e) == "sync/atomic.(*Value).Load" && core.RecvFieldOf(e) == "MeasurementFields.fields"
		}
		store := func(e *core.Event) bool {
			return e.Kind == core.EvCall && core.CalleeName(e) == "sync/atomic.(*Value).Store" && core.RecvFieldOf(e) == "MeasurementFields.fields"
		}
		locks := findOrAbort(c, f, "MeasurementFields.mu.Lock", lock, 1)
		stores := findOrAbort(c, f, "fields.Store", store, 1)
		findOrAbort(c, f, "fields.Load", load, 1)
		orderRule(c, f, "publish-under-lock", "mu.Lock", "fields.Store", lock, store)
		// between Lock and Store the published map is re-read
		for i, l := range locks {
			for j, s := range stores {
				p := f.Flow().PathAvoiding(l, func(x *core.Event) bool { return x == s }, load)
				c.Check("recheck-under-lock", fmt.Sprintf("%s/Lock#%d->Store#%d", f.Name, i+1, j+1), c.P.Pos(s.Pos()), p == nil,
					"the new field map is published without re-reading the current map after taking the mutex: two writers that passed the lock-free fast path overwrite each other's field (a field vanishes, two fields share an id, or one field ends up with two types)")
			}
		}
		// the map that is copied (ranged over) and re-checked is the one loaded after the lock
		var fieldsObj types.Object
		ast.Inspect(f.Body, func(nd ast.Node) bool {
			if rs, ok := nd.(*ast.RangeStmt); ok {
				if id, ok := rs.X.(*ast.Ident); ok {
					fieldsObj = info.ObjectOf(id)
				}
			}
			return true
		})
		c.Need(fieldsObj != nil, "map ranged over in CreateFieldIfNotExists")
		for _, e := range f.Graph().Events {
			if e.Kind != core.EvOther {
				continue
			}
			if id, ok := e.Node.(*ast.Ident); ok && info.ObjectOf(id) == fieldsObj {
				// the range statement's X node: its current definition must be a Load that follows the Lock
				fact := f.Flow().FactOfExpr(e, id)
				ce, isCall := ast.Unparen(stripAssert(fact.Def)).(*ast.CallExpr)
				good := false
				if isCall {
					for _, le := range f.Graph().Find(load) {
						if le.Call == ce {
							// this load happens after the lock on every path
							good = len(f.MustPrecede(lock, func(x *core.Event) bool { return x == le })) == 0
						}
					}
				}
				c.Check("recheck-under-lock", f.Name+"/copied-map-loaded-under-lock", c.P.Pos(e.Pos()), good,
					"the map that is copied into the update must be the value loaded from MeasurementFields.fields after the mutex was taken")
			}
		}
		// deferred unlock keeps the section closed until return
		def := false
		for _, op := range f.LockOps() {
			if op.Defer && !op.Acquire && strings.HasPrefix(op.Key, "m.mu") {
				def = true
			}
		}
		c.Check("publish-under-lock", f.Name+"/unlock-deferred", f.PosStr(), def, "the mutex must be held until the new map is stored (deferred unlock)")
		// whenever the field is found (before or after taking the mutex) success requires the types to agree
		checkFound := func(g *core.FuncInfo, errIdx int) (int, string, bool) {
			ginfo := g.Info()
			found := func(x ast.Expr) bool {
				be, ok := ast.Unparen(x).(*ast.BinaryExpr)
				return ok && (be.Op == token.NEQ || be.Op == token.EQL) && isNilExpr(ginfo, be.Y) && !strings.Contains(core.ExprStr(be.X), ".")
			}
			typeDiff := func(x ast.Expr) bool {
				be, ok := ast.Unparen(x).(*ast.BinaryExpr)
				return ok && (be.Op == token.NEQ || be.Op == token.EQL) && strings.HasSuffix(core.ExprStr(be.X), ".Type")
			}
			bad := ""
			k := 0
			complete := g.Flow().ExplorePaths(func(kk core.VarKey, fct core.Fact) bool {
				return kk.Root == nil && strings.HasPrefix(kk.Path, "cond:") && fct.Def != nil && (found(fct.Def) || typeDiff(fct.Def))
			}, func(e *core.Event, st core.State) {
				if e.Kind != core.EvReturn {
					return
				}
				x, _ := g.ResultExpr(e, errIdx)
				if x == nil || !isNilExpr(ginfo, x) {
					return
				}
				// was an existing field found on this path (most recent `f != nil` test true)?
				wasFound := false
				for kk, fct := range st {
					if kk.Root == nil && strings.HasPrefix(kk.Path, "cond:") && fct.Def != nil && found(fct.Def) {
						be := ast.Unparen(fct.Def).(*ast.BinaryExpr)
						if (be.Op == token.NEQ && fct.Bool == 1) || (be.Op == token.EQL && fct.Bool == 2) {
							wasFound = true
						}
					}
				}
				if !wasFound {
					return
				}
				k++
				okType := false
				for kk, fct := range st {
					if kk.Root == nil && strings.HasPrefix(kk.Path, "cond:") && fct.Def != nil && typeDiff(fct.Def) {
						be := ast.Unparen(fct.Def).(*ast.BinaryExpr)
						if (be.Op == token.NEQ && fct.Bool == 2) || (be.Op == token.EQL && fct.Bool == 1) {
							okType = true
						}
					}
				}
				if !okType {
					bad = g.Name + " returns success @" + c.P.Pos(e.Pos()) + " for a field that already exists without comparing its type with the requested one: two concurrent writers that introduce the same new field with different types are both acknowledged and the field holds values of two types"
				}
			})
			return k, bad, complete
		}
		k, bad, complete := checkFound(f, 0)
		if complete && k == 0 {
			// the found-and-type test extracted into a helper `exists, err := h(fields, name, typ)`: the rule is
			// applied inside h, and every return of f under an established `exists` hands back h's error
			type hcall struct{ ex, er types.Object }
			var calls []hcall
			var h *core.FuncInfo
			ast.Inspect(f.Body, func(nd ast.Node) bool {
				as, ok := nd.(*ast.AssignStmt)
				if !ok || as.Tok != token.DEFINE || len(as.Lhs) != 2 || len(as.Rhs) != 1 {
					return true
				}
				ce, ok := as.Rhs[0].(*ast.CallExpr)
				if !ok {
					return true
				}
				fn, _ := core.Callee(info, ce).(*types.Func)
				g := c.P.FuncOf(fn)
				if g == nil || g.Pkg != f.Pkg || g.NumResults() != 2 || g.ErrResultIndex() != 1 || (h != nil && g != h) {
					return true
				}
				exID, ok1 := as.Lhs[0].(*ast.Ident)
				erID, ok2 := as.Lhs[1].(*ast.Ident)
				if !ok1 || !ok2 {
					return true
				}
				h = g
				calls = append(calls, hcall{info.ObjectOf(exID), info.ObjectOf(erID)})
				return true
			})
			if h != nil {
				hk, hbad, hcomplete := checkFound(h, 1)
				k, bad, complete = 0, hbad, hcomplete && hk >= 1
				isEx := func(x ast.Expr) types.Object {
					id, ok := ast.Unparen(x).(*ast.Ident)
					if !ok {
						return nil
					}
					for _, hc := range calls {
						if info.ObjectOf(id) == hc.ex {
							return hc.er
						}
					}
					return nil
				}
				c2 := f.Flow().ExplorePaths(func(kk core.VarKey, fct core.Fact) bool {
					return kk.Root == nil && strings.HasPrefix(kk.Path, "cond:") && fct.Def != nil && isEx(fct.Def) != nil
				}, func(e *core.Event, st core.State) {
					if e.Kind != core.EvReturn {
						return
					}
					var er types.Object
					for kk, fct := range st {
						if kk.Root == nil && strings.HasPrefix(kk.Path, "cond:") && fct.Def != nil && fct.Bool == 1 {
							if o := isEx(fct.Def); o != nil {
								er = o
							}
						}
					}
					if er == nil {
						return
					}
					k++
					x, _ := f.ResultExpr(e, 0)
					if id, ok := ast.Unparen(x).(*ast.Ident); !ok || info.ObjectOf(id) != er {
						bad = "CreateFieldIfNotExists returns @" + c.P.Pos(e.Pos()) + " for a field that " + h.Name + " reported as existing without handing back that helper's verdict on its type"
					}
				})
				complete = complete && c2
			}
		}
		c.Need(complete && k >= 2, "success returns for an existing field in CreateFieldIfNotExists")
		c.Check("existing-field-type-compared", f.Name+"/found-returns", f.PosStr(), bad == "", bad)
	}
	// sibling agreement on the write path: wherever the shard's write path looks a field up and tests the answer for
	// nil (validator, collection of the fields to create), it also compares the field's type with the point's; a
	// bare existence test lets a field created by a concurrent writer with another type pass unnoticed
	{
		roots := []*core.FuncInfo{c.Fn("tsdb.(*Shard).validateSeriesAndFields"), c.Fn("tsdb.(*Shard).createFieldsAndMeasurements")}
		cl := c.P.Closure(roots, core.InPkgs("tsdb"))
		c.Counts["functions_analysed"] += len(cl)
		n := 0
		for _, g := range cl {
			if g.Body == nil || g.Root().Name == "tsdb.(*MeasurementFields).CreateFieldIfNotExists" {
				continue
			}
			info := g.Info()
			lookup := calleeIn(g, "tsdb.(*MeasurementFields).FieldBytes", "tsdb.(*MeasurementFields).Field")
			ast.Inspect(g.Body, func(nd ast.Node) bool {
				switch x := nd.(type) {
				case *ast.BinaryExpr:
					// lookup(...) != nil without binding the field
					if x.Op != token.NEQ && x.Op != token.EQL {
						return true
					}
					if ce, ok := ast.Unparen(x.X).(*ast.CallExpr); ok && lookup(ce) && isNilExpr(info, x.Y) {
						n++
						c.Check("existing-field-type-compared", fmt.Sprintf("%s/lookup#%d", g.Root().Name, n), c.P.Pos(x.Pos()), false,
							"the write path tests only whether the field exists and never looks at its type: a field created by a concurrent writer with another type since the point was validated passes, the point is acknowledged and the field holds values of two types")
					}
				case *ast.AssignStmt:
					if len(x.Lhs) != 1 || len(x.Rhs) != 1 {
						return true
					}
					ce, ok := ast.Unparen(x.Rhs[0]).(*ast.CallExpr)
					id, ok2 := x.Lhs[0].(*ast.Ident)
					if !ok || !ok2 || !lookup(ce) {
						return true
					}
					obj := info.ObjectOf(id)
					nilTested, typeRead := false, false
					ast.Inspect(g.Body, func(m ast.Node) bool {
						switch y := m.(type) {
						case *ast.BinaryExpr:
							if (y.Op == token.NEQ || y.Op == token.EQL) && isIdentObj(info, y.X, obj) && isNilExpr(info, y.Y) {
								nilTested = true
							}
						case *ast.SelectorExpr:
							if y.Sel.Name == "Type" && isIdentObj(info, y.X, obj) {
								typeRead = true
							}
						}
						return true
					})
					if !nilTested {
						return true
					}
					n++
					c.Check("existing-field-type-compared", fmt.Sprintf("%s/lookup#%d", g.Root().Name, n), c.P.Pos(x.Pos()), typeRead,
						"the write path tests only whether the field exists and never looks at its type: a field created by a concurrent writer with another type since the point was validated passes, the point is acknowledged and the field holds values of two types")
				}
				return true
			})
		}
		c.Floor("field lookups tested for nil on the write path", n, 2)
	}
}

// guardedRows: fields confirmed (by reading every access) to be guarded by the struct's mutex. Candidates come
// from the statistics of `verifcheck -guarded` (accessed under the mutex in at least three quarters of the sites).
var guardedRows = []guardedRow{
	{Rel: hhp, Type: "Service", Field: "processors", Mu: "mu", Why: "the monitor service calls Statistics while writes register processors: concurrent map iteration and map write is a fatal runtime error"},
	{Rel: tsm1, Type: "FileStore", Field: "files", Mu: "mu", Why: "readers must see a consistent file list while Replace installs a new one"},
	{Rel: "tsdb", Type: "Store", Field: "shards", Mu: "mu", Why: "shards are created, deleted and listed concurrently", Exempt: map[string]string{
		"tsdb.(*Store).WithLogger":  "set-up before Open, nothing else runs yet",
		"tsdb.(*Store).shardsSlice": "its unlocked caller is Close after s.wg.Wait(): no other goroutine uses the store any more (comment in Close); the other callers hold the lock",
	}},
	{Rel: "tsdb", Type: "Store", Field: "sfiles", Mu: "mu", Why: "series files are opened lazily while databases are dropped"},
	{Rel: "query", Type: "TaskManager", Field: "queries", Mu: "mu", Why: "queries are attached and detached concurrently with the per-query watchers: a concurrent map read and map write is a fatal runtime error"},
	{Rel: "tsdb/index/inmem", Type: "Index", Field: "measurements", Mu: "mu", Why: "the measurement map is read by queries while writes and drops change it"},
	{Rel: "tsdb/index/inmem", Type: "Index", Field: "series", Mu: "mu", Why: "the series map is read by queries while writes and drops change it"},
}

func runC19rest(c *core.Ctx) {
	c.Clause("D9", func() { guardedByRule(c, guardedRows) })
	c.Clause("D5", func() {
		n := 0
		for _, f := range c.P.FuncsIn(coord) {
			if f.Lit == nil || f.Parent == nil {
				continue
			}
			// literals passed to errgroup.Group.Go or started with `go`
			isFan := false
			for _, e := range f.Parent.Graph().Events {
				if (e.Kind == core.EvCall && strings.HasSuffix(core.CalleeName(e), "errgroup.(*Group).Go") && len(e.Call.Args) == 1 && ast.Unparen(e.Call.Args[0]) == ast.Expr(f.Lit)) ||
					(e.Kind == core.EvGo && ast.Unparen(e.Call.Fun) == ast.Expr(f.Lit)) {
					isFan = true
				}
			}
			if !isFan {
				continue
			}
			info := f.Info()
			// captured variables: declared outside the literal
			captured := func(id *ast.Ident) types.Object {
				v, ok := info.ObjectOf(id).(*types.Var)
				if !ok || v.IsField() || v.Pkg() == nil || v.Parent() == v.Pkg().Scope() {
					return nil
				}
				if v.Pos() >= f.Lit.Pos() && v.Pos() < f.Lit.End() {
					return nil
				}
				return v
			}
			heldAt := map[*core.Event]bool{}
			unheldAt := map[*core.Event]bool{}
			f.ExploreLocks(func(e *core.Event, st core.LockState) {
				if len(st.Held()) > 0 {
					heldAt[e] = true
				} else {
					unheldAt[e] = true
				}
			})
			for _, e := range f.Graph().Events {
				if e.Kind != core.EvAssign {
					continue
				}
				as, ok := e.Node.(*ast.AssignStmt)
				if !ok {
					continue
				}
				for _, l := range as.Lhs {
					id, ok := ast.Unparen(l).(*ast.Ident)
					if !ok {
						continue
					}
					obj := captured(id)
					if obj == nil {
						continue
					}
					// per-goroutine result slots (results[i] = ...) are index expressions and not covered here
					n++
					good := heldAt[e] && !unheldAt[e]
					// error variables returned through the group are not shared writes: `err = ...` followed by return err
					c.Check("captured-write-under-mutex", fmt.Sprintf("%s/%s", f.Name, id.Name), c.P.Pos(e.Pos()), good,
						"a goroutine of a fan-out writes the captured variable "+id.Name+" without holding a mutex on some path: concurrent goroutines race on it (lost appends / corrupted slice header)")
				}
			}
		}
		c.Floor("captured writes in fan-out goroutines", n, 8)
	})

	c.Clause("D6", func() {
		f := c.Fn(coord + ".(*boundedPool).Get")
		take := calleeIn(f, coord+".(*boundedPool).tryTake")
		free := calleeIn(f, coord+".(*boundedPool).tryFree")
		wrap := calleeIn(f, coord+".(*boundedPool).wrapConn")
		findOrAbort(c, f, "tryTake", evCall(take), 1)
		findOrAbort(c, f, "tryFree", evCall(free), 1)
		isTake := func(x ast.Expr) bool {
			ce, ok := ast.Unparen(x).(*ast.CallExpr)
			return ok && take(ce)
		}
		bad := ""
		k := 0
		complete := f.Flow().ExplorePathsMarked(func(kk core.VarKey, fct core.Fact) bool {
			return kk.Root == nil && strings.HasPrefix(kk.Path, "cond:") && fct.Def != nil && isTake(fct.Def)
		}, func(e *core.Event) string {
			if e.Kind == core.EvCall && free(e.Call) {
				return "freed"
			}
			if e.Kind == core.EvCall && wrap(e.Call) {
				return "wrapped"
			}
			return ""
		}, func(e *core.Event, st core.State) {
			if e.Kind != core.EvReturn || core.CondOutcome(st, isTake) != 1 {
				return
			}
			k++
			if !core.Marked(st, "freed") && !core.Marked(st, "wrapped") {
				bad = "boundedPool.Get returns @" + c.P.Pos(e.Pos()) + " after a successful tryTake without handing out a wrapped connection and without tryFree: the token is lost and the pool shrinks by one for good"
			}
		})
		c.Need(complete && k >= 2, "returns after a successful tryTake in boundedPool.Get")
		c.Check("pool-token-paired", f.Name+"/token", f.PosStr(), bad == "", bad)
		// pooledConn.Close returns the connection or frees the token
		pc := c.Fn(coord + ".(*pooledConn).Close")
		put := calleeIn(pc, coord+".(*boundedPool).put")
		free2 := calleeIn(pc, coord+".(*boundedPool).tryFree")
		c.Check("pool-token-paired", pc.Name+"/put-or-free", pc.PosStr(), len(pc.Graph().Find(evCall(put))) > 0 && len(pc.Graph().Find(evCall(free2))) > 0,
			"pooledConn.Close must either put the connection back or free its token")
	})

	c.Clause("D7", func() {
		n := 0
		for _, g := range c.P.FuncsIn(tsm1) {
			if g.Body == nil || g.Root().Name == tsm1+".(*WAL).ClosedSegments" {
				continue
			}
			closed := fieldCallIn(g, "Engine.WAL", "ClosedSegments")
			for _, e := range g.Graph().Find(evCall(closed)) {
				n++
				snap := evCall(fieldCallIn(g, "Engine.Cache", "Snapshot"))
				roll := evCall(fieldCallIn(g, "Engine.WAL", "CloseSegment"))
				lock := func(x *core.Event) bool {
					return x.Kind == core.EvCall && core.CalleeName(x) == "sync.(*RWMutex).Lock" && core.RecvFieldOf(x) == "Engine.mu"
				}
				bad := ""
				heldAll := true
				g.ExploreLocks(func(x *core.Event, st core.LockState) {
					if snap(x) || roll(x) || x == e {
						held := false
						for _, h := range st.Held() {
							if strings.HasPrefix(h, "e.mu#W") {
								held = true
							}
						}
						if !held {
							heldAll = false
						}
					}
				})
				switch {
				case len(g.Graph().Find(snap)) == 0:
					bad = "the closed WAL segment list is taken in a function that does not take the cache snapshot: segments closed in between hold writes that are only in the live cache, and the snapshot commit removes them"
				case len(g.Graph().Find(roll)) == 0:
					bad = "the segment roll (WAL.CloseSegment) does not happen in the critical section that lists the closed segments and snapshots the cache"
				case len(g.Graph().Find(lock)) == 0 || !heldAll:
					bad = "WAL.CloseSegment / WAL.ClosedSegments / Cache.Snapshot are not all executed while Engine.mu is write-locked: a write acknowledged in between lands in the new cache but in a WAL segment that the snapshot commit deletes"
				}
				c.Check("snapshot-critical-section", g.Root().Name+"/ClosedSegments", c.P.Pos(e.Pos()), bad == "", bad)
			}
		}
		c.Floor("sites listing closed WAL segments", n, 1)
		// writers hold Engine.mu.RLock across cache and WAL write
		wp := c.Fn(tsm1 + ".(*Engine).WritePointsWithContext")
		okAll := true
		wp.ExploreLocks(func(x *core.Event, st core.LockState) {
			if x.Kind == core.EvCall && (fieldCallIn(wp, "Engine.Cache", "WriteMulti")(x.Call) || fieldCallIn(wp, "Engine.WAL", "WriteMulti")(x.Call)) {
				held := false
				for _, h := range st.Held() {
					if strings.HasPrefix(h, "e.mu#R") {
						held = true
					}
				}
				if !held {
					okAll = false
				}
			}
		})
		c.Check("snapshot-critical-section", wp.Name+"/writes-under-RLock", wp.PosStr(), okAll, "the cache write and the WAL write must both happen while Engine.mu is read-locked")
	})

	c.Clause("D8", func() {
		// one hinted-handoff processor per (node, shard) – the re-check under the write lock (shared with C03-D6)
		f := c.Fn(hhp + ".(*Service).WriteShard")
		var all []*core.FuncInfo
		var walk func(x *core.FuncInfo)
		walk = func(x *core.FuncInfo) {
			all = append(all, x)
			for _, l := range x.Lits {
				walk(l)
			}
		}
		walk(f)
		n := 0
		for _, g := range c.P.FuncsIn(hhp) {
			if g.Body == nil || g.Root().Name == hhp+".(*Service).Open" {
				continue
			}
			set := calleeIn(g, hhp+".(*Service).setProcessor")
			for i, s := range g.Graph().Find(evCall(set)) {
				n++
				lock := func(e *core.Event) bool {
					return e.Kind == core.EvCall && core.CalleeName(e) == "sync.(*RWMutex).Lock" && core.RecvFieldOf(e) == "Service.mu"
				}
				lookup := evCall(calleeIn(g, hhp+".(*Service).processor"))
				bad := ""
				for _, l := range g.Graph().Find(lock) {
					if p := g.Flow().PathAvoiding(l, func(x *core.Event) bool { return x == s }, lookup); p != nil {
						bad = "a processor is registered under the write lock without re-checking that none exists"
					}
				}
				if len(g.Graph().Find(lock)) == 0 {
					bad = "setProcessor outside a Service.mu.Lock section"
				}
				c.Check("check-then-act-under-lock", fmt.Sprintf("%s/setProcessor#%d", g.Root().Name, i+1), c.P.Pos(s.Pos()), bad == "", bad)
			}
		}
		c.Floor("setProcessor sites outside Open", n, 1)
	})
}

func classOf(cl string) string {
	cl = strings.TrimSuffix(cl, "#W")
	return strings.TrimSuffix(cl, "#R")
}

func stripAssert(x ast.Expr) ast.Expr {
	for {
		switch e := ast.Unparen(x).(type) {
		case *ast.TypeAssertExpr:
			x = e.X
		default:
			if x == nil {
				return &ast.Ident{Name: "_"}
			}
			return x
		}
	}
}

func tarjan(nodes map[string]bool, adj map[string][]string) [][]string {
	index := 0
	idx := map[string]int{}
	low := map[string]int{}
	on := map[string]bool{}
	var stack []string
	var out [][]string
	var names []string
	for n := range nodes {
		names = append(names, n)
	}
	sort.Strings(names)
	var strong func(v string)
	strong = func(v string) {
		idx[v] = index
		low[v] = index
		index++
		stack = append(stack, v)
		on[v] = true
		for _, w := range adj[v] {
			if _, seen := idx[w]; !seen {
				strong(w)
				if low[w] < low[v] {
					low[v] = low[w]
				}
			} else if on[w] && idx[w] < low[v] {
				low[v] = idx[w]
			}
		}
		if low[v] == idx[v] {
			var comp []string
			for {
				w := stack[len(stack)-1]
				stack = stack[:len(stack)-1]
				on[w] = false
				comp = append(comp, w)
				if w == v {
					break
				}
			}
			out = append(out, comp)
		}
	}
	for _, n := range names {
		if _, seen := idx[n]; !seen {
			strong(n)
		}
	}
	return out
}

var _ = token.ADD
