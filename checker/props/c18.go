package props

import (
	"fmt"
	"go/ast"
	"go/token"
	"go/types"
	"strings"

	"verifcheck/core"
)

func init() {
	register("C18", core.PropertyMeta{
		Explanation: "Decides structural clauses of C18; that a restored shard answers every read exactly as the source did is a statement about run-time values and is NOT decided. " +
			"D1 a replica is advertised only after a complete copy: the copy-shard handler's work closure returns nil only after backupRemoteShard, CreateShard and RestoreShard returned nil; the success response is sent only when the closure returned nil; Client.CopyShard returns the response's Err; the meta handler updates the owner list (store.copyShard) only after rpcClient.CopyShard returned nil; " +
			"D2 backups contain the cache: Engine.CreateSnapshot goes on to link the files only if the forced WriteSnapshot succeeded, or if it failed with ErrSnapshotInProgress and the caller allowed skipping the cache; only Engine.Backup may call it with skipCacheOk not constantly false (call-site table); " +
			"D3 time-bounded export keeps every overlapping block and file: the block test of filterFileToBackup equals 'block range overlaps [start,end]' on every ordering of its operands, and in timeStampFilterTarFile the union of the 'filter this file' and 'file entirely inside' tests equals 'file range overlaps [start,end]'; " +
			"D4 restore installs only complete uploads: Engine.overlay hands files to FileStore.Replace only on paths where the archive was read to io.EOF, and never drops an error of readFileFromBackup; the partial last key batch is flushed to the index (same rule as C14 D2); " +
			"D5 the source is unchanged: the only thing Backup/Export remove is the temporary snapshot directory returned by CreateSnapshot; " +
			"D6 a failure on the serving node is visible to the requester: sibling agreement over the coordinator's connection handlers (20 today): when a handler's work closure failed, the handler writes to the connection before it returns (this found that processBackupShardRequest did not, fixed in efaff60), and pkg/tar.Stream closes the archive writer (end-of-archive marker) only when the directory walk succeeded, and the walk callback never returns success while the error the walk reported to it is non-nil. " +
			"NOT decided: tar framing, hard-link semantics, equality of reads on the restored shard.",
		RuleText:    "obligation = (rule, function, site); outcome facts and path exploration; predicate compilation + exhaustive evaluation over weak orderings under the assumptions min<=max, start<=end; definition provenance",
		Assumptions: commonAssumptions,
	}, runC18)
}

func selCall(name string) func(*ast.CallExpr) bool {
	return func(ce *ast.CallExpr) bool {
		se, ok := ce.Fun.(*ast.SelectorExpr)
		return ok && se.Sel.Name == name
	}
}

func runC18(c *core.Ctx) {
	c.Clause("D1", func() {
		f := c.Fn(coord + ".(*Service).processCopyShardRequest")
		lit := workUnit(c.P, f, selCall("RestoreShard"))
		c.Need(lit != nil && lit != f, "processCopyShardRequest: work closure")
		for _, name := range []string{"backupRemoteShard", "CreateShard", "RestoreShard"} {
			findOrAbort(c, lit, name, evCall(selCall(name)), 1)
			n := returnsOnlyAfterOK(c, lit, "copy-succeeds-only-after-"+name, name, selCall(name), func(e *core.Event) string {
				// returns that propagate an earlier step's error are not success returns
				return ""
			})
			c.Floor("possibly-nil returns of the copy closure ("+name+")", n, 1)
		}
		// the success response
		isClosureCall := callsUnit(f, lit)
		info := f.Info()
		n := 0
		for _, e := range f.Graph().Events {
			if e.Kind != core.EvCall || !calleeIn(f, coord+".EncodeTLV")(e.Call) || len(e.Call.Args) != 3 {
				continue
			}
			// success = a response literal without Err
			u, ok := ast.Unparen(e.Call.Args[2]).(*ast.UnaryExpr)
			if !ok {
				continue
			}
			cl, ok := u.X.(*ast.CompositeLit)
			if !ok {
				continue
			}
			if nt, ok := info.TypeOf(cl).(*types.Named); !ok || nt.Obj().Name() != "CopyShardResponse" {
				continue
			}
			if len(cl.Elts) != 0 {
				continue
			}
			n++
			ok2 := f.Flow().CallOKAt(e, isClosureCall)
			c.Check("success-response-only-after-complete-copy", fmt.Sprintf("%s/success-response#%d", f.Name, n), c.P.Pos(e.Pos()), ok2,
				"the success response is sent on a path where the copy closure has not been established to have returned nil: the meta node then lists this node as an owner of a shard it does not hold")
		}
		c.Floor("success responses of the copy-shard handler", n, 1)
		// client returns the response's error
		cl := c.Fn(coord + ".(*Client).CopyShard")
		last := 0
		good := false
		for _, e := range cl.Graph().Events {
			if e.Kind != core.EvReturn {
				continue
			}
			rs, ok := e.Node.(*ast.ReturnStmt)
			if !ok || len(rs.Results) != 1 {
				continue
			}
			fact, _ := cl.ReturnErrFact(e)
			if fact.Nil == core.NonNil {
				continue
			}
			last++
			se, ok := ast.Unparen(rs.Results[0]).(*ast.SelectorExpr)
			if ok && se.Sel.Name == "Err" {
				if nt, ok := cl.Info().TypeOf(se.X).(*types.Named); ok && nt.Obj().Name() == "CopyShardResponse" {
					good = true
					continue
				}
			}
			good = false
			c.Check("client-reports-remote-failure", fmt.Sprintf("%s/return#%d", cl.Name, last), c.P.Pos(e.Pos()), false, "a possibly-nil return of Client.CopyShard is not the response's Err: a failed copy on the destination is reported as success")
		}
		c.Check("client-reports-remote-failure", cl.Name+"/returns-resp.Err", cl.PosStr(), good && last >= 1, "Client.CopyShard has no return of the response's Err")
		// meta handler
		h := c.Fn(metap + ".(*handler).serveCopyShard")
		okRule(c, h, "owner-added-only-after-copy", "rpcClient.CopyShard", "store.copyShard", selCall("CopyShard"), evCall(selCall("copyShard")))
	})

	c.Clause("D6", func() { runFailureAnsweredInBand(c) })

	c.Clause("D2", func() {
		f := c.Fn(tsm1 + ".(*Engine).CreateSnapshot")
		info := f.Info()
		ws := calleeIn(f, tsm1+".(*Engine).WriteSnapshot")
		findOrAbort(c, f, "WriteSnapshot", evCall(ws), 1)
		link := func(e *core.Event) bool { return e.Kind == core.EvCall && selCall("CreateSnapshot")(e.Call) }
		findOrAbort(c, f, "FileStore.CreateSnapshot", link, 1)
		var skipObj types.Object
		if len(f.Decl.Type.Params.List) > 0 && len(f.Decl.Type.Params.List[0].Names) > 0 {
			skipObj = info.Defs[f.Decl.Type.Params.List[0].Names[0]]
		}
		c.Need(skipObj != nil, "CreateSnapshot: skipCacheOk parameter")
		bad := ""
		complete := f.Flow().ExplorePaths(func(k core.VarKey, fct core.Fact) bool {
			if ce, ok := fct.Def.(*ast.CallExpr); ok && ws(ce) {
				return true
			}
			return k.Root == nil && strings.HasPrefix(k.Path, "cond:")
		}, func(e *core.Event, st core.State) {
			if !link(e) || bad != "" {
				return
			}
			if core.OutcomeOK(st, ws) {
				return
			}
			// tolerated: err == ErrSnapshotInProgress established true, and skipCacheOk established true
			inProgress, skip := false, false
			for k, fct := range st {
				if k.Root != nil || !strings.HasPrefix(k.Path, "cond:") || fct.Def == nil || fct.Bool == 0 {
					continue
				}
				var atoms []atomB
				decompose(fct.Def, fct.Bool == 1, &atoms)
				for _, a := range atoms {
					if be, ok := a.x.(*ast.BinaryExpr); ok && be.Op == token.EQL && a.val && strings.HasSuffix(core.ExprStr(be.Y), "ErrSnapshotInProgress") {
						inProgress = true
					}
					if be, ok := a.x.(*ast.BinaryExpr); ok && be.Op == token.NEQ && !a.val && strings.HasSuffix(core.ExprStr(be.Y), "ErrSnapshotInProgress") {
						inProgress = true
					}
					if id, ok := a.x.(*ast.Ident); ok && info.ObjectOf(id) == skipObj && a.val {
						skip = true
					}
				}
			}
			if !(inProgress && skip) {
				bad = "the data files are linked for a backup on a path where the forced cache snapshot failed for a reason other than ErrSnapshotInProgress (or the caller did not allow skipping the cache): the backup silently lacks every acknowledged point still in the cache"
			}
		})
		c.Need(complete, "exploration bound CreateSnapshot")
		c.Check("backup-contains-cache", f.Name+"/link-after-flush", f.PosStr(), bad == "", bad)
		// who may allow skipping the cache: only the incremental backup (Engine.Backup); the time-bounded export and
		// everything else must insist on the flush
		n := 0
		p := c.P
		for _, g := range p.AllFuncs() {
			if g.Body == nil {
				continue
			}
			ginfo := g.Info()
			for _, e := range g.Graph().Events {
				if e.Kind != core.EvCall && e.Kind != core.EvDefer && e.Kind != core.EvGo {
					continue
				}
				fn, ok := e.Callee.(*types.Func)
				if !ok || core.FuncName(fn) != tsm1+".(*Engine).CreateSnapshot" || len(e.Call.Args) != 1 {
					continue
				}
				n++
				tv := ginfo.Types[e.Call.Args[0]]
				isFalse := tv.Value != nil && tv.Value.String() == "false"
				allowed := isFalse || g.Root().Name == tsm1+".(*Engine).Backup"
				c.Check("who-may-skip-the-cache", fmt.Sprintf("%s/CreateSnapshot(%s)", g.Name, core.ExprStr(e.Call.Args[0])), p.Pos(e.Pos()), allowed,
					"CreateSnapshot is called with skipCacheOk not constantly false outside Engine.Backup: this caller's copy may silently lack the points still in the cache when a snapshot is in flight")
			}
		}
		c.Floor("call sites of Engine.CreateSnapshot", n, 2)
	})

	c.Clause("D3", func() {
		pc := &core.PredCompiler{P: c.P, Sticky: true}
		// block test
		f := c.Fn(tsm1 + ".(*Engine).filterFileToBackup")
		var blockCond ast.Expr
		rangeA, rangeB := resultIdents(f, "Read", 1, 2)
		mentionsRange := func(fn *core.FuncInfo, x ast.Expr, ids ...*ast.Ident) bool {
			found := false
			ast.Inspect(x, func(nd ast.Node) bool {
				if id, ok := nd.(*ast.Ident); ok {
					for _, want := range ids {
						if want != nil && fn.Info().ObjectOf(id) == fn.Info().ObjectOf(want) {
							found = true
						}
					}
				}
				return !found
			})
			return found
		}
		for _, e := range f.Graph().Events {
			if e.Kind != core.EvCall || !selCall("WriteBlock")(e.Call) {
				continue
			}
			// innermost if statement enclosing the call
			ast.Inspect(f.Body, func(nd ast.Node) bool {
				if ifs, ok := nd.(*ast.IfStmt); ok && ifs.Body.Pos() <= e.Pos() && e.Pos() < ifs.Body.End() && ifs.Init == nil {
					if blockCond == nil || ifs.Cond.Pos() > blockCond.Pos() {
						if mentionsRange(f, ifs.Cond, rangeA, rangeB) || inlinedMentions(f, ifs.Cond, rangeA, rangeB) {
							blockCond = ifs.Cond
						}
					}
				}
				return true
			})
		}
		c.Need(blockCond != nil, "filterFileToBackup: condition guarding WriteBlock")
		impl, err := pc.CompileIn(f, blockCond)
		c.Need(err == nil, fmt.Sprintf("filterFileToBackup: block test is a comparison predicate (%v)", err))
		// the block's range: 2nd and 3rd result of the block iterator's Read; the window: the two int64 parameters
		bmin, bmax := resultIdents(f, "Read", 1, 2)
		ints := int64Params(f)
		c.Need(bmin != nil && bmax != nil && len(ints) == 2, "filterFileToBackup: block range from bi.Read() and two int64 window parameters")
		mn, e1 := pc.TermIn(f, bmin)
		mx, e2 := pc.TermIn(f, bmax)
		st, e3 := pc.TermIn(f, ints[0])
		en, e4 := pc.TermIn(f, ints[1])
		c.Need(e1 == nil && e2 == nil && e3 == nil && e4 == nil, "filterFileToBackup: terms minTime, maxTime, start, end")
		assume := core.And(core.Le(mn, mx), core.Le(st, en))
		spec := core.And(core.Le(mn, en), core.Le(st, mx))
		diff, nval, err := core.Equivalent(core.And(assume, impl), core.And(assume, spec))
		c.Counts["evaluations"] += nval
		detail := ""
		if err != nil {
			detail = "undecided: " + err.Error()
		} else if diff != "" {
			detail = "the block test differs from 'the block's time range overlaps [start,end]' on " + diff + fmt.Sprintf(" (terms: %s=minTime %s=maxTime %s=start %s=end): blocks of the export window are silently left out of the backup", mn, mx, st, en)
		}
		c.Check("export-keeps-every-overlapping-block", f.Name+"/block-test", c.P.Pos(blockCond.Pos()), err == nil && diff == "", detail)

		// file test
		g := c.Fn(tsm1 + ".(*Engine).timeStampFilterTarFile")
		c.Need(len(g.Lits) >= 1, "timeStampFilterTarFile: filter closure")
		lit := g.Lits[0]
		var filterCond, insideCond ast.Expr
		fileA, fileB := resultIdents(lit, "TimeRange", 0, 1)
		ast.Inspect(lit.Body, func(nd ast.Node) bool {
			ifs, ok := nd.(*ast.IfStmt)
			if !ok || ifs.Init != nil {
				return true
			}
			calls := ""
			ast.Inspect(ifs.Body, func(x ast.Node) bool {
				if ce, ok := x.(*ast.CallExpr); ok {
					if se, ok := ce.Fun.(*ast.SelectorExpr); ok {
						calls += se.Sel.Name + ";"
					}
				}
				return true
			})
			switch {
			case strings.Contains(calls, "filterFileToBackup"):
				filterCond = ifs.Cond
			case strings.Contains(calls, "StreamFile") && (mentionsRange(lit, ifs.Cond, fileA, fileB) || inlinedMentions(lit, ifs.Cond, fileA, fileB)):
				insideCond = ifs.Cond
			}
			return true
		})
		c.Need(filterCond != nil && insideCond != nil, "timeStampFilterTarFile: the two file tests")
		pc2 := &core.PredCompiler{P: c.P, Sticky: true}
		fi, err1 := pc2.CompileIn(lit, filterCond)
		ii, err2 := pc2.CompileIn(lit, insideCond)
		c.Need(err1 == nil && err2 == nil, fmt.Sprintf("timeStampFilterTarFile: file tests are comparison predicates (%v %v)", err1, err2))
		// the file's range: the two results of TimeRange(); the window: UnixNano() of the two time parameters of the enclosing function
		fminI, fmaxI := resultIdents(lit, "TimeRange", 0, 1)
		c.Need(fminI != nil && fmaxI != nil, "timeStampFilterTarFile: min, max := r.TimeRange()")
		fmn, e1 := pc2.TermIn(lit, fminI)
		fmx, e2 := pc2.TermIn(lit, fmaxI)
		fst, fen := "$0.UnixNano()", "$1.UnixNano()"
		e3, e4 = nil, nil
		c.Need(e1 == nil && e2 == nil && e3 == nil && e4 == nil, "timeStampFilterTarFile: terms min, max, stun, eun")
		fassume := core.And(core.Le(fmn, fmx), core.Le(fst, fen))
		fspec := core.And(core.Le(fmn, fen), core.Le(fst, fmx))
		diff, nval, err = core.Equivalent(core.And(fassume, core.Or(fi, ii)), core.And(fassume, fspec))
		c.Counts["evaluations"] += nval
		detail = ""
		if err != nil {
			detail = "undecided: " + err.Error()
		} else if diff != "" {
			detail = "'filter this file' or 'file entirely inside' differs from 'the file's time range overlaps the window' on " + diff + fmt.Sprintf(" (terms: %s=min %s=max %s=start %s=end)", fmn, fmx, fst, fen)
		}
		c.Check("export-keeps-every-overlapping-file", lit.Name+"/file-tests", c.P.Pos(filterCond.Pos()), err == nil && diff == "", detail)
	})

	c.Clause("D4", func() {
		f := c.Fn(tsm1 + ".(*Engine).overlay")
		read := selCall("readFileFromBackup")
		lit := workUnit(c.P, f, read)
		c.Need(lit != nil, "overlay: locked closure")
		findOrAbort(c, lit, "readFileFromBackup", evCall(read), 1)
		rep := func(e *core.Event) bool { return e.Kind == core.EvCall && selCall("Replace")(e.Call) }
		findOrAbort(c, lit, "FileStore.Replace", rep, 1)
		bad := ""
		complete := lit.Flow().ExplorePaths(func(k core.VarKey, fct core.Fact) bool {
			return k.Root == nil && strings.HasPrefix(k.Path, "cond:")
		}, func(e *core.Event, st core.State) {
			if !rep(e) || bad != "" {
				return
			}
			eof := core.CondOutcome(st, func(x ast.Expr) bool {
				be, ok := ast.Unparen(x).(*ast.BinaryExpr)
				return ok && be.Op == token.EQL && strings.HasSuffix(core.ExprStr(be.Y), "io.EOF")
			})
			if eof != 1 {
				bad = "the uploaded files are installed on a path where the archive was not read to io.EOF: a copy that broke off part-way leaves a half-populated shard"
			}
		})
		c.Need(complete, "exploration bound overlay")
		c.Check("install-only-complete-upload", lit.Name+"/Replace-after-EOF", lit.PosStr(), bad == "", bad)
		// a read error aborts: no path from a non-EOF failure to Replace
		nonEOFReturns := 0
		ast.Inspect(lit.Body, func(nd ast.Node) bool {
			ifs, ok := nd.(*ast.IfStmt)
			if !ok {
				return true
			}
			be, ok := ast.Unparen(ifs.Cond).(*ast.BinaryExpr)
			if ok && be.Op == token.NEQ && core.ExprStr(be.X) == "err" && core.ExprStr(be.Y) == "nil" {
				for _, s := range ifs.Body.List {
					if rs, ok := s.(*ast.ReturnStmt); ok && len(rs.Results) == 2 && core.ExprStr(rs.Results[1]) == "err" {
						nonEOFReturns++
					}
				}
			}
			return true
		})
		c.Check("install-only-complete-upload", lit.Name+"/read-error-aborts", lit.PosStr(), nonEOFReturns >= 1, "an error of readFileFromBackup other than io.EOF does not abort the restore")
		// index flush of the remainder
		add := calleeIn(f, tsm1+".(*Engine).addToIndexFromKey")
		errPropagated(c, f, "index-error-surfaces", "addToIndexFromKey", add)
	})

	c.Clause("D5", func() {
		n := 0
		for _, name := range []string{tsm1 + ".(*Engine).Backup", tsm1 + ".(*Engine).Export"} {
			f := c.Fn(name)
			info := f.Info()
			var snap types.Object
			ast.Inspect(f.Body, func(nd ast.Node) bool {
				as, ok := nd.(*ast.AssignStmt)
				if !ok || len(as.Rhs) != 1 || len(as.Lhs) != 2 {
					return true
				}
				if ce, ok := as.Rhs[0].(*ast.CallExpr); ok && selCall("CreateSnapshot")(ce) {
					if id, ok := as.Lhs[0].(*ast.Ident); ok {
						snap = info.ObjectOf(id)
					}
				}
				return true
			})
			c.Need(snap != nil, name+": path, err := e.CreateSnapshot(..)")
			k := 0
			for _, fn := range append([]*core.FuncInfo{f}, f.Lits...) {
				ast.Inspect(fn.Body, func(nd ast.Node) bool {
					ce, ok := nd.(*ast.CallExpr)
					if !ok {
						return true
					}
					cf, ok := core.Callee(info, ce).(*types.Func)
					if !ok || cf.Pkg() == nil || cf.Pkg().Path() != "os" {
						return true
					}
					switch cf.Name() {
					case "Remove", "RemoveAll", "Rename", "Truncate", "WriteFile", "Create", "OpenFile", "Chmod":
					default:
						return true
					}
					k++
					n++
					good := cf.Name() == "RemoveAll" && len(ce.Args) == 1
					if good {
						id, ok := ast.Unparen(ce.Args[0]).(*ast.Ident)
						good = ok && info.ObjectOf(id) == snap
					}
					c.Check("backup-leaves-source-unchanged", fmt.Sprintf("%s/os.%s#%d", f.Name, cf.Name(), k), c.P.Pos(ce.Pos()), good,
						"Backup/Export may only remove the temporary snapshot directory returned by CreateSnapshot")
					return true
				})
			}
		}
		c.Floor("file-system mutations in Backup/Export", n, 2)
	})
}

// runFailureAnsweredInBand: sibling agreement over the coordinator's connection handlers: when a handler's work
// closure failed, the handler writes something to the connection before it returns (every handler answers
// with a response carrying the error). A handler that only logs and returns lets the peer read a clean end of
// stream, which the copy-shard path takes for a complete backup.
func runFailureAnsweredInBand(c *core.Ctx) {
	n := 0
	for _, f := range c.P.FuncsIn(coord) {
		if f.Decl == nil || f.Decl.Recv == nil || !strings.HasPrefix(f.Decl.Name.Name, "process") || !strings.HasSuffix(f.Decl.Name.Name, "Request") {
			continue
		}
		if !strings.HasPrefix(f.Name, coord+".(*Service).") {
			continue
		}
		info := f.Info()
		// the connection parameter
		var conn types.Object
		for _, p := range f.Decl.Type.Params.List {
			if strings.HasSuffix(core.ExprStr(p.Type), "net.Conn") && len(p.Names) == 1 {
				conn = info.Defs[p.Names[0]]
			}
		}
		if conn == nil {
			continue
		}
		// the work closure: an immediately invoked function literal whose error is tested
		var work *core.Event
		for _, e := range f.Graph().Events {
			if e.Kind != core.EvCall {
				continue
			}
			if _, ok := ast.Unparen(e.Call.Fun).(*ast.FuncLit); ok && work == nil {
				work = e
			}
		}
		if work == nil {
			// the closure extracted into a named function: a function of this package that is handed the
			// connection and returns only an error
			for _, e := range f.Graph().Events {
				if e.Kind != core.EvCall || work != nil {
					continue
				}
				fn, _ := e.Callee.(*types.Func)
				g := c.P.FuncOf(fn)
				if g == nil || g.Pkg != f.Pkg || g.NumResults() != 1 || g.ErrResultIndex() != 0 {
					continue
				}
				for _, a := range e.Call.Args {
					if id, ok := ast.Unparen(a).(*ast.Ident); ok && info.ObjectOf(id) == conn {
						work = e
					}
				}
			}
		}
		if work == nil {
			continue
		}
		n++
		usesConn := func(e *core.Event) bool {
			if e.Kind != core.EvCall && e.Kind != core.EvDeferred {
				return false
			}
			if e == work {
				return false
			}
			for _, a := range e.Call.Args {
				if id, ok := ast.Unparen(a).(*ast.Ident); ok && info.ObjectOf(id) == conn {
					return true
				}
			}
			if se, ok := e.Call.Fun.(*ast.SelectorExpr); ok {
				if id, ok := ast.Unparen(se.X).(*ast.Ident); ok && info.ObjectOf(id) == conn && se.Sel.Name != "RemoteAddr" && se.Sel.Name != "Close" {
					return true
				}
			}
			return false
		}
		fl := f.Flow()
		bad := ""
		for _, r := range f.Graph().Events {
			if r.Kind != core.EvReturn || !fl.Reachable(r) {
				continue
			}
			if !fl.CallFailedAt(r, func(x *ast.CallExpr) bool { return x == work.Call }) {
				continue
			}
			if p := fl.PathAvoiding(work, func(e *core.Event) bool { return e == r }, usesConn); p != nil {
				bad = "when the handler's work fails it returns without writing anything to the connection: the requester reads a clean end of stream and cannot tell the failure from an empty result: " + core.PathStr(p)
			}
		}
		c.Check("failure-answered-in-band", f.Name, f.PosStr(), bad == "", bad)
	}
	c.Floor("connection handlers with a work closure", n, 15)

	// the archive writer marks the end of the archive only when every file was written
	st := c.Fn("pkg/tar.Stream")
	isClose := func(ce *ast.CallExpr) bool {
		se, ok := ce.Fun.(*ast.SelectorExpr)
		if !ok || se.Sel.Name != "Close" {
			return false
		}
		t := st.Info().TypeOf(se.X)
		return t != nil && strings.HasSuffix(t.String(), "tar.Writer")
	}
	walk := func(ce *ast.CallExpr) bool {
		fn, ok := core.Callee(st.Info(), ce).(*types.Func)
		return ok && fn.Pkg() != nil && fn.Pkg().Path() == "path/filepath" && (fn.Name() == "Walk" || fn.Name() == "WalkDir")
	}
	findOrAbort(c, st, "filepath.Walk", evCall(walk), 1)
	k := 0
	for _, e := range st.Graph().Events {
		if !(e.Kind == core.EvCall || e.Kind == core.EvDeferred) || !isClose(e.Call) {
			continue
		}
		k++
		ok := st.Flow().CallOKAt(e, walk)
		c.Check("end-of-archive-only-after-complete-walk", fmt.Sprintf("%s/tw.Close#%d", st.Name, k), c.P.Pos(e.Pos()), ok,
			"the tar writer is closed (which writes the end-of-archive marker) on a path where the directory walk has not been established to have succeeded: an archive that lacks files is indistinguishable from a complete one for the node that restores it")
	}
	c.Floor("closes of the archive writer in Stream", k, 1)

	// the walk callback hands every error the walk reports to it back to the walk: a return made while the callback's
	// error parameter is known to be non-nil returns a non-nil error. A callback that swallows "file vanished"
	// lets Stream finish the archive with the end-of-archive marker although a file of the snapshot is missing.
	nCb := 0
	for _, e := range st.Graph().Events {
		if e.Kind != core.EvCall || !walk(e.Call) || len(e.Call.Args) < 2 {
			continue
		}
		lit, ok := ast.Unparen(e.Call.Args[1]).(*ast.FuncLit)
		if !ok {
			continue
		}
		var cb *core.FuncInfo
		for _, l := range st.Lits {
			if l.Lit == lit {
				cb = l
			}
		}
		if cb == nil || lit.Type.Params == nil {
			continue
		}
		var errParam types.Object
		for _, fld := range lit.Type.Params.List {
			if t := cb.Info().TypeOf(fld.Type); t != nil && t.String() == "error" && len(fld.Names) == 1 {
				errParam = cb.Info().ObjectOf(fld.Names[0])
			}
		}
		if errParam == nil {
			continue
		}
		nCb++
		bad := ""
		complete := cb.Flow().ExplorePaths(func(kk core.VarKey, fct core.Fact) bool {
			return kk.Root == errParam && kk.Path == ""
		}, func(ev *core.Event, stt core.State) {
			if ev.Kind != core.EvReturn {
				return
			}
			if stt[core.VarKey{Root: errParam}].Nil != core.NonNil {
				return
			}
			rf, _ := cb.ReturnErrFact(ev)
			if rf.Nil != core.NonNil {
				bad = "the walk callback returns @" + c.P.Pos(ev.Pos()) + " without an error although the walk reported one to it (its error parameter is non-nil there): the file is skipped, Stream goes on and closes the archive with the end-of-archive marker, and the restoring node takes the partial archive for a complete shard"
			}
		})
		c.Need(complete, "exploration of the walk callback of pkg/tar.Stream")
		c.Check("walk-error-is-not-swallowed", fmt.Sprintf("%s/walk-callback#%d", st.Name, nCb), c.P.Pos(lit.Pos()), bad == "", bad)
	}
	c.Floor("walk callbacks with an error parameter in Stream", nCb, 1)
}

// runStreamFailureSignalled (C05 D6): the point stream of a remote iterator has no end marker that the reader
// insists on, so the reading node takes a clean end of the connection for the end of the data. A handler that
// streams from a fallible source (an argument of a query iterator type) after its success response must
// therefore write something to the connection when that call fails, before it returns and the connection closes.
func runStreamFailureSignalled(c *core.Ctx) {
	itT := c.P.LookupType("query", "Iterator")
	c.Need(itT != nil, "type query.Iterator")
	itI, _ := itT.Underlying().(*types.Interface)
	c.Need(itI != nil, "query.Iterator is an interface")
	n := 0
	for _, f := range c.P.FuncsIn(coord) {
		if f.Decl == nil || f.Decl.Recv == nil || !strings.HasPrefix(f.Name, coord+".(*Service).process") {
			continue
		}
		info := f.Info()
		var conn types.Object
		for _, p := range f.Decl.Type.Params.List {
			if strings.HasSuffix(core.ExprStr(p.Type), "net.Conn") && len(p.Names) == 1 {
				conn = info.Defs[p.Names[0]]
			}
		}
		if conn == nil {
			continue
		}
		usesConn := func(e *core.Event) bool {
			if e.Kind != core.EvCall && e.Kind != core.EvDeferred {
				return false
			}
			for _, a := range e.Call.Args {
				if id, ok := ast.Unparen(a).(*ast.Ident); ok && info.ObjectOf(id) == conn {
					return true
				}
			}
			if se, ok := e.Call.Fun.(*ast.SelectorExpr); ok {
				if id, ok := ast.Unparen(se.X).(*ast.Ident); ok && info.ObjectOf(id) == conn && se.Sel.Name != "RemoteAddr" && se.Sel.Name != "Close" {
					return true
				}
			}
			return false
		}
		fl := f.Flow()
		k := 0
		for _, e := range f.Graph().Events {
			if e.Kind != core.EvCall {
				continue
			}
			consumes := false
			for _, a := range e.Call.Args {
				if t := info.TypeOf(a); t != nil && types.IsInterface(t) && types.Implements(t, itI) {
					consumes = true
				}
			}
			if !consumes {
				continue
			}
			// only calls that return an error
			if sig, ok := info.TypeOf(e.Call.Fun).(*types.Signature); !ok || sig.Results().Len() == 0 || sig.Results().At(sig.Results().Len()-1).Type().String() != "error" {
				continue
			}
			k++
			n++
			bad := ""
			failedSeen := false
			for _, r := range f.Graph().Events {
				if r.Kind != core.EvReturn || !fl.Reachable(r) {
					continue
				}
				call := e.Call
				if !fl.CallFailedAt(r, func(x *ast.CallExpr) bool { return x == call }) {
					continue
				}
				failedSeen = true
				if p := fl.PathAvoiding(e, func(x *core.Event) bool { return x == r }, func(x *core.Event) bool { return x != e && usesConn(x) }); p != nil {
					bad = "when streaming the iterator fails the handler returns without writing anything to the connection: the reading node takes the clean end of the connection for the end of the data and its query returns a partial result without an error: " + core.PathStr(p)
				}
			}
			if !failedSeen {
				bad = "the error of the call that streams the iterator is not tested"
			}
			c.Check("stream-failure-signalled-in-band", fmt.Sprintf("%s/%s#%d", f.Name, core.CalleeName(e), k), c.P.Pos(e.Pos()), bad == "", bad)
		}
	}
	c.Floor("handler calls that stream a query iterator", n, 1)
}

type atomB struct {
	x   ast.Expr
	val bool
}

// decompose splits the outcome of a condition into outcomes of its atoms (through !, && when true, || when false).
func decompose(x ast.Expr, val bool, out *[]atomB) {
	x = ast.Unparen(x)
	switch b := x.(type) {
	case *ast.UnaryExpr:
		if b.Op == token.NOT {
			decompose(b.X, !val, out)
			return
		}
	case *ast.BinaryExpr:
		if b.Op == token.LAND && val || b.Op == token.LOR && !val {
			decompose(b.X, val, out)
			decompose(b.Y, val, out)
			return
		}
		if b.Op == token.LAND || b.Op == token.LOR {
			return
		}
	}
	*out = append(*out, atomB{x, val})
}

// resultIdents returns the identifiers that receive results i and j of the (first) call of a method named
// method in f (x, y, ... := recv.method()).
func resultIdents(f *core.FuncInfo, method string, i, j int) (a, b *ast.Ident) {
	ast.Inspect(f.Body, func(nd ast.Node) bool {
		as, ok := nd.(*ast.AssignStmt)
		if !ok || len(as.Rhs) != 1 || a != nil {
			return true
		}
		ce, ok := as.Rhs[0].(*ast.CallExpr)
		if !ok {
			return true
		}
		se, ok := ce.Fun.(*ast.SelectorExpr)
		if !ok || se.Sel.Name != method || i >= len(as.Lhs) || j >= len(as.Lhs) {
			return true
		}
		x, ok1 := as.Lhs[i].(*ast.Ident)
		y, ok2 := as.Lhs[j].(*ast.Ident)
		if ok1 && ok2 {
			a, b = x, y
		}
		return true
	})
	return
}

// inlinedMentions: cond uses a boolean local whose (single) definition mentions one of ids.
func inlinedMentions(fn *core.FuncInfo, cond ast.Expr, ids ...*ast.Ident) bool {
	info := fn.Info()
	found := false
	ast.Inspect(cond, func(nd ast.Node) bool {
		id, ok := nd.(*ast.Ident)
		if !ok || found {
			return !found
		}
		o := info.ObjectOf(id)
		if o == nil {
			return true
		}
		ast.Inspect(fn.Body, func(d ast.Node) bool {
			as, ok := d.(*ast.AssignStmt)
			if !ok || len(as.Lhs) != len(as.Rhs) {
				return true
			}
			for i, l := range as.Lhs {
				if lid, ok := l.(*ast.Ident); ok && info.ObjectOf(lid) == o {
					ast.Inspect(as.Rhs[i], func(r ast.Node) bool {
						if rid, ok := r.(*ast.Ident); ok {
							for _, want := range ids {
								if want != nil && info.ObjectOf(rid) == info.ObjectOf(want) {
									found = true
								}
							}
						}
						return !found
					})
				}
			}
			return !found
		})
		return !found
	})
	return found
}

// int64Params returns the identifiers of the int64 parameters of f in order.
func int64Params(f *core.FuncInfo) []*ast.Ident {
	var out []*ast.Ident
	if f.Type == nil || f.Type.Params == nil {
		return nil
	}
	for _, p := range f.Type.Params.List {
		if t := f.Info().TypeOf(p.Type); t != nil && t.String() == "int64" {
			out = append(out, p.Names...)
		}
	}
	return out
}

// identNamed returns the defining identifier of the parameter or local variable called name (searching enclosing functions' parameters too).
func identNamed(f *core.FuncInfo, name string) ast.Expr {
	for fn := f; fn != nil; fn = fn.Parent {
		if fn.Type != nil && fn.Type.Params != nil {
			for _, p := range fn.Type.Params.List {
				for _, n := range p.Names {
					if n.Name == name {
						return n
					}
				}
			}
		}
		var found *ast.Ident
		ast.Inspect(fn.Body, func(nd ast.Node) bool {
			if id, ok := nd.(*ast.Ident); ok && id.Name == name && found == nil && fn.Info().Defs[id] != nil {
				found = id
			}
			return true
		})
		if found != nil {
			return found
		}
	}
	return &ast.Ident{Name: name}
}
