#!/bin/bash
# usage: seedcross.sh <checker-binary> <base-commit> <patch.diff>...   For each patch: apply it in a scratch worktree of
# /repo at <base-commit> and run ALL property checks (quick tier); prints which properties report a violation.
BIN=$1; BASE=$2; shift 2
export GOFLAGS=-mod=mod GOPROXY=off GOSUMDB=off GOTOOLCHAIN=local; unset GOWORK
WT=/tmp/wt-seedcross-$$; SV=/tmp/seedcross-verif-$$
git -C /repo worktree add -q --detach $WT $BASE || exit 2
trap 'git -C /repo worktree remove --force $WT >/dev/null 2>&1; rm -rf $SV' EXIT
mkdir -p $SV/evidence $SV/out; cp /verif/known_findings.json $SV/
for P in "$@"; do
  git -C $WT checkout -q -- .; git -C $WT clean -fdq
  if ! git -C $WT apply $P 2>/dev/null; then echo "NOAPPLY $P"; continue; fi
  rm -f $SV/out/*
  for i in $(seq -w 1 19); do echo C$i; done | xargs -P 8 -I{} sh -c "$BIN -property {} -tier quick -repo $WT -verif $SV > $SV/out/{}.log 2>&1; echo \$? > $SV/out/{}.rc"
  hits=""
  for i in $(seq -w 1 19); do rc=$(cat $SV/out/C$i.rc); [ "$rc" = 1 ] && hits="$hits C$i"; [ "$rc" != 0 ] && [ "$rc" != 1 ] && hits="$hits C$i(rc=$rc)"; done
  echo "CROSS $P :${hits:- none}"
  for h in $hits; do grep -h "^  rule=" $SV/out/${h%%(*}.log | head -2 | cut -c1-220; done
done
