// Demonstration for fix f6a12a7 (C04): copy into services/hh/ and run
//   go test -vet=off -count=1 -run TestDemoAppendAfterPurgeOfOnlySegment ./services/hh/
// Fails on f6a12a7^ ("append after purge refused: queue not open"), passes on f6a12a7.
package hh

import (
	"os"
	"testing"
	"time"
)

// A queue with a single, stale segment is purged by age; the next append must be accepted.
func TestDemoAppendAfterPurgeOfOnlySegment(t *testing.T) {
	dir := t.TempDir()
	q, err := newQueue(dir, 1024*1024, 5)
	if err != nil {
		t.Fatal(err)
	}
	if err := q.Open(); err != nil {
		t.Fatal(err)
	}
	defer q.Close()
	if err := q.Append([]byte("old")); err != nil {
		t.Fatal(err)
	}
	old := time.Now().Add(-48 * time.Hour)
	if err := os.Chtimes(q.head.path, old, old); err != nil {
		t.Fatal(err)
	}
	if err := q.PurgeOlderThan(time.Now().Add(-24 * time.Hour)); err != nil {
		t.Fatal(err)
	}
	if err := q.Append([]byte("new")); err != nil {
		t.Fatalf("append after purge refused: %v", err)
	}
	b, err := q.Current()
	if err != nil || string(b) != "new" {
		t.Fatalf("current = %q, %v", b, err)
	}
	if _, err := q.LastModified(); err != nil {
		t.Fatalf("LastModified after purge: %v", err)
	}
}
