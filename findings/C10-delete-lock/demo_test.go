package tsm1_test

import (
	"fmt"
	"testing"
	"time"

	"github.com/influxdata/influxdb/models"
)

// A range delete over series whose keys sort before a key that another TSM file still holds
// must terminate. (One file's reconciliation goroutine returns with the read lock held; another
// file's goroutine then blocks forever on the write lock.)
func TestZZ_DeleteRangeTerminates(t *testing.T) {
	e, err := NewEngine("inmem")
	if err != nil {
		t.Fatal(err)
	}
	e.CompactionPlan = &mockPlanner{}
	if err := e.Open(); err != nil {
		t.Fatal(err)
	}
	closeEngine := true
	defer func() {
		if closeEngine {
			e.Close()
		}
	}()

	write := func(pts []models.Point) {
		for _, p := range pts {
			if err := e.CreateSeriesIfNotExists(p.Key(), p.Name(), p.Tags()); err != nil {
				t.Fatal(err)
			}
		}
		if err := e.WritePoints(pts); err != nil {
			t.Fatal(err)
		}
		if err := e.WriteSnapshot(); err != nil {
			t.Fatal(err)
		}
	}
	// file 1: many cpu series with points at 1s and 9s (a delete of [0,5s] leaves each key in the file)
	var cpu []models.Point
	var keys [][]byte
	for i := 0; i < 400; i++ {
		cpu = append(cpu, MustParsePointString(fmt.Sprintf("cpu,host=A%04d value=1 1000000000", i)))
		cpu = append(cpu, MustParsePointString(fmt.Sprintf("cpu,host=A%04d value=2 9000000000", i)))
		keys = append(keys, []byte(fmt.Sprintf("cpu,host=A%04d", i)))
	}
	write(cpu)
	// file 2: a series whose key sorts after every deleted key
	write([]models.Point{MustParsePointString("mem,host=Z value=1 1000000000")})

	done := make(chan error, 1)
	go func() { done <- e.DeleteSeriesRange(&seriesIterator{keys: keys}, 0, 5000000000) }()
	select {
	case err := <-done:
		if err != nil {
			t.Fatal(err)
		}
	case <-time.After(10 * time.Second):
		closeEngine = false // Close would wait for the stuck delete
		t.Fatal("DeleteSeriesRange did not return within 10s: deadlock in the index reconciliation pass")
	}
}
