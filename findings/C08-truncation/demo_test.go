package coordinator_test

import (
	"sync"
	"testing"
	"time"

	"github.com/influxdata/influxdb/coordinator"
	"github.com/influxdata/influxdb/services/meta"
)

type zzDataMeta struct {
	mu   sync.Mutex
	data *meta.Data
}

func (c *zzDataMeta) NodeID() uint64 { return 1 }
func (c *zzDataMeta) Database(name string) *meta.DatabaseInfo {
	c.mu.Lock()
	defer c.mu.Unlock()
	return c.data.Database(name)
}
func (c *zzDataMeta) RetentionPolicy(database, policy string) (*meta.RetentionPolicyInfo, error) {
	c.mu.Lock()
	defer c.mu.Unlock()
	return c.data.RetentionPolicy(database, policy)
}
func (c *zzDataMeta) CreateShardGroup(database, policy string, ts time.Time) (*meta.ShardGroupInfo, error) {
	c.mu.Lock()
	defer c.mu.Unlock()
	if sg, _ := c.data.ShardGroupByTimestamp(database, policy, ts); sg != nil {
		return sg, nil
	}
	if err := c.data.CreateShardGroup(database, policy, ts); err != nil {
		return nil, err
	}
	rpi, _ := c.data.RetentionPolicy(database, policy)
	return rpi.ShardGroupByTimestamp(ts), nil
}

// One batch straddles the truncation time of a group: the point at/after the truncation
// time must go to the successor group the metadata designates, never to the truncated one.
func TestZZ_BatchStraddlingTruncation(t *testing.T) {
	data := &meta.Data{}
	data.CreateDataNode("n1:8086", "n1:8088")
	data.CreateDatabase("db0")
	rpi := meta.NewRetentionPolicyInfo("rp0")
	rpi.ShardGroupDuration = time.Hour
	data.CreateRetentionPolicy("db0", rpi, true)
	base := time.Now().Add(24 * time.Hour).Truncate(time.Hour)
	data.CreateShardGroup("db0", "rp0", base.Add(10*time.Minute))
	data.TruncateShardGroups(base.Add(30 * time.Minute))

	w := coordinator.NewPointsWriter()
	w.MetaClient = &zzDataMeta{data: data}
	pr := &coordinator.WritePointsRequest{Database: "db0", RetentionPolicy: "rp0"}
	pr.AddPoint("cpu", 1.0, base.Add(10*time.Minute), nil) // before the truncation time
	pr.AddPoint("cpu", 2.0, base.Add(40*time.Minute), nil) // after it
	m, err := w.MapShards(pr)
	if err != nil {
		t.Fatal(err)
	}
	// which group does the metadata designate for each timestamp?
	for shardID, pts := range m.Points {
		for _, p := range pts {
			want, _ := data.ShardGroupByTimestamp("db0", "rp0", p.Time())
			if want == nil {
				t.Fatalf("no group designated for %v", p.Time())
			}
			ok := false
			for _, sh := range want.Shards {
				if sh.ID == shardID {
					ok = true
				}
			}
			if !ok {
				t.Errorf("point at %v routed to shard %d, but the metadata designates group %d (shards %v) for that timestamp", p.Time().Sub(base), shardID, want.ID, want.Shards)
			}
		}
	}
}
