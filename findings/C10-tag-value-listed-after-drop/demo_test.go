// Demonstration for fix 185e5ef (C10, C14): copy into tsdb/ (package tsdb_test) and run
//   go test -vet=off -count=1 -run TestDemoTagValueListedAfterLastSeriesDropped ./tsdb/
// Fails for tsi1 on 185e5ef^, passes on 185e5ef.
package tsdb_test

import (
	"context"
	"testing"

	"github.com/influxdata/influxql"
)

// cpu has two series; the only series with host=serverA is dropped. SHOW TAG VALUES WITH KEY = host must no longer
// list serverA (no authorizer, i.e. the fast path of the listing).
func TestDemoTagValueListedAfterLastSeriesDropped(t *testing.T) {
	for _, index := range []string{"inmem", "tsi1"} {
		t.Run(index, func(t *testing.T) {
			s := MustOpenStore(index)
			defer s.Close()
			s.MustCreateShardWithData("db0", "rp0", 0,
				`cpu,host=serverA value=1 0`,
				`cpu,host=serverB value=3 20`,
			)
			cond, err := influxql.ParseExpr("host = 'serverA'")
			if err != nil {
				t.Fatal(err)
			}
			if err := s.DeleteSeries("db0", nil, cond); err != nil {
				t.Fatal(err)
			}
			values, err := s.TagValues(context.Background(), nil, []uint64{0}, &influxql.BinaryExpr{
				Op:  influxql.EQ,
				LHS: &influxql.VarRef{Val: "_tagKey"},
				RHS: &influxql.StringLiteral{Val: "host"},
			})
			if err != nil {
				t.Fatal(err)
			}
			for _, tv := range values {
				for _, v := range tv.Values {
					if v.Value == "serverA" {
						t.Errorf("tag value host=serverA is still listed after its only series was dropped")
					}
				}
			}
		})
	}
}
