package props

import (
	"fmt"
	"sort"
	"strings"

	"verifcheck/core"
)

// DumpSites prints call sites as siteRow literals (development aid for freezing tables).
func DumpSites(p *core.Prog, spec string) {
	parts := strings.SplitN(spec, ":", 2)
	pkgs := strings.Split(parts[0], ",")
	callees := strings.Split(parts[1], ",")
	type key struct{ fn, callee string }
	cnt := map[key]int{}
	pos := map[key][]string{}
	for _, s := range callSites(p, pkgs, callees...) {
		k := key{s.Fn.Root().Name, s.Callee}
		cnt[k]++
		pos[k] = append(pos[k], p.Pos(s.Ev.Pos()))
	}
	var keys []key
	for k := range cnt {
		keys = append(keys, k)
	}
	sort.Slice(keys, func(i, j int) bool {
		if keys[i].fn != keys[j].fn {
			return keys[i].fn < keys[j].fn
		}
		return keys[i].callee < keys[j].callee
	})
	for _, k := range keys {
		fmt.Printf("\t\t{%q, %q, %d, \"\"}, // %s\n", k.fn, k.callee, cnt[k], strings.Join(pos[k], " "))
	}
}

// DumpPanics prints explicit panic sites in the CHA closure of a root function (development aid).
func DumpPanics(p *core.Prog, rootName string) {
	root := p.Fn(rootName)
	if root == nil {
		fmt.Println("no such function", rootName)
		return
	}
	cl := p.Closure([]*core.FuncInfo{root}, nil)
	n := 0
	byPkg := map[string]int{}
	for _, f := range cl {
		if f.Body == nil {
			continue
		}
		for _, e := range f.Graph().Events {
			if e.Kind == core.EvCall && core.CalleeName(e) == "builtin:panic" {
				n++
				byPkg[core.Rel(f.Pkg.PkgPath)]++
				fmt.Printf("%s @%s: %s\n", f.Root().Name, p.Pos(e.Pos()), core.ExprStr(e.Call))
			}
		}
	}
	fmt.Println("closure functions:", len(cl), "panic sites:", n, byPkg)
}

// DumpDefaultPanics lists panics located in the default clause of a switch within the closure of root.
func DumpDefaultPanics(p *core.Prog, rootName string) {
	root := p.Fn(rootName)
	cl := p.Closure([]*core.FuncInfo{root}, nil)
	for _, f := range cl {
		if f.Body == nil {
			continue
		}
		for _, dp := range defaultPanics(f) {
			fmt.Printf("%s @%s kind=%s cases=%v missing=%v\n", f.Root().Name, p.Pos(dp.pos), dp.kind, dp.cases, dp.missing)
		}
	}
}
