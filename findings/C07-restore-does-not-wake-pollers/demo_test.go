// Demonstration for fix def847c (C07): copy into services/meta/ (package meta) and run
//   go test -vet=off -count=1 -run TestDemoRestoreWakesLongPollers ./services/meta/
// Fails on def847c^ (the poller is not woken), passes on def847c.
package meta

import (
	"bytes"
	"io"
	"testing"
	"time"
)

// A data node long-polls a meta node for "anything newer than index 1". The meta node (a follower that had fallen
// behind) then receives a snapshot from the leader: raft calls storeFSM.Restore with metadata at index 5. The poller
// must be woken, otherwise the data node's cache stays behind until some later command happens to be applied.
func TestDemoRestoreWakesLongPollers(t *testing.T) {
	s := &store{data: &Data{Index: 1}, dataChanged: make(chan struct{})}
	ch := s.afterIndex(1)
	newer := &Data{Index: 5, ClusterID: 42}
	b, err := newer.MarshalBinary()
	if err != nil {
		t.Fatal(err)
	}
	if err := (*storeFSM)(s).Restore(io.NopCloser(bytes.NewReader(b))); err != nil {
		t.Fatal(err)
	}
	if got := s.index(); got != 5 {
		t.Fatalf("index after restore = %d", got)
	}
	select {
	case <-ch:
	case <-time.After(200 * time.Millisecond):
		t.Fatal("the long-poller registered before the snapshot was installed is not woken by Restore")
	}
}
