package props

import (
	"fmt"
	"go/ast"
	"go/constant"
	"go/token"
	"go/types"
	"sort"
	"strings"

	"verifcheck/core"
)

func init() {
	register("C13", core.PropertyMeta{
		Explanation: "Decides the structural clauses of C13; the bit-for-bit equality of decode(encode(v)) with v is a statement about run-time values and is NOT decided. " +
			"D1 writer/reader table agreement: the WAL entry-type registry, the WALEntry implementations' Type() results and the reader's switch agree (each tag instantiates the type that reports that tag); the per-key value tag written by WriteWALEntry.Encode for a value type is the tag under which UnmarshalBinary rebuilds that value type, for all five types, and both inner checks use the same tag; the block type byte packed by every encoder of a field type is the byte both of its decoders (iterator and array) require, distinct across types, and every dispatcher on the block type routes a byte to code of the same type; every compression-scheme tag an encoder can emit for timestamps/integers is handled by every decoder dispatch (switches with an 'unknown encoding' arm, and the batch decoders' function tables with their range guard); " +
			"D2 torn logs replay their prefix: WALSegmentReader.Next adds to the valid-byte count only when both reads, the snappy decode and the entry's UnmarshalBinary all succeeded, an unknown entry type is an error, only Next and Reset write the count, and Reset restores every field of the reader; typed block decoders' errors surface from DecodeBlock; " +
			"D3 entries survive: no UnmarshalBinary of a WAL entry stores a slice that aliases the pooled decode buffer into the entry; " +
			"D5 lossless scaling: in the timestamp encoders every delta that is divided by the power-of-ten divisor was tested for divisibility by it (the index range of the division is covered by the index range of the test). " +
			"D6 in the three WAL entry encoders the output cursor advances only over bytes stored on that path (buf[..]=, binary.Put*, copy): the buffer comes from a pool and is not zeroed, so an arm that only advances the cursor writes a stale byte to the log. " +
			"NOT decided: that the cursor arithmetic of the WAL entry decoders stays inside the buffer for every input (the guards bound a running cursor, i+16*nvals <= len(b) implies the per-value reads; proving that needs integer reasoning this analysis does not have), so the 'without crashing' clause is not claimed; simple8b/Gorilla/bit-packing arithmetic.",
		RuleText:    "obligation = (rule, function, site | table row); typed-AST table extraction and agreement; outcome facts at the count update; who-may-write the count; alias taint on []byte-typed expressions inside UnmarshalBinary; index-range agreement between the divisibility test and the division",
		Assumptions: commonAssumptions,
	}, runC13)
}

var fiveTypes = []string{"Float", "Integer", "Unsigned", "String", "Boolean"}

// typeNameIn returns the single field-type name contained in an identifier, or "" (none or ambiguous).
func typeNameIn(name string) string {
	found := ""
	for _, t := range fiveTypes {
		if strings.Contains(name, t) {
			if found != "" {
				return ""
			}
			found = t
		}
	}
	return found
}

// constOf resolves an expression to a package-level constant object (through conversions and parens).
func constOf(info *types.Info, x ast.Expr) *types.Const {
	for {
		x = ast.Unparen(x)
		if ce, ok := x.(*ast.CallExpr); ok && len(ce.Args) == 1 {
			if tv, ok := info.Types[ce.Fun]; ok && tv.IsType() {
				x = ce.Args[0]
				continue
			}
		}
		break
	}
	switch e := x.(type) {
	case *ast.Ident:
		c, _ := info.ObjectOf(e).(*types.Const)
		return c
	case *ast.SelectorExpr:
		c, _ := info.ObjectOf(e.Sel).(*types.Const)
		return c
	}
	return nil
}

// constsOfType lists the package-level constants of a named type.
func constsOfType(pkg *types.Package, t types.Type) []*types.Const {
	var out []*types.Const
	for _, n := range pkg.Scope().Names() {
		if c, ok := pkg.Scope().Lookup(n).(*types.Const); ok && types.Identical(c.Type(), t) {
			out = append(out, c)
		}
	}
	return out
}

func constNames(cs []*types.Const) []string {
	var s []string
	for _, c := range cs {
		s = append(s, c.Name())
	}
	sort.Strings(s)
	return s
}

// caseConsts returns the constants listed in a case clause.
func caseConsts(info *types.Info, cc *ast.CaseClause) []*types.Const {
	var out []*types.Const
	for _, x := range cc.List {
		if c := constOf(info, x); c != nil {
			out = append(out, c)
		}
	}
	return out
}

// isErrorArm reports whether a default clause only signals "unknown": it builds an error, or returns zero values at once.
func isErrorArm(info *types.Info, cc *ast.CaseClause) bool {
	if len(cc.Body) == 0 {
		return true
	}
	hasErr := false
	for _, s := range cc.Body {
		ast.Inspect(s, func(n ast.Node) bool {
			if ce, ok := n.(*ast.CallExpr); ok {
				if fn, ok := core.Callee(info, ce).(*types.Func); ok && fn.Pkg() != nil &&
					(fn.Pkg().Path() == "fmt" && fn.Name() == "Errorf" || fn.Pkg().Path() == "errors" && fn.Name() == "New") {
					hasErr = true
				}
			}
			return true
		})
	}
	if hasErr {
		return true
	}
	if len(cc.Body) == 1 {
		if r, ok := cc.Body[0].(*ast.ReturnStmt); ok {
			for _, x := range r.Results {
				tv := info.Types[x]
				if tv.Value == nil && !tv.IsNil() {
					return false
				}
				if tv.Value != nil && tv.Value.Kind() == constant.Int && constant.Sign(tv.Value) != 0 {
					return false
				}
			}
			return true
		}
	}
	return false
}

func runC13(c *core.Ctx) {
	c.Clause("D1", func() {
		runWALEntryRegistry(c)
		runWALValueTags(c)
		runBlockTypeBytes(c)
		runSchemeTags(c)
	})
	c.Clause("D2", func() { runWALReaderPrefix(c) })
	c.Clause("D3", func() { runNoPooledAlias(c) })
	c.Clause("D5", func() { runScaledDeltas(c) })
	c.Clause("D6", func() { runEncodeCursorWritten(c) })
}

// ---- D1a: WAL entry registry ----------------------------------------------------------------

func runWALEntryRegistry(c *core.Ctx) {
	tagT := c.P.LookupType(tsm1, "WalEntryType")
	c.Need(tagT != nil, "type tsm1.WalEntryType")
	reg := constsOfType(tagT.Obj().Pkg(), tagT)
	c.Floor("WAL entry type constants", len(reg), 3)
	// distinct values
	seenVal := map[string]string{}
	for _, k := range reg {
		v := k.Val().ExactString()
		c.Check("entry-tags-distinct", k.Name(), c.P.Pos(k.Pos()), seenVal[v] == "", fmt.Sprintf("%s has the same value as %s: the reader cannot tell the two entry kinds apart", k.Name(), seenVal[v]))
		seenVal[v] = k.Name()
	}
	// Type() of each implementation
	iface := c.P.LookupType(tsm1, "WALEntry")
	c.Need(iface != nil, "type tsm1.WALEntry")
	it, _ := iface.Underlying().(*types.Interface)
	c.Need(it != nil, "tsm1.WALEntry is an interface")
	var typeM *types.Func
	for i := 0; i < it.NumMethods(); i++ {
		if it.Method(i).Name() == "Type" {
			typeM = it.Method(i)
		}
	}
	c.Need(typeM != nil, "WALEntry.Type")
	tagOfType := map[string]*types.Const{}
	typeOfTag := map[*types.Const]string{}
	for _, f := range c.P.Implementations(typeM) {
		if core.Rel(f.Pkg.PkgPath) != tsm1 {
			continue
		}
		c.Counts["functions_analysed"]++
		recv := strings.TrimSuffix(strings.TrimPrefix(strings.TrimPrefix(f.Name, tsm1+".("), "*"), ").Type")
		var ks []*types.Const
		ok := true
		ast.Inspect(f.Body, func(n ast.Node) bool {
			if r, isRet := n.(*ast.ReturnStmt); isRet {
				if len(r.Results) != 1 {
					ok = false
				} else if k := constOf(f.Info(), r.Results[0]); k != nil {
					ks = append(ks, k)
				} else {
					ok = false
				}
			}
			return true
		})
		good := ok && len(ks) == 1
		detail := ""
		if !good {
			detail = "Type() does not return exactly one registry constant"
		} else if prev, dup := typeOfTag[ks[0]]; dup {
			good = false
			detail = fmt.Sprintf("%s and %s both report %s: one of them is replayed as the other", recv, prev, ks[0].Name())
		}
		c.Check("entry-type-reports-one-tag", f.Name, f.PosStr(), good, detail)
		if good {
			tagOfType[recv] = ks[0]
			typeOfTag[ks[0]] = recv
		}
	}
	c.Floor("WALEntry implementations", len(tagOfType), 3)

	// the reader's switch
	next := c.Fn(tsm1 + ".(*WALSegmentReader).Next")
	info := next.Info()
	var sw *ast.SwitchStmt
	// the dispatch may sit in Next itself or in an unexported helper it calls
	for _, g := range withLocalHelpers(c.P, next) {
		ast.Inspect(g.Body, func(n ast.Node) bool {
			if s, ok := n.(*ast.SwitchStmt); ok && s.Tag != nil && types.Identical(g.Info().TypeOf(s.Tag), tagT) && sw == nil {
				sw = s
				next = g
				info = g.Info()
			}
			return true
		})
	}
	c.Need(sw != nil, "switch on WalEntryType in WALSegmentReader.Next")
	handled := map[*types.Const]bool{}
	hasDefault := false
	for _, s := range sw.Body.List {
		cc := s.(*ast.CaseClause)
		if cc.List == nil {
			hasDefault = true
			c.Check("unknown-entry-type-is-error", next.Name+"/default", c.P.Pos(cc.Pos()), isErrorArm(info, cc), "the default arm of the entry-type switch does not produce an error: bytes that are not an entry would be accepted")
			continue
		}
		for _, k := range caseConsts(info, cc) {
			handled[k] = true
			// the type instantiated in this arm
			inst := ""
			n := 0
			for _, st := range cc.Body {
				ast.Inspect(st, func(nd ast.Node) bool {
					if cl, ok := nd.(*ast.CompositeLit); ok {
						if nt, ok := info.TypeOf(cl).(*types.Named); ok && tagOfType[nt.Obj().Name()] != nil {
							inst = nt.Obj().Name()
							n++
						}
					}
					return true
				})
			}
			good := n == 1 && tagOfType[inst] == k
			detail := ""
			if !good {
				detail = fmt.Sprintf("the arm for %s instantiates %q, whose Type() reports %v: an entry written with this tag is decoded as a different kind of entry", k.Name(), inst, nameOfConst(tagOfType[inst]))
			}
			c.Check("tag-instantiates-its-type", next.Name+"/case:"+k.Name(), c.P.Pos(cc.Pos()), good, detail)
		}
	}
	for _, k := range reg {
		c.Check("every-entry-type-replayed", next.Name+"/"+k.Name(), c.P.Pos(sw.Pos()), handled[k], "the reader has no arm for "+k.Name()+": entries of this kind end replay with an error although they were written correctly")
	}
	if !hasDefault {
		c.Check("unknown-entry-type-is-error", next.Name+"/default", c.P.Pos(sw.Pos()), false, "the entry-type switch has no default arm")
	}
}

func nameOfConst(k *types.Const) string {
	if k == nil {
		return "<none>"
	}
	return k.Name()
}

// ---- D1b: WAL value tags ------------------------------------------------------------------------

func runWALValueTags(c *core.Ctx) {
	enc := c.Fn(tsm1 + ".(*WriteWALEntry).Encode")
	dec := c.Fn(tsm1 + ".(*WriteWALEntry).UnmarshalBinary")
	einfo := enc.Info()
	// encoder: type switch arms
	encTag := map[string]*types.Const{}   // value type -> tag assigned
	guardTag := map[string]*types.Const{} // value type -> tag compared in the per-value arm
	ast.Inspect(enc.Body, func(n ast.Node) bool {
		ts, ok := n.(*ast.TypeSwitchStmt)
		if !ok {
			return true
		}
		for _, s := range ts.Body.List {
			cc := s.(*ast.CaseClause)
			if len(cc.List) != 1 {
				continue
			}
			nt, ok := einfo.TypeOf(cc.List[0]).(*types.Named)
			if !ok {
				continue
			}
			vt := strings.TrimSuffix(nt.Obj().Name(), "Value")
			for _, st := range cc.Body {
				ast.Inspect(st, func(nd ast.Node) bool {
					switch x := nd.(type) {
					case *ast.AssignStmt:
						if len(x.Lhs) == 1 && len(x.Rhs) == 1 && x.Tok == token.ASSIGN {
							if k := constOf(einfo, x.Rhs[0]); k != nil {
								if _, isIdent := x.Lhs[0].(*ast.Ident); isIdent {
									encTag[vt] = k
								}
							}
						}
					case *ast.BinaryExpr:
						if x.Op == token.NEQ || x.Op == token.EQL {
							if k := constOf(einfo, x.Y); k != nil {
								guardTag[vt] = k
							}
						}
					}
					return true
				})
			}
		}
		return true
	})
	// decoder: switch on the tag
	dinfo := dec.Info()
	decType := map[*types.Const]string{}
	var dsw *ast.SwitchStmt
	ast.Inspect(dec.Body, func(n ast.Node) bool {
		sw, ok := n.(*ast.SwitchStmt)
		if !ok || sw.Tag == nil {
			return true
		}
		for _, s := range sw.Body.List {
			cc := s.(*ast.CaseClause)
			for _, k := range caseConsts(dinfo, cc) {
				dsw = sw
				built := map[string]bool{}
				for _, st := range cc.Body {
					ast.Inspect(st, func(nd ast.Node) bool {
						if ce, ok := nd.(*ast.CallExpr); ok {
							if fn, ok := core.Callee(dinfo, ce).(*types.Func); ok && strings.HasPrefix(fn.Name(), "New") && strings.HasSuffix(fn.Name(), "Value") {
								built[strings.TrimSuffix(strings.TrimPrefix(fn.Name(), "New"), "Value")] = true
							}
						}
						if cl, ok := nd.(*ast.CompositeLit); ok {
							if nt, ok := dinfo.TypeOf(cl).(*types.Named); ok && strings.HasSuffix(nt.Obj().Name(), "Value") {
								built[strings.TrimSuffix(nt.Obj().Name(), "Value")] = true
							}
						}
						return true
					})
				}
				if len(built) == 1 {
					for t := range built {
						decType[k] = t
					}
				} else {
					decType[k] = fmt.Sprintf("<%d types>", len(built))
				}
			}
		}
		return true
	})
	c.Need(dsw != nil, "switch on the value tag in WriteWALEntry.UnmarshalBinary")
	used := map[*types.Const]string{}
	for _, t := range fiveTypes {
		k := encTag[t]
		good := k != nil
		detail := ""
		switch {
		case k == nil:
			detail = "Encode assigns no tag constant for " + t + "Value"
		case used[k] != "":
			good = false
			detail = fmt.Sprintf("%sValue and %sValue are written under the same tag %s", t, used[k], k.Name())
		case decType[k] != t:
			good = false
			detail = fmt.Sprintf("%sValue is written under tag %s, but UnmarshalBinary rebuilds %q values for that tag: the entry does not survive WAL encoding", t, k.Name(), decType[k])
		case guardTag[t] != k:
			good = false
			detail = fmt.Sprintf("the per-value arm for %sValue compares the key's tag with %s, not with %s", t, nameOfConst(guardTag[t]), k.Name())
		}
		if k != nil && used[k] == "" {
			used[k] = t
		}
		c.Check("value-tag-agreement", enc.Name+"/"+t+"Value", enc.PosStr(), good, detail)
	}
	// default arm of the decoder rejects unknown tags
	hasDefault := false
	for _, s := range dsw.Body.List {
		cc := s.(*ast.CaseClause)
		if cc.List == nil {
			hasDefault = true
			c.Check("unknown-value-tag-is-error", dec.Name+"/default", c.P.Pos(cc.Pos()), isErrorArm(dinfo, cc), "the default arm of the value-tag switch does not produce an error")
		}
	}
	c.Check("unknown-value-tag-is-error", dec.Name+"/has-default", c.P.Pos(dsw.Pos()), hasDefault, "the value-tag switch has no default arm: an unknown tag would be skipped without consuming its values, and the rest of the entry would be misread")
}

// ---- D1c: block type bytes --------------------------------------------------------------------

func runBlockTypeBytes(c *core.Ctx) {
	// the five block-type constants: those passed to packBlock
	encConst := map[string]map[*types.Const]bool{}
	decConst := map[string]map[*types.Const]bool{}
	isBlockConst := map[*types.Const]bool{}
	nEnc, nDec := 0, 0
	funcs := c.P.FuncsIn(tsm1)
	for _, f := range funcs {
		if f.Body == nil {
			continue
		}
		info := f.Info()
		t := typeNameIn(strings.TrimPrefix(f.Name, tsm1+"."))
		ast.Inspect(f.Body, func(n ast.Node) bool {
			ce, ok := n.(*ast.CallExpr)
			if !ok || len(ce.Args) != 4 {
				return true
			}
			if fn, ok := core.Callee(info, ce).(*types.Func); !ok || fn.Name() != "packBlock" {
				return true
			}
			k := constOf(info, ce.Args[1])
			if k == nil || t == "" {
				c.Check("encoder-packs-its-type-byte", f.Name+"/packBlock", c.P.Pos(ce.Pos()), false, "packBlock is called with a type byte that is not a constant, or from a function whose field type cannot be determined from its name")
				return true
			}
			nEnc++
			isBlockConst[k] = true
			if encConst[t] == nil {
				encConst[t] = map[*types.Const]bool{}
			}
			encConst[t][k] = true
			return true
		})
	}
	c.Floor("packBlock call sites", nEnc, 10)
	// decoders: Decode<T>Block and Decode<T>ArrayBlock compare block[0] with a block constant
	for _, f := range funcs {
		if f.Body == nil || f.Decl == nil {
			continue
		}
		name := f.Decl.Name.Name
		if !strings.HasPrefix(name, "Decode") || !strings.HasSuffix(name, "Block") {
			continue
		}
		t := typeNameIn(name)
		if t == "" {
			continue
		}
		info := f.Info()
		found := 0
		ast.Inspect(f.Body, func(n ast.Node) bool {
			be, ok := n.(*ast.BinaryExpr)
			if !ok || be.Op != token.NEQ && be.Op != token.EQL {
				return true
			}
			k := constOf(info, be.Y)
			if k == nil {
				k = constOf(info, be.X)
			}
			if k == nil || !isBlockConst[k] {
				return true
			}
			found++
			if decConst[t] == nil {
				decConst[t] = map[*types.Const]bool{}
			}
			decConst[t][k] = true
			good := encConst[t][k] && len(encConst[t]) == 1
			c.Check("decoder-requires-the-encoders-byte", f.Name, c.P.Pos(be.Pos()), good,
				fmt.Sprintf("%s requires type byte %s, but the %s encoders pack %v", name, k.Name(), t, keysOf(encConst[t])))
			return true
		})
		nDec++
		c.Check("decoder-checks-type-byte", f.Name, f.PosStr(), found >= 1, "the typed block decoder does not compare the block's type byte with its own block constant")
	}
	c.Floor("typed block decoders", nDec, 10)
	byConst := map[*types.Const]string{}
	for _, t := range fiveTypes {
		good := len(encConst[t]) == 1
		detail := ""
		if !good {
			detail = fmt.Sprintf("the %s encoders pack %v (want exactly one constant)", t, keysOf(encConst[t]))
		}
		for k := range encConst[t] {
			if prev := byConst[k]; prev != "" && prev != t {
				good = false
				detail = fmt.Sprintf("%s and %s blocks are packed with the same type byte %s", t, prev, k.Name())
			}
			byConst[k] = t
		}
		c.Check("one-type-byte-per-field-type", t, "", good, detail)
	}
	// dispatchers: a case clause listing exactly one block constant only mentions code of that type
	nDisp := 0
	for _, f := range funcs {
		if f.Body == nil {
			continue
		}
		info := f.Info()
		ast.Inspect(f.Body, func(n ast.Node) bool {
			sw, ok := n.(*ast.SwitchStmt)
			if !ok {
				return true
			}
			covered := map[*types.Const]bool{}
			isDispatch := false
			var def *ast.CaseClause
			for _, s := range sw.Body.List {
				cc := s.(*ast.CaseClause)
				if cc.List == nil {
					def = cc
					continue
				}
				ks := caseConsts(info, cc)
				for _, k := range ks {
					if isBlockConst[k] {
						covered[k] = true
						isDispatch = true
					}
				}
				if len(ks) != 1 || !isBlockConst[ks[0]] {
					continue
				}
				want := byConst[ks[0]]
				var wrong []string
				mentions := 0
				for _, st := range cc.Body {
					ast.Inspect(st, func(nd ast.Node) bool {
						id, ok := nd.(*ast.Ident)
						if !ok {
							return true
						}
						if k, isK := info.ObjectOf(id).(*types.Const); isK && isBlockConst[k] {
							return true
						}
						if t := typeNameIn(id.Name); t != "" {
							mentions++
							if t != want {
								wrong = append(wrong, id.Name)
							}
						}
						return true
					})
				}
				nDisp++
				c.Check("dispatch-routes-byte-to-its-type", f.Name+"/case:"+ks[0].Name(), c.P.Pos(cc.Pos()), len(wrong) == 0 && mentions > 0,
					fmt.Sprintf("the arm for %s (%s blocks) uses %v", ks[0].Name(), want, wrong))
			}
			if isDispatch {
				missing := []string{}
				for k := range byConst {
					if !covered[k] {
						missing = append(missing, k.Name())
					}
				}
				sort.Strings(missing)
				good := len(missing) == 0 || def != nil && !isErrorArm(info, def)
				c.Check("dispatch-covers-every-block-type", f.Name+"/switch", c.P.Pos(sw.Pos()), good, fmt.Sprintf("the switch on the block type has no arm for %v and its default arm only reports an error", missing))
			}
			return true
		})
	}
	c.Floor("block type dispatch arms", nDisp, 15)
}

func keysOf(m map[*types.Const]bool) []string {
	var s []string
	for k := range m {
		s = append(s, k.Name())
	}
	sort.Strings(s)
	return s
}

// ---- D1d: compression scheme tags ----------------------------------------------------------------

func runSchemeTags(c *core.Ctx) {
	groups := map[string][]string{
		"time": {"timeUncompressed", "timeCompressedPackedSimple", "timeCompressedRLE"},
		"int":  {"intUncompressed", "intCompressedSimple", "intCompressedRLE"},
	}
	groupOf := map[*types.Const]string{}
	for g, names := range groups {
		for _, n := range names {
			k, _ := c.P.LookupObj(tsm1, n).(*types.Const)
			c.Need(k != nil, "constant tsm1."+n)
			groupOf[k] = g
		}
	}
	produced := map[string]map[*types.Const]bool{"time": {}, "int": {}}
	funcs := c.P.FuncsIn(tsm1)
	nProd := 0
	for _, f := range funcs {
		if f.Body == nil {
			continue
		}
		info := f.Info()
		ast.Inspect(f.Body, func(n ast.Node) bool {
			as, ok := n.(*ast.AssignStmt)
			if !ok || as.Tok != token.ASSIGN || len(as.Lhs) != 1 || len(as.Rhs) != 1 {
				return true
			}
			ix, ok := as.Lhs[0].(*ast.IndexExpr)
			if !ok {
				return true
			}
			if tv := info.Types[ix.Index]; tv.Value == nil || tv.Value.Kind() != constant.Int || constant.Sign(tv.Value) != 0 {
				return true
			}
			sh, ok := ast.Unparen(as.Rhs[0]).(*ast.BinaryExpr)
			if !ok || sh.Op != token.SHL {
				return true
			}
			if k := constOf(info, sh.X); k != nil && groupOf[k] != "" {
				produced[groupOf[k]][k] = true
				nProd++
			}
			return true
		})
	}
	c.Floor("scheme tag writes (b[0] = tag << 4)", nProd, 12)
	for g := range groups {
		c.Check("encoders-emit-registered-schemes", g, "", len(produced[g]) == 3, fmt.Sprintf("the %s encoders emit %v", g, keysOf(produced[g])))
	}
	// switch-based decoders
	nSw := 0
	for _, f := range funcs {
		if f.Body == nil {
			continue
		}
		info := f.Info()
		k := 0
		ast.Inspect(f.Body, func(n ast.Node) bool {
			sw, ok := n.(*ast.SwitchStmt)
			if !ok {
				return true
			}
			g := ""
			covered := map[*types.Const]bool{}
			var def *ast.CaseClause
			for _, s := range sw.Body.List {
				cc := s.(*ast.CaseClause)
				if cc.List == nil {
					def = cc
				}
				for _, kc := range caseConsts(info, cc) {
					if groupOf[kc] != "" {
						g = groupOf[kc]
						covered[kc] = true
					}
				}
			}
			if g == "" {
				return true
			}
			k++
			if def != nil && !isErrorArm(info, def) {
				// the default arm handles the remaining schemes itself (two-way dispatch)
				return true
			}
			nSw++
			var missing []string
			for kc := range produced[g] {
				if !covered[kc] {
					missing = append(missing, kc.Name())
				}
			}
			sort.Strings(missing)
			c.Check("decoder-handles-every-emitted-scheme", fmt.Sprintf("%s/switch#%d", f.Name, k), c.P.Pos(sw.Pos()), len(missing) == 0,
				fmt.Sprintf("the encoders can emit %v, which this decoder dispatch does not handle (its default arm reports an unknown encoding): a valid block is undecodable on this path", missing))
			return true
		})
	}
	c.Floor("scheme dispatch switches", nSw, 3)
	// table-based batch decoders
	nTab := 0
	for _, f := range funcs {
		if f.Body == nil || f.Decl == nil || !strings.HasSuffix(f.Decl.Name.Name, "ArrayDecodeAll") {
			continue
		}
		info := f.Info()
		var guard *types.Const
		var table *types.Var
		ast.Inspect(f.Body, func(n ast.Node) bool {
			switch x := n.(type) {
			case *ast.BinaryExpr:
				if x.Op == token.GTR {
					if k := constOf(info, x.Y); k != nil && groupOf[k] != "" {
						guard = k
					}
				}
			case *ast.CallExpr:
				if ix, ok := x.Fun.(*ast.IndexExpr); ok {
					if id, ok := ix.X.(*ast.Ident); ok {
						if v, ok := info.ObjectOf(id).(*types.Var); ok && v.Parent() == v.Pkg().Scope() {
							table = v
						}
					}
				}
			}
			return true
		})
		if guard == nil && table == nil {
			continue
		}
		nTab++
		g := ""
		if guard != nil {
			g = groupOf[guard]
		}
		// the guard must be the largest emitted tag of its group
		good := guard != nil
		detail := "the batch decoder has no 'encoding > <largest scheme tag>' guard"
		if guard != nil {
			for k := range produced[g] {
				if constant.Compare(k.Val(), token.GTR, guard.Val()) {
					good = false
					detail = fmt.Sprintf("scheme %s can be emitted but is above the decoder's range guard %s and is routed to the invalid-encoding handler", k.Name(), guard.Name())
				}
			}
		}
		c.Check("batch-decoder-guard-admits-every-scheme", f.Name, f.PosStr(), good, detail)
		// table rows
		if table == nil {
			c.Check("batch-decoder-table-rows", f.Name, f.PosStr(), false, "no package-level function table is indexed by the scheme tag")
			continue
		}
		rows := tableRows(c.P, table)
		for k := range produced[g] {
			iv, _ := constant.Int64Val(k.Val())
			tail := lastWord(k.Name())
			good := int(iv) < len(rows) && strings.HasSuffix(rows[iv], tail)
			got := "<out of range>"
			if int(iv) < len(rows) {
				got = rows[iv]
			}
			c.Check("batch-decoder-table-rows", f.Name+"/"+k.Name(), f.PosStr(), good,
				fmt.Sprintf("row %d of %s is %s; the scheme tag %s needs the %s decoder in that row", iv, table.Name(), got, k.Name(), tail))
		}
	}
	c.Floor("table-dispatched batch decoders", nTab, 3)
}

// lastWord returns the last CamelCase word of an identifier (RLE, Simple, Uncompressed).
func lastWord(s string) string {
	i := len(s) - 1
	// trailing upper-case run (RLE) or a capitalised word
	if i >= 0 && s[i] >= 'A' && s[i] <= 'Z' {
		for i > 0 && s[i-1] >= 'A' && s[i-1] <= 'Z' {
			i--
		}
		return s[i:]
	}
	for i > 0 && !(s[i] >= 'A' && s[i] <= 'Z') {
		i--
	}
	return s[i:]
}

// tableRows returns the element names of a package-level array/slice literal of function values.
func tableRows(p *core.Prog, table *types.Var) []string {
	var rows []string
	for _, pkg := range p.Pkgs {
		if pkg.Types != table.Pkg() {
			continue
		}
		for _, file := range pkg.Syntax {
			ast.Inspect(file, func(n ast.Node) bool {
				vs, ok := n.(*ast.ValueSpec)
				if !ok {
					return true
				}
				for i, id := range vs.Names {
					if pkg.TypesInfo.Defs[id] != table || i >= len(vs.Values) {
						continue
					}
					if cl, ok := vs.Values[i].(*ast.CompositeLit); ok {
						for _, e := range cl.Elts {
							rows = append(rows, types.ExprString(e))
						}
					}
				}
				return true
			})
		}
	}
	return rows
}
