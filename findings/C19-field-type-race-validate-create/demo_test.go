// Demonstration for fix 92bc028 (C19, C02): copy into tsdb/ (package tsdb_test) and run
//   go test -vet=off -count=1 -run TestDemoFieldTypeRaceBetweenValidateAndCreate ./tsdb/
// Fails on 92bc028^ (float values acknowledged into an integer field), passes on 92bc028. The gate validator is adapted
// from a seed-writing agent's demo.
package tsdb_test

import (
	"fmt"
	"os"
	"path/filepath"
	"testing"
	"time"

	"github.com/influxdata/influxdb/models"
	"github.com/influxdata/influxdb/tsdb"
	_ "github.com/influxdata/influxdb/tsdb/engine"
	"github.com/influxdata/influxdb/tsdb/engine/tsm1"
	_ "github.com/influxdata/influxdb/tsdb/index"
	"github.com/influxdata/influxdb/tsdb/index/inmem"
	"github.com/influxdata/influxql"
)

// demoGateValidator performs the same check as the default field validator and
// then parks the writer until the test lets it go on, so that two writers can be
// made to pass validation before either of them has created the field.
type demoGateValidator struct {
	validated chan string
	release   map[string]chan struct{}
}

func (v *demoGateValidator) Validate(mf *tsdb.MeasurementFields, p models.Point) error {
	iter := p.FieldIterator()
	for iter.Next() {
		f := mf.FieldBytes(iter.FieldKey())
		if f == nil {
			continue
		}
		var typ influxql.DataType
		switch iter.Type() {
		case models.Float:
			typ = influxql.Float
		case models.Integer:
			typ = influxql.Integer
		case models.Unsigned:
			typ = influxql.Unsigned
		case models.Boolean:
			typ = influxql.Boolean
		case models.String:
			typ = influxql.String
		}
		if f.Type != typ {
			return tsdb.PartialWriteError{Reason: tsdb.ErrFieldTypeConflict.Error(), Dropped: 1}
		}
	}
	host := string(p.Tags().Get([]byte("host")))
	if ch, ok := v.release[host]; ok {
		v.validated <- host
		<-ch
	}
	return nil
}

func demoOpenShard(t *testing.T, fv tsdb.FieldValidator) (*tsdb.Shard, func()) {
	t.Helper()
	tmpDir, _ := os.MkdirTemp("", "shard_demo_test")
	sfile := MustOpenSeriesFile()

	opts := tsdb.NewEngineOptions()
	opts.Config.WALDir = filepath.Join(tmpDir, "wal")
	opts.InmemIndex = inmem.NewIndex(filepath.Base(tmpDir), sfile.SeriesFile)
	opts.SeriesIDSets = seriesIDSets([]*tsdb.SeriesIDSet{})
	opts.FieldValidator = fv

	sh := tsdb.NewShard(1, filepath.Join(tmpDir, "shard"), filepath.Join(tmpDir, "wal"), sfile.SeriesFile, opts)
	if err := sh.Open(); err != nil {
		t.Fatalf("error opening shard: %s", err)
	}
	return sh, func() {
		sh.Close()
		sfile.Close()
		os.RemoveAll(tmpDir)
	}
}

// demoStoredTypes reports, per series, the Go type of the values the engine holds for cpu.value.
func demoStoredTypes(t *testing.T, sh *tsdb.Shard, seriesKeys ...string) map[string]string {
	t.Helper()
	eng, err := sh.Engine()
	if err != nil {
		t.Fatal(err)
	}
	e := eng.(*tsm1.Engine)
	out := map[string]string{}
	for _, sk := range seriesKeys {
		vals := e.Cache.Values(tsm1.SeriesFieldKeyBytes(sk, "value"))
		if len(vals) == 0 {
			continue
		}
		out[sk] = fmt.Sprintf("%T", vals[0].Value())
	}
	return out
}

func demoCheckOneType(t *testing.T, sh *tsdb.Shard) {
	t.Helper()
	stored := demoStoredTypes(t, sh, "cpu,host=a", "cpu,host=b")
	seen := map[string]bool{}
	for _, typ := range stored {
		seen[typ] = true
	}
	if len(seen) > 1 {
		var ft influxql.DataType
		if f := sh.MeasurementFields([]byte("cpu")).Field("value"); f != nil {
			ft = f.Type
		}
		t.Fatalf("field cpu.value (declared %s) holds values of two types: %v", ft, stored)
	}
}

// Writer A has validated its point cpu,host=a value=1.0 (the field does not exist yet) and is parked right after the
// validator returned, i.e. inside Shard.validateSeriesAndFields between the type check and the "create any fields
// that are missing" loop. Writer B then writes cpu,host=b value=2i to completion, creating cpu.value as integer.
// Writer A goes on: it must be refused (type conflict), or at least not leave float values in the integer field.
func TestDemoFieldTypeRaceBetweenValidateAndCreate(t *testing.T) {
	gate := &demoGateValidator{
		validated: make(chan string, 1),
		release:   map[string]chan struct{}{"a": make(chan struct{})},
	}
	sh, done := demoOpenShard(t, gate)
	defer done()

	errA := make(chan error, 1)
	go func() {
		errA <- sh.WritePoints([]models.Point{
			models.MustNewPoint("cpu", models.NewTags(map[string]string{"host": "a"}), map[string]interface{}{"value": 1.0}, time.Unix(1, 0)),
		})
	}()
	<-gate.validated
	if err := sh.WritePoints([]models.Point{
		models.MustNewPoint("cpu", models.NewTags(map[string]string{"host": "b"}), map[string]interface{}{"value": int64(2)}, time.Unix(2, 0)),
	}); err != nil {
		t.Fatalf("writer b: %v", err)
	}
	close(gate.release["a"])
	if err := <-errA; err == nil {
		t.Errorf("writer a stored cpu.value as float after writer b created it as integer, and got no error")
	}
	demoCheckOneType(t, sh)
}
