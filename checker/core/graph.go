package core

import (
	"fmt"
	"go/ast"
	"go/token"
	"go/types"

	"golang.org/x/tools/go/cfg"
	"golang.org/x/tools/go/types/typeutil"
)

// EvKind classifies an event of the per-function event graph.
type EvKind int

const (
	EvEntry EvKind = iota
	EvExit
	EvCall   // a call expression evaluated here (not deferred, not go)
	EvRecv   // <-ch
	EvReturn // return statement (after its operands)
	EvAssign // assignment / := / var spec / ++ --
	EvSend   // ch <- v
	EvDefer  // registration of a deferred call
	EvGo     // go statement
	EvCond   // a branch condition (if/for); edges carry the outcome
	EvCase   // switch case expression / range head / select: multiway without refinable condition
	EvDeferred // the deferred call as it runs at function exit (synthetic)
	EvOther
)

func (k EvKind) String() string {
	return [...]string{"entry", "exit", "call", "recv", "return", "assign", "send", "defer", "go", "cond", "case", "deferred", "other"}[k]
}

// Edge is a successor edge; Cond is non-nil on the two edges leaving an EvCond.
type Edge struct {
	To   *Event
	Cond ast.Expr
	Val  bool
}

// Event is a vertex of the event graph.
type Event struct {
	ID     int
	Kind   EvKind
	Node   ast.Node      // the statement or expression
	Call   *ast.CallExpr // for EvCall, EvDefer, EvGo, EvDeferred
	Callee types.Object  // resolved callee (func, func-typed var/field, builtin) or nil
	Stmt   ast.Node      // enclosing cfg node (statement)
	Succ   []Edge
	Pred   []*Event
	Block  *cfg.Block
	Fn     *FuncInfo
	DeferOf *Event // for EvDeferred: its registration event
}

func (e *Event) Pos() token.Pos {
	if e.Node != nil {
		return e.Node.Pos()
	}
	if e.Kind == EvExit && e.Fn != nil && e.Fn.Body != nil {
		return e.Fn.Body.Rbrace
	}
	if e.Fn != nil && e.Fn.Body != nil {
		return e.Fn.Body.Lbrace
	}
	return token.NoPos
}

// Graph is the event graph of one function body.
type Graph struct {
	Fn     *FuncInfo
	CFG    *cfg.CFG
	Events []*Event
	Entry  *Event
	Exit   *Event
	Defers []*Event // registration events in source order
	first  map[*cfg.Block]*Event
}

// Callee resolves the callee object of a call (nil for conversions and
// calls of anonymous function values).
func Callee(info *types.Info, call *ast.CallExpr) types.Object {
	if o := typeutil.Callee(info, call); o != nil {
		return o
	}
	// func-typed field or variable: typeutil.Callee returns the *types.Var already;
	// remaining: call of a parenthesised/indexed expression.
	return nil
}

func noReturn(info *types.Info, call *ast.CallExpr) bool {
	o := Callee(info, call)
	switch o := o.(type) {
	case *types.Builtin:
		return o.Name() == "panic"
	case *types.Func:
		if o.Pkg() == nil {
			return false
		}
		full := o.Pkg().Path() + "." + o.Name()
		switch full {
		case "os.Exit", "log.Fatal", "log.Fatalf", "log.Fatalln", "log.Panic", "log.Panicf", "log.Panicln", "runtime.Goexit":
			return true
		}
	}
	return false
}

// Graph builds (once) the event graph of the function.
func (f *FuncInfo) Graph() *Graph {
	if f.graph != nil {
		return f.graph
	}
	info := f.Info()
	g := &Graph{Fn: f}
	if f.Body == nil {
		f.graph = g
		return g
	}
	g.CFG = cfg.New(f.Body, func(c *ast.CallExpr) bool { return !noReturn(info, c) })
	newEv := func(k EvKind, n ast.Node, b *cfg.Block) *Event {
		e := &Event{ID: len(g.Events), Kind: k, Node: n, Block: b, Fn: f}
		g.Events = append(g.Events, e)
		return e
	}
	link := func(a, b *Event) {
		a.Succ = append(a.Succ, Edge{To: b})
		b.Pred = append(b.Pred, a)
	}
	linkCond := func(a, b *Event, c ast.Expr, v bool) {
		a.Succ = append(a.Succ, Edge{To: b, Cond: c, Val: v})
		b.Pred = append(b.Pred, a)
	}
	g.Entry = newEv(EvEntry, nil, nil)
	g.Exit = newEv(EvExit, nil, nil)

	first := map[*cfg.Block]*Event{}
	last := map[*cfg.Block]*Event{}
	// Per block, expand nodes to events.
	for _, b := range g.CFG.Blocks {
		var chain []*Event
		add := func(e *Event) { chain = append(chain, e) }
		isCondBlock := len(b.Succs) == 2 && len(b.Nodes) > 0 &&
			(b.Succs[0].Kind == cfg.KindIfThen || (b.Succs[0].Kind == cfg.KindForBody && b.Kind == cfg.KindForLoop))
		// the case expressions of a tagless switch are ordinary conditions (for a tagged switch go/cfg synthesises
		// `tag == value` nodes that carry no type information; those stay non-refinable case events)
		if !isCondBlock && len(b.Succs) == 2 && len(b.Nodes) > 0 && b.Succs[0].Kind == cfg.KindSwitchCaseBody {
			if x, ok := b.Nodes[len(b.Nodes)-1].(ast.Expr); ok {
				if tv, has := f.Info().Types[x]; has && tv.Type != nil {
					if bt, ok := tv.Type.Underlying().(*types.Basic); ok && bt.Info()&types.IsBoolean != 0 {
						isCondBlock = true
					}
				}
			}
		}
		for i, n := range b.Nodes {
			stmt := n
			// sub-expression events in evaluation (post-)order
			var walk func(n ast.Node, skipTop bool)
			walk = func(n ast.Node, skipTop bool) {
				if n == nil {
					return
				}
				switch x := n.(type) {
				case *ast.FuncLit:
					return
				case *ast.DeferStmt:
					// operands of the deferred call are evaluated now
					for _, a := range x.Call.Args {
						walk(a, false)
					}
					if se, ok := x.Call.Fun.(*ast.SelectorExpr); ok {
						walk(se.X, false)
					}
					return
				case *ast.GoStmt:
					for _, a := range x.Call.Args {
						walk(a, false)
					}
					if se, ok := x.Call.Fun.(*ast.SelectorExpr); ok {
						walk(se.X, false)
					}
					return
				case *ast.CallExpr:
					walk(x.Fun, false)
					for _, a := range x.Args {
						walk(a, false)
					}
					e := newEv(EvCall, x, b)
					e.Call = x
					e.Callee = Callee(info, x)
					e.Stmt = stmt
					add(e)
					return
				case *ast.UnaryExpr:
					walk(x.X, false)
					if x.Op == token.ARROW {
						e := newEv(EvRecv, x, b)
						e.Stmt = stmt
						add(e)
					}
					return
				case *ast.RangeStmt, *ast.IfStmt, *ast.ForStmt, *ast.SwitchStmt, *ast.TypeSwitchStmt, *ast.SelectStmt, *ast.BlockStmt:
					return // never appear as cfg nodes
				}
				// generic traversal of children
				ast.Inspect(n, func(c ast.Node) bool {
					if c == n {
						return true
					}
					if c == nil {
						return false
					}
					walk(c, false)
					return false
				})
			}
			walk(n, true)
			var e *Event
			switch x := n.(type) {
			case *ast.ReturnStmt:
				e = newEv(EvReturn, x, b)
			case *ast.AssignStmt, *ast.ValueSpec, *ast.IncDecStmt:
				e = newEv(EvAssign, x, b)
			case *ast.SendStmt:
				e = newEv(EvSend, x, b)
			case *ast.DeferStmt:
				e = newEv(EvDefer, x, b)
				e.Call = x.Call
				e.Callee = Callee(info, x.Call)
				g.Defers = append(g.Defers, e)
			case *ast.GoStmt:
				e = newEv(EvGo, x, b)
				e.Call = x.Call
				e.Callee = Callee(info, x.Call)
			case ast.Expr:
				if isCondBlock && i == len(b.Nodes)-1 {
					e = newEv(EvCond, x, b)
				} else if len(b.Succs) == 2 && i == len(b.Nodes)-1 {
					e = newEv(EvCase, x, b)
				} else {
					e = newEv(EvOther, x, b)
				}
			default:
				e = newEv(EvOther, n, b)
			}
			e.Stmt = stmt
			add(e)
		}
		if len(chain) == 0 {
			// empty block: placeholder so edges can be wired
			k := EvOther
			if len(b.Succs) == 2 {
				k = EvCase
			}
			e := newEv(k, nil, b)
			chain = append(chain, e)
		}
		for i := 0; i+1 < len(chain); i++ {
			link(chain[i], chain[i+1])
		}
		first[b] = chain[0]
		last[b] = chain[len(chain)-1]
	}
	// Wire blocks.
	for _, b := range g.CFG.Blocks {
		l := last[b]
		if l.Kind == EvReturn {
			continue // wired to the deferred chain below
		}
		if len(b.Succs) == 0 {
			// fallthrough end of function, or a no-return call
			if b.Kind != cfg.KindUnreachable && !endsNoReturn(info, b) {
				// implicit return at end of body
				r := newEv(EvReturn, nil, b)
				link(l, r)
			}
			continue
		}
		if l.Kind == EvCond && len(b.Succs) == 2 {
			c := l.Node.(ast.Expr)
			linkCond(l, first[b.Succs[0]], c, true)
			linkCond(l, first[b.Succs[1]], c, false)
			continue
		}
		for _, s := range b.Succs {
			link(l, first[s])
		}
	}
	g.first = first
	if len(g.CFG.Blocks) > 0 {
		link(g.Entry, first[g.CFG.Blocks[0]])
	} else {
		r := newEv(EvReturn, nil, nil)
		link(g.Entry, r)
	}
	// Deferred chain: Return -> D_n -> ... -> D_1 -> Exit (all defers, LIFO by source order).
	var chainHead *Event = g.Exit
	for i := 0; i < len(g.Defers); i++ {
		d := g.Defers[i]
		e := newEv(EvDeferred, d.Node, nil)
		e.Call = d.Call
		e.Callee = d.Callee
		e.DeferOf = d
		link(e, chainHead)
		chainHead = e
	}
	for _, e := range g.Events {
		if e.Kind == EvReturn {
			link(e, chainHead)
		}
	}
	f.graph = g
	return g
}

func endsNoReturn(info *types.Info, b *cfg.Block) bool {
	if len(b.Nodes) == 0 {
		return false
	}
	if es, ok := b.Nodes[len(b.Nodes)-1].(*ast.ExprStmt); ok {
		if c, ok := es.X.(*ast.CallExpr); ok {
			return noReturn(info, c)
		}
	}
	return false
}

// Describe renders an event for reports.
func (e *Event) Describe() string {
	p := e.Fn.Prog
	switch e.Kind {
	case EvEntry:
		return "entry of " + e.Fn.Name
	case EvExit:
		return "exit of " + e.Fn.Name
	case EvCall, EvDefer, EvGo, EvDeferred:
		return fmt.Sprintf("%s %s @%s", e.Kind, ExprStr(e.Call.Fun), p.Pos(e.Pos()))
	case EvReturn:
		if e.Node == nil {
			return "implicit return of " + e.Fn.Name
		}
		return fmt.Sprintf("return @%s", p.Pos(e.Pos()))
	}
	if e.Node == nil {
		return fmt.Sprintf("%s (empty block)", e.Kind)
	}
	return fmt.Sprintf("%s %s @%s", e.Kind, NodeStr(e.Node), p.Pos(e.Pos()))
}

// ExprStr renders an expression compactly.
func ExprStr(e ast.Expr) string { return types.ExprString(e) }

// NodeStr renders a node compactly (statement kinds by their leading expression).
func NodeStr(n ast.Node) string {
	switch x := n.(type) {
	case ast.Expr:
		return ExprStr(x)
	case *ast.AssignStmt:
		s := ""
		for i, l := range x.Lhs {
			if i > 0 {
				s += ", "
			}
			s += ExprStr(l)
		}
		s += " " + x.Tok.String() + " "
		for i, r := range x.Rhs {
			if i > 0 {
				s += ", "
			}
			s += ExprStr(r)
		}
		return s
	case *ast.ReturnStmt:
		s := "return"
		for i, r := range x.Results {
			if i > 0 {
				s += ","
			}
			s += " " + ExprStr(r)
		}
		return s
	case *ast.SendStmt:
		return ExprStr(x.Chan) + " <- " + ExprStr(x.Value)
	case *ast.IncDecStmt:
		return ExprStr(x.X) + x.Tok.String()
	case *ast.DeferStmt:
		return "defer " + ExprStr(x.Call)
	case *ast.GoStmt:
		return "go " + ExprStr(x.Call)
	case *ast.ExprStmt:
		return ExprStr(x.X)
	case *ast.ValueSpec:
		s := "var"
		for _, n := range x.Names {
			s += " " + n.Name
		}
		return s
	}
	return fmt.Sprintf("%T", n)
}
