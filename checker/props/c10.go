package props

import (
	"fmt"
	"go/ast"
	"go/token"
	"go/types"
	"sort"
	"strings"

	"verifcheck/core"
)

func init() {
	register("C10", core.PropertyMeta{
		Explanation: "Decides structural clauses of delete correctness: D1 order inside a delete: tombstones committed on every overlapping file (the error of the parallel apply is checked) before the cache range is removed, before the WAL delete entry is written; the index is touched only after the file walk and the cache walk that cross out surviving series; " +
			"D2 level compactions, series-file compactions and TSI compactions are disabled before the first deleteSeriesRange on every path and re-enabled by a deferred call; enableLevelCompactions restarts compactions only when no delete still holds them; " +
			"D3 WAL replay handles every WALEntry implementation (deletes are replayed); D4 the inclusive range-overlap predicates equal their specification on every ordering; D5 lock pairing in the delete's closures; " +
			"D6 FileStore.Apply reports an error if any file's function failed (a nil result never overwrites an error); D7 the reconciliation pass examines every file (no time-range filter) so a series that still has points in a non-overlapping file stays listed; D8 a delete covers every container of not-yet-filed points: Cache.DeleteRange filters the in-flight snapshot too, or the delete path excludes cache snapshots while it runs (neither today: recorded known finding with a demonstration); D9 a tag value is listed only after its series were narrowed to the undeleted ones (tsi1 keeps a value after its last series was dropped; fixed in 185e5ef); D10 a cache entry's values are indexed only after Deduplicate sorted them; D11 the bounds of the delete batch are read after the batch is sorted; D12 a failed tombstone commit fails the delete on every path. " +
			"NOT decided: exactness of Values.Exclude index arithmetic, tombstone file format.",
		RuleText:    "obligation = (rule, function, site); outcome/marker path exploration; registry agreement of the WAL entry family; exhaustive predicate evaluation; lock balance exploration",
		Assumptions: commonAssumptions,
	}, runC10)
}

// deleteBatchVar finds the key-batch variable handed to deleteSeriesRange and whether it is initialised empty.
func deleteBatchVar(f *core.FuncInfo, dels []*core.Event) (types.Object, bool) {
	info := f.Info()
	var obj types.Object
	for _, e := range dels {
		if len(e.Call.Args) >= 1 {
			if id, ok := ast.Unparen(e.Call.Args[0]).(*ast.Ident); ok {
				obj = info.ObjectOf(id)
			}
		}
	}
	if obj == nil {
		return nil, false
	}
	empty := false
	ast.Inspect(f.Body, func(nd ast.Node) bool {
		as, ok := nd.(*ast.AssignStmt)
		if !ok || as.Tok != token.DEFINE || len(as.Lhs) != 1 || !isIdentObj(info, as.Lhs[0], obj) {
			return true
		}
		if ce, ok := ast.Unparen(as.Rhs[0]).(*ast.CallExpr); ok && len(ce.Args) >= 2 {
			if b, ok := core.Callee(info, ce).(*types.Builtin); ok && b.Name() == "make" && isZeroLit(info, ce.Args[1]) {
				empty = true
			}
		}
		return true
	})
	return obj, empty
}

func runC10(c *core.Ctx) {
	const dsr = tsm1 + ".(*Engine).deleteSeriesRange"

	// classify the closures passed to FileStore.Apply inside deleteSeriesRange
	classify := func(f *core.FuncInfo) (probe, tomb, recon *core.FuncInfo, calls map[*core.FuncInfo]*core.Event) {
		calls = map[*core.FuncInfo]*core.Event{}
		apply := fieldCallIn(f, "Engine.FileStore", "Apply")
		for _, e := range f.Graph().Find(evCall(apply)) {
			lit, ok := ast.Unparen(e.Call.Args[0]).(*ast.FuncLit)
			if !ok {
				continue
			}
			li := c.P.LitInfo(lit)
			calls[li] = e
			hasBatch := len(li.Graph().Find(func(x *core.Event) bool {
				return x.Kind == core.EvCall && core.CalleeName(x) == tsm1+".TSMFile.BatchDelete"
			})) > 0
			crosses := false
			ast.Inspect(lit.Body, func(nd ast.Node) bool {
				if as, ok := nd.(*ast.AssignStmt); ok && len(as.Lhs) == 1 {
					if ix, ok := as.Lhs[0].(*ast.IndexExpr); ok && core.ExprStr(ix.X) == paramName(f, 0) {
						crosses = true
					}
				}
				return true
			})
			switch {
			case hasBatch:
				tomb = li
			case crosses:
				recon = li
			default:
				probe = li
			}
		}
		return
	}

	c.Clause("D1", func() {
		f := c.Fn(dsr)
		_, tomb, recon, calls := classify(f)
		c.Need(tomb != nil && recon != nil, "tombstone and reconciliation closures of deleteSeriesRange")
		tombCall := func(ce *ast.CallExpr) bool { return ce == calls[tomb].Call }
		reconCall := func(ce *ast.CallExpr) bool { return ce == calls[recon].Call }
		cacheDel := fieldCallIn(f, "Engine.Cache", "DeleteRange")
		walDel := fieldCallIn(f, "Engine.WAL", "DeleteRange")
		drop := func(e *core.Event) bool {
			return e.Kind == core.EvCall && core.RecvFieldOf(e) == "Engine.index" && strings.HasPrefix(e.Call.Fun.(*ast.SelectorExpr).Sel.Name, "DropSeries")
		}
		okRule(c, f, "tombstones-before-cache", "FileStore.Apply(tombstones)", "Cache.DeleteRange", tombCall, evCall(cacheDel))
		orderRule(c, f, "cache-before-wal", "Cache.DeleteRange", "WAL.DeleteRange", evCall(cacheDel), evCall(walDel))
		errPropagated(c, f, "error-surfaces", "WAL.DeleteRange", walDel)
		okRule(c, f, "index-after-reconciliation", "FileStore.Apply(reconcile)", "index.DropSeriesList", reconCall, drop)
		orderRule(c, f, "index-after-reconciliation", "Cache.Keys", "index.DropSeriesList", evCall(fieldCallIn(f, "Engine.Cache", "Keys")), drop)
		// the key dropped from the index is one that survived neither in files nor in the cache:
		// the append to the drop list is control-dependent on `!hasCacheValues`
		var dropList types.Object
		for _, e := range f.Graph().Find(drop) {
			if len(e.Call.Args) >= 2 {
				if id, ok := ast.Unparen(e.Call.Args[1]).(*ast.Ident); ok {
					dropList = f.Info().ObjectOf(id)
				}
			}
		}
		c.Need(dropList != nil, "key list passed to DropSeriesList")
		isCacheVals := func(x ast.Expr) bool { return strings.Contains(core.ExprStr(x), "hasCacheValues") }
		isWiped := func(x ast.Expr) bool { return strings.Contains(core.ExprStr(x), "len(k) == 0") }
		bad := ""
		n := 0
		complete := f.Flow().ExplorePaths(func(k core.VarKey, fct core.Fact) bool {
			return k.Root == nil && strings.HasPrefix(k.Path, "cond:") && fct.Def != nil && (isCacheVals(fct.Def) || isWiped(fct.Def))
		}, func(e *core.Event, st core.State) {
			if e.Kind != core.EvAssign {
				return
			}
			as, ok := e.Node.(*ast.AssignStmt)
			if !ok || len(as.Lhs) != 1 || !isIdentObj(f.Info(), as.Lhs[0], dropList) || as.Tok != token.ASSIGN {
				return
			}
			n++
			if core.CondOutcome(st, isCacheVals) != 2 {
				bad = "a series key is queued for removal from the index on a path where the cache was not found empty for it"
			}
			if core.CondOutcome(st, isWiped) != 2 {
				bad = "a series key that was crossed out (still has data in a file or the cache) is queued for removal from the index"
			}
		})
		c.Need(complete && n >= 1, "append to the index drop list")
		c.Check("drop-only-without-data", f.Name+"/deleteKeyList", f.PosStr(), bad == "", bad)
		// tombstone closure: commit on success, rollback on a failed DeleteRange, errors returned
		commit := func(e *core.Event) bool { return e.Kind == core.EvCall && core.CalleeName(e) == tsm1+".BatchDeleter.Commit" }
		delr := func(ce *ast.CallExpr) bool {
			fn, ok := core.Callee(tomb.Info(), ce).(*types.Func)
			return ok && core.FuncName(fn) == tsm1+".BatchDeleter.DeleteRange"
		}
		findOrAbort(c, tomb, "batch.Commit", commit, 1)
		errPropagated(c, tomb, "error-surfaces", "batch.DeleteRange", delr)
		errPropagated(c, tomb, "error-surfaces", "batch.Commit", func(ce *ast.CallExpr) bool {
			fn, ok := core.Callee(tomb.Info(), ce).(*types.Func)
			return ok && core.FuncName(fn) == tsm1+".BatchDeleter.Commit"
		})
		// a file that holds matching keys in the time range is never skipped without its batch being committed:
		// every nil-able return of the closure is either the skip for a non-overlapping file (before BatchDelete) or Commit's result
		k := 0
		for _, e := range tomb.Graph().Events {
			if e.Kind != core.EvReturn || !tomb.Flow().Reachable(e) {
				continue
			}
			rf, x := tomb.ReturnErrFact(e)
			if rf.Nil == core.NonNil {
				continue
			}
			k++
			good := false
			if x != nil {
				if ce, ok := ast.Unparen(x).(*ast.CallExpr); ok && commit(&core.Event{Kind: core.EvCall, Call: ce, Callee: core.Callee(tomb.Info(), ce), Fn: tomb}) {
					good = true
				}
			}
			if !good {
				// skip before BatchDelete
				bd := func(x *core.Event) bool {
					return x.Kind == core.EvCall && core.CalleeName(x) == tsm1+".TSMFile.BatchDelete"
				}
				if p := tomb.Flow().PathAvoiding(tomb.Graph().Entry, func(x *core.Event) bool { return x == e }, nil); p != nil {
					passes := false
					for _, pe := range p {
						if bd(pe) {
							passes = true
						}
					}
					good = !passes && len(tomb.MustPrecede(func(x *core.Event) bool { return false }, bd)) >= 0
					// and no path reaches this return through BatchDelete
					if good {
						for _, b := range tomb.Graph().Find(bd) {
							if q := tomb.Flow().PathAvoiding(b, func(x *core.Event) bool { return x == e }, nil); q != nil {
								good = false
							}
						}
					}
				}
			}
			c.Check("batch-committed", fmt.Sprintf("%s/return#%d", tomb.Name, k), c.P.Pos(e.Pos()), good,
				"the tombstone closure returns without an error after opening a delete batch without committing it")
		}
	})

	c.Clause("D2", func() {
		f := c.Fn(tsm1 + ".(*Engine).DeleteSeriesRangeWithPredicate")
		del := calleeIn(f, dsr)
		dels := findOrAbort(c, f, "deleteSeriesRange", evCall(del), 1)
		type guard struct {
			name   string
			on     core.Match
			offDef func(e *core.Event) bool
		}
		callNamed := func(recvField, method string) core.Match {
			return func(e *core.Event) bool {
				if e.Kind != core.EvCall {
					return false
				}
				se, ok := e.Call.Fun.(*ast.SelectorExpr)
				return ok && se.Sel.Name == method && (recvField == "" || core.RecvFieldOf(e) == recvField)
			}
		}
		deferNamed := func(recvField, method string) func(e *core.Event) bool {
			return func(e *core.Event) bool {
				if e.Kind != core.EvDefer {
					return false
				}
				se, ok := e.Call.Fun.(*ast.SelectorExpr)
				return ok && se.Sel.Name == method && (recvField == "" || core.RecvFieldOf(e) == recvField)
			}
		}
		guards := []guard{
			{"level-compactions", evCall(calleeIn(f, tsm1+".(*Engine).disableLevelCompactions")), func(e *core.Event) bool {
				return e.Kind == core.EvDefer && core.CalleeName(e) == tsm1+".(*Engine).enableLevelCompactions"
			}},
			{"series-file-compactions", callNamed("Engine.sfile", "DisableCompactions"), deferNamed("Engine.sfile", "EnableCompactions")},
		}
		for _, gd := range guards {
			gd := gd
			findOrAbort(c, f, gd.name+" disable", gd.on, 1)
			bad := map[*core.Event]string{}
			// the batch of keys starts empty and only grows by appends inside the loop body (after the disable block)
			batchObj, batchEmptyInit := deleteBatchVar(f, dels)
			nonEmptyBatch := func(x ast.Expr) bool {
				be, ok := ast.Unparen(x).(*ast.BinaryExpr)
				if !ok || be.Op != token.GTR || !isZeroLit(f.Info(), be.Y) {
					return false
				}
				ce, ok := ast.Unparen(be.X).(*ast.CallExpr)
				return ok && isLenOf(f.Info(), ce, batchObj)
			}
			complete := f.Flow().ExplorePathsMarked(func(k core.VarKey, fct core.Fact) bool {
				if k.Root == nil && strings.HasPrefix(k.Path, "cond:") && fct.Def != nil && nonEmptyBatch(fct.Def) {
					return true
				}
				return k.Root != nil && k.Path == "" && fct.Bool != 0
			}, func(e *core.Event) string {
				if gd.on(e) {
					return "off"
				}
				if gd.offDef(e) {
					return "reenable-deferred"
				}
				if e.Kind == core.EvAssign && batchObj != nil {
					if as, ok := e.Node.(*ast.AssignStmt); ok && len(as.Lhs) == 1 && isIdentObj(f.Info(), as.Lhs[0], batchObj) {
						if ce, ok := ast.Unparen(as.Rhs[0]).(*ast.CallExpr); ok {
							if b, ok := core.Callee(f.Info(), ce).(*types.Builtin); ok && b.Name() == "append" {
								return "batch-appended"
							}
						}
					}
				}
				return ""
			}, func(e *core.Event, st core.State) {
				if e.Kind == core.EvCall && del(e.Call) {
					// a call guarded by `len(batch) > 0` on a path that never appended to the (initially empty) batch is infeasible
					if batchEmptyInit && !core.Marked(st, "batch-appended") && core.CondOutcome(st, nonEmptyBatch) == 1 {
						return
					}
					if !core.Marked(st, "off") {
						bad[e] = gd.name + " are not disabled on a path to deleteSeriesRange: a compaction that read the files before their tombstones installs its output afterwards and the deleted points come back"
					} else if !core.Marked(st, "reenable-deferred") {
						bad[e] = gd.name + " are disabled but re-enabling is not deferred on this path"
					}
				}
			})
			c.Need(complete, "exploration bound DeleteSeriesRangeWithPredicate")
			for i, e := range dels {
				c.Check("compactions-held-during-delete", fmt.Sprintf("%s/%s@deleteSeriesRange#%d", f.Name, gd.name, i+1), c.P.Pos(e.Pos()), bad[e] == "", bad[e])
			}
		}
		// disableLevelCompactions(true): the waiting form (counts the holder)
		for i, e := range f.Graph().Find(evCall(calleeIn(f, tsm1+".(*Engine).disableLevelCompactions"))) {
			tv := f.Info().Types[e.Call.Args[0]]
			c.Check("compactions-held-during-delete", fmt.Sprintf("%s/disableLevelCompactions(true)#%d", f.Name, i+1), c.P.Pos(e.Pos()), tv.Value != nil && tv.Value.String() == "true",
				"the delete must register itself as a holder (wait=true) so that a concurrent enable does not restart compactions")
		}
		// enableLevelCompactions restarts only when no holder is left
		en := c.Fn(tsm1 + ".(*Engine).enableLevelCompactions")
		restart := fieldCallIn(en, "Engine.Compactor", "EnableCompactions")
		findOrAbort(c, en, "Compactor.EnableCompactions", evCall(restart), 1)
		workers := func(x ast.Expr) bool { return strings.Contains(core.ExprStr(x), "levelWorkers != 0") || strings.Contains(core.ExprStr(x), "levelWorkers == 0") }
		bad := ""
		complete := en.Flow().ExplorePaths(func(k core.VarKey, fct core.Fact) bool {
			return k.Root == nil && strings.HasPrefix(k.Path, "cond:") && fct.Def != nil && workers(fct.Def)
		}, func(e *core.Event, st core.State) {
			if e.Kind == core.EvCall && restart(e.Call) {
				established := false
				for k, fct := range st {
					if k.Root == nil && strings.HasPrefix(k.Path, "cond:") && fct.Def != nil && workers(fct.Def) {
						s := core.ExprStr(fct.Def)
						if (strings.Contains(s, "levelWorkers != 0") && fct.Bool == 2) || (strings.Contains(s, "levelWorkers == 0") && fct.Bool == 1) {
							established = true
						}
					}
				}
				if !established {
					bad = "level compactions are restarted on a path that did not establish levelWorkers == 0: a caller without the hold (SetCompactionsEnabled from a write to an idle shard, the shard monitor) re-enables compactions while a delete is in progress"
				}
			}
		})
		c.Need(complete, "exploration bound enableLevelCompactions")
		c.Check("restart-only-without-holders", en.Name+"/Compactor.EnableCompactions", en.PosStr(), bad == "", bad)
	})

	c.Clause("D3", func() {
		iface := c.P.LookupObj(tsm1, "WALEntry")
		c.Need(iface != nil, "interface tsm1.WALEntry")
		it := iface.Type().Underlying().(*types.Interface)
		var impls []string
		sc := c.P.ByPath[tsm1].Types.Scope()
		for _, nm := range sc.Names() {
			tn, ok := sc.Lookup(nm).(*types.TypeName)
			if !ok {
				continue
			}
			if _, isIface := tn.Type().Underlying().(*types.Interface); isIface {
				continue
			}
			if types.Implements(types.NewPointer(tn.Type()), it) {
				impls = append(impls, "*tsm1."+nm)
			}
		}
		sort.Strings(impls)
		c.Floor("WALEntry implementations", len(impls), 3)
		ld := c.Fn(tsm1 + ".(*CacheLoader).Load")
		cases := map[string]bool{}
		var walk func(x *core.FuncInfo)
		walk = func(x *core.FuncInfo) {
			for _, sw := range typeSwitches(x) {
				for _, cs := range sw.cases {
					cases[cs] = true
				}
			}
			for _, l := range x.Lits {
				walk(l)
			}
		}
		walk(ld)
		for _, im := range impls {
			c.Check("replay-handles-every-entry", ld.Name+"/"+im, ld.PosStr(), cases[im], "CacheLoader.Load has no case for WAL entry type "+im+": after a restart such entries (e.g. deletes) are silently not replayed and deleted points come back")
		}
		// the reader constructs every entry type it can be asked to decode
		nx := c.Fn(tsm1 + ".(*WALSegmentReader).Next")
		consts := map[string]bool{}
		for _, nm := range sc.Names() {
			if k, ok := sc.Lookup(nm).(*types.Const); ok {
				if nt, ok := k.Type().(*types.Named); ok && nt.Obj().Name() == "WalEntryType" {
					consts["tsm1."+nm] = true
				}
			}
		}
		got := map[string]bool{}
		// the dispatch may sit in Next itself or in an unexported helper it calls
		for _, g := range withLocalHelpers(c.P, nx) {
			for _, sw := range valueSwitches(g) {
				for _, cs := range sw.cases {
					got[cs] = true
				}
			}
		}
		for k := range consts {
			c.Check("replay-handles-every-entry", nx.Name+"/"+k, nx.PosStr(), got[k], "WALSegmentReader.Next has no case for entry type constant "+k)
		}
	})

	c.Clause("D4", func() {
		pc := &core.PredCompiler{P: c.P}
		type spec struct {
			fn    string
			roles map[string]string
		}
		for _, sp := range []spec{
			{tsm1 + ".TimeRange.Overlaps", map[string]string{`\.Min$`: "lo", `\.Max$`: "hi", `^\$0$`: "min", `^\$1$`: "max"}},
			{tsm1 + ".(*indirectIndex).OverlapsTimeRange", map[string]string{`\.minTime$`: "lo", `\.maxTime$`: "hi", `^\$0$`: "min", `^\$1$`: "max"}},
		} {
			f := c.Fn(sp.fn)
			x, err := pc.ReturnPredicate(f)
			if err != nil {
				c.Check("inclusive-overlap", f.Name, f.PosStr(), false, "undecided: "+err.Error())
				continue
			}
			impl, err := pc.CompileIn(f, x)
			if err != nil {
				c.Check("inclusive-overlap", f.Name, f.PosStr(), false, "undecided: "+err.Error())
				continue
			}
			ren, err := impl.Rename(sp.roles)
			if err != nil {
				c.Check("inclusive-overlap", f.Name, f.PosStr(), false, "undecided: "+err.Error())
				continue
			}
			diff, n, err := core.Equivalent(ren, core.And(core.Le("lo", "max"), core.Le("min", "hi")))
			c.Counts["orderings_evaluated"] += n
			c.Check("inclusive-overlap", f.Name, f.PosStr(), err == nil && diff == "", fmt.Sprintf("the range overlap test must be inclusive at both ends (lo <= max && hi >= min): %v %s", err, diff))
		}
		// the delete's file filter uses the reader's overlap predicate with the delete's own bounds
		f := c.Fn(dsr)
		_, tomb, _, _ := classify(f)
		c.Need(tomb != nil, "tombstone closure")
		uses := 0
		for _, e := range tomb.Graph().Events {
			if e.Kind == core.EvCall && core.CalleeName(e) == tsm1+".TSMFile.OverlapsTimeRange" && len(e.Call.Args) == 2 {
				uses++
				good := core.ExprStr(e.Call.Args[0]) == paramName(f, 1) && core.ExprStr(e.Call.Args[1]) == paramName(f, 2)
				c.Check("inclusive-overlap", fmt.Sprintf("%s/OverlapsTimeRange(min,max)#%d", tomb.Name, uses), c.P.Pos(e.Pos()), good, "the file filter must be evaluated with the delete's own (min, max)")
			}
		}
		c.Need(uses >= 1, "time-range filter in the tombstone closure")
	})

	c.Clause("D5", func() {
		f := c.Fn(dsr)
		var all []*core.FuncInfo
		var walk func(x *core.FuncInfo)
		walk = func(x *core.FuncInfo) {
			all = append(all, x)
			for _, l := range x.Lits {
				walk(l)
			}
		}
		walk(f)
		walk(c.Fn(tsm1 + ".(*Engine).DeleteSeriesRangeWithPredicate"))
		walk(c.Fn(tsm1 + ".(*FileStore).Apply"))
		n := 0
		for _, g := range all {
			acq := map[string]bool{}
			for _, op := range g.LockOps() {
				if op.Acquire && !op.Defer {
					acq[op.Key] = true
				}
			}
			if len(acq) == 0 {
				continue
			}
			leaks, complete := g.LockLeaks()
			c.Need(complete, "lock exploration bound "+g.Name)
			leaked := map[string]*core.LockLeak{}
			for _, l := range leaks {
				leaked[l.Key] = l
			}
			var keys []string
			for k := range acq {
				keys = append(keys, k)
			}
			sort.Strings(keys)
			for _, k := range keys {
				n++
				l, bad := leaked[k]
				pos, detail := g.PosStr(), ""
				if bad {
					pos = c.P.Pos(l.Ret.Pos())
					detail = k + " is still held at the return @" + pos + ": every other file's goroutine that needs it blocks forever and the delete never completes"
				}
				c.Check("lock-pairing", g.Name+"/"+k, pos, !bad, detail)
			}
		}
		c.Floor("lock acquisitions on the delete path", n, 4)
	})

	c.Clause("D6", func() {
		f := c.Fn(tsm1 + ".(*FileStore).Apply")
		info := f.Info()
		// the returned variable
		var res types.Object
		for _, e := range f.Graph().Events {
			if e.Kind == core.EvReturn && e.Node != nil {
				if x, _ := f.ResultExpr(e, 0); x != nil {
					if id, ok := ast.Unparen(x).(*ast.Ident); ok {
						res = info.ObjectOf(id)
					}
				}
			}
		}
		c.Need(res != nil, "result variable of FileStore.Apply")
		n := 0
		for _, e := range f.Graph().Events {
			if e.Kind != core.EvAssign {
				continue
			}
			as, ok := e.Node.(*ast.AssignStmt)
			if !ok || len(as.Lhs) != 1 || !isIdentObj(info, as.Lhs[0], res) || as.Tok != token.ASSIGN {
				continue
			}
			n++
			// the value assigned is known non-nil here (guarded by `err != nil`)
			fact := f.Flow().FactOfExpr(e, as.Rhs[0])
			c.Check("any-failure-is-reported", fmt.Sprintf("%s/assign-result#%d", f.Name, n), c.P.Pos(e.Pos()), fact.Nil == core.NonNil,
				"the collected result of the parallel apply is overwritten with a value that may be nil: a later file's success erases an earlier file's error, and the delete reports success while one file kept its points")
		}
		c.Floor("assignments to Apply's result", n, 1)
		// every goroutine's result is received: the receive loop runs cap(errC) = len(files) times
		recv := 0
		for _, e := range f.Graph().Events {
			if e.Kind == core.EvRecv {
				recv++
			}
		}
		c.Check("any-failure-is-reported", f.Name+"/receives-every-result", f.PosStr(), recv >= 1, "FileStore.Apply must receive the result of every file's goroutine")
	})

	c.Clause("D7", func() {
		f := c.Fn(dsr)
		_, _, recon, _ := classify(f)
		c.Need(recon != nil, "reconciliation closure")
		filters := 0
		for _, e := range recon.Graph().Events {
			if e.Kind == core.EvCall {
				switch core.CalleeName(e) {
				case tsm1 + ".TSMFile.OverlapsTimeRange", tsm1 + ".TSMFile.TimeRange":
					filters++
				}
			}
		}
		c.Check("reconcile-every-file", recon.Name+"/no-time-filter", recon.PosStr(), filters == 0,
			"the pass that keeps a series listed while some file still holds points for it skips files by time range: a series whose remaining points lie outside the deleted range is dropped from the index although data remains (the points become unreachable)")
		// it walks from the smallest deleted key
		seek := 0
		for _, e := range recon.Graph().Events {
			if e.Kind == core.EvCall && core.CalleeName(e) == tsm1+".TSMFile.Seek" {
				seek++
			}
		}
		c.Check("reconcile-every-file", recon.Name+"/seeks-from-min-key", recon.PosStr(), seek >= 1, "the reconciliation walk must start at the smallest deleted key of each file")
	})

	c.Clause("D9", func() {
		// A tag value is listed only for a series that still exists: an index may keep the value after its last
		// series was dropped (tsi1 does), so every path that adds a value to the answer of
		// IndexSet.MeasurementTagKeyValuesByExpr first narrows the value's series to the undeleted ones.
		f := c.Fn("tsdb.IndexSet.MeasurementTagKeyValuesByExpr")
		info := f.Info()
		live := evCall(calleeIn(f, "tsdb.FilterUndeletedSeriesIDIterator"))
		var resObj types.Object
		for _, e := range f.Graph().Events {
			if e.Kind != core.EvReturn {
				continue
			}
			if x, _ := f.ResultExpr(e, 0); x != nil {
				if id, ok := ast.Unparen(x).(*ast.Ident); ok && !isNilExpr(info, x) {
					resObj = info.ObjectOf(id)
				}
			}
		}
		c.Need(resObj != nil, "result variable of MeasurementTagKeyValuesByExpr")
		n := 0
		for _, e := range f.Graph().Events {
			if e.Kind != core.EvAssign {
				continue
			}
			as, ok := e.Node.(*ast.AssignStmt)
			if !ok || len(as.Lhs) != 1 || len(as.Rhs) != 1 {
				continue
			}
			ix, ok := as.Lhs[0].(*ast.IndexExpr)
			if !ok || !isIdentObj(info, ix.X, resObj) {
				continue
			}
			ce, ok := as.Rhs[0].(*ast.CallExpr)
			if !ok {
				continue
			}
			if b, ok := core.Callee(info, ce).(*types.Builtin); !ok || b.Name() != "append" {
				continue
			}
			n++
			target := e
			paths := f.MustPrecede(live, func(x *core.Event) bool { return x == target })
			detail := ""
			if len(paths) > 0 {
				detail = "a tag value is added to the answer on a path that never narrowed its series to the undeleted ones: a value whose series were all dropped stays listed (the TSI index keeps such values): " + core.PathStr(paths[0])
			}
			c.Check("listed-value-has-live-series", fmt.Sprintf("%s/append#%d", f.Name, n), c.P.Pos(e.Pos()), len(paths) == 0, detail)
		}
		c.Floor("appends of a tag value to the answer", n, 1)
	})

	c.Clause("D10", func() {
		// A cache entry's values are in arrival order until Deduplicate sorted them. A positional read of
		// entry.values (first/last element, an index) is meaningful only after the sort: a range delete that looks at
		// values[0] / values[n-1] of an unsorted entry to decide that nothing overlaps leaves in-range points behind.
		// Matcher liveness: positional reads of tsm1.Values expressions are found elsewhere in the package.
		valuesF := c.P.LookupField(tsm1, "entry", "values")
		c.Need(valuesF != nil, "field entry.values")
		all, n := 0, 0
		for _, g := range c.P.FuncsIn(tsm1) {
			if g.Body == nil {
				continue
			}
			info := g.Info()
			ast.Inspect(g.Body, func(nd ast.Node) bool {
				ix, ok := nd.(*ast.IndexExpr)
				if !ok {
					return true
				}
				t := info.TypeOf(ix.X)
				if t == nil || !strings.HasSuffix(t.String(), "tsm1.Values") {
					return true
				}
				all++
				se, ok := ast.Unparen(ix.X).(*ast.SelectorExpr)
				if !ok || info.ObjectOf(se.Sel) != types.Object(valuesF) {
					return true
				}
				n++
				// dominated by a Deduplicate of the same field in this function?
				dedup := func(e *core.Event) bool {
					if e.Kind != core.EvCall || e.Call == nil {
						return false
					}
					fs, ok := e.Call.Fun.(*ast.SelectorExpr)
					if !ok || fs.Sel.Name != "Deduplicate" {
						return false
					}
					rs, ok := ast.Unparen(fs.X).(*ast.SelectorExpr)
					return ok && info.ObjectOf(rs.Sel) == types.Object(valuesF)
				}
				var at *core.Event
				for _, e := range g.Graph().Events {
					if e.Node != nil && e.Node.Pos() <= ix.Pos() && ix.Pos() < e.Node.End() {
						if at == nil || e.Pos() >= at.Pos() {
							at = e
						}
					}
				}
				good := false
				if at != nil {
					target := at
					good = len(g.MustPrecede(dedup, func(x *core.Event) bool { return x == target })) == 0
				}
				c.Check("positional-read-only-after-sort", fmt.Sprintf("%s/entry.values[...]#%d", g.Root().Name, n), c.P.Pos(ix.Pos()), good,
					"entry.values is indexed on a path where it has not been sorted by Deduplicate: the values are in arrival order, so first/last element say nothing about the time range the entry covers")
				return true
			})
		}
		c.Floor("positional reads of tsm1.Values expressions (matcher liveness)", all, 5)
	})

	c.Clause("D11", func() {
		// deleteSeriesRange sorts the batch of series keys in place and then bounds every file walk by the first and
		// last key. The positional reads of the batch (seriesKeys[0], seriesKeys[len-1]) therefore come after the
		// sort; bounds taken from the batch as handed over (index order = creation order) skip the tombstones of every
		// series that sorts below the originally-first key while the series is still dropped from the index.
		f := c.Fn(dsr)
		info := f.Info()
		var batch types.Object
		if f.Decl != nil && f.Decl.Type.Params != nil {
			for _, fld := range f.Decl.Type.Params.List {
				for _, nm := range fld.Names {
					if t := info.TypeOf(nm); t != nil && t.String() == "[][]byte" {
						batch = info.Defs[nm]
					}
				}
			}
		}
		c.Need(batch != nil, "the [][]byte batch parameter of deleteSeriesRange")
		var sortCall *ast.CallExpr
		isSort := func(x ast.Expr) *ast.CallExpr {
			ce, ok := x.(*ast.CallExpr)
			if !ok || len(ce.Args) < 1 || !isIdentObj(info, ce.Args[0], batch) {
				return nil
			}
			if fn, ok := core.Callee(info, ce).(*types.Func); ok && strings.HasPrefix(strings.ToLower(fn.Name()), "sort") {
				return ce
			}
			return nil
		}
		for _, st := range f.Body.List {
			switch s := st.(type) {
			case *ast.ExprStmt:
				if ce := isSort(s.X); ce != nil {
					sortCall = ce
				}
			case *ast.IfStmt:
				// if !IsSorted(batch) { Sort(batch) }
				if s.Else == nil {
					for _, b := range s.Body.List {
						if es, ok := b.(*ast.ExprStmt); ok {
							if ce := isSort(es.X); ce != nil && strings.Contains(core.ExprStr(s.Cond), "IsSorted") {
								sortCall = ce
							}
						}
					}
				}
			}
		}
		c.Check("batch-bounds-after-sort", f.Name+"/sorts-the-batch", f.PosStr(), sortCall != nil, "deleteSeriesRange does not sort the batch of series keys unconditionally at its top level")
		n := 0
		if sortCall != nil {
			ast.Inspect(f.Body, func(nd ast.Node) bool {
				ix, ok := nd.(*ast.IndexExpr)
				if !ok || !isIdentObj(info, ix.X, batch) {
					return true
				}
				// positional: a constant index or len(batch)-k
				positional := false
				if tv := info.Types[ix.Index]; tv.Value != nil {
					positional = true
				} else if be, ok := ast.Unparen(ix.Index).(*ast.BinaryExpr); ok {
					if ce, ok := ast.Unparen(be.X).(*ast.CallExpr); ok && isLenCall(info, ce) {
						positional = true
					}
				}
				if !positional {
					return true
				}
				n++
				c.Check("batch-bounds-after-sort", fmt.Sprintf("%s/%s#%d", f.Name, core.ExprStr(ix), n), c.P.Pos(ix.Pos()), ix.Pos() > sortCall.End(),
					"a bound of the batch is read before the batch is sorted: the file walks then use the first/last key in hand-over order, the tombstones of every series that sorts outside those bounds are skipped, and the series is dropped from the index all the same (its points return after a restart)")
				return true
			})
		}
		c.Floor("positional reads of the batch in deleteSeriesRange", n, 2)
	})

	c.Clause("D12", func() {
		// A delete whose tombstones could not be committed on some file fails: on every path of Tombstoner.Flush on
		// which commit returned an error, Flush returns a non-nil error (the error of a clean-up step that happened to
		// succeed is not an answer). Otherwise the delete carries on and reports success while that file's points
		// stay readable.
		f := c.Fn(tsm1 + ".(*Tombstoner).Flush")
		commit := calleeIn(f, tsm1+".(*Tombstoner).commit")
		findOrAbort(c, f, "Tombstoner.commit", evCall(commit), 1)
		bad := ""
		n := 0
		complete := f.Flow().ExplorePaths(core.KeepCalls(commit), func(e *core.Event, st core.State) {
			if e.Kind != core.EvReturn || !core.OutcomeFailed(st, commit) {
				return
			}
			n++
			if rf, _ := f.ReturnErrFact(e); rf.Nil != core.NonNil {
				bad = "Flush returns @" + c.P.Pos(e.Pos()) + " with a possibly-nil error on a path where commit failed"
			}
		})
		c.Need(complete, "exploration bound Tombstoner.Flush")
		c.Check("failed-tombstone-commit-fails-the-delete", f.Name+"/commit-failed-returns", f.PosStr(), bad == "" && n >= 1, bad)
	})

	c.Clause("D8", func() {
		// Acknowledged points that are not yet in an installed TSM file live in Cache.store and, while a cache
		// snapshot is being written, in Cache.snapshot. A delete has to filter both containers or keep a
		// snapshot from being in flight while it runs; otherwise the snapshot's file is installed afterwards
		// with the deleted points and no tombstone.
		dr := c.Fn(tsm1 + ".(*Cache).DeleteRange")
		snapF := c.P.LookupField(tsm1, "Cache", "snapshot")
		c.Need(snapF != nil, "field Cache.snapshot")
		cl := c.P.Closure([]*core.FuncInfo{dr}, core.InPkgs(tsm1))
		reads, writes := core.FieldAccesses(cl, snapF)
		c.Counts["functions_analysed"] += len(cl)
		filters := len(reads)+len(writes) > 0
		excluded := false
		for _, g := range []*core.FuncInfo{c.Fn(tsm1 + ".(*Engine).DeleteSeriesRangeWithPredicate"), c.Fn(dsr)} {
			for _, h := range withLocalHelpers(c.P, g) {
				if len(h.Graph().Find(evCall(calleeIn(h, tsm1+".(*Engine).disableSnapshotCompactions")))) > 0 {
					excluded = true
				}
			}
		}
		c.Check("delete-covers-inflight-snapshot", dsr+"/Cache.snapshot", c.Fn(dsr).PosStr(), filters || excluded,
			"Cache.DeleteRange filters only Cache.store and the delete path stops level compactions but not cache snapshots: a delete that completes while a snapshot is in flight (between Cache.Snapshot and FileStore.Replace in Engine.WriteSnapshot, which does not hold Engine.mu there) leaves the snapshot's points untouched; its TSM file is installed afterwards without a tombstone and the deleted points are readable again, also after a restart")
	})
}
