// Demonstration for fixes 1756477 and 24dbc59 (C04, C03): copy into services/hh/ (package hh) and run
//   go test -vet=off -count=1 -run TestDemoPurgeOfEmptyProcessorLosesNoAcceptedWrite ./services/hh/
//   go test -race -vet=off -count=1 -run TestDemoPurgeOfEmptyProcessorLosesNoAcceptedWrite ./services/hh/
// Fails on 1756477^ (3 of ~2400 accepted writes are never delivered; with -race, which changes the timing, 14-19 of
// ~950); with only 1756477 applied it still fails under -race; passes with both fixes in both modes.
package hh

import (
	"sync/atomic"
	"testing"
	"time"

	"github.com/influxdata/influxdb/models"
	"github.com/influxdata/influxdb/services/meta"
	"github.com/influxdata/influxdb/toml"
)

type demoCountingWriter struct{ delivered int64 }

func (w *demoCountingWriter) WriteShardBinary(shardID, nodeID uint64, points [][]byte) error {
	atomic.AddInt64(&w.delivered, int64(len(points)))
	return nil
}

type demoMeta struct{}

func (demoMeta) DataNode(id uint64) (*meta.NodeInfo, error) { return &meta.NodeInfo{ID: id}, nil }

// Every hinted write that WriteShard accepted (returned nil for) must reach the target. Two schedules lose one:
//   - the purger removes processors whose queue is empty: it looked at Empty, then closed and purged; a write accepted
//     in between was deleted with the queue directory (1756477);
//   - SendWrite called Advance when Current reported the end of the queue; a block appended between the two calls was
//     skipped, and the head position landed inside it (24dbc59).
// A short purge interval and a target that drains the queue quickly make both schedules frequent.
func TestDemoPurgeOfEmptyProcessorLosesNoAcceptedWrite(t *testing.T) {
	cfg := NewConfig()
	cfg.Dir = t.TempDir()
	cfg.PurgeInterval = toml.Duration(300 * time.Microsecond)
	cfg.RetryInterval = toml.Duration(20 * time.Microsecond)
	cfg.RetryMaxInterval = toml.Duration(time.Millisecond)
	w := &demoCountingWriter{}
	s := NewService(cfg, w)
	s.MetaClient = demoMeta{}
	if err := s.Open(); err != nil {
		t.Fatal(err)
	}
	pt := models.MustNewPoint("cpu", models.NewTags(map[string]string{"host": "a"}), models.Fields{"v": 1.0}, time.Unix(1, 0))
	var accepted int64
	deadline := time.Now().Add(3 * time.Second)
	for time.Now().Before(deadline) {
		if err := s.WriteShard(1, 2, []models.Point{pt}); err == nil {
			accepted++
		}
		time.Sleep(150 * time.Microsecond)
	}
	// let the queue drain
	for i := 0; i < 500 && atomic.LoadInt64(&w.delivered) < accepted; i++ {
		time.Sleep(10 * time.Millisecond)
	}
	s.Close()
	if d := atomic.LoadInt64(&w.delivered); d < accepted {
		t.Fatalf("%d hinted writes were accepted, only %d were delivered: %d accepted writes were lost", accepted, d, accepted-d)
	}
}
