// Demonstration for fix 468573b (C19, C03): copy into coordinator/ (package coordinator_test) and run
//   go test -vet=off -count=1 -run TestDemoLocalWriteMustNotRewriteSharedBatch ./coordinator/
// Fails on 468573b^ (the remote owner is sent [p2, p2]), passes on 468573b.
package coordinator_test

import (
	"context"
	"path/filepath"
	"reflect"
	"testing"
	"time"

	"github.com/influxdata/influxdb/coordinator"
	"github.com/influxdata/influxdb/models"
	"github.com/influxdata/influxdb/services/meta"
	"github.com/influxdata/influxdb/tsdb"
	_ "github.com/influxdata/influxdb/tsdb/engine"
	_ "github.com/influxdata/influxdb/tsdb/index"
)

type demoLocalStore struct {
	*tsdb.Store
	done chan struct{}
}

func (s *demoLocalStore) WriteToShardWithContext(ctx context.Context, shardID uint64, points []models.Point) error {
	defer close(s.done)
	return s.Store.WriteToShardWithContext(ctx, shardID, points)
}

// One batch, one shard, two owners: this node (1) and a remote node (2). The local shard already has cpu.value as a
// float, so it drops the first point of the batch (value is a string there) and keeps the second. The remote owner must
// still be sent the batch as the client wrote it. The owner goroutines share one slice, and the local shard's
// validation compacts the slice it is given in place; here the remote writer is made to run after the local one.
func TestDemoLocalWriteMustNotRewriteSharedBatch(t *testing.T) {
	dir := t.TempDir()
	st := tsdb.NewStore(filepath.Join(dir, "data"))
	st.EngineOptions.Config.WALDir = filepath.Join(dir, "wal")
	if err := st.Open(); err != nil {
		t.Fatal(err)
	}
	defer st.Close()

	ms := PointsWriterMetaClient{}
	rp := NewRetentionPolicy("rp", time.Hour, 2)
	AttachShardGroupInfo(rp, []meta.ShardOwner{{NodeID: 1}, {NodeID: 2}})
	sid := rp.ShardGroups[0].Shards[0].ID
	ms.NodeIDFn = func() uint64 { return 1 }
	ms.RetentionPolicyFn = func(db, name string) (*meta.RetentionPolicyInfo, error) { return rp, nil }
	ms.CreateShardGroupIfNotExistsFn = func(db, policy string, ts time.Time) (*meta.ShardGroupInfo, error) {
		return &rp.ShardGroups[0], nil
	}
	ms.DatabaseFn = func(string) *meta.DatabaseInfo { return nil }

	if err := st.CreateShard("db", "rp", sid, true); err != nil {
		t.Fatal(err)
	}
	now := rp.ShardGroups[0].StartTime.Add(time.Second)
	if err := st.WriteToShard(sid, []models.Point{models.MustNewPoint("cpu", models.NewTags(map[string]string{"host": "x"}), models.Fields{"value": 1.0}, now)}); err != nil {
		t.Fatal(err)
	}

	local := &demoLocalStore{Store: st, done: make(chan struct{})}
	var sent []string
	sw := &fakeShardWriter{ShardWriteFn: func(shardID, nodeID uint64, points []models.Point) error {
		<-local.done
		for _, p := range points {
			sent = append(sent, p.String())
		}
		return nil
	}}
	hh := &fakeHintedHandoff{
		ShardWriteFn: func(shardID, nodeID uint64, points []models.Point) error { return nil },
		EmptyFn:      func(shardID, nodeID uint64) bool { return true },
	}
	c := coordinator.NewPointsWriter()
	c.MetaClient = ms
	c.ShardWriter = sw
	c.TSDBStore = local
	c.HintedHandoff = hh
	c.Open()
	defer c.Close()

	batch := []models.Point{
		models.MustNewPoint("cpu", models.NewTags(map[string]string{"host": "a"}), models.Fields{"value": "not a number"}, now),
		models.MustNewPoint("cpu", models.NewTags(map[string]string{"host": "b"}), models.Fields{"value": 2.0}, now),
	}
	want := []string{batch[0].String(), batch[1].String()}
	_ = c.WritePointsPrivileged("db", "rp", models.ConsistencyLevelAll, batch)
	if !reflect.DeepEqual(sent, want) {
		t.Fatalf("the remote owner was sent\n  %q\nthe client wrote\n  %q", sent, want)
	}
}
