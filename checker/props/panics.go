package props

import (
	"go/ast"
	"go/token"
	"go/types"
	"sort"
	"strings"

	"verifcheck/core"
)

// defaultPanic is an explicit panic in the default clause of a switch ("unhandled case").
type defaultPanic struct {
	pos     token.Pos
	kind    string // "type" or "value"
	cases   []string
	missing []string // members of the dispatched family/registry that have no case
	tagType string
}

var valueFamily = []string{"Float", "Integer", "Unsigned", "String", "Boolean"}

// defaultPanics finds panics in default clauses of switches of f (nested literals excluded) and
// computes which members of the dispatched family or enum registry are not covered by a case.
func defaultPanics(f *core.FuncInfo) []defaultPanic {
	var out []defaultPanic
	info := f.Info()
	hasPanic := func(body []ast.Stmt) (token.Pos, bool) {
		var pos token.Pos
		found := false
		for _, st := range body {
			ast.Inspect(st, func(nd ast.Node) bool {
				if _, ok := nd.(*ast.FuncLit); ok {
					return false
				}
				if ce, ok := nd.(*ast.CallExpr); ok {
					if b, ok := core.Callee(info, ce).(*types.Builtin); ok && b.Name() == "panic" && !found {
						found = true
						pos = ce.Pos()
					}
				}
				return true
			})
		}
		return pos, found
	}
	ast.Inspect(f.Body, func(nd ast.Node) bool {
		switch s := nd.(type) {
		case *ast.FuncLit:
			return false
		case *ast.TypeSwitchStmt:
			var cases []string
			var def *ast.CaseClause
			for _, cl := range s.Body.List {
				cc := cl.(*ast.CaseClause)
				if cc.List == nil {
					def = cc
				}
				for _, x := range cc.List {
					if t := info.TypeOf(x); t != nil {
						cases = append(cases, types.TypeString(t, func(p *types.Package) string { return p.Name() }))
					}
				}
			}
			if def == nil {
				return true
			}
			if pos, ok := hasPanic(def.Body); ok {
				sort.Strings(cases)
				out = append(out, defaultPanic{pos: pos, kind: "type", cases: cases, missing: missingFamily(cases)})
			}
		case *ast.SwitchStmt:
			var cases []string
			var def *ast.CaseClause
			for _, cl := range s.Body.List {
				cc := cl.(*ast.CaseClause)
				if cc.List == nil {
					def = cc
				}
				for _, x := range cc.List {
					cases = append(cases, constName(info, x))
				}
			}
			if def == nil {
				return true
			}
			if pos, ok := hasPanic(def.Body); ok {
				dp := defaultPanic{pos: pos, kind: "value", cases: cases}
				if s.Tag != nil {
					if t := info.TypeOf(s.Tag); t != nil {
						dp.tagType = types.TypeString(t, func(p *types.Package) string { return p.Name() })
						dp.missing = missingEnum(t, cases)
					}
				}
				out = append(out, dp)
			}
		}
		return true
	})
	return out
}

// missingFamily: when the case types follow the <Prefix><Suffix> pattern of the five value types,
// returns the family members that have no case.
func missingFamily(cases []string) []string {
	// find the most common suffix among cases with a known prefix
	suffixCount := map[string]map[string]bool{}
	for _, c := range cases {
		base := c
		ptr := ""
		if strings.HasPrefix(base, "*") {
			ptr = "*"
			base = base[1:]
		}
		pkg := ""
		if i := strings.LastIndex(base, "."); i >= 0 {
			pkg = base[:i+1]
			base = base[i+1:]
		}
		lower := strings.ToLower(base[:1]) == base[:1]
		for _, fam := range valueFamily {
			pre := fam
			if lower {
				pre = strings.ToLower(fam[:1]) + fam[1:]
			}
			if strings.HasPrefix(base, pre) {
				key := ptr + pkg + "|" + base[len(pre):] + "|" + map[bool]string{true: "l", false: "u"}[lower]
				if suffixCount[key] == nil {
					suffixCount[key] = map[string]bool{}
				}
				suffixCount[key][fam] = true
			}
		}
	}
	var missing []string
	for key, fams := range suffixCount {
		if len(fams) < 3 {
			continue
		}
		parts := strings.Split(key, "|")
		for _, fam := range valueFamily {
			if !fams[fam] {
				missing = append(missing, parts[0]+fam+parts[1])
			}
		}
	}
	sort.Strings(missing)
	return missing
}

// missingEnum: constants of the tag's named type (declared in its package) that have no case.
func missingEnum(t types.Type, cases []string) []string {
	nt, ok := t.(*types.Named)
	if !ok || nt.Obj().Pkg() == nil {
		return nil
	}
	have := map[string]bool{}
	for _, c := range cases {
		have[c] = true
	}
	var missing []string
	sc := nt.Obj().Pkg().Scope()
	for _, nm := range sc.Names() {
		if k, ok := sc.Lookup(nm).(*types.Const); ok && types.Identical(k.Type(), t) {
			if !have[k.Pkg().Name()+"."+k.Name()] {
				missing = append(missing, k.Pkg().Name()+"."+k.Name())
			}
		}
	}
	sort.Strings(missing)
	return missing
}
