// verifcheck decides the structural clauses of properties C01..C19 from the
// resolved source of /repo (see ../DESIGN.md). It never executes repository code.
package main

import (
	"encoding/json"
	"flag"
	"fmt"
	"os"
	"path/filepath"
	"sort"
	"strconv"
	"time"

	"verifcheck/core"
	"verifcheck/props"
)

func main() {
	prop := flag.String("property", "", "property id (C01..C19)")
	tier := flag.String("tier", "", "quick|thorough (default: $VERIF_TIER or quick)")
	repo := flag.String("repo", "/repo", "repository working tree to analyse")
	verif := flag.String("verif", "", "verif directory (default: parent of the binary's dir)")
	explain := flag.String("explain", "", "replay file: re-run that property and print the obligation")
	list := flag.Bool("list", false, "list all obligations")
	sites := flag.String("sites", "", "development: pkgs:callees, print site table rows")
	panics := flag.String("panics", "", "development: root function, print panic sites in its closure")
	guarded := flag.String("guarded", "", "development: pkg,pkg: print fields mostly accessed under the struct's mutex and their unlocked accesses")
	errsweep := flag.String("errsweep", "", "development: regexp over function names: print fallible calls whose error is dropped, over all loaded packages")
	swapsweep := flag.Bool("swapsweep", false, "development: print call sites whose same-typed arguments look transposed, over all loaded packages")
	nilsweep := flag.String("nilsweep", "", "development: pkg,pkg: print dereferences of unchecked may-return-nil lookups")
	flag.Parse()

	vd := *verif
	if vd == "" {
		exe, _ := os.Executable()
		vd = filepath.Dir(filepath.Dir(exe))
		if _, err := os.Stat(filepath.Join(vd, "MANIFEST.json")); err != nil {
			vd, _ = os.Getwd()
		}
	}
	if *explain != "" {
		b, err := os.ReadFile(*explain)
		if err != nil {
			fmt.Println(err)
			os.Exit(2)
		}
		var r struct {
			Property   string          `json:"property"`
			Tier       string          `json:"tier"`
			Obligation core.Obligation `json:"obligation"`
		}
		if err := json.Unmarshal(b, &r); err != nil {
			fmt.Println(err)
			os.Exit(2)
		}
		*prop, *tier = r.Property, r.Tier
		defer func(key string) {}(r.Obligation.Key)
		os.Setenv("VERIFCHECK_EXPLAIN", r.Obligation.Key)
	}
	if *tier == "" {
		*tier = os.Getenv("VERIF_TIER")
	}
	if *tier != "thorough" {
		*tier = "quick"
	}
	seed, _ := strconv.Atoi(os.Getenv("VERIF_SEED"))
	p, ok := props.Registry[*prop]
	if !ok && *sites == "" && *panics == "" {
		var ids []string
		for k := range props.Registry {
			ids = append(ids, k)
		}
		sort.Strings(ids)
		fmt.Printf("unknown property %q; have %v\n", *prop, ids)
		os.Exit(2)
	}
	start := time.Now()
	ctx := &core.Ctx{Property: *prop, Tier: *tier, Counts: map[string]int{}}
	roots := core.QuickRoots
	if *tier == "thorough" {
		roots = nil
	}
	prog, err := core.Load(*repo, roots, nil)
	if err != nil {
		// fail closed
		ctx.P = &core.Prog{RepoDir: *repo}
		ctx.Obs = append(ctx.Obs, &core.Obligation{Key: "load/undecided", Clause: "load", Rule: "undecided",
			Construct: "packages.Load", OK: false, Undecided: true, Detail: err.Error()})
		os.Exit(core.Finish(ctx, p.Meta, vd, time.Since(start).Seconds(), seed))
	}
	ctx.P = prog
	if *sites != "" {
		props.DumpSites(prog, *sites)
		return
	}
	if *guarded != "" {
		props.DumpGuarded(prog, *guarded)
		return
	}
	if *errsweep != "" {
		props.DumpDroppedErrors(prog, *errsweep)
		return
	}
	if *swapsweep {
		props.DumpSwapped(prog)
		return
	}
	if *nilsweep != "" {
		props.DumpNilLookups(prog, *nilsweep)
		return
	}
	if *panics != "" {
		props.DumpPanics(prog, *panics)
		props.DumpDefaultPanics(prog, *panics)
		return
	}
	var full *core.Prog
	ctx.Full = func() *core.Prog {
		if roots == nil {
			return prog
		}
		if full == nil {
			f, err := core.Load(*repo, nil, nil)
			if err != nil {
				panic(fmt.Sprintf("full load failed: %v", err))
			}
			full = f
		}
		return full
	}
	ctx.Counts["packages_loaded"] = len(prog.Pkgs)
	p.Run(ctx)
	if *list || os.Getenv("VERIFCHECK_EXPLAIN") != "" {
		want := os.Getenv("VERIFCHECK_EXPLAIN")
		for _, o := range ctx.Obs {
			if want != "" && o.Key != want {
				continue
			}
			st := "ok"
			if !o.OK {
				st = "FAIL"
			}
			fmt.Printf("%-4s %s @%s %s\n", st, o.Key, o.Pos, o.Detail)
		}
	}
	os.Exit(core.Finish(ctx, p.Meta, vd, time.Since(start).Seconds(), seed))
}
