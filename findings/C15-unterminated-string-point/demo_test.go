// Demonstration for fix a16a8b9 (C15, C12): copy into models/ (package models_test) and run
//   go test -vet=off -count=1 -run TestDemoBinaryPointWithUnterminatedString ./models/
// Fails on a16a8b9^ (the point is accepted and reading its field panics), passes on a16a8b9.
package models_test

import (
	"encoding/binary"
	"testing"
	"time"

	"github.com/influxdata/influxdb/models"
)

// A binary point (the form points travel in inside a WriteShardRequest) whose fields section is `v="`: the decoder that
// validates points arriving from another node must reject it; if it accepts it, the first consumer that reads the
// field (Shard.WritePoints -> FieldIterator.StringValue) slices [1:0] and panics, which takes the data node down.
func TestDemoBinaryPointWithUnterminatedString(t *testing.T) {
	key, fields := []byte("cpu"), []byte(`v="`)
	tb, err := time.Unix(1, 0).UTC().MarshalBinary()
	if err != nil {
		t.Fatal(err)
	}
	var b []byte
	b = binary.BigEndian.AppendUint32(b, uint32(len(key)))
	b = append(b, key...)
	b = binary.BigEndian.AppendUint32(b, uint32(len(fields)))
	b = append(b, fields...)
	b = append(b, tb...)

	p, err := models.NewPointFromBytes(b)
	if err != nil {
		return // rejected at the wire: fine
	}
	defer func() {
		if r := recover(); r != nil {
			t.Fatalf("NewPointFromBytes accepted the point, reading its field panics: %v", r)
		}
	}()
	if _, err := p.Fields(); err != nil {
		return
	}
}
