package props

import (
	"fmt"
	"go/ast"
	"go/constant"
	"go/token"
	"go/types"
	"strings"

	"verifcheck/core"
)

func init() {
	register("C01", core.PropertyMeta{
		Explanation: "Decides the ordering/durability clauses of C01 on every control-flow path (a crash point is a position in a path): " +
			"D1 WAL bytes are flushed and fsynced before a write is acknowledged and every acknowledgement passes the sync result; " +
			"D2 snapshot/compaction commit order (tsm file synced before close, new files renamed before old ones are removed, directory synced, WAL segments and cache snapshot released only after FileStore.Replace returned nil, tombstone file synced before rename); " +
			"D3 recovery order in Engine.Open; D4 the WAL tail typestate (a segment reopened for appending at a cached offset is not truncated afterwards through another descriptor); " +
			"D5 frozen table of destructive file operations in tsm1; D6 the cache snapshot and the closed-segment list are taken in one critical section that excludes writers. " +
			"D2 also: a retried cache snapshot (Cache.Snapshot can hand out the snapshot of a failed attempt again) releases no WAL segment. " +
			"NOT decided: that replay reproduces the exact values, torn-tail arithmetic, file-system semantics of rename/fsync.",
		RuleText:    "obligation = (rule, function, call site ordinal); paths from go/cfg refined by nil/bool facts; must-precede by reachability with the required event removed; error-outcome facts per call expression",
		Assumptions: commonAssumptions,
	}, runC01)
}

func isSendOn(f *core.FuncInfo, field string) core.Match {
	return func(e *core.Event) bool {
		if e.Kind != core.EvSend {
			return false
		}
		s := e.Node.(*ast.SendStmt)
		return core.FieldPathOf(f.Info(), s.Chan) == field
	}
}

func runC01(c *core.Ctx) {
	c.Clause("D1", func() {
		n := 0
		// WALSegmentWriter.sync: Flush < File.Sync, both errors surfaced
		f := c.Fn(tsm1 + ".(*WALSegmentWriter).sync")
		flush := calleeIn(f, "bufio.(*Writer).Flush")
		fsync := calleeIn(f, "os.(*File).Sync")
		okRule(c, f, "sync-before-ack", "bufio.Flush", "File.Sync", flush, evCall(fsync))
		errPropagated(c, f, "error-surfaces", "bufio.Flush", flush)
		errPropagated(c, f, "error-surfaces", "File.Sync", fsync)
		// every nil-able return of sync() on an *os.File passes File.Sync: the only return not
		// preceded by Sync is the non-file branch
		n += 3

		// WAL.sync: segment sync precedes every waiter notification and its error is what is sent
		f = c.Fn(tsm1 + ".(*WAL).sync")
		segSync := calleeIn(f, tsm1+".(*WALSegmentWriter).sync")
		sends := findOrAbort(c, f, "send to waiter", core.Kind(core.EvSend), 1)
		orderRule(c, f, "sync-before-ack", "segment.sync", "waiter-send", evCall(segSync), core.Kind(core.EvSend))
		for i, s := range sends {
			fact := f.Flow().FactOfExpr(s, s.Node.(*ast.SendStmt).Value)
			ce, ok := fact.Def.(*ast.CallExpr)
			good := ok && segSync(ce)
			c.Check("ack-carries-sync-result", fmt.Sprintf("%s/send#%d", f.Name, i+1), c.P.Pos(s.Pos()), good,
				"the value sent to a sync waiter must be the error returned by the segment fsync")
			n++
		}
		// the waiter queue is drained by a receive from l.syncWaiters
		n++

		// WAL.writeToLog: enqueue only after the entry was written; ack only via the waiter channel
		f = c.Fn(tsm1 + ".(*WAL).writeToLog")
		c.Need(len(f.Lits) >= 1, "writeToLog closure")
		var inner *core.FuncInfo
		for _, l := range f.Lits {
			if len(l.Graph().Find(isSendOn(l, "WAL.syncWaiters"))) > 0 {
				inner = l
			}
		}
		c.Need(inner != nil, "closure of writeToLog that enqueues on WAL.syncWaiters")
		wr := calleeIn(inner, tsm1+".(*WALSegmentWriter).Write")
		okRule(c, inner, "write-before-enqueue", "segment.Write", "enqueue", wr, isSendOn(inner, "WAL.syncWaiters"))
		orderRule(c, inner, "enqueue-before-schedule", "enqueue", "scheduleSync", isSendOn(inner, "WAL.syncWaiters"),
			evCall(calleeIn(inner, tsm1+".(*WAL).scheduleSync")))
		n += 2
		// which channel variable is enqueued?
		var chanObj types.Object
		for _, s := range inner.Graph().Find(isSendOn(inner, "WAL.syncWaiters")) {
			if id, ok := s.Node.(*ast.SendStmt).Value.(*ast.Ident); ok {
				chanObj = inner.Info().ObjectOf(id)
			}
		}
		c.Need(chanObj != nil, "enqueued channel variable in writeToLog")
		// the closure must not report success without the enqueue having happened
		k := 0
		for _, e := range inner.Graph().Events {
			if e.Kind != core.EvReturn || !inner.Flow().Reachable(e) {
				continue
			}
			fact, _ := inner.ReturnErrFact(e)
			if fact.Nil == core.NonNil {
				continue
			}
			k++
			p := inner.Flow().PathAvoiding(inner.Graph().Entry, func(x *core.Event) bool { return x == e }, isSendOn(inner, "WAL.syncWaiters"))
			c.Check("success-implies-enqueued", fmt.Sprintf("%s/return#%d", inner.Name, k), c.P.Pos(e.Pos()), p == nil,
				"the locked section of writeToLog can return a nil error without having enqueued a sync waiter: "+core.PathStr(p))
			n++
		}
		c.Need(k >= 1, "success return in writeToLog closure")
		// outer returns: non-error returns must be a receive from the enqueued channel
		k = 0
		closureCall := func(ce *ast.CallExpr) bool { _, ok := ast.Unparen(ce.Fun).(*ast.FuncLit); return ok }
		for _, e := range f.Graph().Events {
			if e.Kind != core.EvReturn || !f.Flow().Reachable(e) {
				continue
			}
			fact, x := f.ReturnErrFact(e)
			if fact.Nil == core.NonNil {
				continue
			}
			k++
			good := false
			if u, ok := ast.Unparen(x).(*ast.UnaryExpr); x != nil && ok && u.Op == token.ARROW {
				if id, ok := u.X.(*ast.Ident); ok && f.Info().ObjectOf(id) == chanObj {
					good = true
				}
			}
			if !good {
				// or: a variable that received from that channel
				if fact.Def != nil {
					if u, ok := ast.Unparen(fact.Def).(*ast.UnaryExpr); ok && u.Op == token.ARROW {
						if id, ok := u.X.(*ast.Ident); ok && f.Info().ObjectOf(id) == chanObj {
							good = true
						}
					}
				}
			}
			// the receive must happen only when the closure succeeded
			if good && !f.Flow().CallOKAt(e, closureCall) {
				good = false
			}
			c.Check("ack-waits-for-fsync", fmt.Sprintf("%s/return#%d", f.Name, k), c.P.Pos(e.Pos()), good,
				"a return of writeToLog whose error may be nil must return the value received from the enqueued sync channel, after the locked section succeeded")
			n++
		}
		c.Need(k >= 1, "acknowledging return in writeToLog")

		// WAL.WriteMulti / Delete / DeleteRange: success only after writeToLog returned nil
		for _, name := range []string{"WriteMulti", "Delete", "DeleteRange"} {
			f = c.Fn(tsm1 + ".(*WAL)." + name)
			wtl := calleeIn(f, tsm1+".(*WAL).writeToLog")
			n += returnsOnlyAfterOK(c, f, "ack-after-log", "writeToLog", wtl, func(e *core.Event) string {
				// `if len(keys) == 0 { return 0, nil }`: nothing to log, no operation precedes the return
				if name != "WriteMulti" && noRealCallBefore(f, e) {
					return "empty request: no operation precedes this return"
				}
				return ""
			})
		}

		// Engine.WritePointsWithContext: with the WAL enabled no return with a possibly-nil error before WAL.WriteMulti returned nil
		f = c.Fn(tsm1 + ".(*Engine).WritePointsWithContext")
		walWrite := fieldCallIn(f, "Engine.WAL", "WriteMulti")
		findOrAbort(c, f, "Engine.WAL.WriteMulti", evCall(walWrite), 1)
		cacheWrite := fieldCallIn(f, "Engine.Cache", "WriteMulti")
		findOrAbort(c, f, "Engine.Cache.WriteMulti", evCall(cacheWrite), 1)
		both := func(ce *ast.CallExpr) bool { return walWrite(ce) || cacheWrite(ce) }
		type rk struct{ e *core.Event }
		bad := map[*core.Event]string{}
		seenRet := map[*core.Event]bool{}
		complete := f.Flow().ExplorePaths(core.KeepCalls(both, ".WALEnabled"), func(e *core.Event, st core.State) {
			if e.Kind != core.EvReturn {
				return
			}
			seenRet[e] = true
			rf, _ := f.ReturnErrFact(e)
			// use the path state for the returned expression when it is a tracked variable
			if rf.Nil == core.NonNil {
				return
			}
			if x, _ := f.ResultExpr(e, 0); x != nil {
				if k, ok := core.KeyOf(f.Info(), x); ok {
					if pf, ok := st[k]; ok && pf.Nil == core.NonNil {
						return
					}
				}
			}
			if !core.OutcomeOK(st, cacheWrite) {
				bad[e] = "cache write not established successful"
				return
			}
			if core.CondOutcome(st, isField(f, "Engine.WALEnabled")) == 2 {
				return
			}
			if !core.OutcomeOK(st, walWrite) {
				bad[e] = "WAL enabled (or unknown) and WAL.WriteMulti not established to have returned nil"
			}
		})
		c.Need(complete, "path exploration bound in WritePointsWithContext")
		k = 0
		for _, e := range f.Graph().Events {
			if e.Kind == core.EvReturn && seenRet[e] {
				rf, _ := f.ReturnErrFact(e)
				if rf.Nil == core.NonNil {
					continue
				}
				k++
				// returns inside the point loop return a decode error variable (non-nil on that path);
				// bad[] holds only returns that may be nil
				c.Check("ack-after-wal", fmt.Sprintf("%s/return#%d", f.Name, k), c.P.Pos(e.Pos()), bad[e] == "", bad[e])
				n++
			}
		}
		c.Floor("D1 obligations", n, 12)
	})

	c.Clause("D2", func() {
		n := 0
		// writeSnapshotAndCommit
		f := c.Fn(tsm1 + ".(*Engine).writeSnapshotAndCommit")
		replace := fieldCallIn(f, "Engine.FileStore", "Replace")
		walRemove := fieldCallIn(f, "Engine.WAL", "Remove")
		okRule(c, f, "commit-order", "FileStore.Replace", "WAL.Remove", replace, evCall(walRemove))
		n++
		// ClearSnapshot(true) only after Replace ok
		clearTrue := func(e *core.Event) bool {
			if e.Kind != core.EvCall || !fieldCallIn(f, "Engine.Cache", "ClearSnapshot")(e.Call) || len(e.Call.Args) != 1 {
				return false
			}
			id, ok := e.Call.Args[0].(*ast.Ident)
			return ok && id.Name == "true"
		}
		okRule(c, f, "commit-order", "FileStore.Replace", "ClearSnapshot(true)", replace, clearTrue)
		n++
		ws := fieldCallIn(f, "Engine.Compactor", "WriteSnapshot")
		okRule(c, f, "commit-order", "Compactor.WriteSnapshot", "FileStore.Replace", ws, evCall(replace))
		n++
		// success return only after Replace ok
		n += returnsOnlyAfterOK(c, f, "commit-order", "FileStore.Replace", replace, nil)
		// files removed on the error edge are the new files only
		rm := calleeIn(f, "os.Remove")
		for i, e := range f.Graph().Find(evCall(rm)) {
			good := false
			detail := "os.Remove in writeSnapshotAndCommit must only remove the files produced by Compactor.WriteSnapshot"
			if id, ok := e.Call.Args[0].(*ast.Ident); ok {
				// range variable over newFiles?
				obj := f.Info().ObjectOf(id)
				ast.Inspect(f.Body, func(nd ast.Node) bool {
					if rs, ok := nd.(*ast.RangeStmt); ok && rs.Value != nil {
						if vid, ok := rs.Value.(*ast.Ident); ok && f.Info().ObjectOf(vid) == obj {
							if xid, ok := rs.X.(*ast.Ident); ok {
								fact := f.Flow().FactOfExpr(e, xid)
								if ce, ok := fact.Def.(*ast.CallExpr); ok && ws(ce) {
									good = true
								}
							}
						}
					}
					return true
				})
			}
			c.Check("remove-provenance", fmt.Sprintf("%s/os.Remove#%d", f.Name, i+1), c.P.Pos(e.Pos()), good, detail)
			n++
		}

		// WriteSnapshot: closed segments and cache snapshot captured in one critical section under Engine.mu.Lock
		// every site that lists the closed WAL segments for removal must do so in the critical
		// section that also takes the cache snapshot
		var inner *core.FuncInfo
		nList := 0
		for _, g := range c.P.FuncsIn(tsm1) {
			if g.Body == nil || g.Root().Name == tsm1+".(*WAL).ClosedSegments" {
				continue
			}
			for _, e := range g.Graph().Find(evCall(fieldCallIn(g, "Engine.WAL", "ClosedSegments"))) {
				nList++
				hasSnap := len(g.Graph().Find(evCall(fieldCallIn(g, "Engine.Cache", "Snapshot")))) > 0
				c.Check("snapshot-atomic", g.Root().Name+"/ClosedSegments-with-Cache.Snapshot", c.P.Pos(e.Pos()), hasSnap,
					"the list of closed WAL segments (later removed by the snapshot commit) is taken outside the critical section that takes the cache snapshot: a segment closed in between holds writes that are only in the live cache, and its removal loses them at the next restart")
				if hasSnap {
					inner = g
				}
			}
		}
		c.Need(nList >= 1, "a site listing WAL.ClosedSegments in tsm1")
		lock := func(e *core.Event) bool {
			return e.Kind == core.EvCall && core.CalleeName(e) == "sync.(*RWMutex).Lock" && core.RecvFieldOf(e) == "Engine.mu"
		}
		if inner != nil {
			orderRule(c, inner, "snapshot-atomic", "Engine.mu.Lock", "WAL.CloseSegment", lock, evCall(fieldCallIn(inner, "Engine.WAL", "CloseSegment")))
			orderRule(c, inner, "snapshot-atomic", "Engine.mu.Lock", "WAL.ClosedSegments", lock, evCall(fieldCallIn(inner, "Engine.WAL", "ClosedSegments")))
			orderRule(c, inner, "snapshot-atomic", "Engine.mu.Lock", "Cache.Snapshot", lock, evCall(fieldCallIn(inner, "Engine.Cache", "Snapshot")))
			orderRule(c, inner, "snapshot-atomic", "WAL.CloseSegment", "WAL.ClosedSegments", evCall(fieldCallIn(inner, "Engine.WAL", "CloseSegment")), evCall(fieldCallIn(inner, "Engine.WAL", "ClosedSegments")))
			// unlock must be deferred (held to the end of the section)
			unlockDeferred := false
			for _, d := range inner.Graph().Defers {
				if core.CalleeName(d) == "sync.(*RWMutex).Unlock" && core.RecvFieldOf(d) == "Engine.mu" {
					unlockDeferred = true
				}
			}
			explicitUnlock := len(inner.Graph().Find(func(e *core.Event) bool {
				return e.Kind == core.EvCall && core.CalleeName(e) == "sync.(*RWMutex).Unlock" && core.RecvFieldOf(e) == "Engine.mu"
			}))
			c.Check("snapshot-atomic", inner.Name+"/unlock-deferred", inner.PosStr(), unlockDeferred && explicitUnlock == 0,
				"Engine.mu must stay locked from WAL.CloseSegment to Cache.Snapshot (deferred unlock, no early unlock)")
		}
		n += 5
		// A retried snapshot covers nothing written since the failed attempt: when Cache.Snapshot can hand out
		// an existing snapshot without moving the live store into it, the critical section must ask the cache
		// whether that is the case and, where it is, forget the list of closed segments.
		if inner != nil {
			snapFn := c.Fn(tsm1 + ".(*Cache).Snapshot")
			var retained []*core.Event
			completeS := snapFn.Flow().ExplorePathsMarked(func(k core.VarKey, fct core.Fact) bool { return false }, func(e *core.Event) string {
				if storeTo(snapFn, "Cache.store")(e) {
					return "swapped"
				}
				return ""
			}, func(e *core.Event, st core.State) {
				if e.Kind != core.EvReturn || core.Marked(st, "swapped") {
					return
				}
				if x, _ := snapFn.ResultExpr(e, 0); x != nil && !isNilExpr(snapFn.Info(), x) {
					for _, r := range retained {
						if r == e {
							return
						}
					}
					retained = append(retained, e)
				}
			})
			c.Need(completeS, "exploration bound Cache.Snapshot")
			c.Counts["retained_snapshot_returns"] = len(retained)
			if len(retained) > 0 {
				at := c.P.Pos(retained[0].Pos())
				isRetained := fieldCallIn(inner, "Engine.Cache", "SnapshotRetained")
				snapCall := fieldCallIn(inner, "Engine.Cache", "Snapshot")
				asked := inner.Graph().Find(evCall(isRetained))
				why := "Cache.Snapshot can return the snapshot of a failed attempt again (@" + at + ") without anything written since; the segments closed since then hold acknowledged writes that are only in the live cache, and removing them after the retried snapshot loses those writes at the next restart"
				c.Check("retried-snapshot-keeps-wal", inner.Name+"/asks-Cache.SnapshotRetained", inner.PosStr(), len(asked) > 0, why)
				n++
				if len(asked) > 0 {
					orderRule(c, inner, "retried-snapshot-keeps-wal", "Cache.SnapshotRetained", "Cache.Snapshot", evCall(isRetained), evCall(snapCall))
					// the variable holding the closed segments
					var segObj types.Object
					info := inner.Info()
					ast.Inspect(inner.Body, func(nd ast.Node) bool {
						as, ok := nd.(*ast.AssignStmt)
						if !ok || len(as.Rhs) != 1 || len(as.Lhs) < 1 {
							return true
						}
						if ce, ok := as.Rhs[0].(*ast.CallExpr); ok && fieldCallIn(inner, "Engine.WAL", "ClosedSegments")(ce) {
							if id, ok := as.Lhs[0].(*ast.Ident); ok {
								segObj = info.ObjectOf(id)
							}
						}
						return true
					})
					c.Need(segObj != nil, "variable receiving WAL.ClosedSegments")
					isRetry := func(x ast.Expr) bool {
						x = derefLocal(inner, ast.Unparen(x))
						ce, ok := ast.Unparen(x).(*ast.CallExpr)
						return ok && isRetained(ce)
					}
					bad := ""
					completeI := inner.Flow().ExplorePathsMarked(func(k core.VarKey, fct core.Fact) bool {
						if fc, ok := fct.Def.(*ast.CallExpr); ok && snapCall(fc) {
							return true
						}
						return k.Root == nil && strings.HasPrefix(k.Path, "cond:") && fct.Def != nil && isRetry(fct.Def)
					}, func(e *core.Event) string {
						if e.Kind == core.EvAssign {
							if as, ok := e.Node.(*ast.AssignStmt); ok && len(as.Lhs) == 1 && len(as.Rhs) == 1 && isIdentObj(info, as.Lhs[0], segObj) && isNilExpr(info, as.Rhs[0]) {
								return "dropped"
							}
						}
						return ""
					}, func(e *core.Event, st core.State) {
						if e.Kind != core.EvReturn || !core.OutcomeOK(st, snapCall) || bad != "" {
							return
						}
						switch core.CondOutcome(st, isRetry) {
						case 1:
							if !core.Marked(st, "dropped") {
								bad = "the critical section returns @" + c.P.Pos(e.Pos()) + " with the list of closed segments although the cache reported a retained snapshot: " + why
							}
						case 0:
							bad = "the critical section returns @" + c.P.Pos(e.Pos()) + " after Cache.Snapshot succeeded without having tested the answer of Cache.SnapshotRetained: " + why
						}
					})
					c.Need(completeI, "exploration bound "+inner.Name)
					c.Check("retried-snapshot-keeps-wal", inner.Name+"/segments-dropped-on-retry", inner.PosStr(), bad == "", bad)
					n++
				}
			}
		}
		// the write path holds Engine.mu.RLock across cache and WAL write
		wp := c.Fn(tsm1 + ".(*Engine).WritePointsWithContext")
		rlock := func(e *core.Event) bool {
			return e.Kind == core.EvCall && core.CalleeName(e) == "sync.(*RWMutex).RLock" && core.RecvFieldOf(e) == "Engine.mu"
		}
		orderRule(c, wp, "snapshot-atomic", "Engine.mu.RLock", "Cache.WriteMulti", rlock, evCall(fieldCallIn(wp, "Engine.Cache", "WriteMulti")))
		orderRule(c, wp, "snapshot-atomic", "Engine.mu.RLock", "WAL.WriteMulti", rlock, evCall(fieldCallIn(wp, "Engine.WAL", "WriteMulti")))
		runlockDeferred := false
		for _, d := range wp.Graph().Defers {
			if core.CalleeName(d) == "sync.(*RWMutex).RUnlock" && core.RecvFieldOf(d) == "Engine.mu" {
				runlockDeferred = true
			}
		}
		earlyRUnlock := len(wp.Graph().Find(func(e *core.Event) bool {
			return e.Kind == core.EvCall && core.CalleeName(e) == "sync.(*RWMutex).RUnlock" && core.RecvFieldOf(e) == "Engine.mu"
		}))
		c.Check("snapshot-atomic", wp.Name+"/runlock-deferred", wp.PosStr(), runlockDeferred && earlyRUnlock == 0,
			"Engine.mu.RLock must be held across the cache write and the WAL write")
		n += 3

		// tsmWriter: Close -> Flush -> sync -> Sync before the file is closed
		f = c.Fn(tsm1 + ".(*tsmWriter).Close")
		flush := calleeIn(f, tsm1+".(*tsmWriter).Flush")
		closer := func(e *core.Event) bool { return e.Kind == core.EvCall && core.CalleeName(e) == "io.Closer.Close" }
		okRule(c, f, "sync-before-close", "tsmWriter.Flush", "wrapped.Close", flush, closer)
		errPropagated(c, f, "error-surfaces", "tsmWriter.Flush", flush)
		f = c.Fn(tsm1 + ".(*tsmWriter).Flush")
		bflush := calleeIn(f, "bufio.(*Writer).Flush")
		ts := calleeIn(f, tsm1+".(*tsmWriter).sync")
		okRule(c, f, "sync-before-close", "bufio.Flush", "tsmWriter.sync", bflush, evCall(ts))
		errPropagated(c, f, "error-surfaces", "tsmWriter.sync", ts)
		n += returnsOnlyAfterOK(c, f, "sync-before-close", "tsmWriter.sync", ts, nil)
		f = c.Fn(tsm1 + ".(*tsmWriter).sync")
		syncCall := func(ce *ast.CallExpr) bool {
			se, ok := ce.Fun.(*ast.SelectorExpr)
			return ok && se.Sel.Name == "Sync" && len(ce.Args) == 0
		}
		errPropagated(c, f, "error-surfaces", "wrapped.Sync", syncCall)
		n += 5

		// Compactor.write: the writer is closed on every exit and the close error is propagated
		f = c.Fn(tsm1 + ".(*Compactor).write")
		var dl *core.FuncInfo
		for _, d := range f.Graph().Defers {
			if lit, ok := d.Call.Fun.(*ast.FuncLit); ok {
				li := c.P.LitInfo(lit)
				if len(li.Graph().Find(func(e *core.Event) bool {
					return e.Kind == core.EvCall && core.CalleeName(e) == tsm1+".TSMWriter.Close"
				})) > 0 {
					dl = li
				}
			}
		}
		c.Check("close-on-every-exit", f.Name+"/deferred-close", f.PosStr(), dl != nil, "Compactor.write must defer a closure that closes the TSM writer")
		n++
		if dl != nil {
			// closeErr must be able to reach the named result err
			assigned := false
			ast.Inspect(dl.Body, func(nd ast.Node) bool {
				if as, ok := nd.(*ast.AssignStmt); ok && len(as.Lhs) == 1 && len(as.Rhs) == 1 {
					if l, ok := as.Lhs[0].(*ast.Ident); ok {
						if _, v := f.ResultExpr(&core.Event{Fn: f, Kind: core.EvReturn}, f.ErrResultIndex()); v != nil && dl.Info().ObjectOf(l) == v {
							fact := dl.Flow().FactOfExpr(dl.Graph().Exit, as.Rhs[0])
							_ = fact
							if r, ok := as.Rhs[0].(*ast.Ident); ok {
								// r defined by w.Close()
								ast.Inspect(dl.Body, func(n2 ast.Node) bool {
									if a2, ok := n2.(*ast.AssignStmt); ok && len(a2.Rhs) == 1 {
										if ce, ok := a2.Rhs[0].(*ast.CallExpr); ok {
											if fn, ok := core.Callee(dl.Info(), ce).(*types.Func); ok && core.FuncName(fn) == tsm1+".TSMWriter.Close" {
												if l2, ok := a2.Lhs[0].(*ast.Ident); ok && dl.Info().ObjectOf(l2) == dl.Info().ObjectOf(r) {
													assigned = true
												}
											}
										}
									}
									return true
								})
							}
						}
					}
				}
				return true
			})
			c.Check("close-error-surfaces", f.Name+"/closeErr->err", dl.PosStr(), assigned,
				"the error of TSMWriter.Close (which carries the fsync result) must be assigned to the named result of Compactor.write when no earlier error exists")
			n++
			// the defer must be registered before the first block is written
			wb := func(e *core.Event) bool {
				return e.Kind == core.EvCall && core.CalleeName(e) == tsm1+".TSMWriter.WriteBlock"
			}
			isDefer := func(e *core.Event) bool {
				return e.Kind == core.EvDefer && e.Call != nil && e.Call.Fun == ast.Expr(dl.Lit)
			}
			orderRule(c, f, "close-on-every-exit", "defer-close", "WriteBlock", isDefer, wb)
			n++
		}

		// Compactor.writeNewFiles / WriteSnapshot return files only after write succeeded
		f = c.Fn(tsm1 + ".(*Compactor).writeNewFiles")
		cw := calleeIn(f, tsm1+".(*Compactor).write")
		findOrAbort(c, f, "Compactor.write", evCall(cw), 1)

		// FileStore.replace: rename loop completes before anything old is closed/removed; dir synced before success
		f = c.Fn(tsm1 + ".(*FileStore).replace")
		rename := func(e *core.Event) bool {
			return e.Kind == core.EvCall && core.CalleeName(e) == "os.Rename"
		}
		destroy := func(e *core.Event) bool {
			if e.Kind != core.EvCall {
				return false
			}
			switch core.CalleeName(e) {
			case tsm1 + ".TSMFile.Close", tsm1 + ".TSMFile.Remove", tsm1 + ".TSMFile.Rename", "os.Remove":
				return true
			}
			return false
		}
		findOrAbort(c, f, "os.Rename", rename, 1)
		ds := findOrAbort(c, f, "old-file close/remove/rename", destroy, 3)
		noPathRule(c, f, "new-live-before-old-removed", "old-file removal", "rename of a new file", destroy, rename)
		_ = ds
		syncDir := calleeIn(f, "pkg/file.SyncDir")
		n += returnsOnlyAfterOK(c, f, "dir-synced-before-success", "file.SyncDir", syncDir, func(e *core.Event) string {
			// the empty-request early return: no call other than builtins precedes it on any path
			if noRealCallBefore(f, e) {
				return "nothing to replace: no operation precedes this return"
			}
			return ""
		})
		// the store of the new file list happens only after SyncDir succeeded
		filesStore := func(e *core.Event) bool {
			if e.Kind != core.EvAssign {
				return false
			}
			as, ok := e.Node.(*ast.AssignStmt)
			if !ok {
				return false
			}
			for _, l := range as.Lhs {
				if core.FieldPathOf(f.Info(), l) == "FileStore.files" {
					return true
				}
			}
			return false
		}
		okRule(c, f, "dir-synced-before-publish", "file.SyncDir", "store FileStore.files", syncDir, filesStore)
		n += 2
		// every destructive step's error is returned
		for _, nm := range []string{tsm1 + ".TSMFile.Close", tsm1 + ".TSMFile.Remove", tsm1 + ".TSMFile.Rename", "os.Remove", "os.Rename"} {
			nm := nm
			m := func(ce *ast.CallExpr) bool {
				fn, ok := core.Callee(f.Info(), ce).(*types.Func)
				return ok && core.FuncName(fn) == nm
			}
			if len(f.Graph().Find(evCall(m))) > 0 {
				errPropagated(c, f, "error-surfaces", short(nm), m)
				n++
			}
		}

		// Tombstoner.commit: gz.Close < bw.Flush < File.Sync < RenameFile < SyncDir, each checked
		f = c.Fn(tsm1 + ".(*Tombstoner).commit")
		gz := calleeIn(f, "compress/gzip.(*Writer).Close")
		bw := calleeIn(f, "bufio.(*Writer).Flush")
		fs := calleeIn(f, "os.(*File).Sync")
		rn := calleeIn(f, "pkg/file.RenameFile")
		sd := calleeIn(f, "pkg/file.SyncDir")
		okRule(c, f, "tombstone-commit-order", "gz.Close", "bw.Flush", gz, evCall(bw))
		okRule(c, f, "tombstone-commit-order", "bw.Flush", "File.Sync", bw, evCall(fs))
		okRule(c, f, "tombstone-commit-order", "File.Sync", "RenameFile", fs, evCall(rn))
		okRule(c, f, "tombstone-commit-order", "RenameFile", "SyncDir", rn, evCall(sd))
		errPropagated(c, f, "error-surfaces", "SyncDir", sd)
		n += 5
		n += returnsOnlyAfterOK(c, f, "tombstone-commit-order", "SyncDir", sd, func(e *core.Event) string {
			// "no pending writes" early return: pendingFile == nil
			st := f.Flow().In[e]
			for k, fct := range st {
				if k.Path == ".pendingFile" && fct.Nil == core.IsNil {
					return "no pending tombstone file"
				}
			}
			return ""
		})
		c.Floor("D2 obligations", n, 30)
	})

	c.Clause("D7", func() {
		// A write is acknowledged only when the field set that makes its fields readable after a restart is on disk.
		// With a TSI index a restart trusts a non-empty fields.idx (Engine.LoadMetadataIndex returns early), so a field
		// that is only in memory is unknown afterwards and its points are not returned. Shard.createFieldsAndMeasurements
		// therefore must either persist a new field before it publishes it to other writers (Save before
		// CreateFieldIfNotExists), or make a writer that finds nothing to create wait for the pending save of the
		// fields it relies on (some query of the field set's persistence state on that path).
		f := c.Fn("tsdb.(*Shard).createFieldsAndMeasurements")
		publish := evCall(calleeIn(f, "tsdb.(*MeasurementFields).CreateFieldIfNotExists"))
		save := evCall(calleeIn(f, "tsdb.(*MeasurementFieldSet).Save"))
		pubs := findOrAbort(c, f, "CreateFieldIfNotExists", publish, 1)
		findOrAbort(c, f, "MeasurementFieldSet.Save", save, 1)
		persistFirst := true
		for _, p := range pubs {
			target := p
			if len(f.MustPrecede(save, func(x *core.Event) bool { return x == target })) > 0 {
				persistFirst = false
			}
		}
		// does a path that saves nothing consult the field set at all?
		consults := false
		for _, e := range f.Graph().Events {
			if e.Kind != core.EvCall || e.Call == nil {
				continue
			}
			fn, ok := e.Callee.(*types.Func)
			if !ok || fn.Name() == "Save" {
				continue
			}
			if sig, ok := fn.Type().(*types.Signature); ok && sig.Recv() != nil && strings.HasSuffix(sig.Recv().Type().String(), "tsdb.MeasurementFieldSet") {
				consults = true
			}
		}
		// LoadMetadataIndex: the shortcut that makes fields.idx authoritative
		lm := c.Fn(tsm1 + ".(*Engine).LoadMetadataIndex")
		shortcut := len(lm.Graph().Find(evCall(calleeIn(lm, "tsdb.(*MeasurementFieldSet).IsEmpty")))) > 0
		c.Check("field-persisted-before-relied-on", f.Name+"/publish-before-persist", f.PosStr(), persistFirst || consults || !shortcut,
			"a new field is published in memory (CreateFieldIfNotExists) before fields.idx is saved, and a writer that finds nothing left to create returns without waiting for that save: its write is acknowledged while the field is in no fields.idx; if the save fails or the process dies while it is in flight, a restart with a TSI index trusts the non-empty fields.idx (LoadMetadataIndex returns early), the field is unknown and the acknowledged points are not returned")
	})

	c.Clause("D3", func() {
		f := c.Fn(tsm1 + ".(*Engine).Open")
		cleanup := calleeIn(f, tsm1+".(*Engine).cleanup")
		fsOpen := fieldCallIn(f, "Engine.FileStore", "Open")
		reload := calleeIn(f, tsm1+".(*Engine).reloadCache")
		okRule(c, f, "recovery-order", "cleanup", "FileStore.Open", cleanup, evCall(fsOpen))
		okRule(c, f, "recovery-order", "FileStore.Open", "reloadCache", fsOpen, evCall(reload))
		// reloadCache is reached on every successful Open when WALEnabled
		bad := ""
		complete := f.Flow().ExplorePaths(core.KeepCalls(reload, ".WALEnabled"), func(e *core.Event, st core.State) {
			if e.Kind != core.EvReturn {
				return
			}
			rf, _ := f.ReturnErrFact(e)
			if rf.Nil == core.NonNil {
				return
			}
			if core.CondOutcome(st, isField(f, "Engine.WALEnabled")) == 2 || core.OutcomeOK(st, reload) {
				return
			}
			bad = "Engine.Open can return nil with the WAL enabled without reloadCache having succeeded @" + c.P.Pos(e.Pos())
		})
		c.Need(complete, "exploration bound Engine.Open")
		c.Check("recovery-order", f.Name+"/reload-when-wal-enabled", f.PosStr(), bad == "", bad)
		// compactions enabled only after the cache was reloaded
		okRuleOrGuard := func() {
			sce := calleeIn(f, tsm1+".(*Engine).SetCompactionsEnabled")
			if len(f.Graph().Find(evCall(sce))) == 0 {
				return
			}
			okRule(c, f, "recovery-order", "FileStore.Open", "SetCompactionsEnabled", fsOpen, evCall(sce))
		}
		okRuleOrGuard()
		// reloadCache propagates the loader error
		r := c.Fn(tsm1 + ".(*Engine).reloadCache")
		load := calleeIn(r, tsm1+".(*CacheLoader).Load")
		errPropagated(c, r, "error-surfaces", "CacheLoader.Load", load)
		returnsOnlyAfterOK(c, r, "recovery-order", "CacheLoader.Load", load, nil)
		// cleanup removes tmp files
		cl := c.Fn(tsm1 + ".(*Engine).cleanup")
		ct := calleeIn(cl, tsm1+".(*Engine).cleanupTempTSMFiles")
		findOrAbort(c, cl, "cleanupTempTSMFiles", evCall(ct), 1)
		c.Floor("D3 obligations", len(c.Obs), 5)
	})

	c.Clause("D4", func() {
		// WAL tail typestate: the newest segment is reopened for writing by WAL.Open and may be
		// truncated by CacheLoader.Load through another descriptor. Safe shapes (any one suffices):
		//  (a) every os.OpenFile in WAL.Open that feeds NewWALSegmentWriter carries os.O_APPEND;
		//  (b) in Engine.Open the cache reload (which truncates) cannot follow WAL.Open;
		//  (c) CacheLoader.Load never truncates.
		wo := c.Fn(tsm1 + ".(*WAL).Open")
		openFile := calleeIn(wo, "os.OpenFile")
		opens := wo.Graph().Find(evCall(openFile))
		a := len(opens) > 0
		var detailA string
		for _, e := range opens {
			if len(e.Call.Args) < 2 {
				a = false
				continue
			}
			tv := wo.Info().Types[e.Call.Args[1]]
			if tv.Value == nil {
				a = false
				detailA = "flags of os.OpenFile in WAL.Open are not constant"
				continue
			}
			v, ok := constInt(tv.Value)
			if !ok || v&int64(osOAppend(c)) == 0 {
				a = false
				detailA = fmt.Sprintf("os.OpenFile @%s reopens the segment without O_APPEND", c.P.Pos(e.Pos()))
			}
		}
		eo := c.Fn(tsm1 + ".(*Engine).Open")
		walOpen := fieldCallIn(eo, "Engine.WAL", "Open")
		reload := calleeIn(eo, tsm1+".(*Engine).reloadCache")
		findOrAbort(c, eo, "WAL.Open", evCall(walOpen), 1)
		findOrAbort(c, eo, "reloadCache", evCall(reload), 1)
		b := len(eo.NoPath(evCall(walOpen), evCall(reload))) == 0
		ld := c.Fn(tsm1 + ".(*CacheLoader).Load")
		truncates := 0
		var walk func(f *core.FuncInfo)
		walk = func(f *core.FuncInfo) {
			truncates += len(f.Graph().Find(func(e *core.Event) bool {
				return (e.Kind == core.EvCall || e.Kind == core.EvDefer) && core.CalleeName(e) == "os.(*File).Truncate"
			}))
			for _, l := range f.Lits {
				walk(l)
			}
		}
		walk(ld)
		cOK := truncates == 0
		detail := ""
		if !(a || b || cOK) {
			detail = "WAL.Open reopens the newest segment for writing at a cached offset (" + detailA + "), Engine.Open runs reloadCache afterwards, and CacheLoader.Load truncates a torn tail through a second descriptor: " +
				"later acknowledged writes land beyond the new end of file, the hole is treated as corruption on the next restart and everything after it is cut off"
		}
		c.Check("wal-tail-typestate", tsm1+".(*WAL).Open+(*Engine).Open+(*CacheLoader).Load", wo.PosStr(), a || b || cOK, detail)
		c.Note("D4 shapes: append-mode reopen=%v, reload-before-open=%v, loader-never-truncates=%v", a, b, cOK)
		// segment ids never collide with an existing file: either new segments are created with O_EXCL,
		// or WAL.Open takes currentSegmentID from the newest segment on every successful path where segments exist
		nsf := c.Fn(tsm1 + ".(*WAL).newSegmentFile")
		excl := false
		for _, e := range nsf.Graph().Find(evCall(calleeIn(nsf, "os.OpenFile"))) {
			if tv := nsf.Info().Types[e.Call.Args[1]]; tv.Value != nil {
				if v, ok := constInt(tv.Value); ok && v&osConst(c, "O_EXCL") != 0 {
					excl = true
				}
			}
		}
		idf := calleeIn(wo, tsm1+".idFromFileName")
		hasSegs := func(x ast.Expr) bool {
			be, ok := ast.Unparen(x).(*ast.BinaryExpr)
			if !ok || be.Op != token.GTR {
				return false
			}
			ce, ok := be.X.(*ast.CallExpr)
			if !ok || len(ce.Args) != 1 {
				return false
			}
			id, ok := ce.Args[0].(*ast.Ident)
			if !ok {
				return false
			}
			fact := wo.Flow().FactOfExpr(wo.Graph().Exit, id)
			_ = fact
			return isLenCall(wo.Info(), ce) && allDefsContain(wo, wo.Info().ObjectOf(id), calleeIn(wo, tsm1+".segmentFileNames"))
		}
		badID := ""
		// the branch taken when segments exist: the body of the `if len(segments) > 0` statement. The path is
		// marked while inside it (the condition's own fact does not survive: the body re-slices `segments`).
		var segsBody *ast.BlockStmt
		ast.Inspect(wo.Body, func(nd ast.Node) bool {
			if ifs, ok := nd.(*ast.IfStmt); ok && segsBody == nil && hasSegs(ifs.Cond) {
				segsBody = ifs.Body
			}
			return true
		})
		c.Need(segsBody != nil, "WAL.Open: branch for existing segments")
		_ = strings.HasPrefix
		complete := wo.Flow().ExplorePathsMarked(func(k core.VarKey, fct core.Fact) bool {
			if ce, ok := fct.Def.(*ast.CallExpr); ok && idf(ce) {
				return true
			}
			return false
		}, func(e *core.Event) string {
			if p := e.Pos(); e.Node != nil && p >= segsBody.Pos() && p < segsBody.End() {
				return "segments-exist"
			}
			return ""
		}, func(e *core.Event, st core.State) {
			if e.Kind != core.EvReturn {
				return
			}
			rf, _ := wo.ReturnErrFact(e)
			if rf.Nil == core.NonNil || !core.Marked(st, "segments-exist") {
				return
			}
			for k, fct := range st {
				if k.Path == ".currentSegmentID" {
					if ce, ok := fct.Def.(*ast.CallExpr); ok && idf(ce) {
						return
					}
				}
			}
			badID = "WAL.Open can succeed with existing segments without setting currentSegmentID from the newest segment's file name @" + c.P.Pos(e.Pos())
		})
		c.Need(complete, "exploration bound WAL.Open")
		c.Check("segment-id-never-reused", tsm1+".(*WAL).Open/currentSegmentID", wo.PosStr(), excl || badID == "",
			badID+": the next newSegmentFile (opened without O_EXCL/O_TRUNC) re-creates an existing segment name and overwrites acknowledged entries from offset 0")
		// newSegmentFile: the old segment is synced (waiters notified) before it is closed
		ns := c.Fn(tsm1 + ".(*WAL).newSegmentFile")
		orderRule(c, ns, "sync-before-roll", "WAL.sync", "segment.close", evCall(calleeIn(ns, tsm1+".(*WAL).sync")),
			evCall(calleeIn(ns, tsm1+".(*WALSegmentWriter).close")))
		errPropagated(c, ns, "error-surfaces", "segment.close", calleeIn(ns, tsm1+".(*WALSegmentWriter).close"))
		// WAL.Close: sync before close
		wc := c.Fn(tsm1 + ".(*WAL).Close")
		for _, l := range wc.Lits {
			if len(l.Graph().Find(evCall(calleeIn(l, tsm1+".(*WALSegmentWriter).close")))) > 0 {
				orderRule(c, l, "sync-before-roll", "WAL.sync", "segment.close", evCall(calleeIn(l, tsm1+".(*WAL).sync")),
					evCall(calleeIn(l, tsm1+".(*WALSegmentWriter).close")))
			}
		}
		// segment close flushes the buffered writer before closing the file
		sc := c.Fn(tsm1 + ".(*WALSegmentWriter).close")
		okRule(c, sc, "flush-before-close", "Flush", "file.Close", calleeIn(sc, tsm1+".(*WALSegmentWriter).Flush"),
			func(e *core.Event) bool { return e.Kind == core.EvCall && core.CalleeName(e) == "io.Closer.Close" })
	})

	c.Clause("D5", func() {
		sites := callSites(c.P, []string{tsm1}, "os.Remove", "os.RemoveAll", "os.Rename", "pkg/file.RenameFile", "os.(*File).Truncate")
		siteTable(c, "who-may-destroy-shard-files", sites, []siteRow{
			{tsm1 + ".(*CacheLoader).Load", "os.(*File).Truncate", 1, "cuts a corrupt WAL tail at the clean prefix"},
			{tsm1 + ".(*Compactor).removeTmpFiles", "os.Remove", 1, "abandoned compaction outputs (tmp)"},
			{tsm1 + ".(*Compactor).writeNewFiles", "os.RemoveAll", 3, "tmp outputs of a failed/empty compaction"},
			{tsm1 + ".(*Engine).Backup", "os.RemoveAll", 1, "snapshot directory created by this backup"},
			{tsm1 + ".(*Engine).Digest", "os.Remove", 1, "tmp digest file on error"},
			{tsm1 + ".(*Engine).Digest", "pkg/file.RenameFile", 1, "install digest file"},
			{tsm1 + ".(*Engine).Export", "os.RemoveAll", 1, "snapshot directory created by this export"},
			{tsm1 + ".(*Engine).cleanup", "os.RemoveAll", 1, "left-over snapshot .tmp directories at open"},
			{tsm1 + ".(*Engine).cleanupTempTSMFiles", "os.Remove", 1, "left-over .tsm.tmp files at open"},
			{tsm1 + ".(*Engine).filterFileToBackup", "os.Remove", 1, "temporary filtered copy made for the export"},
			{tsm1 + ".(*Engine).writeSnapshotAndCommit", "os.Remove", 1, "new snapshot files after a failed Replace"},
			{tsm1 + ".(*FileStore).CreateSnapshot", "os.RemoveAll", 1, "snapshot tmp directory on link failure"},
			{tsm1 + ".(*FileStore).Open", "os.Rename", 1, "corrupt file renamed to .bad"},
			{tsm1 + ".(*FileStore).replace", "os.Remove", 1, "tombstones of a replaced in-use file"},
			{tsm1 + ".(*FileStore).replace", "os.Rename", 3, "tmp -> live rename and its rollback"},
			{tsm1 + ".(*TSMReader).remove", "os.RemoveAll", 1, "the reader's own file (called by replace/purger)"},
			{tsm1 + ".(*Tombstoner).Delete", "os.RemoveAll", 1, "tombstone file of a removed TSM file"},
			{tsm1 + ".(*Tombstoner).commit", "pkg/file.RenameFile", 1, "install synced tombstone file"},
			{tsm1 + ".(*Tombstoner).prepareV4", "os.Remove", 1, "tmp tombstone on copy failure"},
			{tsm1 + ".(*Tombstoner).rollback", "os.Remove", 1, "pending tmp tombstone"},
			{tsm1 + ".(*WAL).Open", "os.Remove", 1, "empty newest segment"},
			{tsm1 + ".(*WAL).Remove", "os.RemoveAll", 1, "closed segments covered by a committed snapshot"},
			{tsm1 + ".(*compactionStrategy).compactGroup", "os.Remove", 1, "new compaction outputs after a failed Replace"},
			{tsm1 + ".(*compactionStrategy).compactGroup", "os.Rename", 1, "corrupt input renamed to .bad"},
			{tsm1 + ".(*directIndex).Close", "os.Remove", 1, "disk-backed index buffer (tmp)"},
			{tsm1 + ".(*directIndex).Remove", "os.Remove", 1, "disk-backed index buffer (tmp)"},
			{tsm1 + ".(*mmapAccessor).rename", "pkg/file.RenameFile", 1, "TSMFile.Rename used by replace for in-use files"},
			{tsm1 + ".(*tsmWriter).Remove", "os.Remove", 1, "output of a failed Compactor.write"},
		}, 24)
		// WAL.Remove is called only from the snapshot commit
		fsites := callSites(c.P, []string{tsm1, "tsdb"}, tsm1+".(*WAL).Remove")
		siteTable(c, "who-may-remove-wal-segments", fsites, []siteRow{
			{tsm1 + ".(*Engine).writeSnapshotAndCommit", tsm1 + ".(*WAL).Remove", 1, "after FileStore.Replace returned nil (D2)"},
		}, 1)
	})
}

func constInt(v constant.Value) (int64, bool) {
	if v.Kind() != constant.Int {
		return 0, false
	}
	return constant.Int64Val(v)
}

// osOAppend reads the value of os.O_APPEND from the type-checked os package.
func osOAppend(c *core.Ctx) int64 {
	for _, p := range c.P.Pkgs {
		for path, imp := range p.Imports {
			if path == "os" && imp.Types != nil {
				if o, ok := imp.Types.Scope().Lookup("O_APPEND").(*types.Const); ok {
					if v, ok := constant.Int64Val(o.Val()); ok {
						return v
					}
				}
			}
		}
	}
	panic("os.O_APPEND not found")
}

func osConst(c *core.Ctx, name string) int64 {
	for _, p := range c.P.Pkgs {
		for path, imp := range p.Imports {
			if path == "os" && imp.Types != nil {
				if o, ok := imp.Types.Scope().Lookup(name).(*types.Const); ok {
					if v, ok := constant.Int64Val(o.Val()); ok {
						return v
					}
				}
			}
		}
	}
	panic("os." + name + " not found")
}

func isLenCall(info *types.Info, ce *ast.CallExpr) bool {
	b, ok := core.Callee(info, ce).(*types.Builtin)
	return ok && b.Name() == "len"
}

// allDefsContain: some assignment to obj has an RHS call accepted by pred (the variable derives from that call).
func allDefsContain(f *core.FuncInfo, obj types.Object, pred func(*ast.CallExpr) bool) bool {
	found := false
	info := f.Info()
	ast.Inspect(f.Body, func(nd ast.Node) bool {
		if as, ok := nd.(*ast.AssignStmt); ok {
			for _, l := range as.Lhs {
				if id, isId := l.(*ast.Ident); isId && info.ObjectOf(id) == obj {
					for _, r := range as.Rhs {
						if ce, ok := ast.Unparen(r).(*ast.CallExpr); ok && pred(ce) {
							found = true
						}
					}
				}
			}
		}
		return true
	})
	return found
}
