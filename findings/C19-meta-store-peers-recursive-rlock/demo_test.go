// Copy into: services/meta
// go test -vet=off -count=1 -run 'TestFinding_StorePeers_RecursiveRLock' ./services/meta/
package meta

import (
	"sync/atomic"
	"testing"
	"time"
)

// store.peers takes s.mu.RLock and calls s.leader, which takes s.mu.RLock again. A writer of store.mu that arrives
// between the two (setOpen, openRaft, close, the FSM's Restore) blocks the second RLock and is itself blocked by
// the first: the meta store stops answering for good.
func TestFinding_StorePeers_RecursiveRLock(t *testing.T) {
	s := &store{raftState: &raftState{}}
	s.opened = true
	var stop int32
	done := make(chan struct{})
	go func() {
		defer close(done)
		for i := 0; i < 2000000 && atomic.LoadInt32(&stop) == 0; i++ {
			s.peers()
		}
	}()
	wdone := make(chan struct{})
	go func() {
		defer close(wdone)
		for atomic.LoadInt32(&stop) == 0 {
			s.setOpen() // a real writer of store.mu (returns ErrStoreOpen under the lock)
		}
	}()
	select {
	case <-done:
		atomic.StoreInt32(&stop, 1)
		<-wdone
	case <-time.After(10 * time.Second):
		t.Fatal("store.peers and a writer of store.mu are deadlocked: peers read-locks the mutex recursively through leader()")
	}
}
