package props

import (
	"fmt"
	"go/ast"
	"go/token"
	"go/types"
	"sort"
	"strings"

	"verifcheck/core"
)

func init() {
	register("C15", core.PropertyMeta{
		Explanation: "Decides structural clauses of the inter-node protocol's robustness and fidelity: D1 every use of a length decoded from the wire (allocation size, slice bound, index) in coordinator/query/hh/models/tcp is guarded on every path against negative values (signed lengths) and against an upper bound (allocations: any bound or a <=32-bit unsigned type; slices: the length of the sliced value); the frame reader's bound is the protocol maximum; " +
			"D2 the request-type registry equals the case set of handleConn's dispatch; D3 a request that fails to decode never reaches the store/executor, an undecodable point inside a write request makes the request fail (nil marker kept by unmarshalPoints and rejected before WriteToShard); " +
			"D4 for every message struct with MarshalBinary/UnmarshalBinary the fields written equal the fields restored, the five point codecs and the aux codec write every value field they read; D5 no single-result type assertion in UnmarshalBinary bodies; D6 frozen table of explicit panic sites in the coordinator package and the iterator encoder; D7 a failed framed exchange poisons the pooled connection. " +
			"D8 in every UnmarshalBinary of the coordinator's wire types the error of every fallible call is tested or returned. " +
			"D2 also: a frame of unknown type ends the connection; D9 a binary point is validated for every field type before any consumer reads it; D10 the arguments of a call expression are indexed only under an established length test on the serving side; D11 panicking constructors only on constants; D12 the dispatcher's reply carries the processing error. " +
			"NOT decided: panics inside protobuf/snappy, semantic equality of decoded expressions, the text of error replies.",
		RuleText:    "obligation = (rule, function, use/site/field); path exploration with decomposed branch conditions for D1; registry/case-set agreement; field read/write agreement of codec pairs",
		Assumptions: commonAssumptions,
	}, runC15)
}

func boundsObligations(c *core.Ctx, rule string, pkgs []string) int {
	n := 0
	for _, rel := range pkgs {
		for _, f := range c.P.FuncsIn(rel) {
			uses, err := core.CheckBounds(f)
			if err != nil {
				c.Check(rule, f.Name+"/undecided", f.PosStr(), false, "undecided: "+err.Error())
				continue
			}
			sort.Slice(uses, func(i, j int) bool {
				return uses[i].Ev.Pos() < uses[j].Ev.Pos() || (uses[i].Ev.Pos() == uses[j].Ev.Pos() && uses[i].Kind < uses[j].Kind)
			})
			cnt := map[string]int{}
			for _, u := range uses {
				k := fmt.Sprintf("%s/%s:%s", f.Name, u.Kind, u.Var.Name())
				cnt[k]++
				detail := ""
				if !u.LowerOK {
					detail = fmt.Sprintf("length %s comes from decoded bytes and is signed, but it is used as %s without a test that rejects negative values on every path", u.Var.Name(), u.Kind)
				}
				if !u.UpperOK {
					if detail != "" {
						detail += "; "
					}
					if u.Kind == "make" {
						detail += fmt.Sprintf("length %s comes from decoded bytes and sizes an allocation without an upper bound test on every path", u.Var.Name())
					} else {
						detail += fmt.Sprintf("length %s comes from decoded bytes and bounds %s[...] without a test against len(%s) on every path (a test that does arithmetic on the length in a type where it can wrap around does not count)", u.Var.Name(), u.Base, u.Base)
					}
				}
				c.Check(rule, fmt.Sprintf("%s#%d", k, cnt[k]), c.P.Pos(u.Ev.Pos()), u.LowerOK && u.UpperOK, detail)
				n++
			}
		}
	}
	return n
}

func runC15(c *core.Ctx) {
	c.Clause("D1", func() {
		n := boundsObligations(c, "decoded-length-bounded", []string{coord, "query", hhp, "models", "tcp", "pkg/tar"})
		c.Floor("uses of decoded lengths", n, 8) // (12 today; shared helpers reduce the count without weakening anything)
		// the frame reader compares against the protocol maximum
		f := c.Fn(coord + ".ReadLV")
		max := c.P.LookupObj(coord, "MaxMessageSize")
		c.Need(max != nil, "coordinator.MaxMessageSize")
		usesMax := false
		// the comparison may sit in ReadLV or in an error-returning helper it calls before allocating
		scan := []*core.FuncInfo{f}
		for _, callee := range c.P.Callees(f) {
			if callee.Decl != nil && core.Rel(callee.Pkg.PkgPath) == coord && callee.ErrResultIndex() >= 0 && !callee.Decl.Name.IsExported() {
				scan = append(scan, callee)
			}
		}
		for _, g := range scan {
			for _, e := range g.Graph().Events {
				if e.Kind == core.EvCond {
					ast.Inspect(e.Node, func(nd ast.Node) bool {
						if id, ok := nd.(*ast.Ident); ok && g.Info().ObjectOf(id) == max {
							usesMax = true
						}
						return true
					})
				}
			}
		}
		c.Check("frame-bounded-by-protocol-max", f.Name+"/MaxMessageSize", f.PosStr(), usesMax, "ReadLV must compare the decoded frame length with MaxMessageSize before allocating")
		// every other function that reads a frame length itself is covered by the generic rule above
	})

	c.Clause("D2", func() {
		f := c.Fn(coord + ".(*Service).handleConn")
		info := f.Info()
		pkg := c.P.ByPath[coord]
		registry := map[string]bool{}
		sc := pkg.Types.Scope()
		for _, nm := range sc.Names() {
			if k, ok := sc.Lookup(nm).(*types.Const); ok && strings.HasSuffix(nm, "RequestMessage") {
				registry[k.Pkg().Name()+"."+nm] = true
			}
		}
		c.Floor("request message registry", len(registry), 22)
		cases := map[string]*ast.CaseClause{}
		ast.Inspect(f.Body, func(nd ast.Node) bool {
			if cc, ok := nd.(*ast.CaseClause); ok {
				for _, x := range cc.List {
					cases[constName(info, x)] = cc
				}
			}
			return true
		})
		var names []string
		for k := range registry {
			names = append(names, k)
		}
		sort.Strings(names)
		for _, k := range names {
			cc := cases[k]
			c.Check("every-request-type-has-a-handler", f.Name+"/"+k, f.PosStr(), cc != nil, "request type "+k+" has no case in handleConn: a peer sending it is only logged, and the unread payload is then parsed as the next frame header")
			if cc == nil {
				continue
			}
			// the case delegates to a process* function or reads the frame itself
			calls := false
			ast.Inspect(cc, func(nd ast.Node) bool {
				if ce, ok := nd.(*ast.CallExpr); ok {
					if fn, ok := core.Callee(info, ce).(*types.Func); ok && (strings.HasPrefix(fn.Name(), "process") || fn.Name() == "ReadLV") {
						calls = true
					}
				}
				return true
			})
			c.Check("every-request-type-has-a-handler", f.Name+"/"+k+"/delegates", c.P.Pos(cc.Pos()), calls, "the case for "+k+" neither reads the frame nor calls a process* function")
		}
		// a frame of unknown type ends the connection: its length and payload follow on the stream, and reading on
		// would dispatch on bytes from the middle of that frame
		var def *ast.CaseClause
		ast.Inspect(f.Body, func(nd ast.Node) bool {
			if sw, ok := nd.(*ast.SwitchStmt); ok {
				hasMsg := false
				var d *ast.CaseClause
				for _, s := range sw.Body.List {
					cc := s.(*ast.CaseClause)
					if cc.List == nil {
						d = cc
					}
					for _, x := range cc.List {
						if strings.HasSuffix(constName(info, x), "RequestMessage") {
							hasMsg = true
						}
					}
				}
				if hasMsg && def == nil {
					def = d
				}
			}
			return true
		})
		leaves := false
		if def != nil && len(def.Body) > 0 {
			_, leaves = def.Body[len(def.Body)-1].(*ast.ReturnStmt)
		}
		c.Check("unknown-frame-type-ends-the-connection", f.Name+"/default", f.PosStr(), def != nil && leaves,
			"the dispatcher has no default branch that returns: after a frame of a type this node does not know it reads on and takes the bytes of that frame's length and payload for message types (a payload can carry a complete write-shard or leave-cluster request)")
		for k := range cases {
			if strings.HasSuffix(k, "Message") && !registry[k] {
				c.Check("every-request-type-has-a-handler", f.Name+"/"+k+"/registered", f.PosStr(), false, "handleConn dispatches on "+k+" which is not a request message constant")
			}
		}
	})

	c.Clause("D3", func() {
		n := 0
		for _, f := range c.P.FuncsIn(coord) {
			if f.Body == nil || !strings.HasPrefix(f.Root().Name, coord+".(*Service).process") {
				continue
			}
			dec := calleeIn(f, coord+".DecodeLV")
			um := func(ce *ast.CallExpr) bool {
				se, ok := ce.Fun.(*ast.SelectorExpr)
				return ok && se.Sel.Name == "UnmarshalBinary"
			}
			either := func(ce *ast.CallExpr) bool { return dec(ce) || um(ce) }
			if len(f.Graph().Find(evCall(either))) == 0 {
				continue
			}
			// every call on a Service dependency (store, meta client, task manager, ...) needs the decode to have succeeded
			for _, e := range f.Graph().Events {
				if e.Kind != core.EvCall || !f.Flow().Reachable(e) {
					continue
				}
				fp := core.RecvFieldOf(e)
				if !strings.HasPrefix(fp, "Service.") || fp == "Service.Logger" || fp == "Service.stats" {
					continue
				}
				n++
				ok := f.Flow().CallOKAt(e, either)
				c.Check("decode-before-execute", fmt.Sprintf("%s/%s.%s", f.Root().Name, fp, e.Call.Fun.(*ast.SelectorExpr).Sel.Name), c.P.Pos(e.Pos()), ok,
					"a request handler calls "+fp+" on a path where the request has not been decoded successfully")
			}
		}
		c.Floor("dependency calls behind a decode", n, 20)
		// undecodable point inside a valid write request
		up := c.Fn(coord + ".(*WriteShardRequest).unmarshalPoints")
		info := up.Info()
		var loop *core.Loop
		for _, l := range up.Graph().Loops() {
			loop = l
		}
		c.Need(loop != nil, "loop of unmarshalPoints")
		isStore := func(e *core.Event) bool {
			if e.Kind != core.EvAssign {
				return false
			}
			as, ok := e.Node.(*ast.AssignStmt)
			if !ok {
				return false
			}
			for _, l := range as.Lhs {
				if _, ok := ast.Unparen(l).(*ast.IndexExpr); ok {
					return true
				}
			}
			for _, r := range as.Rhs {
				if ce, ok := ast.Unparen(r).(*ast.CallExpr); ok {
					if b, ok := core.Callee(info, ce).(*types.Builtin); ok && b.Name() == "append" {
						return true
					}
				}
			}
			return false
		}
		min, _, okc, _ := up.Flow().IterationCount(loop, isStore)
		errRet := up.ErrResultIndex() >= 0
		c.Check("failed-decode-is-not-dropped", up.Name+"/every-iteration-stores-or-fails", up.PosStr(), errRet || (okc && min >= 1),
			"unmarshalPoints can skip a point that failed to decode (an iteration that stores nothing and returns no error): the request is then acknowledged although a point was silently lost")
		pw := c.Fn(coord + ".(*Service).processWriteShardRequest")
		wts := fieldCallIn(pw, "Service.TSDBStore", "WriteToShard")
		nilTest := func(e *core.Event) bool {
			if e.Kind != core.EvCond {
				return false
			}
			be, ok := ast.Unparen(e.Node.(ast.Expr)).(*ast.BinaryExpr)
			return ok && be.Op == token.EQL && (isNilExpr(pw.Info(), be.Y) || isNilExpr(pw.Info(), be.X)) && func() bool {
				t := pw.Info().TypeOf(be.X)
				return t != nil && strings.HasSuffix(t.String(), "models.Point")
			}()
		}
		// the scan may have been extracted into a boolean helper: `if containsNilPoint(points) { return err }`
		helperScan := func(e *core.Event) bool {
			if e.Kind != core.EvCond {
				return false
			}
			ce, ok := ast.Unparen(e.Node.(ast.Expr)).(*ast.CallExpr)
			if !ok {
				return false
			}
			fn, ok := core.Callee(pw.Info(), ce).(*types.Func)
			if !ok {
				return false
			}
			h := c.P.FuncOf(fn)
			if h == nil || h.Decl == nil || h.Decl.Name.IsExported() || h.NumResults() != 1 {
				return false
			}
			// the helper tests an element of type models.Point against nil and can answer true there
			found := false
			for _, he := range h.Graph().Events {
				if he.Kind != core.EvCond {
					continue
				}
				be, ok := ast.Unparen(he.Node.(ast.Expr)).(*ast.BinaryExpr)
				if !ok || be.Op != token.EQL || !(isNilExpr(h.Info(), be.Y) || isNilExpr(h.Info(), be.X)) {
					continue
				}
				if t := h.Info().TypeOf(be.X); t == nil || !strings.HasSuffix(t.String(), "models.Point") {
					continue
				}
				for _, ed := range he.Succ {
					if ed.Cond != nil && ed.Val {
						for r := range h.Flow().ReachableFrom(ed.To, nil) {
							if rs, ok := r.Node.(*ast.ReturnStmt); ok && len(rs.Results) == 1 && core.ExprStr(rs.Results[0]) == "true" {
								found = true
							}
						}
						if rs, ok := ed.To.Node.(*ast.ReturnStmt); ok && len(rs.Results) == 1 && core.ExprStr(rs.Results[0]) == "true" {
							found = true
						}
					}
				}
			}
			return found
		}
		if !errRet && len(pw.Graph().Find(nilTest)) == 0 && len(pw.Graph().Find(helperScan)) > 0 {
			scans := pw.Graph().Find(helperScan)
			orderRule(c, pw, "failed-decode-is-not-dropped", "nil-point scan", "TSDBStore.WriteToShard", helperScan, evCall(wts))
			for i, e := range scans {
				good := false
				for _, ed := range e.Succ {
					if ed.Cond != nil && ed.Val {
						// on the true edge no WriteToShard is reachable and a return with a non-nil error follows
						reach := pw.Flow().ReachableFrom(ed.To, nil)
						reach[ed.To] = true
						wrote, rejected := false, false
						for r := range reach {
							if r.Kind == core.EvCall && wts(r.Call) {
								wrote = true
							}
							if r.Kind == core.EvReturn {
								if rf, _ := pw.ReturnErrFact(r); rf.Nil == core.NonNil {
									rejected = true
								}
							}
						}
						good = rejected && !wrote
					}
				}
				c.Check("failed-decode-is-not-dropped", fmt.Sprintf("%s/nil-point-rejected#%d", pw.Name, i+1), c.P.Pos(e.Pos()), good, "a nil (undecodable) point must make processWriteShardRequest return an error")
			}
		} else if !errRet {
			findOrAbort(c, pw, "nil test of a decoded point", nilTest, 1)
			// the nil test (loop) precedes every WriteToShard
			loops := pw.Graph().Loops()
			var nilLoop *core.Loop
			for _, l := range loops {
				for _, e := range pw.Graph().Find(nilTest) {
					if l.Stmt.Pos() <= e.Pos() && e.Pos() < l.Stmt.End() {
						nilLoop = l
					}
				}
			}
			c.Need(nilLoop != nil, "loop holding the nil test")
			orderRule(c, pw, "failed-decode-is-not-dropped", "nil-point scan", "TSDBStore.WriteToShard", func(e *core.Event) bool { return e == nilLoop.Head }, evCall(wts))
			// the nil branch rejects
			for i, e := range pw.Graph().Find(nilTest) {
				p := pw.Flow().PathAvoiding(e, evCall(wts), func(x *core.Event) bool { return x == nilLoop.Head })
				_ = p
				// on the true edge a return with a non-nil error follows
				good := false
				for _, ed := range e.Succ {
					if ed.Cond != nil && ed.Val {
						reach := pw.Flow().ReachableFrom(e, func(x *core.Event) bool { return x == nilLoop.Head })
						for r := range reach {
							if r.Kind == core.EvReturn {
								if rf, _ := pw.ReturnErrFact(r); rf.Nil == core.NonNil {
									good = true
								}
							}
						}
					}
				}
				c.Check("failed-decode-is-not-dropped", fmt.Sprintf("%s/nil-point-rejected#%d", pw.Name, i+1), c.P.Pos(e.Pos()), good, "a nil (undecodable) point must make processWriteShardRequest return an error")
			}
		}
	})

	c.Clause("D4", func() {
		pkg := c.P.ByPath[coord]
		sc := pkg.Types.Scope()
		n := 0
		for _, nm := range sc.Names() {
			tn, ok := sc.Lookup(nm).(*types.TypeName)
			if !ok {
				continue
			}
			nt, ok := tn.Type().(*types.Named)
			if !ok {
				continue
			}
			st, ok := nt.Underlying().(*types.Struct)
			if !ok {
				continue
			}
			mf := c.P.Fn(fmt.Sprintf("%s.(*%s).MarshalBinary", coord, nm))
			if mf == nil {
				mf = c.P.Fn(fmt.Sprintf("%s.%s.MarshalBinary", coord, nm))
			}
			uf := c.P.Fn(fmt.Sprintf("%s.(*%s).UnmarshalBinary", coord, nm))
			if mf == nil || uf == nil {
				continue
			}
			for i := 0; i < st.NumFields(); i++ {
				fld := st.Field(i)
				if fld.Name() == "pb" {
					continue // protobuf-backed message: the generated code is the codec
				}
				n++
				r, _ := mf.AccessesField(fld)
				_, w := uf.AccessesField(fld)
				// fields may also be restored through a method call on the field (r.Measurement.UnmarshalBinary(...)) or by taking its address
				if !w {
					w = fieldPassedOn(uf, fld)
				}
				c.Check("message-field-agreement", nm+"."+fld.Name(), c.P.Pos(fld.Pos()), r == w,
					fmt.Sprintf("field %s.%s: written by MarshalBinary=%v, restored by UnmarshalBinary=%v", nm, fld.Name(), r, w))
			}
		}
		c.Floor("message struct fields", n, 60)
		// streamed points: every value field a decoder reads is written by the matching encoder
		for _, typ := range []string{"Float", "Integer", "Unsigned", "String", "Boolean"} {
			enc := c.Fn("query.encode" + typ + "Point")
			dec := c.Fn("query.decode" + typ + "Point")
			written := map[string]bool{}
			ast.Inspect(enc.Body, func(nd ast.Node) bool {
				if kv, ok := nd.(*ast.KeyValueExpr); ok {
					if id, ok := kv.Key.(*ast.Ident); ok {
						written[id.Name] = true
					}
				}
				return true
			})
			read := map[string]bool{}
			ast.Inspect(dec.Body, func(nd ast.Node) bool {
				if se, ok := nd.(*ast.SelectorExpr); ok {
					name := strings.TrimPrefix(se.Sel.Name, "Get")
					if id, ok := se.X.(*ast.Ident); ok && id.Name == paramName(dec, 0) {
						read[name] = true
					}
				}
				return true
			})
			var keys []string
			for k := range read {
				keys = append(keys, k)
			}
			sort.Strings(keys)
			for _, k := range keys {
				c.Check("point-codec-agreement", fmt.Sprintf("query.%sPoint.%s", typ, k), enc.PosStr(), written[k],
					fmt.Sprintf("decode%sPoint reads %s but encode%sPoint never writes it: the attribute is lost when the point crosses nodes", typ, k, typ))
			}
			c.Need(len(keys) >= 6, "fields read by decode"+typ+"Point")
		}
		// aux values: each value-typed case of encodeAux sets the value field in the literal it builds
		ea := c.Fn("query.encodeAux")
		valueField := map[string]string{"float64": "FloatValue", "int64": "IntegerValue", "uint64": "UnsignedValue", "string": "StringValue", "bool": "BooleanValue"}
		found := 0
		ast.Inspect(ea.Body, func(nd ast.Node) bool {
			cc, ok := nd.(*ast.CaseClause)
			if !ok || len(cc.List) != 1 {
				return true
			}
			t := ea.Info().TypeOf(cc.List[0])
			if t == nil {
				return true
			}
			want, ok := valueField[t.String()]
			if !ok {
				return true
			}
			found++
			set := false
			for _, st := range cc.Body {
				if as, ok := st.(*ast.AssignStmt); ok && len(cc.Body) == 1 {
					ast.Inspect(as, func(n2 ast.Node) bool {
						if kv, ok := n2.(*ast.KeyValueExpr); ok {
							if id, ok := kv.Key.(*ast.Ident); ok && id.Name == want {
								set = true
							}
						}
						return true
					})
				}
			}
			c.Check("aux-value-always-encoded", "query.encodeAux/case-"+t.String(), c.P.Pos(cc.Pos()), set,
				"the "+t.String()+" case of encodeAux must build the Aux message with "+want+" set unconditionally: a value that is only sometimes encoded decodes as the nil marker on the other node")
			return true
		})
		c.Need(found == 5, "five value cases in encodeAux")
	})

	c.Clause("D5", func() {
		n := 0
		for _, f := range c.P.FuncsIn(coord) {
			if f.Decl == nil || f.Decl.Name.Name != "UnmarshalBinary" {
				continue
			}
			n++
			bad := ""
			ast.Inspect(f.Body, func(nd ast.Node) bool {
				if ta, ok := nd.(*ast.TypeAssertExpr); ok && ta.Type != nil {
					// single-result form?
					single := true
					ast.Inspect(f.Body, func(n2 ast.Node) bool {
						if as, ok := n2.(*ast.AssignStmt); ok && len(as.Lhs) == 2 && len(as.Rhs) == 1 && ast.Unparen(as.Rhs[0]) == ast.Expr(ta) {
							single = false
						}
						return true
					})
					if single {
						bad = "single-result type assertion on decoded data @" + c.P.Pos(ta.Pos())
					}
				}
				return true
			})
			c.Check("no-unchecked-assertion-on-decoded-data", f.Name, f.PosStr(), bad == "", bad)
		}
		c.Floor("UnmarshalBinary methods", n, 40)
	})

	c.Clause("D6", func() {
		// "unhandled case" panics reachable from the connection handler: an explicit panic in the default clause of a
		// switch. Type switches are decided automatically (no member of the five-value-type family may be missing);
		// value switches need a frozen row: either a reason why the switched value cannot come from the wire, or a
		// validation guard that is itself checked.
		hc := c.Fn(coord + ".(*Service).handleConn")
		cl := c.P.Closure([]*core.FuncInfo{hc}, nil)
		c.Counts["functions_analysed"] += len(cl)
		c.Floor("closure of handleConn", len(cl), 2000)
		type row struct {
			why   string
			guard func() (bool, string)
		}
		guardIn := func(fn, field, callee string) func() (bool, string) {
			return func() (bool, string) {
				f := c.P.Fn(fn)
				if f == nil {
					return false, "validating function " + fn + " not found"
				}
				isGuard := func(e *core.Event) bool {
					if e.Kind != core.EvCond {
						return false
					}
					found := false
					ast.Inspect(e.Node, func(nd ast.Node) bool {
						if se, ok := nd.(*ast.SelectorExpr); ok && se.Sel.Name == field {
							found = true
						}
						return true
					})
					return found
				}
				if len(f.Graph().Find(isGuard)) == 0 {
					return false, fn + " no longer tests ." + field + " before the request reaches " + callee
				}
				target := func(e *core.Event) bool { return e.Kind == core.EvCall && core.CalleeName(e) == callee }
				if len(f.Graph().Find(target)) == 0 {
					return false, fn + " no longer calls " + callee
				}
				if v := f.MustPrecede(isGuard, target); len(v) > 0 {
					return false, callee + " is reachable in " + fn + " without the ." + field + " validation: " + core.PathStr(v[0])
				}
				return true, "validated by " + fn
			}
		}
		rows := map[string]row{
			"storage/reads.NewGroupResultSet":              {"group mode validated before the constructor", guardIn("services/storage.(*Store).ReadGroup", "Group", "storage/reads.NewGroupResultSet")},
			"storage/reads.newAggregateArrayCursor":        {"aggregate type validated at the request entry", guardIn("services/storage.(*Store).ReadGroup", "Type", "storage/reads.NewGroupResultSet")},
			coord + ".(*ClusterStoreMapping).ReadGroup":    {"coordinator side of a local storage API call: the request is built by this process, not decoded from the inter-node port", nil},
			"storage/reads.(*ResponseWriter).streamCursor": {"boolean switch over response hints; the default is the normal-path cursor type dispatch checked as a type switch", nil},
			"tsdb.(*SeriesIndex).execEntry":                {"series-file entry flag written by this process (on-disk format, not the wire)", nil},
			"tsdb.AppendSeriesEntry":                       {"series-file entry flag chosen by the caller in this process", nil},
			"tsdb/engine/tsm1.(*Engine).buildCursor":       {"field type comes from the shard's field index, which only stores the five value types", nil},
			"tsdb/engine/tsm1.(*arrayCursorIterator).Next": {"field type comes from the shard's field index, which only stores the five value types", nil},
		}
		n := 0
		for _, f := range cl {
			if f.Body == nil {
				continue
			}
			dps := defaultPanics(f)
			for i, dp := range dps {
				n++
				key := fmt.Sprintf("%s/default-panic#%d", f.Root().Name, i+1)
				switch dp.kind {
				case "type":
					c.Check("no-unhandled-case-panic", key, c.P.Pos(dp.pos), len(dp.missing) == 0,
						"a type switch reachable from the connection handler panics in its default clause and has no case for "+strings.Join(dp.missing, ", ")+": a valid request that produces that type takes the node down (nothing recovers in handleConn)")
				default:
					r, ok := rows[f.Root().Name]
					if !ok {
						c.Check("no-unhandled-case-panic", key, c.P.Pos(dp.pos), false,
							"a switch over "+dp.tagType+" reachable from the connection handler panics in its default clause; if the switched value can be decoded from a request, any out-of-range value takes the node down. Triage: add a row with the reason or a validation guard")
						continue
					}
					good, why := true, r.why
					if r.guard != nil {
						good, why = r.guard()
					}
					c.Check("no-unhandled-case-panic", key, c.P.Pos(dp.pos), good, why)
				}
			}
		}
		c.Floor("unhandled-case panic sites examined", n, 25)
		hasRecover := false
		var walk func(x *core.FuncInfo)
		walk = func(x *core.FuncInfo) {
			for _, e := range x.Graph().Events {
				if b, ok := e.Callee.(*types.Builtin); ok && b.Name() == "recover" {
					hasRecover = true
				}
			}
			for _, l := range x.Lits {
				walk(l)
			}
		}
		walk(hc)
		c.Note("handleConn recovers from panics: %v", hasRecover)
	})

	c.Clause("D8", func() {
		// No decode error is dropped: in every UnmarshalBinary method of the coordinator's wire types (one family,
		// same contract) the error of every call that can fail is tested or returned. A frame whose payload does
		// not parse (condition expression, iterator options, points) is answered with an error, never run with the
		// unparsed part silently missing (e.g. a meta query without its WHERE clause).
		n := 0
		for _, g := range c.P.FuncsIn(coord) {
			if g.Decl == nil || g.Decl.Recv == nil || g.Body == nil || g.Decl.Name.Name != "UnmarshalBinary" {
				continue
			}
			k := 0
			for _, e := range g.Graph().Events {
				if e.Kind != core.EvCall || e.Call == nil {
					continue
				}
				if !lastIsError(g.Info().TypeOf(e.Call)) {
					continue
				}
				n++
				k++
				ok, detail := errUsedPublic(g, e)
				c.Check("decode-error-surfaces", fmt.Sprintf("%s/%s#%d", g.Name, short(core.CalleeName(e)), k), c.P.Pos(e.Pos()), ok,
					"the error of a call inside a wire decoder is dropped: the request is accepted with the part that failed to parse missing ("+detail+")")
			}
		}
		c.Floor("fallible calls in the coordinator's UnmarshalBinary family", n, 30)
	})

	// a point received from another node is validated for every field type before any consumer reads it: the value
	// accessors slice and parse without checks of their own and panic on a malformed value (shared with C12 D5)
	c.Clause("D9", func() { runBinaryPointDispatch(c) })

	c.Clause("D10", func() { runCallArgsGuarded(c) })

	c.Clause("D11", func() { runNoMustOnWireData(c) })

	c.Clause("D12", func() { runResponseCarriesHandlerError(c) })

	c.Clause("D7", func() {
		n := connPoisonRule(c, "failed-exchange-poisons-connection")
		c.Floor("exchange sites on pooled connections", n, 28)
	})
}

// fieldPassedOn: the field is used as the receiver of a method call or has its address taken in f
// (its value is filled by a callee).
func fieldPassedOn(f *core.FuncInfo, fld *types.Var) bool {
	info := f.Info()
	found := false
	ast.Inspect(f.Body, func(nd ast.Node) bool {
		switch x := nd.(type) {
		case *ast.CallExpr:
			if se, ok := x.Fun.(*ast.SelectorExpr); ok {
				if inner, ok := ast.Unparen(se.X).(*ast.SelectorExpr); ok && info.Uses[inner.Sel] == fld {
					found = true
				}
			}
			for _, a := range x.Args {
				if u, ok := ast.Unparen(a).(*ast.UnaryExpr); ok && u.Op == token.AND {
					if inner, ok := ast.Unparen(u.X).(*ast.SelectorExpr); ok && info.Uses[inner.Sel] == fld {
						found = true
					}
				}
			}
		}
		return true
	})
	return found
}
