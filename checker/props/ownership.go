package props

import (
	"fmt"
	"go/ast"
	"go/types"
	"strings"

	"verifcheck/core"
)

// sliceMutators computes which slice parameters a function may store into (p[i] = ...), directly or by handing the
// parameter on to a callee that does (static callees, implementations of interface methods, local closures).
type sliceMutators struct {
	p    *core.Prog
	memo map[*core.FuncInfo]map[int]string
	busy map[*core.FuncInfo]bool
}

func newSliceMutators(p *core.Prog) *sliceMutators {
	return &sliceMutators{p: p, memo: map[*core.FuncInfo]map[int]string{}, busy: map[*core.FuncInfo]bool{}}
}

func paramObjs(f *core.FuncInfo) []types.Object {
	var out []types.Object
	if f.Type == nil || f.Type.Params == nil {
		return out
	}
	for _, fld := range f.Type.Params.List {
		if len(fld.Names) == 0 {
			out = append(out, nil)
		}
		for _, nm := range fld.Names {
			out = append(out, f.Info().Defs[nm])
		}
	}
	return out
}

// calleesOfCall resolves one call: the static callee, the implementations of an interface method, or the literal a
// local variable was defined as.
func (m *sliceMutators) calleesOfCall(f *core.FuncInfo, ce *ast.CallExpr) []*core.FuncInfo {
	info := f.Info()
	if fn, ok := core.Callee(info, ce).(*types.Func); ok {
		if fi := m.p.FuncOf(fn); fi != nil {
			return []*core.FuncInfo{fi}
		}
		if sig, ok := fn.Type().(*types.Signature); ok && sig.Recv() != nil && types.IsInterface(sig.Recv().Type()) {
			return m.p.Implementations(fn)
		}
		return nil
	}
	if lit, ok := ast.Unparen(derefLocal(f, ce.Fun)).(*ast.FuncLit); ok {
		if fi := m.p.LitInfo(lit); fi != nil {
			return []*core.FuncInfo{fi}
		}
	}
	if lit, ok := ast.Unparen(ce.Fun).(*ast.FuncLit); ok {
		if fi := m.p.LitInfo(lit); fi != nil {
			return []*core.FuncInfo{fi}
		}
	}
	return nil
}

// of returns, per parameter index, why the function may store into that slice parameter ("" / absent = it does not).
func (m *sliceMutators) of(f *core.FuncInfo, depth int) map[int]string {
	if r, ok := m.memo[f]; ok {
		return r
	}
	if f == nil || f.Body == nil || m.busy[f] || depth > 8 {
		return nil
	}
	m.busy[f] = true
	defer delete(m.busy, f)
	info := f.Info()
	params := paramObjs(f)
	res := map[int]string{}
	idx := func(o types.Object) int {
		for i, p := range params {
			if p != nil && p == o {
				if _, ok := p.Type().Underlying().(*types.Slice); ok {
					return i
				}
			}
		}
		return -1
	}
	ast.Inspect(f.Body, func(nd ast.Node) bool {
		switch x := nd.(type) {
		case *ast.AssignStmt:
			for _, l := range x.Lhs {
				if ix, ok := ast.Unparen(l).(*ast.IndexExpr); ok {
					if id, ok := ast.Unparen(ix.X).(*ast.Ident); ok {
						if i := idx(info.ObjectOf(id)); i >= 0 && res[i] == "" {
							res[i] = f.Name + " stores into " + id.Name + "[...] @" + m.p.Pos(x.Pos())
						}
					}
				}
			}
		case *ast.CallExpr:
			for j, a := range x.Args {
				id, ok := ast.Unparen(a).(*ast.Ident)
				if !ok {
					continue
				}
				i := idx(info.ObjectOf(id))
				if i < 0 || res[i] != "" {
					continue
				}
				for _, g := range m.calleesOfCall(f, x) {
					if why := m.of(g, depth+1)[j]; why != "" {
						res[i] = why
						break
					}
				}
			}
		}
		return true
	})
	m.memo[f] = res
	return res
}

// runSharedBatchNotMutated (C19, C03): the per-shard batch that PointsWriter.writeToShardWithContext hands to one
// goroutine per owner is shared by those goroutines; none of them may pass it to a function that stores into its
// elements unless it passes a fresh copy. (The local shard's validation compacts dropped points out of the slice it is
// given.)
func runSharedBatchNotMutated(c *core.Ctx) {
	f := c.Fn(coord + ".(*PointsWriter).writeToShardWithContext")
	mut := newSliceMutators(c.P)
	n, checked := 0, 0
	var walk func(g *core.FuncInfo)
	walk = func(g *core.FuncInfo) {
		for _, l := range g.Lits {
			walk(l)
		}
		if g.Lit == nil {
			return
		}
		// goroutine literals only: `go func(..., points []models.Point) {...}(...)`
		isGo := false
		for _, e := range g.Parent.Graph().Events {
			if e.Kind == core.EvGo && e.Call != nil && ast.Unparen(e.Call.Fun) == ast.Expr(g.Lit) {
				isGo = true
			}
		}
		if !isGo {
			return
		}
		info := g.Info()
		params := paramObjs(g)
		for _, e := range g.Graph().Events {
			if e.Kind != core.EvCall || e.Call == nil {
				continue
			}
			for j, a := range e.Call.Args {
				id, ok := ast.Unparen(a).(*ast.Ident)
				if !ok {
					continue
				}
				isParam := false
				for _, p := range params {
					if p != nil && p == info.ObjectOf(id) {
						if _, ok := p.Type().Underlying().(*types.Slice); ok {
							isParam = true
						}
					}
				}
				if !isParam {
					continue
				}
				checked++
				why := ""
				for _, callee := range mut.calleesOfCall(g, e.Call) {
					if w := mut.of(callee, 0)[j]; w != "" {
						why = w
					}
				}
				if why == "" {
					continue
				}
				n++
				// fresh copy at this point of the path?
				fresh := false
				if fact := g.Flow().FactOfExpr(e, a); fact.Def != nil {
					if ce, ok := ast.Unparen(fact.Def).(*ast.CallExpr); ok {
						if b, ok := core.Callee(info, ce).(*types.Builtin); ok && (b.Name() == "make" || (b.Name() == "append" && len(ce.Args) >= 1 && isFreshBase(info, ce.Args[0]))) {
							fresh = true
						}
					}
				}
				c.Check("shared-batch-not-rewritten", fmt.Sprintf("%s/%s#%d", g.Name, short(core.CalleeName(e)), n), c.P.Pos(e.Pos()), fresh,
					"the batch shared by the owner goroutines is handed to a callee that rewrites its elements ("+why+") while the other owners' goroutines marshal the same slice: a data race, and a remote replica can be sent a duplicated point in place of one the local shard dropped")
			}
		}
	}
	walk(f)
	c.Counts["functions_analysed"] += len(mut.memo)
	c.Floor("calls of the owner goroutines that pass the shared batch on", checked, 3)
	c.Floor("of them to a callee that stores into the slice", n, 1)
}

// isFreshBase: nil, T(nil), []T{} as the first argument of append make the result a new backing array.
func isFreshBase(info *types.Info, x ast.Expr) bool {
	x = ast.Unparen(x)
	if isNilExpr(info, x) {
		return true
	}
	if ce, ok := x.(*ast.CallExpr); ok && len(ce.Args) == 1 && isNilExpr(info, ce.Args[0]) {
		if tv, ok := info.Types[ce.Fun]; ok && tv.IsType() {
			return true
		}
	}
	if cl, ok := x.(*ast.CompositeLit); ok && len(cl.Elts) == 0 {
		return true
	}
	return false
}

// runNoWaitUnderLock (C19): sync.WaitGroup.Wait is not called while the caller holds a mutex that a goroutine counted by
// that wait group acquires: the goroutine blocks on the mutex, Wait blocks on the goroutine.
func runNoWaitUnderLock(c *core.Ctx, pkgs []string, floor int) {
	n := 0
	for _, rel := range pkgs {
		funcs := c.P.FuncsIn(rel)
		// goroutine bodies per wait-group field: functions that call <x>.wg.Done()
		workers := map[string][]*core.FuncInfo{}
		for _, h := range funcs {
			if h.Body == nil {
				continue
			}
			for _, e := range h.Graph().Events {
				if (e.Kind == core.EvCall || e.Kind == core.EvDefer) && core.CalleeName(e) == "sync.(*WaitGroup).Done" {
					if fp := core.RecvFieldOf(e); fp != "" {
						workers[fp] = append(workers[fp], h)
					}
				}
			}
		}
		for _, g := range funcs {
			if g.Body == nil {
				continue
			}
			var waits []*core.Event
			for _, e := range g.Graph().Events {
				if e.Kind == core.EvCall && core.CalleeName(e) == "sync.(*WaitGroup).Wait" && core.RecvFieldOf(e) != "" {
					waits = append(waits, e)
				}
			}
			if len(waits) == 0 {
				continue
			}
			classOf := map[string]string{}
			for _, op := range g.LockOps() {
				classOf[op.Key] = strings.TrimRight(strings.TrimSuffix(strings.TrimSuffix(op.Class, "#W"), "#R"), "#")
			}
			heldAt := map[*core.Event]map[string]bool{}
			g.ExploreLocks(func(e *core.Event, st core.LockState) {
				for _, w := range waits {
					if w != e {
						continue
					}
					if heldAt[e] == nil {
						heldAt[e] = map[string]bool{}
					}
					for _, h := range st.Held() {
						key := h
						if i := strings.LastIndex(h, "#"); i >= 0 {
							key = h[:i]
						}
						if cl := classOf[key]; cl != "" {
							heldAt[e][cl] = true
						} else if cl := classOf[h]; cl != "" {
							heldAt[e][cl] = true
						}
					}
				}
			})
			for i, w := range waits {
				n++
				bad := ""
				for _, h := range workers[core.RecvFieldOf(w)] {
					set := append([]*core.FuncInfo{h}, h.Lits...)
					for _, x := range set {
						for _, op := range x.LockOps() {
							cl := strings.TrimSuffix(strings.TrimSuffix(op.Class, "#W"), "#R")
							if op.Acquire && heldAt[w][cl] {
								bad = fmt.Sprintf("%s waits for the goroutines of %s while holding %s; %s, which is counted by that wait group, acquires the same mutex @%s: if it is at that acquisition when the wait starts, both block forever", g.Name, core.RecvFieldOf(w), cl, x.Name, c.P.Pos(op.Ev.Pos()))
							}
						}
					}
				}
				c.Check("no-wait-under-lock", fmt.Sprintf("%s/%s.Wait#%d", g.Name, core.RecvFieldOf(w), i+1), c.P.Pos(w.Pos()), bad == "", bad)
			}
		}
	}
	if floor > 0 {
		c.Floor("WaitGroup.Wait sites on struct fields", n, floor)
	}
}

// runCallArgsGuarded (C15): the expression of a CreateIterator / IteratorCost request from another node is parsed from
// text and has not been through the query compiler, so on the serving side (tsm1, tsdb) every index into the arguments
// of an *influxql.Call is made under an established length test of those arguments - in the function itself, or at
// every call of it by its (unexported function's) callers.
func runCallArgsGuarded(c *core.Ctx) {
	isArgsOfCall := func(info *types.Info, x ast.Expr) (ast.Expr, bool) {
		se, ok := ast.Unparen(x).(*ast.SelectorExpr)
		if !ok || se.Sel.Name != "Args" {
			return nil, false
		}
		t := info.TypeOf(se.X)
		if t == nil || !strings.HasSuffix(t.String(), "influxql.Call") {
			return nil, false
		}
		return se.X, true
	}
	// guard established: len(<call>.Args) compared so that the list is known non-empty
	lenKnownPositive := func(info *types.Info, st core.State) bool {
		for k, fct := range st {
			if k.Root != nil || !strings.HasPrefix(k.Path, "cond:") || fct.Def == nil || fct.Bool == 0 {
				continue
			}
			var atoms []atomB
			decompose(fct.Def, fct.Bool == 1, &atoms)
			for _, a := range atoms {
				be, ok := ast.Unparen(a.x).(*ast.BinaryExpr)
				if !ok {
					continue
				}
				ce, ok := ast.Unparen(be.X).(*ast.CallExpr)
				if !ok || !isLenCall(info, ce) || len(ce.Args) != 1 {
					continue
				}
				if _, ok := isArgsOfCall(info, ce.Args[0]); !ok {
					continue
				}
				tv := info.Types[be.Y]
				if tv.Value == nil {
					continue
				}
				v, _ := constInt(tv.Value)
				switch {
				case be.Op.String() == ">" && a.val && v >= 0,
					be.Op.String() == ">=" && a.val && v >= 1,
					be.Op.String() == "==" && !a.val && v == 0,
					be.Op.String() == "!=" && a.val && v == 0,
					be.Op.String() == "==" && a.val && v >= 1,
					be.Op.String() == "<" && !a.val && v >= 1:
					return true
				}
			}
		}
		return false
	}
	keepLen := func(k core.VarKey, fct core.Fact) bool {
		return k.Root == nil && strings.HasPrefix(k.Path, "cond:") && fct.Def != nil && strings.Contains(core.ExprStr(fct.Def), ".Args")
	}
	// guardedAt: on every path to an event selected by at, the length is known positive
	guardedAt := func(g *core.FuncInfo, at func(e *core.Event) bool) (bool, bool) {
		seen, ok := false, true
		complete := g.Flow().ExplorePaths(keepLen, func(e *core.Event, st core.State) {
			if !at(e) {
				return
			}
			seen = true
			if !lenKnownPositive(g.Info(), st) {
				ok = false
			}
		})
		return complete && seen && ok, seen
	}
	n := 0
	for _, rel := range []string{tsm1, "tsdb"} {
		for _, g := range c.P.FuncsIn(rel) {
			if g.Body == nil {
				continue
			}
			info := g.Info()
			var sites []*ast.IndexExpr
			ast.Inspect(g.Body, func(nd ast.Node) bool {
				if _, isLit := nd.(*ast.FuncLit); isLit && nd != ast.Node(g.Lit) {
					return false
				}
				if ix, ok := nd.(*ast.IndexExpr); ok {
					if _, ok := isArgsOfCall(info, ix.X); ok {
						sites = append(sites, ix)
					}
				}
				return true
			})
			for i, ix := range sites {
				n++
				site := ix
				contains := func(e *core.Event) bool {
					return e.Node != nil && e.Node.Pos() <= site.Pos() && site.Pos() < e.Node.End() && e.Kind != core.EvCond
				}
				good, seen := guardedAt(g, contains)
				why := ""
				if !good && seen && g.Decl != nil && !g.Decl.Name.IsExported() {
					// every caller establishes the guard before calling g
					callers := callersOf(c.P, g)
					all := len(callers) > 0
					for _, cg := range callers {
						if cg == g.Root() {
							continue // a recursive or closure-internal call is under the same guard as its caller
						}
						okc, seenc := guardedAt(cg, func(e *core.Event) bool {
							if e.Kind != core.EvCall || e.Call == nil {
								return false
							}
							fn, _ := e.Callee.(*types.Func)
							return fn != nil && fn == g.Obj
						})
						if !okc || !seenc {
							all = false
							why = " (caller " + cg.Name + " does not establish it either)"
						}
					}
					good = all
				}
				c.Check("call-arguments-indexed-under-length-test", fmt.Sprintf("%s/Args[...]#%d", g.Root().Name, i+1), c.P.Pos(ix.Pos()), good,
					"the arguments of a call expression are indexed without an established length test"+why+": an expression such as count() in a request from another node panics in the connection handler's goroutine and takes the data node down")
			}
		}
	}
	c.Floor("indexes into the arguments of a call expression on the serving side", n, 2)
}

// runNoMustOnWireData (C15): panicking constructors (regexp.MustCompile, regexp.MustCompilePOSIX, influxql.MustParse*,
// template.Must) are applied only to constants in the packages that serve requests of other nodes: applied to a decoded
// value they turn a malformed request into a crash of the node.
func runNoMustOnWireData(c *core.Ctx) {
	constSites, n := 0, 0
	for _, rel := range []string{"query", coord, "models", "tsdb", tsm1, metap, hhp, "storage/reads", "services/storage"} {
		for _, g := range c.P.FuncsIn(rel) {
			if g.Body == nil {
				continue
			}
			info := g.Info()
			for _, e := range g.Graph().Events {
				if e.Kind != core.EvCall || e.Call == nil {
					continue
				}
				name := core.CalleeName(e)
				if !(strings.HasPrefix(name, "regexp.MustCompile") || strings.Contains(name, "influxql.MustParse") || name == "text/template.Must" || name == "html/template.Must") {
					continue
				}
				allConst := len(e.Call.Args) > 0
				for _, a := range e.Call.Args {
					if tv := info.Types[a]; tv.Value == nil {
						allConst = false
					}
				}
				if allConst {
					constSites++
					continue
				}
				n++
				c.Check("no-panicking-constructor-on-decoded-data", fmt.Sprintf("%s/%s#%d", g.Root().Name, short(name), n), c.P.Pos(e.Pos()), false,
					name+" is applied to a value that is not a constant in a package that serves requests of other nodes: for a value decoded from a request that does not compile it panics in the connection handler's goroutine and the node goes down")
			}
		}
	}
	// package-level initialisers are not in any function body: count them for matcher liveness
	for _, rel := range []string{"query", "tsdb", "tsdb/index/tsi1"} {
		if pkg := c.P.ByPath[rel]; pkg != nil {
			for _, file := range pkg.Syntax {
				ast.Inspect(file, func(nd ast.Node) bool {
					if _, ok := nd.(*ast.FuncDecl); ok {
						return false
					}
					if ce, ok := nd.(*ast.CallExpr); ok {
						if fn, ok := core.Callee(pkg.TypesInfo, ce).(*types.Func); ok && fn.Pkg() != nil && fn.Pkg().Path() == "regexp" && strings.HasPrefix(fn.Name(), "MustCompile") {
							constSites++
						}
					}
					return true
				})
			}
		}
	}
	c.Counts["must_constructor_sites_on_constants"] = constSites
	c.Floor("panicking constructors on constants (matcher liveness)", constSites, 2)
}

// runResponseCarriesHandlerError (C15): in the connection dispatcher a reply helper that is given an error (…Response(conn,
// err)) is given the error of the request's processing call, on every path - not the (nil) error of the frame read that
// preceded it.
func runResponseCarriesHandlerError(c *core.Ctx) {
	f := c.Fn(coord + ".(*Service).handleConn")
	info := f.Info()
	n := 0
	for _, e := range f.Graph().Events {
		if e.Kind != core.EvCall || e.Call == nil {
			continue
		}
		fn, ok := e.Callee.(*types.Func)
		if !ok || !strings.HasSuffix(fn.Name(), "Response") {
			continue
		}
		for _, a := range e.Call.Args {
			t := info.TypeOf(a)
			if t == nil || !types.Identical(t, types.Universe.Lookup("error").Type()) {
				continue
			}
			n++
			fact := f.Flow().FactOfExpr(e, a)
			good := false
			if ce, ok := fact.Def.(*ast.CallExpr); ok {
				if pf, ok := core.Callee(info, ce).(*types.Func); ok && strings.HasPrefix(pf.Name(), "process") {
					good = true
				}
			}
			c.Check("reply-carries-the-processing-error", fmt.Sprintf("%s/%s#%d", f.Name, fn.Name(), n), c.P.Pos(e.Pos()), good,
				"the error handed to the reply helper is not (on every path) the result of the request's process* call: a request that failed on this node is acknowledged as successful")
		}
	}
	c.Floor("reply helpers given an error in handleConn", n, 1)
}

// runDoubleCheckedInsert (C19): a function that inserts a freshly created object (New...() / &T{...}) into a map field
// of pointers under the write lock looks the key up in that map after taking the lock: two goroutines that both found
// the key missing before the lock otherwise overwrite each other's object, and the loser keeps working on an object
// that is no longer in the map (for MeasurementFieldSet: two writers create the same new field with different types,
// each in its own MeasurementFields).
func runDoubleCheckedInsert(c *core.Ctx, pkgs []string, floor int) {
	n := 0
	for _, rel := range pkgs {
		for _, g := range c.P.FuncsIn(rel) {
			// the contract is in the name: Create...IfNotExists hands every caller the one object registered for the
			// key (other inserting functions use unique keys or replace on purpose: confirmed by reading, not armed)
			if g.Body == nil || g.Lit != nil || g.Decl == nil || !strings.Contains(g.Decl.Name.Name, "IfNotExists") {
				continue
			}
			info := g.Info()
			var wlocks []*core.LockOp
			for _, op := range g.LockOps() {
				if op.Acquire && strings.HasSuffix(op.Class, "#W") {
					wlocks = append(wlocks, op)
				}
			}
			if len(wlocks) == 0 {
				continue
			}
			mapField := func(x ast.Expr) *types.Var {
				ix, ok := ast.Unparen(x).(*ast.IndexExpr)
				if !ok {
					return nil
				}
				se, ok := ast.Unparen(ix.X).(*ast.SelectorExpr)
				if !ok {
					return nil
				}
				v, ok := info.ObjectOf(se.Sel).(*types.Var)
				if !ok || !v.IsField() {
					return nil
				}
				mt, isMap := v.Type().Underlying().(*types.Map)
				if !isMap {
					return nil
				}
				if _, isPtr := mt.Elem().Underlying().(*types.Pointer); !isPtr {
					return nil
				}
				return v
			}
			fresh := func(x ast.Expr) bool {
				x = ast.Unparen(derefLocal(g, x))
				if u, ok := x.(*ast.UnaryExpr); ok && u.Op.String() == "&" {
					_, isLit := ast.Unparen(u.X).(*ast.CompositeLit)
					return isLit
				}
				if ce, ok := x.(*ast.CallExpr); ok {
					if fn, ok := core.Callee(info, ce).(*types.Func); ok && strings.HasPrefix(strings.ToLower(fn.Name()), "new") {
						return true
					}
				}
				return false
			}
			for _, st := range g.Graph().Events {
				if st.Kind != core.EvAssign {
					continue
				}
				as, ok := st.Node.(*ast.AssignStmt)
				if !ok || len(as.Lhs) != 1 || len(as.Rhs) != 1 {
					continue
				}
				fld := mapField(as.Lhs[0])
				if fld == nil || !fresh(as.Rhs[0]) {
					continue
				}
				reread := func(e *core.Event) bool {
					if e == st || e.Node == nil {
						return false
					}
					found := false
					ast.Inspect(e.Node, func(m ast.Node) bool {
						if ix, ok := m.(*ast.IndexExpr); ok && mapField(ix) == fld {
							found = true
						}
						return true
					})
					return found
				}
				for _, w := range wlocks {
					if w.Ev.Pos() > st.Pos() {
						continue
					}
					n++
					store := st
					p := g.Flow().PathAvoiding(w.Ev, func(x *core.Event) bool { return x == store }, reread)
					c.Check("create-if-absent-rechecks-under-lock", fmt.Sprintf("%s/%s", g.Name, fld.Name()), c.P.Pos(st.Pos()), p == nil,
						"a freshly created object is inserted under the write lock without looking the key up again after the lock was taken: two callers that both found the key missing overwrite each other's object, and the loser keeps working on an object that is no longer in the map")
				}
			}
		}
	}
	if floor > 0 {
		c.Floor("inserts of freshly created objects into map fields under a write lock", n, floor)
	}
}

// runClosedChannelReceives (C19): a channel of pointers that one method of a struct closes (close(ch) on a field or on
// a local copied from the field) hands nil to every receiver afterwards. Every receive from such a channel field in the
// struct's other methods - other than a range loop, which ends - tests the received pointer (or the ok flag) before
// using it.
func runClosedChannelReceives(c *core.Ctx, pkgs []string, floor int) {
	n := 0
	for _, rel := range pkgs {
		// channel fields that some function closes
		closed := map[*types.Var]string{}
		for _, g := range c.P.FuncsIn(rel) {
			if g.Body == nil {
				continue
			}
			info := g.Info()
			ast.Inspect(g.Body, func(nd ast.Node) bool {
				ce, ok := nd.(*ast.CallExpr)
				if !ok || len(ce.Args) != 1 {
					return true
				}
				if b, ok := core.Callee(info, ce).(*types.Builtin); !ok || b.Name() != "close" {
					return true
				}
				x := ast.Unparen(derefLocal(g, ce.Args[0]))
				if se, ok := x.(*ast.SelectorExpr); ok {
					if v, ok := info.ObjectOf(se.Sel).(*types.Var); ok && v.IsField() {
						if ch, ok := v.Type().Underlying().(*types.Chan); ok {
							if _, isPtr := ch.Elem().Underlying().(*types.Pointer); isPtr {
								closed[v] = g.Name
							}
						}
					}
				}
				return true
			})
		}
		if len(closed) == 0 {
			continue
		}
		for _, g := range c.P.FuncsIn(rel) {
			if g.Body == nil {
				continue
			}
			info := g.Info()
			fieldOf := func(x ast.Expr) *types.Var {
				x = ast.Unparen(derefLocal(g, x))
				// a local filled from a helper that returns the field (getConnsAndFactory): follow one call
				if ce, ok := x.(*ast.CallExpr); ok {
					if fn, ok := core.Callee(info, ce).(*types.Func); ok {
						if h := c.P.FuncOf(fn); h != nil && h.Body != nil {
							var got *types.Var
							ast.Inspect(h.Body, func(m ast.Node) bool {
								if se, ok := m.(*ast.SelectorExpr); ok {
									if v, ok := h.Info().ObjectOf(se.Sel).(*types.Var); ok && closed[v] != "" {
										got = v
									}
								}
								return true
							})
							return got
						}
					}
				}
				if se, ok := x.(*ast.SelectorExpr); ok {
					if v, ok := info.ObjectOf(se.Sel).(*types.Var); ok && closed[v] != "" {
						return v
					}
				}
				return nil
			}
			// multi-value definitions `conns, _ := c.getConnsAndFactory()` are not followed by derefLocal: resolve here
			localFrom := map[types.Object]*types.Var{}
			ast.Inspect(g.Body, func(nd ast.Node) bool {
				as, ok := nd.(*ast.AssignStmt)
				if !ok || len(as.Rhs) != 1 || len(as.Lhs) < 2 {
					return true
				}
				if v := fieldOf(as.Rhs[0]); v != nil {
					for _, l := range as.Lhs {
						if id, ok := l.(*ast.Ident); ok && id.Name != "_" {
							if t := info.TypeOf(id); t != nil && types.Identical(t.Underlying(), v.Type().Underlying()) {
								localFrom[info.ObjectOf(id)] = v
							}
						}
					}
				}
				return true
			})
			chanField := func(x ast.Expr) *types.Var {
				if id, ok := ast.Unparen(x).(*ast.Ident); ok {
					if v := localFrom[info.ObjectOf(id)]; v != nil {
						return v
					}
				}
				return fieldOf(x)
			}
			ast.Inspect(g.Body, func(nd ast.Node) bool {
				cc, ok := nd.(*ast.CommClause)
				if !ok || cc.Comm == nil {
					return true
				}
				as, ok := cc.Comm.(*ast.AssignStmt)
				if !ok || len(as.Rhs) != 1 {
					return true
				}
				u, ok := ast.Unparen(as.Rhs[0]).(*ast.UnaryExpr)
				if !ok || u.Op.String() != "<-" {
					return true
				}
				fld := chanField(u.X)
				if fld == nil {
					return true
				}
				n++
				// the received pointer (or the ok flag) is tested before the pointer is dereferenced, in the clause or
				// in the same-package function the pointer is handed to
				var objs []types.Object
				for _, l := range as.Lhs {
					if id, ok := l.(*ast.Ident); ok && id.Name != "_" {
						objs = append(objs, info.ObjectOf(id))
					}
				}
				tested := testedBeforeDeref(c.P, g, cc.Body, objs, 0)
				c.Check("receive-from-closable-channel-tests-nil", fmt.Sprintf("%s/<-%s#%d", g.Root().Name, fld.Name(), n), c.P.Pos(cc.Pos()), tested,
					"the channel is closed by "+closed[fld]+": after that this receive yields nil, and the clause uses the received pointer without testing it (or the ok flag) first - a nil dereference in a background goroutine takes the process down")
				return true
			})
		}
	}
	if floor > 0 {
		c.Floor("receives from pointer channels that a sibling method closes", n, floor)
	}
}

// testedBeforeDeref scans statements in order: true when a test of one of objs (against nil, or a boolean ok flag)
// comes before any dereference of them (a selector on the object); a call that hands the object to a function of the
// same package is followed into that function (the parameter takes the object's place).
func testedBeforeDeref(p *core.Prog, f *core.FuncInfo, stmts []ast.Stmt, objs []types.Object, depth int) bool {
	info := f.Info()
	is := func(x ast.Expr) bool {
		id, ok := ast.Unparen(x).(*ast.Ident)
		if !ok {
			return false
		}
		for _, o := range objs {
			if info.ObjectOf(id) == o {
				return true
			}
		}
		return false
	}
	for _, st := range stmts {
		if ifs, ok := st.(*ast.IfStmt); ok && ifs.Init == nil {
			testedHere := false
			ast.Inspect(ifs.Cond, func(m ast.Node) bool {
				switch x := m.(type) {
				case *ast.BinaryExpr:
					if (is(x.X) && isNilExpr(info, x.Y)) || (is(x.Y) && isNilExpr(info, x.X)) {
						testedHere = true
					}
				case *ast.UnaryExpr:
					if x.Op.String() == "!" && is(x.X) {
						testedHere = true
					}
				case *ast.Ident:
					if is(x) {
						if b, ok := info.TypeOf(x).Underlying().(*types.Basic); ok && b.Kind() == types.Bool {
							testedHere = true
						}
					}
				}
				return true
			})
			if testedHere {
				return true
			}
		}
		deref, verdict, decided := false, false, false
		ast.Inspect(st, func(m ast.Node) bool {
			switch x := m.(type) {
			case *ast.SelectorExpr:
				if is(x.X) {
					deref = true
				}
			case *ast.CallExpr:
				if depth >= 3 || decided {
					return true
				}
				for j, a := range x.Args {
					if !is(a) {
						continue
					}
					fn, _ := core.Callee(info, x).(*types.Func)
					h := p.FuncOf(fn)
					if h == nil || h.Body == nil || h.Pkg != f.Pkg {
						continue
					}
					ps := paramObjs(h)
					if j < len(ps) && ps[j] != nil {
						verdict, decided = testedBeforeDeref(p, h, h.Body.List, []types.Object{ps[j]}, depth+1), true
					}
				}
			}
			return true
		})
		if deref {
			return false
		}
		if decided {
			return verdict
		}
	}
	return true
}
