package coordinator

import (
	"sync/atomic"
	"testing"
	"time"

	"github.com/influxdata/influxdb/models"
	"github.com/influxdata/influxdb/services/meta"
)

type zzAnyMeta struct{ id uint64 }

func (m zzAnyMeta) NodeID() uint64                          { return m.id }
func (m zzAnyMeta) Database(name string) *meta.DatabaseInfo { return nil }
func (m zzAnyMeta) RetentionPolicy(database, policy string) (*meta.RetentionPolicyInfo, error) {
	return nil, nil
}
func (m zzAnyMeta) CreateShardGroup(database, policy string, timestamp time.Time) (*meta.ShardGroupInfo, error) {
	return nil, nil
}

type zzAnyStore struct{}

func (s zzAnyStore) CreateShard(database, retentionPolicy string, shardID uint64, enabled bool) error {
	return nil
}
func (s zzAnyStore) WriteToShard(shardID uint64, points []models.Point) error { return nil }

type zzAnyShardWriter struct{ called int }

func (s *zzAnyShardWriter) WriteShard(shardID, ownerID uint64, points []models.Point) error {
	s.called++
	return nil
}

type zzAnyHH struct{ accepted int64 }

func (h *zzAnyHH) WriteShard(shardID, ownerID uint64, points []models.Point) error {
	atomic.AddInt64(&h.accepted, 1)
	return nil
}
func (h *zzAnyHH) Empty(shardID, ownerID uint64) bool { return false } // queues already non-empty

// consistency=any, coordinator is not an owner, every owner already has a non-empty handoff
// queue and every enqueue is accepted: the level is met (durably queued), the write must succeed.
func TestZZ_AnyWithAcceptedHandoffBehindNonEmptyQueue(t *testing.T) {
	pt := models.MustNewPoint("cpu", nil, models.Fields{"value": 1.0}, time.Unix(1, 0))
	shard := &meta.ShardInfo{ID: 1, Owners: []meta.ShardOwner{{NodeID: 1}, {NodeID: 2}}}
	hhs := &zzAnyHH{}
	w := NewPointsWriter()
	w.WriteTimeout = 5 * time.Second
	w.MetaClient = zzAnyMeta{id: 99}
	w.TSDBStore = zzAnyStore{}
	w.ShardWriter = &zzAnyShardWriter{}
	w.HintedHandoff = hhs
	w.Open()
	defer w.Close()
	err := w.writeToShard(shard, "db", "rp", models.ConsistencyLevelAny, []models.Point{pt})
	if n := atomic.LoadInt64(&hhs.accepted); n < 1 {
		t.Fatalf("expected the owners to be offered to hinted handoff, got %d", n)
	}
	if err != nil {
		t.Fatalf("consistency any with accepted handoff enqueues reported %v", err)
	}
}
