package props

import (
	"fmt"
	"sort"
	"strings"

	"verifcheck/core"
)

// DumpSites prints call sites as siteRow literals (development aid for freezing tables).
func DumpSites(p *core.Prog, spec string) {
	parts := strings.SplitN(spec, ":", 2)
	pkgs := strings.Split(parts[0], ",")
	callees := strings.Split(parts[1], ",")
	type key struct{ fn, callee string }
	cnt := map[key]int{}
	pos := map[key][]string{}
	for _, s := range callSites(p, pkgs, callees...) {
		k := key{s.Fn.Root().Name, s.Callee}
		cnt[k]++
		pos[k] = append(pos[k], p.Pos(s.Ev.Pos()))
	}
	var keys []key
	for k := range cnt {
		keys = append(keys, k)
	}
	sort.Slice(keys, func(i, j int) bool {
		if keys[i].fn != keys[j].fn {
			return keys[i].fn < keys[j].fn
		}
		return keys[i].callee < keys[j].callee
	})
	for _, k := range keys {
		fmt.Printf("\t\t{%q, %q, %d, \"\"}, // %s\n", k.fn, k.callee, cnt[k], strings.Join(pos[k], " "))
	}
}
