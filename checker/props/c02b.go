package props

import (
	"fmt"
	"go/ast"
	"go/token"
	"go/types"
	"strings"

	"verifcheck/core"
)

// rootIdentOf returns the object of the left-most identifier of a selector chain (cur.r.X -> cur).
func rootIdentOf(info *types.Info, x ast.Expr) types.Object {
	for {
		switch e := ast.Unparen(x).(type) {
		case *ast.SelectorExpr:
			x = e.X
		case *ast.IndexExpr:
			x = e.X
		case *ast.StarExpr:
			x = e.X
		case *ast.UnaryExpr:
			x = e.X
		case *ast.Ident:
			return info.ObjectOf(e)
		default:
			return nil
		}
	}
}

// runReadPathStructure: structural clauses of the merged read path (C02 D4/D5).
func runReadPathStructure(c *core.Ctx) {
	// D4: equal timestamps keep arrival order: every Deduplicate sorts with a stable sort
	n := 0
	for _, f := range c.P.FuncsIn(tsm1) {
		if f.Decl == nil || f.Decl.Name.Name != "Deduplicate" || f.Decl.Recv == nil {
			continue
		}
		t := f.Info().TypeOf(f.Decl.Recv.List[0].Type)
		if t == nil || !strings.HasSuffix(t.String(), "Values") {
			continue
		}
		n++
		stable, unstable := 0, 0
		for _, e := range f.Graph().Events {
			if e.Kind != core.EvCall {
				continue
			}
			switch core.CalleeName(e) {
			case "sort.Stable", "sort.SliceStable":
				stable++
			case "sort.Sort", "sort.Slice":
				unstable++
			}
		}
		c.Check("dedup-keeps-arrival-order", f.Name+"/stable-sort", f.PosStr(), stable >= 1 && unstable == 0,
			"Deduplicate must order equal timestamps with a stable sort: the value kept for a timestamp is the last one in arrival order, and an unstable sort lets an older value win once an entry holds more than a handful of values")
	}
	c.Floor("Values.Deduplicate variants", n, 6)

	// D5: each block is filtered with the tombstones of its own file
	m := 0
	for _, f := range c.P.FuncsIn(tsm1) {
		if f.Decl == nil || f.Decl.Recv == nil || !strings.HasPrefix(f.Name, tsm1+".(*KeyCursor).Read") {
			continue
		}
		info := f.Info()
		k := 0
		for _, e := range f.Graph().Events {
			if e.Kind != core.EvCall || !strings.HasPrefix(core.CalleeName(e), tsm1+".excludeTombstones") || len(e.Call.Args) != 2 {
				continue
			}
			k++
			m++
			key := fmt.Sprintf("%s/excludeTombstones#%d", f.Name, k)
			fact := f.Flow().FactOfExpr(e, e.Call.Args[0])
			tr, ok := fact.Def.(*ast.CallExpr)
			if !ok {
				c.Check("block-filtered-with-own-tombstones", key, c.P.Pos(e.Pos()), false, "the tombstone ranges applied here are not (on every path) the result of one TombstoneRange call")
				continue
			}
			trSel, ok := tr.Fun.(*ast.SelectorExpr)
			if !ok || trSel.Sel.Name != "TombstoneRange" {
				c.Check("block-filtered-with-own-tombstones", key, c.P.Pos(e.Pos()), false, "the tombstone ranges applied here do not come from TombstoneRange")
				continue
			}
			tombRoot := rootIdentOf(info, trSel.X)
			// nearest preceding block read in source order
			var readRoot types.Object
			var best token.Pos
			ast.Inspect(f.Body, func(nd ast.Node) bool {
				ce, ok := nd.(*ast.CallExpr)
				if !ok || ce.Pos() >= e.Pos() || ce.Pos() < best {
					return true
				}
				se, ok := ce.Fun.(*ast.SelectorExpr)
				if !ok || !strings.HasPrefix(se.Sel.Name, "Read") || !strings.HasSuffix(se.Sel.Name, "BlockAt") {
					return true
				}
				best = ce.Pos()
				readRoot = rootIdentOf(info, se.X)
				return true
			})
			good := tombRoot != nil && readRoot != nil && tombRoot == readRoot
			c.Check("block-filtered-with-own-tombstones", key, c.P.Pos(e.Pos()), good,
				"the values of a block are filtered with the tombstones of a different file's reader: with overlapping files a re-written point is hidden by the older file's tombstone, or deleted points of the newer file reappear")
		}
	}
	c.Floor("tombstone filters on the read path", m, 20)
}
