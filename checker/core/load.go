// Package core holds the loader and the generic analyses (rule kernel) used by
// the per-property rule files in ../props.
package core

import (
	"fmt"
	"go/ast"
	"go/token"
	"go/types"
	"os"
	"sort"
	"strings"

	"golang.org/x/tools/go/packages"
)

// ModulePath is the Go module path of the repository under analysis.
const ModulePath = "github.com/influxdata/influxdb"

// QuickRoots is the fixed root set of the quick tier (paths relative to the module).
var QuickRoots = []string{
	"coordinator", "coordinator/internal", "services/hh", "services/meta",
	"services/meta/internal", "services/retention", "services/httpd",
	"services/snapshotter", "models", "query", "tcp", "tsdb",
	"tsdb/engine/tsm1", "tsdb/index/inmem", "tsdb/index/tsi1", "pkg/file",
	"pkg/limiter", "pkg/tar", "query/internal", "storage/reads", "storage/reads/datatypes", "services/storage", "tsdb/cursors",
}

// Prog is the loaded, type-checked program.
type Prog struct {
	RepoDir string
	Fset    *token.FileSet
	Pkgs    []*packages.Package
	ByPath  map[string]*packages.Package // keyed by module-relative path

	funcs   map[*types.Func]*FuncInfo
	byName  map[string]*FuncInfo
	allFns  []*FuncInfo
	litOf   map[*ast.FuncLit]*FuncInfo

	named       []*types.Named
	implCache   map[*types.Func][]*FuncInfo
	calleeCache map[*FuncInfo][]*FuncInfo
}

// FuncInfo is one function with a body (declaration or literal).
type FuncInfo struct {
	Prog   *Prog
	Pkg    *packages.Package
	Decl   *ast.FuncDecl
	Lit    *ast.FuncLit
	Obj    *types.Func // nil for literals
	Name   string      // "tsdb/engine/tsm1.(*WAL).sync"; literals: parent + "$k"
	Body   *ast.BlockStmt
	Type   *ast.FuncType
	Parent *FuncInfo
	Lits   []*FuncInfo

	graph *Graph
	flow  *Flow
}

// Rel strips the module prefix of a package path.
func Rel(pkgPath string) string {
	if pkgPath == ModulePath {
		return "."
	}
	return strings.TrimPrefix(pkgPath, ModulePath+"/")
}

// Load type-checks the given module-relative package paths (or "./..." when
// roots is nil) from the current working tree of repoDir.
func Load(repoDir string, roots []string, env []string) (*Prog, error) {
	fset := token.NewFileSet()
	cfg := &packages.Config{
		Mode: packages.NeedName | packages.NeedFiles | packages.NeedCompiledGoFiles |
			packages.NeedImports | packages.NeedDeps | packages.NeedTypes |
			packages.NeedSyntax | packages.NeedTypesInfo | packages.NeedTypesSizes,
		Dir:   repoDir,
		Fset:  fset,
		Tests: false,
		Env: append(append(os.Environ(),
			"GOFLAGS=-mod=mod", "GOPROXY=off", "GOSUMDB=off", "GOTOOLCHAIN=local", "GOWORK=off"), env...),
	}
	// LoadSyntax semantic: syntax only for root packages.
	cfg.Mode &^= packages.NeedDeps
	cfg.Mode |= packages.NeedDeps // types of deps come from export data when NeedSyntax applies only to roots
	var patterns []string
	if roots == nil {
		patterns = []string{"./..."}
	} else {
		for _, r := range roots {
			patterns = append(patterns, "./"+r)
		}
	}
	// packages.LoadSyntax = NeedTypes|NeedSyntax|NeedTypesInfo for roots, export data for deps.
	cfg.Mode = packages.LoadSyntax | packages.NeedTypesSizes
	pkgs, err := packages.Load(cfg, patterns...)
	if err != nil {
		return nil, fmt.Errorf("packages.Load: %v", err)
	}
	if len(pkgs) == 0 {
		return nil, fmt.Errorf("no packages loaded from %s", repoDir)
	}
	p := &Prog{RepoDir: repoDir, Fset: fset, ByPath: map[string]*packages.Package{},
		funcs: map[*types.Func]*FuncInfo{}, byName: map[string]*FuncInfo{}, litOf: map[*ast.FuncLit]*FuncInfo{}}
	var errs []string
	for _, pkg := range pkgs {
		for _, e := range pkg.Errors {
			errs = append(errs, fmt.Sprintf("%s: %s", pkg.PkgPath, e.Msg))
		}
		if pkg.Types == nil || pkg.TypesInfo == nil || len(pkg.Syntax) == 0 {
			// packages with only build-tag-excluded files have no syntax; tolerate when listed by ./...
			if roots != nil {
				errs = append(errs, fmt.Sprintf("%s: no syntax/types", pkg.PkgPath))
			}
			continue
		}
		p.Pkgs = append(p.Pkgs, pkg)
		p.ByPath[Rel(pkg.PkgPath)] = pkg
	}
	if len(errs) > 0 {
		sort.Strings(errs)
		if len(errs) > 8 {
			errs = errs[:8]
		}
		return nil, fmt.Errorf("load/type errors: %s", strings.Join(errs, "; "))
	}
	sort.Slice(p.Pkgs, func(i, j int) bool { return p.Pkgs[i].PkgPath < p.Pkgs[j].PkgPath })
	for _, pkg := range p.Pkgs {
		p.indexPkg(pkg)
	}
	return p, nil
}

func (p *Prog) indexPkg(pkg *packages.Package) {
	for _, f := range pkg.Syntax {
		for _, d := range f.Decls {
			fd, ok := d.(*ast.FuncDecl)
			if !ok || fd.Body == nil {
				continue
			}
			obj, _ := pkg.TypesInfo.Defs[fd.Name].(*types.Func)
			if obj == nil {
				continue
			}
			fi := &FuncInfo{Prog: p, Pkg: pkg, Decl: fd, Obj: obj, Body: fd.Body, Type: fd.Type, Name: FuncName(obj)}
			p.funcs[obj] = fi
			if _, dup := p.byName[fi.Name]; !dup { // init funcs may repeat
				p.byName[fi.Name] = fi
			}
			p.allFns = append(p.allFns, fi)
			p.indexLits(fi, fd.Body)
		}
		// package-level var initialisers with func literals
		for _, d := range f.Decls {
			gd, ok := d.(*ast.GenDecl)
			if !ok {
				continue
			}
			for _, s := range gd.Specs {
				vs, ok := s.(*ast.ValueSpec)
				if !ok {
					continue
				}
				for i, v := range vs.Values {
					name := "_"
					if i < len(vs.Names) {
						name = vs.Names[i].Name
					}
					holder := &FuncInfo{Prog: p, Pkg: pkg, Name: Rel(pkg.PkgPath) + ".var:" + name}
					ast.Inspect(v, func(n ast.Node) bool {
						if lit, ok := n.(*ast.FuncLit); ok {
							p.addLit(holder, lit)
							return false
						}
						return true
					})
				}
			}
		}
	}
}

func (p *Prog) addLit(parent *FuncInfo, lit *ast.FuncLit) {
	fi := &FuncInfo{Prog: p, Pkg: parent.Pkg, Lit: lit, Body: lit.Body, Type: lit.Type, Parent: parent,
		Name: fmt.Sprintf("%s$%d", parent.Name, len(parent.Lits)+1)}
	parent.Lits = append(parent.Lits, fi)
	p.litOf[lit] = fi
	p.allFns = append(p.allFns, fi)
	p.indexLits(fi, lit.Body)
}

func (p *Prog) indexLits(parent *FuncInfo, body ast.Node) {
	ast.Inspect(body, func(n ast.Node) bool {
		if n == body {
			return true
		}
		if lit, ok := n.(*ast.FuncLit); ok {
			p.addLit(parent, lit)
			return false
		}
		return true
	})
}

// FuncName renders a function object as "rel/pkg.(*T).M" / "rel/pkg.F".
func FuncName(f *types.Func) string {
	if f == nil {
		return "<nil>"
	}
	sig, _ := f.Type().(*types.Signature)
	pkg := ""
	if f.Pkg() != nil {
		pkg = Rel(f.Pkg().Path())
	}
	if sig != nil && sig.Recv() != nil {
		t := sig.Recv().Type()
		ptr := ""
		if pt, ok := t.(*types.Pointer); ok {
			t = pt.Elem()
			ptr = "*"
		}
		switch tt := t.(type) {
		case *types.Named:
			tp := ""
			if tt.Obj().Pkg() != nil {
				tp = Rel(tt.Obj().Pkg().Path())
			}
			if types.IsInterface(tt) {
				return fmt.Sprintf("%s.%s.%s", tp, tt.Obj().Name(), f.Name())
			}
			if ptr != "" {
				return fmt.Sprintf("%s.(*%s).%s", tp, tt.Obj().Name(), f.Name())
			}
			return fmt.Sprintf("%s.%s.%s", tp, tt.Obj().Name(), f.Name())
		default:
			return fmt.Sprintf("%s.(%s).%s", pkg, types.TypeString(t, func(p *types.Package) string { return p.Name() }), f.Name())
		}
	}
	return pkg + "." + f.Name()
}

// Fn finds a declared function by its rendered name.
func (p *Prog) Fn(name string) *FuncInfo { return p.byName[name] }

// FuncOf returns the FuncInfo of a declared function object (nil when the
// function has no body in the loaded roots).
func (p *Prog) FuncOf(f *types.Func) *FuncInfo {
	if f == nil {
		return nil
	}
	if fi := p.funcs[f]; fi != nil {
		return fi
	}
	if o := f.Origin(); o != f {
		return p.funcs[o]
	}
	return nil
}

// LitInfo returns the FuncInfo of a function literal.
func (p *Prog) LitInfo(l *ast.FuncLit) *FuncInfo { return p.litOf[l] }

// AllFuncs lists every function body (declarations and literals).
func (p *Prog) AllFuncs() []*FuncInfo { return p.allFns }

// FuncsIn lists functions of one module-relative package path.
func (p *Prog) FuncsIn(rel string) []*FuncInfo {
	var out []*FuncInfo
	for _, f := range p.allFns {
		if Rel(f.Pkg.PkgPath) == rel {
			out = append(out, f)
		}
	}
	return out
}

// Pos renders a position relative to the repository root.
func (p *Prog) Pos(pos token.Pos) string {
	if !pos.IsValid() {
		return "-"
	}
	ps := p.Fset.Position(pos)
	fn := strings.TrimPrefix(ps.Filename, p.RepoDir+"/")
	return fmt.Sprintf("%s:%d", fn, ps.Line)
}

// Info returns the types.Info of the function's package.
func (f *FuncInfo) Info() *types.Info { return f.Pkg.TypesInfo }

// Root returns the outermost enclosing declared function.
func (f *FuncInfo) Root() *FuncInfo {
	for f.Parent != nil {
		f = f.Parent
	}
	return f
}

// LookupType finds a named type.
func (p *Prog) LookupType(rel, name string) *types.Named {
	pkg := p.ByPath[rel]
	if pkg == nil {
		return nil
	}
	o := pkg.Types.Scope().Lookup(name)
	if o == nil {
		return nil
	}
	n, _ := o.Type().(*types.Named)
	return n
}

// LookupField finds a struct field object.
func (p *Prog) LookupField(rel, typ, field string) *types.Var {
	n := p.LookupType(rel, typ)
	if n == nil {
		return nil
	}
	st, _ := n.Underlying().(*types.Struct)
	if st == nil {
		return nil
	}
	for i := 0; i < st.NumFields(); i++ {
		if st.Field(i).Name() == field {
			return st.Field(i)
		}
	}
	return nil
}

// LookupObj finds a package-level object.
func (p *Prog) LookupObj(rel, name string) types.Object {
	pkg := p.ByPath[rel]
	if pkg == nil {
		return nil
	}
	return pkg.Types.Scope().Lookup(name)
}
