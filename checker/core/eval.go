package core

import (
	"go/ast"
	"go/constant"
	"go/token"
	"go/types"
)

// EvalInt evaluates an integer expression tree with the given variable bindings
// (by object) and `len(x)` bindings (by object of x). It is constant folding over an
// expression tree, not execution of the program. ok is false when the expression
// contains anything but integer arithmetic over bound variables and constants.
func EvalInt(info *types.Info, e ast.Expr, vars map[types.Object]int64, lens map[types.Object]int64) (int64, bool) {
	e = ast.Unparen(e)
	if tv, ok := info.Types[e]; ok && tv.Value != nil && tv.Value.Kind() == constant.Int {
		return constant.Int64Val(tv.Value)
	}
	switch x := e.(type) {
	case *ast.Ident:
		if v, ok := vars[info.ObjectOf(x)]; ok {
			return v, true
		}
	case *ast.CallExpr:
		if len(x.Args) == 1 {
			// conversion int64(x) / int(x)
			if tv, ok := info.Types[x.Fun]; ok && tv.IsType() {
				return EvalInt(info, x.Args[0], vars, lens)
			}
			if b, ok := Callee(info, x).(*types.Builtin); ok && b.Name() == "len" {
				a := ast.Unparen(x.Args[0])
				if id, ok := a.(*ast.Ident); ok {
					if v, ok := lens[info.ObjectOf(id)]; ok {
						return v, true
					}
				}
				if se, ok := a.(*ast.SelectorExpr); ok {
					if v, ok := lens[info.ObjectOf(se.Sel)]; ok {
						return v, true
					}
				}
			}
		}
	case *ast.UnaryExpr:
		v, ok := EvalInt(info, x.X, vars, lens)
		if !ok {
			return 0, false
		}
		switch x.Op {
		case token.SUB:
			return -v, true
		case token.ADD:
			return v, true
		}
	case *ast.BinaryExpr:
		a, ok1 := EvalInt(info, x.X, vars, lens)
		b, ok2 := EvalInt(info, x.Y, vars, lens)
		if !ok1 || !ok2 {
			return 0, false
		}
		switch x.Op {
		case token.ADD:
			return a + b, true
		case token.SUB:
			return a - b, true
		case token.MUL:
			return a * b, true
		case token.QUO:
			if b == 0 {
				return 0, false
			}
			return a / b, true
		case token.REM:
			if b == 0 {
				return 0, false
			}
			return a % b, true
		case token.SHR:
			if b < 0 || b > 62 {
				return 0, false
			}
			return a >> uint(b), true
		case token.SHL:
			if b < 0 || b > 62 {
				return 0, false
			}
			return a << uint(b), true
		}
	}
	return 0, false
}

// EvalIntFunc folds a *pure integer function* - a declared function whose body consists only of if statements,
// switch statements over integer constants, assignments of integer locals and returns of integer expressions - for
// the given integer arguments (one per parameter, in order). It is the statement-level counterpart of EvalInt:
// every construct outside that fragment (calls, loops, pointers, defers) makes it give up (ok=false).
func EvalIntFunc(f *FuncInfo, args []int64) (int64, bool) {
	if f == nil || f.Decl == nil || f.Body == nil {
		return 0, false
	}
	info := f.Info()
	vars := map[types.Object]int64{}
	k := 0
	for _, fld := range f.Decl.Type.Params.List {
		for _, nm := range fld.Names {
			if k >= len(args) {
				return 0, false
			}
			vars[info.Defs[nm]] = args[k]
			k++
		}
		if len(fld.Names) == 0 {
			k++
		}
	}
	if k != len(args) {
		return 0, false
	}
	var evalBool func(x ast.Expr) (bool, bool)
	evalBool = func(x ast.Expr) (bool, bool) {
		x = ast.Unparen(x)
		switch e := x.(type) {
		case *ast.UnaryExpr:
			if e.Op == token.NOT {
				v, ok := evalBool(e.X)
				return !v, ok
			}
		case *ast.BinaryExpr:
			switch e.Op {
			case token.LAND, token.LOR:
				a, ok1 := evalBool(e.X)
				if !ok1 {
					return false, false
				}
				if e.Op == token.LAND && !a {
					return false, true
				}
				if e.Op == token.LOR && a {
					return true, true
				}
				return evalBool(e.Y)
			case token.EQL, token.NEQ, token.LSS, token.LEQ, token.GTR, token.GEQ:
				a, ok1 := EvalInt(info, e.X, vars, nil)
				b, ok2 := EvalInt(info, e.Y, vars, nil)
				if !ok1 || !ok2 {
					return false, false
				}
				switch e.Op {
				case token.EQL:
					return a == b, true
				case token.NEQ:
					return a != b, true
				case token.LSS:
					return a < b, true
				case token.LEQ:
					return a <= b, true
				case token.GTR:
					return a > b, true
				default:
					return a >= b, true
				}
			}
		}
		return false, false
	}
	// exec returns (value, returned, ok)
	var exec func(list []ast.Stmt) (int64, bool, bool)
	exec = func(list []ast.Stmt) (int64, bool, bool) {
		for _, st := range list {
			switch s := st.(type) {
			case *ast.ReturnStmt:
				if len(s.Results) != 1 {
					return 0, false, false
				}
				v, ok := EvalInt(info, s.Results[0], vars, nil)
				return v, true, ok
			case *ast.AssignStmt:
				if len(s.Lhs) != len(s.Rhs) {
					return 0, false, false
				}
				for i, l := range s.Lhs {
					id, ok := l.(*ast.Ident)
					if !ok {
						return 0, false, false
					}
					v, ok := EvalInt(info, s.Rhs[i], vars, nil)
					if !ok {
						return 0, false, false
					}
					switch s.Tok {
					case token.ASSIGN, token.DEFINE:
						vars[info.ObjectOf(id)] = v
					case token.ADD_ASSIGN:
						vars[info.ObjectOf(id)] += v
					case token.SUB_ASSIGN:
						vars[info.ObjectOf(id)] -= v
					default:
						return 0, false, false
					}
				}
			case *ast.DeclStmt:
				gd, ok := s.Decl.(*ast.GenDecl)
				if !ok || gd.Tok != token.VAR {
					return 0, false, false
				}
				for _, sp := range gd.Specs {
					vs := sp.(*ast.ValueSpec)
					for i, nm := range vs.Names {
						var v int64
						if i < len(vs.Values) {
							var ok bool
							if v, ok = EvalInt(info, vs.Values[i], vars, nil); !ok {
								return 0, false, false
							}
						}
						vars[info.Defs[nm]] = v
					}
				}
			case *ast.IfStmt:
				if s.Init != nil {
					return 0, false, false
				}
				c, ok := evalBool(s.Cond)
				if !ok {
					return 0, false, false
				}
				if c {
					if v, ret, ok := exec(s.Body.List); !ok || ret {
						return v, ret, ok
					}
				} else if s.Else != nil {
					var body []ast.Stmt
					switch e := s.Else.(type) {
					case *ast.BlockStmt:
						body = e.List
					case *ast.IfStmt:
						body = []ast.Stmt{e}
					}
					if v, ret, ok := exec(body); !ok || ret {
						return v, ret, ok
					}
				}
			case *ast.SwitchStmt:
				if s.Init != nil {
					return 0, false, false
				}
				var chosen, def *ast.CaseClause
				for _, cl := range s.Body.List {
					cc := cl.(*ast.CaseClause)
					if cc.List == nil {
						def = cc
						continue
					}
					for _, x := range cc.List {
						hit := false
						if s.Tag != nil {
							a, ok1 := EvalInt(info, s.Tag, vars, nil)
							b, ok2 := EvalInt(info, x, vars, nil)
							if !ok1 || !ok2 {
								return 0, false, false
							}
							hit = a == b
						} else {
							b, ok := evalBool(x)
							if !ok {
								return 0, false, false
							}
							hit = b
						}
						if hit && chosen == nil {
							chosen = cc
						}
					}
				}
				if chosen == nil {
					chosen = def
				}
				if chosen != nil {
					for _, bs := range chosen.Body {
						if br, ok := bs.(*ast.BranchStmt); ok && br.Tok == token.FALLTHROUGH {
							return 0, false, false
						}
					}
					if v, ret, ok := exec(chosen.Body); !ok || ret {
						return v, ret, ok
					}
				}
			case *ast.BlockStmt:
				if v, ret, ok := exec(s.List); !ok || ret {
					return v, ret, ok
				}
			default:
				return 0, false, false
			}
		}
		return 0, false, true
	}
	v, ret, ok := exec(f.Body.List)
	if !ok || !ret {
		// named result falling off the end is not supported
		return 0, false
	}
	return v, true
}
