#!/bin/sh
# usage: ./check.sh <property> [quick|thorough]
# Builds the checker if needed (offline) and decides the property on /repo's current working tree.
cd "$(dirname "$0")" || exit 2
export GOFLAGS=-mod=mod GOPROXY=off GOSUMDB=off GOTOOLCHAIN=local
unset GOWORK
if [ ! -x bin/verifcheck ] || [ -n "$(find checker -newer bin/verifcheck -name '*.go' 2>/dev/null | head -1)" ]; then
  (cd checker && go build -o ../bin/verifcheck .) || { echo "checker build failed"; exit 2; }
fi
tier="${2:-${VERIF_TIER:-quick}}"
exec ./bin/verifcheck -property "$1" -tier "$tier" -repo "${VERIF_REPO:-/repo}" -verif "$(pwd)"
