package props

import (
	"fmt"
	"go/ast"
	"go/token"
	"go/types"
	"strings"

	"verifcheck/core"
)

func init() {
	register("C17", core.PropertyMeta{
		Explanation: "Decides structural clauses of retention enforcement: D1 provenance of what is deleted: in retention.(*Service).run a local shard is handed to DeleteShard only on a hit in the map whose every store takes its key from a shard of a group returned by DeletedShardGroups() or by ExpiredShardGroups(now) after DeleteShardGroup returned nil; both listings are consulted for every retention policy on every pass; " +
			"D2 the expiry/deleted predicates equal their specification on every ordering (shared truth tables; the expiry test must stay inside the comparison-only fragment of time.Time, so int64 nanosecond arithmetic that can overflow is rejected); D3 frozen table of the call sites that may delete a shard; " +
			"D4 every pass prunes, and an error never aborts the pass; D5 the write-time cut-off and the rule that a point inside retention is never reported as dropped (shared with C08). " +
			"D7 a group is marked deleted exactly when the shard removed from it was its last one (length before the removal against 1, or after it against 0). " +
			"NOT decided: 'eventually' (liveness of the ticker), clock behaviour.",
		RuleText:    "obligation = (rule, function/site); map-store provenance through range statements; outcome facts; per-iteration call counting; exhaustive predicate evaluation",
		Assumptions: commonAssumptions,
	}, runC17)
}

// rangeSource returns the expression a range value variable iterates over.
func rangeSource(f *core.FuncInfo, obj types.Object) ast.Expr {
	var out ast.Expr
	ast.Inspect(f.Root().Body, func(nd ast.Node) bool {
		if rs, ok := nd.(*ast.RangeStmt); ok && rs.Value != nil {
			if id, ok := rs.Value.(*ast.Ident); ok && f.Info().ObjectOf(id) == obj {
				out = rs.X
			}
		}
		return true
	})
	return out
}

func runC17(c *core.Ctx) {
	const rs = "services/retention"
	c.Clause("D1", func() {
		f := c.Fn(rs + ".(*Service).run")
		info := f.Info()
		del := fieldCallIn(f, "Service.TSDBStore", "DeleteShard")
		dsg := fieldCallIn(f, "Service.MetaClient", "DeleteShardGroup")
		// the deletion loop may have been extracted into an unexported helper that receives the map
		host := f
		for _, g := range withLocalHelpers(c.P, f) {
			if len(g.Graph().Find(evCall(fieldCallIn(g, "Service.TSDBStore", "DeleteShard")))) > 0 {
				host = g
				break
			}
		}
		hinfo := host.Info()
		hdel := fieldCallIn(host, "Service.TSDBStore", "DeleteShard")
		delSites := findOrAbort(c, host, "TSDBStore.DeleteShard", evCall(hdel), 1)
		// the map consulted before deleting
		var mapObj types.Object
		for i, e := range delSites {
			// the argument must be the key of a successful map lookup on this path
			arg, ok := ast.Unparen(e.Call.Args[0]).(*ast.Ident)
			good := false
			why := "the argument of DeleteShard must be a shard id that was found in the map of deletable shards"
			if ok {
				info := hinfo
				st := host.Flow().In[e]
				for k, fct := range st {
					if k.Root == nil || k.Path != "" || fct.Bool != 1 {
						continue
					}
					ix, isIx := ast.Unparen(fct.Def).(*ast.IndexExpr)
					if !isIx || fct.Idx != 1 {
						continue
					}
					if kid, isId := ast.Unparen(ix.Index).(*ast.Ident); isId && info.ObjectOf(kid) == info.ObjectOf(arg) {
						if mid, isId := ast.Unparen(ix.X).(*ast.Ident); isId {
							mapObj = info.ObjectOf(mid)
							good = true
						}
					}
				}
			}
			c.Check("delete-only-listed-shards", fmt.Sprintf("%s/DeleteShard#%d", f.Name, i+1), c.P.Pos(e.Pos()), good, why)
		}
		// when the lookup happens in a helper, the map is one of its parameters: follow it to the caller's variable
		if host != f && mapObj != nil && host.Decl != nil {
			idx, k := -1, 0
			for _, fld := range host.Decl.Type.Params.List {
				for _, nm := range fld.Names {
					if hinfo.Defs[nm] == mapObj {
						idx = k
					}
					k++
				}
				if len(fld.Names) == 0 {
					k++
				}
			}
			mapObj = nil
			if idx >= 0 {
				for _, e := range f.Graph().Events {
					if e.Kind == core.EvCall && e.Callee == types.Object(host.Obj) && idx < len(e.Call.Args) {
						if id, ok := ast.Unparen(e.Call.Args[idx]).(*ast.Ident); ok {
							mapObj = info.ObjectOf(id)
						}
					}
				}
			}
		}
		_ = del
		c.Need(mapObj != nil, "map of deletable shard ids")
		// every store into that map
		n := 0
		for _, e := range f.Graph().Events {
			if e.Kind != core.EvAssign {
				continue
			}
			as, ok := e.Node.(*ast.AssignStmt)
			if !ok || len(as.Lhs) != 1 {
				continue
			}
			ix, ok := ast.Unparen(as.Lhs[0]).(*ast.IndexExpr)
			if !ok || !isIdentObj(info, ix.X, mapObj) {
				continue
			}
			n++
			key := fmt.Sprintf("%s/store-into-%s#%d", f.Name, mapObj.Name(), n)
			// key = <sh>.ID, sh ranges over <g>.Shards, g ranges over DeletedShardGroups() / ExpiredShardGroups(...)
			se, ok := ast.Unparen(ix.Index).(*ast.SelectorExpr)
			if !ok || se.Sel.Name != "ID" {
				c.Check("deletable-provenance", key, c.P.Pos(e.Pos()), false, "the key stored is not the ID of a shard: "+core.ExprStr(ix.Index))
				continue
			}
			shID, _ := ast.Unparen(se.X).(*ast.Ident)
			var src1 ast.Expr
			if shID != nil {
				src1 = rangeSource(f, info.ObjectOf(shID))
			}
			gsel, _ := ast.Unparen(src1).(*ast.SelectorExpr)
			if src1 == nil || gsel == nil || gsel.Sel.Name != "Shards" {
				c.Check("deletable-provenance", key, c.P.Pos(e.Pos()), false, "the shard whose ID is stored does not range over the Shards of a shard group")
				continue
			}
			gID, _ := ast.Unparen(gsel.X).(*ast.Ident)
			var src2 ast.Expr
			if gID != nil {
				src2 = rangeSource(f, info.ObjectOf(gID))
			}
			ce, _ := ast.Unparen(src2).(*ast.CallExpr)
			which := ""
			if ce != nil {
				if fn, ok := core.Callee(info, ce).(*types.Func); ok {
					which = fn.Name()
				}
			}
			switch which {
			case "DeletedShardGroups":
				c.Check("deletable-provenance", key, c.P.Pos(e.Pos()), true, "shards of groups the metadata marks deleted")
			case "ExpiredShardGroups":
				// the time argument is the current time
				nowArg := len(ce.Args) == 1 && strings.Contains(core.ExprStr(ce.Args[0]), "time.Now()")
				okDel := f.Flow().CallOKAt(e, dsg)
				detail := "shards of expired groups, after DeleteShardGroup returned nil"
				if !okDel {
					detail = "shards of an expired group are scheduled for local deletion on a path where MetaClient.DeleteShardGroup has not been established to have returned nil: the data is removed although the group is still live in the metadata"
				} else if !nowArg {
					detail = "ExpiredShardGroups must be evaluated at the current time"
				}
				c.Check("deletable-provenance", key, c.P.Pos(e.Pos()), okDel && nowArg, detail)
			default:
				c.Check("deletable-provenance", key, c.P.Pos(e.Pos()), false, "the group whose shards are scheduled for deletion does not come from DeletedShardGroups()/ExpiredShardGroups(now): "+core.ExprStr(src2))
			}
		}
		c.Floor("stores into the deletable map", n, 2)
		// both listings are consulted for every retention policy on every pass
		var rpLoop *core.Loop
		for _, l := range f.Graph().Loops() {
			if r, ok := l.Stmt.(*ast.RangeStmt); ok && strings.HasSuffix(core.ExprStr(r.X), ".RetentionPolicies") {
				rpLoop = l
			}
		}
		c.Need(rpLoop != nil, "loop over retention policies")
		for _, m := range []string{"DeletedShardGroups", "ExpiredShardGroups"} {
			m := m
			isCall := func(e *core.Event) bool {
				if e.Kind != core.EvCall {
					return false
				}
				fn, ok := e.Callee.(*types.Func)
				return ok && fn.Name() == m
			}
			min, _, ok, zero := f.Flow().IterationCount(rpLoop, isCall)
			c.Check("every-policy-examined", f.Name+"/"+m+"-per-policy", c.P.Pos(rpLoop.Stmt.Pos()), ok && min >= 1,
				"a path through one iteration of the retention-policy loop never calls "+m+"(): groups of such a policy (e.g. one altered to an infinite duration after its groups were marked deleted) are never cleaned up locally: "+core.PathStr(zero))
		}
		errPropagatedOrFlag(c, f, dsg)
	})

	c.Clause("D2", func() { runTimePredicates(c) })

	c.Clause("D3", func() {
		var sites []site
		for _, rel := range []string{coord, rs, "tsdb", "services/httpd", "services/snapshotter", metap} {
			for _, f := range c.P.FuncsIn(rel) {
				if f.Body == nil {
					continue
				}
				for _, e := range f.Graph().Events {
					if e.Kind != core.EvCall && e.Kind != core.EvDefer && e.Kind != core.EvGo {
						continue
					}
					fn, ok := e.Callee.(*types.Func)
					if !ok || fn.Name() != "DeleteShard" {
						continue
					}
					sites = append(sites, site{Fn: f, Ev: e, Callee: "DeleteShard"})
				}
			}
		}
		siteTable(c, "who-may-delete-a-shard", sites, []siteRow{
			{rs + ".(*Service).run", "DeleteShard", 1, "retention enforcement (provenance checked in D1)"},
			{coord + ".(*StatementExecutor).executeDropShardStatement", "DeleteShard", 1, "DROP SHARD on the local store"},
			{coord + ".ClusterTSDBStore.DeleteShard", "DeleteShard", 1, "pass-through wrapper of the local store"},
			{coord + ".(*Service).executeStatement", "DeleteShard", 1, "DROP SHARD forwarded from another node"},
			{coord + ".(*Service).processRemoveShardRequest", "DeleteShard", 1, "remove-shard admin request"},
			{"tsdb.(*Store).DeleteShards", "DeleteShard", 1, "helper deleting every shard of a dropped database/policy"},
		}, 4)
	})

	c.Clause("D4", func() {
		f := c.Fn(rs + ".(*Service).run")
		prune := fieldCallIn(f, "Service.MetaClient", "PruneShardGroups")
		findOrAbort(c, f, "MetaClient.PruneShardGroups", evCall(prune), 1)
		// every pass: from the receive on the ticker to the end of the case body PruneShardGroups is called.
		// logEnd() is the last statement of the pass.
		var endCall core.Match = func(e *core.Event) bool {
			if e.Kind != core.EvCall {
				return false
			}
			id, ok := e.Call.Fun.(*ast.Ident)
			return ok && id.Name == "logEnd"
		}
		findOrAbort(c, f, "logEnd()", endCall, 1)
		orderRule(c, f, "every-pass-prunes", "PruneShardGroups", "end of pass", evCall(prune), endCall)
		// an error never aborts the pass: the only return of run is the shutdown case
		nRet := 0
		okRet := true
		ast.Inspect(f.Body, func(nd ast.Node) bool {
			cc, ok := nd.(*ast.CommClause)
			if !ok {
				return true
			}
			isDone := cc.Comm != nil && strings.Contains(core.NodeStr(cc.Comm), "done")
			for _, st := range cc.Body {
				ast.Inspect(st, func(n2 ast.Node) bool {
					if _, isLit := n2.(*ast.FuncLit); isLit {
						return false
					}
					if _, isRet := n2.(*ast.ReturnStmt); isRet {
						nRet++
						if !isDone {
							okRet = false
						}
					}
					return true
				})
			}
			return true
		})
		c.Check("errors-never-abort-the-pass", f.Name+"/returns", f.PosStr(), okRet && nRet >= 1,
			"the enforcement loop returns from inside a pass: one failing DeleteShardGroup/DeleteShard would stop retention on this node for good")
		// local shard deletion also happens for every id the store reports (the loop over ShardIDs is reached on every pass)
		ids := fieldCallIn(f, "Service.TSDBStore", "ShardIDs")
		orderRule(c, f, "every-pass-deletes-local-shards", "TSDBStore.ShardIDs", "end of pass", evCall(ids), endCall)
	})

	c.Clause("D5", func() {
		runRetentionCutoff(c)
		runMapShardsAccounting(c)
	})

	c.Clause("D7", func() { runGroupDeletedWithLastShard(c) })
}

// errPropagatedOrFlag: the error of MetaClient.DeleteShardGroup must be examined (the pass continues with the next group).
func errPropagatedOrFlag(c *core.Ctx, f *core.FuncInfo, m func(*ast.CallExpr) bool) {
	for i, e := range f.Graph().Find(evCall(m)) {
		ok, detail := errUsed(f, e)
		c.Check("error-examined", fmt.Sprintf("%s/DeleteShardGroup#%d", f.Name, i+1), c.P.Pos(e.Pos()), ok, detail)
	}
}

// runGroupDeletedWithLastShard (C17, C06): a shard group is marked deleted (DeletedAt set) by the functions that remove
// a shard from it exactly when the shard removed was its last one. The length test that guards the mark is either the
// length of the list as it was before the removal compared with 1, or the length after the removal compared with 0.
// A test that mixes the two marks a group that still has a live shard as deleted (retention then removes that shard's
// data on its owners) or leaves an empty group unmarked.
func runGroupDeletedWithLastShard(c *core.Ctx) {
	n := 0
	for _, g := range c.P.FuncsIn(metap) {
		if g.Decl == nil || g.Decl.Recv == nil || g.Body == nil || g.Lit != nil {
			continue
		}
		info := g.Info()
		// removal assignments: <lhs>.Shards = append(Y[:i], Y[i+1:]...)
		type removal struct {
			as  *ast.AssignStmt
			lhs ast.Expr
			y   ast.Expr
		}
		var rems []removal
		ast.Inspect(g.Body, func(nd ast.Node) bool {
			as, ok := nd.(*ast.AssignStmt)
			if !ok || len(as.Lhs) != 1 || len(as.Rhs) != 1 {
				return true
			}
			se, ok := ast.Unparen(as.Lhs[0]).(*ast.SelectorExpr)
			if !ok || se.Sel.Name != "Shards" {
				return true
			}
			ce, ok := ast.Unparen(as.Rhs[0]).(*ast.CallExpr)
			if !ok || len(ce.Args) != 2 || !ce.Ellipsis.IsValid() {
				return true
			}
			if b, ok := core.Callee(info, ce).(*types.Builtin); !ok || b.Name() != "append" {
				return true
			}
			s1, ok1 := ast.Unparen(ce.Args[0]).(*ast.SliceExpr)
			s2, ok2 := ast.Unparen(ce.Args[1]).(*ast.SliceExpr)
			if !ok1 || !ok2 || core.ExprStr(s1.X) != core.ExprStr(s2.X) {
				return true
			}
			rems = append(rems, removal{as, as.Lhs[0], s1.X})
			return true
		})
		if len(rems) == 0 {
			continue
		}
		// marks: <x>.DeletedAt = ... guarded by len(Z) == K
		var stack []ast.Node
		ast.Inspect(g.Body, func(nd ast.Node) bool {
			if nd == nil {
				stack = stack[:len(stack)-1]
				return true
			}
			stack = append(stack, nd)
			as, ok := nd.(*ast.AssignStmt)
			if !ok || len(as.Lhs) != 1 {
				return true
			}
			se, ok := ast.Unparen(as.Lhs[0]).(*ast.SelectorExpr)
			if !ok || se.Sel.Name != "DeletedAt" {
				return true
			}
			// the removal in front of this mark
			var rem *removal
			for i := range rems {
				if rems[i].as.Pos() < as.Pos() {
					rem = &rems[i]
				}
			}
			if rem == nil {
				return true
			}
			n++
			key := fmt.Sprintf("%s/mark@%s", g.Name, core.ExprStr(se.X))
			if len(key) > 160 {
				key = fmt.Sprintf("%s/mark#%d", g.Name, n)
			}
			var guard *ast.BinaryExpr
			for k := len(stack) - 2; k >= 0 && guard == nil; k-- {
				if ifs, ok := stack[k].(*ast.IfStmt); ok {
					if be, ok := ast.Unparen(ifs.Cond).(*ast.BinaryExpr); ok && be.Op == token.EQL {
						if ce, ok := ast.Unparen(be.X).(*ast.CallExpr); ok && isLenCall(info, ce) {
							guard = be
						}
					}
				}
			}
			if guard == nil {
				c.Check("group-deleted-with-last-shard", key, c.P.Pos(as.Pos()), false, "undecided: the mark is not guarded by a test `len(<list>) == <constant>`")
				return true
			}
			z := ast.Unparen(guard.X).(*ast.CallExpr).Args[0]
			kv, okK := int64(-1), false
			if tv := info.Types[guard.Y]; tv.Value != nil {
				kv, okK = constInt(tv.Value)
			}
			pre := false
			post := false
			if zid, ok := ast.Unparen(z).(*ast.Ident); ok {
				if yid, ok := ast.Unparen(rem.y).(*ast.Ident); ok && info.ObjectOf(zid) == info.ObjectOf(yid) {
					// the local that held the list before the removal; the removal assigns a field, not this local
					if lid, isLocalTarget := ast.Unparen(rem.lhs).(*ast.Ident); !isLocalTarget || info.ObjectOf(lid) != info.ObjectOf(zid) {
						pre = true
					}
				}
			}
			if !pre && core.ExprStr(z) == core.ExprStr(rem.lhs) {
				post = true
			}
			good := okK && ((pre && kv == 1) || (post && kv == 0))
			detail := ""
			if !good {
				switch {
				case !okK || (!pre && !post):
					detail = "undecided: cannot tell whether `" + core.ExprStr(guard) + "` measures the shard list before or after the removal"
				case post:
					detail = "`" + core.ExprStr(guard) + "` measures the shard list AFTER the removal: the group is marked deleted while one shard is left (retention then deletes that shard's data on its owners), and a group that lost its only shard is not marked"
				default:
					detail = "`" + core.ExprStr(guard) + "` measures the shard list BEFORE the removal and must compare with 1"
				}
			}
			c.Check("group-deleted-with-last-shard", key, c.P.Pos(guard.Pos()), good, detail)
			return true
		})
	}
	c.Floor("shard removals that may mark their group deleted", n, 2)
}
