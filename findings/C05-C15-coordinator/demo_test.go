package coordinator

import (
	"bytes"
	"context"
	"encoding/binary"
	"errors"
	"fmt"
	"io"
	"net"
	"testing"
	"time"

	"github.com/influxdata/influxdb/models"
	"github.com/influxdata/influxdb/query"
	"github.com/influxdata/influxdb/services/meta"
	"github.com/influxdata/influxdb/tsdb"
	"github.com/influxdata/influxql"
)

// --- harness: one remote node = real Service.handleConn over TCP with a fake store
type zzStore struct {
	TSDBStore
	createErr error
	itr       query.Iterator
	tagErr    error
	written   [][]models.Point
}

func (s *zzStore) ShardGroup(ids []uint64) tsdb.ShardGroup { return &zzSG{s: s} }
func (s *zzStore) TagKeys(ctx context.Context, auth query.FineAuthorizer, shardIDs []uint64, cond influxql.Expr) ([]tsdb.TagKeys, error) {
	return nil, s.tagErr
}
func (s *zzStore) WriteToShard(shardID uint64, points []models.Point) error {
	s.written = append(s.written, points)
	for _, p := range points {
		_ = p.Key() // what the storage layer does first
	}
	return nil
}

type zzSG struct {
	tsdb.ShardGroup
	s *zzStore
}

func (g *zzSG) CreateIterator(ctx context.Context, m *influxql.Measurement, opt query.IteratorOptions) (query.Iterator, error) {
	return g.s.itr, g.s.createErr
}

type zzMeta struct {
	addr string
}

func (c *zzMeta) NodeID() uint64 { return 1 }
func (c *zzMeta) DataNode(id uint64) (*meta.NodeInfo, error) {
	return &meta.NodeInfo{ID: id, TCPAddr: c.addr}, nil
}
func (c *zzMeta) DataNodes() []meta.NodeInfo { return []meta.NodeInfo{{ID: 2, TCPAddr: c.addr}} }
func (c *zzMeta) DataNodeByTCPAddr(tcpAddr string) (*meta.NodeInfo, error) { return nil, nil }

func zzServe(t *testing.T, st *zzStore) (*MetaExecutor, chan interface{}, func()) {
	ln, err := net.Listen("tcp", "127.0.0.1:0")
	if err != nil {
		t.Fatal(err)
	}
	svc := NewService(Config{})
	svc.TSDBStore = st
	crashed := make(chan interface{}, 4)
	go func() {
		for {
			conn, err := ln.Accept()
			if err != nil {
				return
			}
			go func() {
				defer conn.Close()
				defer func() {
					if r := recover(); r != nil { // in production nothing recovers: the data node dies
						crashed <- r
					}
				}()
				var hdr [1]byte
				if _, err := io.ReadFull(conn, hdr[:]); err != nil {
					return
				}
				svc.handleConn(conn)
			}()
		}
	}()
	e := NewMetaExecutor(2*time.Second, 2*time.Second, time.Minute, 4)
	e.MetaClient = &zzMeta{addr: ln.Addr().String()}
	return e, crashed, func() { ln.Close() }
}

// defect 6a: remote CreateIterator error reply is swallowed
func TestZZ_RemoteCreateIteratorErrorSurfaces(t *testing.T) {
	e, _, done := zzServe(t, &zzStore{createErr: errors.New("shard is corrupt")})
	defer done()
	itr, err := e.CreateIterator(2, []uint64{1}, context.Background(), &influxql.Measurement{Name: "cpu"}, query.IteratorOptions{})
	if err == nil {
		if itr != nil {
			itr.Close()
		}
		t.Fatal("remote node answered with an error but MetaExecutor.CreateIterator returned nil error (silently empty result)")
	}
}

// defect 6b: remote TagKeys error reply is ignored
func TestZZ_RemoteTagKeysErrorSurfaces(t *testing.T) {
	e, _, done := zzServe(t, &zzStore{tagErr: errors.New("index unavailable")})
	defer done()
	if _, err := e.TagKeys(2, []uint64{1}, nil); err == nil {
		t.Fatal("remote node answered TagKeys with an error but MetaExecutor.TagKeys returned nil error")
	}
}

type zzUnsignedItr struct{ n int }

func (i *zzUnsignedItr) Stats() query.IteratorStats { return query.IteratorStats{} }
func (i *zzUnsignedItr) Close() error               { return nil }
func (i *zzUnsignedItr) Next() (*query.UnsignedPoint, error) {
	if i.n > 0 {
		return nil, nil
	}
	i.n++
	return &query.UnsignedPoint{Name: "cpu", Time: 1, Value: 42}, nil
}

// defect 7: unsigned iterator over the wire
func TestZZ_RemoteUnsignedIterator(t *testing.T) {
	e, crashed, done := zzServe(t, &zzStore{itr: &zzUnsignedItr{}})
	defer done()
	itr, err := e.CreateIterator(2, []uint64{1}, context.Background(), &influxql.Measurement{Name: "cpu"}, query.IteratorOptions{})
	if err != nil {
		t.Fatal(err)
	}
	defer itr.Close()
	select {
	case r := <-crashed:
		t.Fatalf("serving data node panicked on a valid request for an unsigned field: %v", r)
	case <-time.After(300 * time.Millisecond):
	}
	u, ok := itr.(query.UnsignedIterator)
	if !ok {
		t.Fatalf("unsigned iterator arrived as %T", itr)
	}
	p, err := u.Next()
	if err != nil || p == nil || p.Value != 42 {
		t.Fatalf("unsigned point lost: %v %v", p, err)
	}
}

// defect 15: negative length prefix
func TestZZ_ReadLVNegativeLength(t *testing.T) {
	var b bytes.Buffer
	binary.Write(&b, binary.BigEndian, int64(-5))
	defer func() {
		if r := recover(); r != nil {
			t.Fatalf("ReadLV panicked on a negative length prefix: %v", r)
		}
	}()
	if _, err := ReadLV(&b); err == nil {
		t.Fatal("expected an error")
	}
}

// defect 14: undecodable point inside a valid write request reaches the store as a nil point
func TestZZ_WriteShardUndecodablePoint(t *testing.T) {
	st := &zzStore{}
	svc := NewService(Config{})
	svc.TSDBStore = st
	var req WriteShardRequest
	req.SetShardID(1)
	req.AddPoint("cpu", 1.0, time.Unix(0, 1), nil)
	req.pb.Points = append(req.pb.Points, []byte{0, 0, 0, 200, 1, 2}) // truncated binary point
	buf, _ := req.MarshalBinary()
	var err error
	func() {
		defer func() {
			if r := recover(); r != nil {
				err = fmt.Errorf("panic in the storage layer: %v", r)
			}
		}()
		err = svc.processWriteShardRequest(buf)
	}()
	for _, pts := range st.written {
		for _, p := range pts {
			if p == nil {
				t.Fatalf("nil point handed to the store (err=%v)", err)
			}
		}
	}
	if err == nil {
		t.Fatal("a write request with an undecodable point must be answered with an error")
	}
}
